#!/usr/bin/env python3
"""Regenerates lean/GramModel/Generated/*.lean from /repo's current sources (content-compared, so
an unchanged tree rewrites nothing).  This is the 'model regenerated from source' route for the
tabular parts of the code: keyword constants, the two line-break tables of the tokenizer,
`is_value`, the printer's atomic set, hash-iteration sites, panic sites, match-arm coverage.
A source layout this script cannot read is an error (reported by bin/check as a broken
obligation, never as an invented input)."""
import re, sys, os

REPO = os.environ.get("GRAM_REPO", "/repo")
OUT = os.path.join(os.path.dirname(os.path.dirname(os.path.abspath(__file__))), "lean", "GramModel", "Generated")

def read(p):
    return open(os.path.join(REPO, p), encoding="utf-8").read()

def strip_tests(src):
    i = src.find("#[cfg(test)]\nmod tests")
    return src if i < 0 else src[:i]

def strip_comments(src):
    src = re.sub(r"/\*.*?\*/", " ", src, flags=re.S)
    return re.sub(r"//[^\n]*", "", src)

TOK = {
 "Asterisk": ".asterisk", "Boolean": ".boolean", "Colon": ".colon", "DoubleEquals": ".doubleEquals",
 "Else": ".else_", "Equals": ".equals", "False": ".false_", "GreaterThan": ".greaterThan",
 "GreaterThanOrEqualTo": ".greaterThanOrEqualTo", "Identifier(_)": ".identifier _", "If": ".if_",
 "Integer": ".integer", "IntegerLiteral(_)": ".integerLiteral _", "LeftCurly": ".leftCurly",
 "LeftParen": ".leftParen", "LessThan": ".lessThan", "LessThanOrEqualTo": ".lessThanOrEqualTo",
 "Minus": ".minus", "Plus": ".plus", "RightCurly": ".rightCurly", "RightParen": ".rightParen",
 "Slash": ".slash", "Terminator(TerminatorType::LineBreak)": ".terminatorLineBreak",
 "Terminator(TerminatorType::Semicolon)": ".terminatorSemicolon", "Then": ".then_",
 "ThickArrow": ".thickArrow", "ThinArrow": ".thinArrow", "True": ".true_", "Type": ".type_",
}

def fail(msg):
    print("extract: " + msg)
    sys.exit(1)

def match_block(src, start):
    """text of the balanced {...} block starting at the first '{' at or after `start`"""
    i = src.index("{", start)
    depth, j = 0, i
    while True:
        if src[j] == "{": depth += 1
        elif src[j] == "}":
            depth -= 1
            if depth == 0: return src[i + 1:j], j + 1
        j += 1

def bool_table(block, what):
    """parse `Variant::A | Variant::B => false, ... => true, [... => { panic }]`"""
    table = {}
    arms = re.split(r"=>", block)
    # arms[k] ends with the patterns of arm k, arms[k+1] starts with its body
    pats = arms[0]
    for k in range(1, len(arms)):
        body = arms[k].lstrip()
        if body.startswith("false"): val, rest = "some false", body[5:]
        elif body.startswith("true"): val, rest = "some true", body[4:]
        elif body.startswith("{"):
            blk, end = match_block(body, 0)
            val = "none" if "panic!" in blk else None
            rest = body[end:]
            if val is None: fail(f"{what}: arm body not understood: {body[:60]!r}")
        else: fail(f"{what}: arm body not understood: {body[:60]!r}")
        for pat in pats.split("|"):
            pat = pat.strip().lstrip(",").strip()
            if not pat: continue
            if not pat.startswith("Variant::"): fail(f"{what}: pattern not understood: {pat!r}")
            name = pat[len("Variant::"):]
            if name not in TOK: fail(f"{what}: unknown token variant {name!r}")
            if TOK[name] in table: fail(f"{what}: duplicate pattern {name}")
            table[TOK[name]] = val
        pats = rest.lstrip().lstrip(",")
    return table

def gen_tokenizer():
    tz = strip_comments(strip_tests(read("src/tokenizer.rs")))
    tk = strip_comments(strip_tests(read("src/token.rs")))
    # keyword constants
    consts = dict(re.findall(r'pub const (\w+_KEYWORD): &str = "([^"]*)";', tk))
    if len(consts) != 8: fail(f"expected 8 keyword constants in token.rs, found {len(consts)}")
    # keyword chain of the tokenizer: which constant yields which variant
    chain = re.findall(r"==\s*(\w+_KEYWORD)\s*\{\s*tokens\.push\(Token\s*\{\s*source_range:[^}]*\},\s*variant:\s*Variant::(\w+),", tz)
    if len(chain) != 8: fail(f"expected 8 keyword tests in the tokenizer, found {len(chain)}")
    # the keyword test must be an equality on the whole identifier text
    if len(re.findall(r"&source_contents\[i\.\.end\]\s*==\s*\w+_KEYWORD", tz)) != 8:
        fail("keyword tests are not whole-word equality tests on source_contents[i..end]")
    kw = []
    for c, variant in chain:
        if variant not in TOK: fail(f"keyword chain: unknown variant {variant}")
        chars = ", ".join("'%s'" % ch for ch in consts[c])
        kw.append(f"  ({TOK[variant]}, [{chars}])")
    # line-break tables
    i1 = tz.find("match tokens.last().unwrap().variant")
    if i1 < 0: fail("first line-break table not found")
    b1, _ = match_block(tz, i1)
    can_end = bool_table(b1, "canEnd")
    i2 = tz.find("match next_token.variant")
    if i2 < 0: fail("second line-break table not found")
    b2, _ = match_block(tz, i2)
    can_start = bool_table(b2, "canStart")
    def lean_table(name, table, doc):
        lines = [f"/-- {doc} `none` = the arm panics (or the variant is not listed). -/",
                 f"def {name} : TokKind → Option Bool"]
        for k in TOK.values():
            lines.append(f"  | {k} => {table.get(k, 'none')}")
        return "\n".join(lines)
    out = ["import GramModel.Token", "", "/-! GENERATED by extract/extract.py from /repo/src/tokenizer.rs and token.rs — do not edit. -/", "",
           "namespace Generated", "",
           "/-- keyword table: which whole word yields which token kind, in the order the tokenizer tests them -/",
           "def keywords : List (TokKind × List Char) := [", ",\n".join(kw), "]", "",
           lean_table("canEnd", can_end, "first table of `tokenize`: may a line break after this token end an expression?"), "",
           lean_table("canStart", can_start, "second table of `tokenize`: may a line-break terminator be kept before this token?"), "",
           "end Generated", ""]
    return "\n".join(out)

TERM_VARIANTS = ["Unifier", "Type", "Variable", "Lambda", "Pi", "Application", "Let", "Integer", "IntegerLiteral",
                 "Negation", "Sum", "Difference", "Product", "Quotient", "LessThan", "LessThanOrEqualTo", "EqualTo",
                 "GreaterThan", "GreaterThanOrEqualTo", "Boolean", "True", "False", "If"]

def variant_bool_fn(src, fn_sig, what, prefix=r"(?:Variant::)?"):
    i = src.find(fn_sig)
    if i < 0: fail(f"{what}: function not found")
    body, _ = match_block(src, i)
    j = body.find("match ")
    blk, _ = match_block(body, j)
    res = {}
    arms = re.split(r"=>", blk)
    pats = arms[0]
    for k in range(1, len(arms)):
        b = arms[k].lstrip()
        m = re.match(r"(true|false)\s*,?", b)
        if not m: fail(f"{what}: arm body not understood: {b[:50]!r}")
        for pat in pats.split("|"):
            pat = pat.strip()
            if not pat: continue
            mm = re.match(prefix + r"(\w+)", pat)
            if not mm or mm.group(1) not in TERM_VARIANTS: fail(f"{what}: pattern not understood {pat!r}")
            res[mm.group(1)] = (m.group(1) == "true")
        pats = b[m.end():]
    return res

def gen_terms():
    ev = strip_comments(strip_tests(read("src/evaluator.rs")))
    isv = variant_bool_fn(ev, "pub fn is_value", "is_value")
    missing = [v for v in TERM_VARIANTS if v not in isv]
    if missing: fail(f"is_value: variants without an arm: {missing}")
    tm = strip_comments(strip_tests(read("src/term.rs")))
    # printer: which variants `group` prints bare
    i = tm.find("fn group(")
    if i < 0: fail("term.rs: fn group not found")
    body, _ = match_block(tm, i)
    j = body.find("match ")
    blk, _ = match_block(body, j)
    bare, paren = [], []
    for m in re.finditer(r"((?:\s*\|?\s*Variant::\w+(?:\([^)]*\))?)+)\s*=>\s*format!\(\"([^\"]*)\"", blk):
        names = re.findall(r"Variant::(\w+)", m.group(1))
        if m.group(2) == "{term}": bare += names
        elif m.group(2) == "({term})": paren += names
        else: fail(f"group: unknown format {m.group(2)!r}")
    if sorted(bare + paren + ["Unifier"]) != sorted(TERM_VARIANTS): fail(f"group: variants not partitioned: bare={bare} paren={paren}")
    out = ["/-! GENERATED by extract/extract.py from /repo/src/evaluator.rs and term.rs — do not edit. -/", "",
           "namespace Generated", "",
           "/-- `evaluator.rs::is_value`, by variant name -/",
           "def isValueTable : List (String × Bool) := [",
           ",\n".join(f'  ("{v}", {"true" if isv[v] else "false"})' for v in TERM_VARIANTS), "]", "",
           "/-- `term.rs::group`: variants printed without parentheses -/",
           "def printBare : List String := [" + ", ".join(f'"{v}"' for v in bare) + "]", "",
           "/-- `term.rs::group`: variants printed inside parentheses -/",
           "def printParen : List String := [" + ", ".join(f'"{v}"' for v in paren) + "]", "",
           "end Generated", ""]
    return "\n".join(out)

def gen_sites():
    """hash-iteration sites and panic sites of non-test code"""
    files = ["assertions.rs", "de_bruijn.rs", "equality.rs", "error.rs", "evaluator.rs", "format.rs", "main.rs",
             "normalizer.rs", "parser.rs", "term.rs", "token.rs", "tokenizer.rs", "type_checker.rs", "unifier.rs"]
    hash_iter, panics, nondet = [], [], []
    NONDET = [(r"\bSystemTime\b|\bInstant\b|\bstd::time\b|\bDuration\b", "time"), (r"\brand::|\bthread_rng\b|\bgetrandom\b", "random"),
              (r"\bthread::", "thread"), (r"\benv::vars?(_os)?\b", "env"), (r"\bprocess::id\b", "pid"),
              (r"\{:p\}|\{:#?p\}", "pointer-format"), (r"\bas\s+\*(?:const|mut)\b|\bas_ptr\(\)|\bRc::as_ptr\b|\baddr_of!?", "pointer-cast"),
              (r"\bptr::hash\b", "pointer-hash"), (r"\bread_dir\b", "readdir"), (r"\bRandomState\b|\bDefaultHasher\b", "hasher-state"),
              (r"\bpar_iter\b|\brayon::", "parallel"), (r"\bstatic\s+mut\b|\bAtomic\w+\b|\bMutex\b|\bRwLock\b", "shared-state")]
    for f in files:
        if f == "assertions.rs": continue  # test-only macros
        src = strip_comments(strip_tests(read("src/" + f)))
        # names bound to hash containers
        names = set(re.findall(r"let\s+(?:mut\s+)?(\w+)(?:\s*:\s*[^=]+)?\s*=\s*Hash(?:Set|Map)::new\(\)", src))
        names |= set(re.findall(r"(\w+)\s*:\s*&?(?:mut\s+)?Hash(?:Set|Map)<", src))
        names |= set(re.findall(r"let\s+(?:mut\s+)?(\w+)\s*:\s*Hash(?:Map|Set)<", src))
        # type aliases of hash containers (`type Cache<'a> = HashMap<..>`), in any file of the crate
        aliases = set()
        for g in files:
            aliases |= set(re.findall(r"\btype\s+(\w+)\s*(?:<[^=]*>)?\s*=\s*(?:std::collections::)?Hash(?:Set|Map)\s*<", strip_comments(strip_tests(read("src/" + g)))))
        for al in aliases:
            names |= set(re.findall(r"(\w+)\s*:\s*&?(?:\s*'\w+\s+)?(?:mut\s+)?" + al + r"\b", src))
            names |= set(re.findall(r"let\s+(?:mut\s+)?(\w+)(?:\s*:\s*[^=]+)?\s*=\s*" + al + r"::new\(\)", src))
        # iteration over a hash container, wherever the method chain is broken across lines
        fn_starts = [(m.start(), m.group(1)) for m in re.finditer(r"\bfn\s+(\w+)", src)]
        def fn_at(pos):
            cur = "?"
            for st, name in fn_starts:
                if st <= pos: cur = name
                else: break
            return cur
        found = []
        for n in names:
            pats = [r"\bfor\b[^{;]*\bin\s+&?(?:mut\s+)?" + n + r"\b(?!\s*\.)",
                    r"\b" + n + r"\s*\.\s*(?:iter|into_iter|keys|values|drain|iter_mut|values_mut|into_keys|into_values|retain|extract_if)\s*\("]
            for pat in pats:
                for m in re.finditer(pat, src):
                    window = src[m.start():m.start() + 400]
                    before = src[max(0, m.start() - 400):m.start()]
                    mm = re.search(r"let\s+(?:mut\s+)?(\w+)\s*=\s*$", before[-60:]) if False else re.search(r"let\s+(?:mut\s+)?(\w+)\s*=\s*" + n + r"\s*\.\s*into_iter\(\)\s*\.\s*collect", src[max(0, m.start() - 40):m.start() + 200])
                    is_sorted = bool(mm and re.search(r"\b" + mm.group(1) + r"\s*\.\s*sort(_unstable)?\s*\(", window))
                    # a name re-bound to the sorted vector is no longer a hash container
                    rebound = mm is None and re.search(r"let\s+(?:mut\s+)?" + n + r"\s*=\s*" + n + r"\s*\.\s*into_iter", before)
                    # `let mut NAME: HashMap<..> = NAME.iter()…`: the initialiser iterates over the *previous* binding
                    # of the name (a slice parameter), not over the hash container being built
                    own_init = re.search(r"let\s+(?:mut\s+)?" + n + r"\s*(:[^=;]*)?=\s*$", before)
                    if own_init and own_init.group(1) and "Hash" in own_init.group(1):
                        continue
                    if is_sorted or not rebound:
                        found.append((m.start(), (f, fn_at(m.start()), n, is_sorted)))
        seen_pos = set()
        for pos, item in sorted(found):
            if pos not in seen_pos:
                seen_pos.add(pos)
                hash_iter.append(item)
        fn = None
        lines_ = src.split("\n")
        for ln, line in enumerate(lines_, 1):
            m = re.search(r"\bfn\s+(\w+)", line)
            if m: fn = m.group(1)
            for pat, kind in NONDET:
                if re.search(pat, line) and not re.match(r"\s*use\b", line):
                    nondet.append((f, fn or "?", kind))
            for pat, kind in ((r"\.unwrap\(\)", "unwrap"), (r"\.expect\(", "expect"), (r"\bpanic!\(", "panic"),
                              (r"\bassert(?:_eq|_ne)?!\(", "assert"), (r"\bunreachable!\(", "unreachable")):
                for _ in re.finditer(pat, line):
                    panics.append((f, fn or "?", kind))
    out = ["/-! GENERATED by extract/extract.py from /repo/src/*.rs (non-test code) — do not edit. -/", "",
           "namespace Generated", "",
           "/-- every iteration over a HashMap/HashSet: (file, function, container, sorted before use) -/",
           "def hashIterSites : List (String × String × String × Bool) := [",
           ",\n".join(f'  ("{a}", "{b}", "{c}", {"true" if d else "false"})' for a, b, c, d in hash_iter), "]", "",
           "/-- every unwrap/expect/panic!/assert!/unreachable! : (file, function, kind), with multiplicity -/",
           "def panicSites : List (String × String × String) := [",
           ",\n".join(f'  ("{a}", "{b}", "{c}")' for a, b, c in panics), "]", "",
           "/-- every use, in non-test code, of an API whose result can differ from run to run: (file, function, kind) -/",
           "def nondetSources : List (String × String × String) := [",
           ",\n".join(f'  ("{a}", "{b}", "{c}")' for a, b, c in nondet), "]", "",
           "end Generated", ""]
    return "\n".join(out)

def gen_parser():
    """shape of the 36 packrat functions and of the four caching macros (C17)"""
    import hashlib
    ps = strip_comments(strip_tests(read("src/parser.rs")))
    fns = []
    for m in re.finditer(r"\bfn (parse_\w+)<'a>\(\s*cache: &mut Cache<'a>,\s*tokens: &'a \[Token<'a>\],\s*start: usize,?\s*\) -> \(Term<'a>, usize, bool\)", ps):
        body, _ = match_block(ps, m.end())
        head = re.match(r"\s*let cache_key = cache_check!\(cache, (\w+), start\);", body)
        nt = head.group(1) if head else ""
        plain_return = bool(re.search(r"\breturn\b", body))
        ends = bool(re.search(r"cache_return!\(\s*cache,\s*cache_key,(?:[^;]|\n)*\)\s*$", body.strip()))
        direct_insert = bool(re.search(r"cache\s*\.\s*(insert|remove|clear|get)\b", body))
        fns.append((m.group(1), nt, bool(head), (not plain_return) and ends and (not direct_insert)))
    macros = []
    for name in ("cache_check", "cache_return", "try_return", "try_eval", "consume_token_0", "consume_token_1"):
        i = ps.find(f"macro_rules! {name} ")
        if i < 0: fail(f"macro {name} not found")
        body, _ = match_block(ps, i)
        norm = re.sub(r"\s+", "", body)
        macros.append((name, hashlib.sha256(norm.encode()).hexdigest()[:16]))
    nts_m = re.search(r"enum Nonterminal \{([^}]*)\}", ps)
    nts = [x.strip() for x in nts_m.group(1).split(",") if x.strip()] if nts_m else []
    cache_ty = re.search(r"type Cache<'a> = ([^;]*);", ps)
    cache_ty = re.sub(r"\s+", "", cache_ty.group(1)) if cache_ty else ""
    out = ["/-! GENERATED by extract/extract.py from /repo/src/parser.rs — do not edit. -/", "",
           "namespace Generated", "",
           "/-- the packrat functions: (function, nonterminal it memoises under, begins with `cache_check!`,",
           "    leaves only through the caching macros and never touches the cache directly) -/",
           "def parseFns : List (String × String × Bool × Bool) := [",
           ",\n".join(f'  ("{a}", "{b}", {"true" if c else "false"}, {"true" if d else "false"})' for a, b, c, d in fns), "]", "",
           "/-- the `Nonterminal` enum, in declaration order -/",
           "def nonterminals : List String := [" + ", ".join(f'"{x}"' for x in nts) + "]", "",
           "/-- fingerprints (sha256 of the whitespace-free text) of the caching macros -/",
           "def macroFingerprints : List (String × String) := [",
           ",\n".join(f'  ("{a}", "{b}")' for a, b in macros), "]", "",
           f'/-- the cache type -/\ndef cacheType : String := "{cache_ty}"', "",
           "end Generated", ""]
    return "\n".join(out)

def gen_grammar():
    """tokens and productions of grammar.y"""
    src = read("grammar.y")
    src = re.sub(r"/\*.*?\*/", " ", src, flags=re.S)
    tokens = re.findall(r"%token\s+(\w+)", src)
    body = src.split("%%")[1]
    heads = list(re.finditer(r"(?m)^(\w+)\s*:", body))
    prods = []
    for k, m in enumerate(heads):
        end = heads[k + 1].start() if k + 1 < len(heads) else len(body)
        rhs = body[m.end():end].strip().rstrip(";").strip()
        for alt in rhs.split("|"):
            syms = [x for x in alt.split() if x != "%empty"]
            prods.append((m.group(1), syms))
    if not tokens or not prods: fail("grammar.y: no tokens or productions found")
    out = ["/-! GENERATED by extract/extract.py from /repo/grammar.y — do not edit. -/", "",
           "namespace Generated", "",
           "/-- the `%token` declarations -/",
           "def grammarTerminals : List String := [" + ", ".join(f'"{t}"' for t in tokens) + "]", "",
           "/-- the productions, in file order: (left-hand side, right-hand side) -/",
           "def grammarProductions : List (String × List String) := [",
           ",\n".join('  ("%s", [%s])' % (a, ", ".join(f'"{x}"' for x in b)) for a, b in prods), "]", "",
           "end Generated", ""]
    return "\n".join(out)

def write(name, text):
    os.makedirs(OUT, exist_ok=True)
    p = os.path.join(OUT, name)
    if os.path.exists(p) and open(p).read() == text:
        return False
    open(p, "w").write(text)
    return True

if __name__ == "__main__":
    ch = []
    from arms import gen_arms, gen_tokenizer_arms, gen_parser_steps, gen_event_traces, gen_eval_traces, gen_cli
    for name, gen in (("Arms.lean", gen_arms), ("TokenizerArms.lean", gen_tokenizer_arms), ("ParserSteps.lean", gen_parser_steps), ("EventTraces.lean", gen_event_traces), ("EvalTraces.lean", gen_eval_traces), ("Cli.lean", gen_cli), ("Tokenizer.lean", gen_tokenizer), ("Terms.lean", gen_terms), ("Sites.lean", gen_sites), ("ParserShape.lean", gen_parser), ("Grammar.lean", gen_grammar)):
        if write(name, gen()): ch.append(name)
    print("extract: ok" + (" (rewrote " + ", ".join(ch) + ")" if ch else " (unchanged)"))
