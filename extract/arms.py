"""Translator for the *traversal* functions and the primitive (delta) rules of gram.

Reads, from /repo's current sources,
  * de_bruijn.rs::signed_shift, de_bruijn.rs::open, term.rs::free_variables — for every match arm: the
    variant, which children are traversed, in which order they are put back, and how each varying
    parameter (cutoff / index_to_replace / shift_amount) changes on the way down (same, +1, +len);
  * evaluator.rs::step, normalizer.rs::normalize_weak_head — for every binary operator arm the primitive
    that fires on two integer literals (operator, operand order, which boolean the `if` yields);
  * type_checker.rs::type_check_rec — for every arithmetic / comparison arm the type demanded of the
    operands and the type returned;
and writes them as Lean data (Generated/Arms.lean).  Lemmas/ArmsTie.lean interprets these tables
generically and *proves* that the interpretation equals the hand-written model functions; a Rust arm
that is changed therefore breaks a theorem, arm by arm (the model has one constructor for the nine
binary operators, the tables have nine rows).
A layout this script cannot read is an error (= broken obligation), never an invented table."""
import re, zlib
from extract import read, strip_tests, strip_comments, fail, match_block

VARIANTS = ["Unifier", "Type", "Variable", "Lambda", "Pi", "Application", "Let", "Integer",
            "IntegerLiteral", "Negation", "Sum", "Difference", "Product", "Quotient", "LessThan",
            "LessThanOrEqualTo", "EqualTo", "GreaterThan", "GreaterThanOrEqualTo", "Boolean", "True",
            "False", "If"]
BINARY = ["Sum", "Difference", "Product", "Quotient", "LessThan", "LessThanOrEqualTo", "EqualTo",
          "GreaterThan", "GreaterThanOrEqualTo"]

def strip_hooks(src):
    """drop `#[cfg(feature = "verif-hooks")]` items/statements (the guarded instrumentation)"""
    out, i = [], 0
    pat = re.compile(r'#\[cfg\(feature\s*=\s*"verif-hooks"\)\]\s*')
    while True:
        m = pat.search(src, i)
        if not m:
            out.append(src[i:]); break
        out.append(src[i:m.start()])
        j = m.end()
        # the guarded thing: either a block-ish item (`if .. { }`, `pub mod x { }`, `{ }`) or a statement up to `;`
        k_semi = src.find(";", j)
        k_brace = src.find("{", j)
        if k_brace >= 0 and (k_semi < 0 or k_brace < k_semi):
            _, end = match_block(src, j)
            i = end
        else:
            i = k_semi + 1
    return "".join(out)

def fn_body(src, name):
    m = re.search(r"\bfn\s+" + name + r"\b", src)
    if not m: fail(f"arms: fn {name} not found")
    body, _ = match_block(src, m.end())
    return body

def top_match(body, what):
    m = re.search(r"\bmatch\s+&?\s*\w+\.variant\s*\{", body)
    if not m: fail(f"arms: {what}: no `match &x.variant`")
    blk, _ = match_block(body, m.start())
    return blk

def split_top(s, sep):
    """split s on single-character sep at bracket depth 0"""
    parts, depth, cur = [], 0, []
    i = 0
    while i < len(s):
        ch = s[i]
        if ch in "([{": depth += 1
        elif ch in ")]}": depth -= 1
        if depth == 0 and ch == sep and not (sep == "|" and (s[i+1:i+2] == "|" or s[i-1:i] == "|")):
            parts.append("".join(cur)); cur = []
        else:
            cur.append(ch)
        i += 1
    parts.append("".join(cur))
    return parts

def split_arms(block, what):
    """[(pattern_text, body_text)] of a match block"""
    arms, i, n = [], 0, len(block)
    while True:
        while i < n and block[i] in " \t\r\n,": i += 1
        if i >= n: break
        # pattern up to top-level `=>`
        depth, j = 0, i
        while j < n:
            ch = block[j]
            if ch in "([{": depth += 1
            elif ch in ")]}": depth -= 1
            elif depth == 0 and block.startswith("=>", j): break
            j += 1
        if j >= n: fail(f"arms: {what}: arm without `=>`")
        pat = block[i:j].strip()
        k = j + 2
        while k < n and block[k] in " \t\r\n": k += 1
        if block[k] == "{":
            body, end = match_block(block, k)
            arms.append((pat, body)); i = end
        else:
            depth, e = 0, k
            while e < n:
                ch = block[e]
                if ch in "([{": depth += 1
                elif ch in ")]}": depth -= 1
                elif depth == 0 and ch == ",": break
                e += 1
            arms.append((pat, block[k:e])); i = e + 1
    return arms

def parse_pattern(pat, what):
    """`A(x, y) | Variant::B(x, y)` -> [(name, [fields])]"""
    out = []
    for alt in split_top(pat, "|"):
        alt = alt.strip()
        m = re.fullmatch(r"(?:Variant::)?(\w+)\s*(?:\((.*)\))?", alt, re.S)
        if not m: fail(f"arms: {what}: unreadable pattern `{alt}`")
        fields = [f.strip() for f in split_top(m.group(2), ",")] if m.group(2) is not None else []
        out.append((m.group(1), fields))
    return out

def calls_of(body, fname):
    """[(args)] of every call `fname(...)` in textual order"""
    res = []
    for m in re.finditer(r"\b" + fname + r"\s*\(", body):
        depth, j = 0, m.end() - 1
        start = j + 1
        while True:
            if body[j] == "(": depth += 1
            elif body[j] == ")":
                depth -= 1
                if depth == 0: break
            j += 1
        args = [re.sub(r"\s+", " ", a).strip() for a in split_top(body[start:j], ",")]
        args = [a for a in args if a != ""]
        res.append(args)
    return res

def norm(e):
    e = re.sub(r"\s+", " ", e).strip()
    e = re.sub(r"^[&*]+", "", e)
    return e

def local_lets(body):
    return {m.group(1): norm(m.group(2)) for m in re.finditer(r"\blet\s+(\w+)\s*=\s*([^;{}]+);", body)}

def delta(expr, param, lets, what):
    e = norm(expr)
    if e in lets: e = lets[e]
    if e == param: return "same"
    if e == f"{param} + 1": return "plus1"
    if e == f"{param} + definitions.len()": return "plusLen"
    fail(f"arms: {what}: cannot read `{expr}` as a function of `{param}`")

# child positions: pattern position of each traversed child; for Let the inner tuple (variable, annotation,
# definition) is numbered 10, 11, 12 and `definitions`/`body` 0, 1
def traversal(src, fname, params_varying, params_fixed, rebuilds):
    body = fn_body(src, fname)
    blk = top_match(body, fname)
    rows, leaves, special = [], [], {}
    seen = []
    for pat, abody in split_arms(blk, fname):
        alts = parse_pattern(pat, fname)
        for name, fields in alts:
            if name not in VARIANTS: fail(f"arms: {fname}: unknown variant {name}")
            seen.append(name)
            if name in ("Variable", "Unifier"):
                special[name] = zlib.crc32(re.sub(r"\s+", "", pat + "=>" + abody).encode())
                continue
            calls = calls_of(abody, fname)
            if not calls:
                leaves.append((name, re.sub(r"\s+", "", abody)))
                continue
            lets = local_lets(abody)
            pos = {f: i for i, f in enumerate(fields)}
            if name == "Let":
                m = re.search(r"\(\s*(\w+|\*?\w+)\s*,\s*(\w+)\s*,\s*(\w+)\s*\)\s*(?:in\s+definitions|\|)", abody)
                if not m: fail(f"arms: {fname}: Let arm: cannot find the (variable, annotation, definition) binder")
                for i, g in enumerate(m.groups()): pos[g.lstrip("*")] = 10 + i
            row = []
            for args in calls:
                if len(args) != 1 + len(params_varying) + len(params_fixed) and not (len(args) == len(ALLP[fname])):
                    fail(f"arms: {fname}/{name}: call with {len(args)} arguments")
                child = norm(args[0])
                if child not in pos: fail(f"arms: {fname}/{name}: traversed child `{child}` is not bound by the pattern")
                ds = []
                for pi, pname in enumerate(ALLP[fname][1:], start=1):
                    if pname in params_varying: ds.append(delta(args[pi], pname, lets, f"{fname}/{name}"))
                    else:
                        if norm(args[pi]) != pname: fail(f"arms: {fname}/{name}: fixed parameter `{pname}` passed as `{args[pi]}`")
                row.append((pos[child], ds))
            rebuilt = ""
            if rebuilds:
                m = re.search(r"\bvariant\s*:\s*(\w+)\s*\(", abody)
                if not m: fail(f"arms: {fname}/{name}: no rebuilt variant")
                rebuilt = m.group(1)
                # everything the pattern binds that is not traversed must be handed on unchanged
            rows.append((name, rebuilt, row))
    missing = [v for v in VARIANTS if v not in seen]
    if missing: fail(f"arms: {fname}: no arm for {missing}")
    dup = [v for v in set(seen) if seen.count(v) > 1]
    if dup: fail(f"arms: {fname}: more than one arm for {dup}")
    return rows, leaves, special

ALLP = {
    "signed_shift": ["term", "cutoff", "amount"],
    "open": ["term_to_open", "index_to_replace", "term_to_insert", "shift_amount"],
    "free_variables": ["term", "cutoff", "variables"],
}

def lean_rows(name, rows, doc):
    out = [f"/-- {doc} -/", f"def {name} : List Arm := ["]
    items = []
    for v, rb, row in rows:
        calls = ", ".join("(%d, [%s])" % (p, ", ".join("." + d for d in ds)) for p, ds in row)
        items.append(f"  ⟨.{v}, {('.' + rb) if rb else '.' + v}, [{calls}]⟩")
    out.append(",\n".join(items)); out.append("]"); out.append("")
    return out

LEAF_FORMS = {  # what a leaf arm must literally do
    "signed_shift": {"Some(term.clone())"},
    "open": {"term_to_open.clone()"},
    "free_variables": {"", "{}"},
}

# ---------------------------------------------------------------------------------------------
# primitive rules

PRIMS = {
    "integer1 + integer2": "add", "integer2 + integer1": "addSwap",
    "integer1 - integer2": "sub", "integer2 - integer1": "subSwap",
    "integer1 * integer2": "mul", "integer2 * integer1": "mulSwap",
    "integer1.checked_div(integer2)": "tdiv", "integer2.checked_div(integer1)": "tdivSwap",
    "integer1 / integer2": "divPanicking",
}
CMPS = {"<": "lt", "<=": "le", "==": "eq", ">": "gt", ">=": "ge", "!=": "ne"}

def prim_of(abody, what):
    """the primitive of a binary arm: (kind, negated)"""
    t = re.sub(r"\s+", " ", abody)
    m = re.search(r"if (integer[12]) (<=|>=|==|!=|<|>) (integer[12]) \{ (True|False) \} else \{ (True|False) \}", t)
    if m:
        a, op, b, y, n = m.groups()
        if {a, b} != {"integer1", "integer2"} or y == n: fail(f"arms: {what}: unreadable comparison `{m.group(0)}`")
        k = CMPS[op] + ("Swap" if a == "integer2" else "")
        return k + ("Neg" if y == "False" else "")
    found = [v for k, v in PRIMS.items() if k in t]
    if len(found) != 1: fail(f"arms: {what}: cannot identify the primitive ({found})")
    return found[0]

def prim_table(src, fname):
    body = fn_body(src, fname)
    blk = top_match(body, fname)
    table = {}
    for pat, abody in split_arms(blk, fname):
        for name, _ in parse_pattern(pat, fname):
            if name in BINARY:
                if name in table: fail(f"arms: {fname}: two arms for {name}")
                table[name] = prim_of(abody, f"{fname}/{name}")
    for b in BINARY:
        if b not in table: fail(f"arms: {fname}: no arm for {b}")
    return [(b, table[b]) for b in BINARY]


def step_shape(src):
    """evaluator.rs::step, binary arms: order of the sub-steps / value tests, and the two congruence rebuilds"""
    body = fn_body(src, "step")
    blk = top_match(body, "step")
    rows = {}
    ARG = {"Rc::new(stepped_term1)": "s1", "Rc::new(stepped_term2)": "s2", "term1.clone()": "t1", "term2.clone()": "t2"}
    for pat, abody in split_arms(blk, "step"):
        for name, _ in parse_pattern(pat, "step"):
            if name not in BINARY: continue
            t = re.sub(r"\s+", " ", abody)
            events = [("st" if m.group(1) == "step" else ("nv" if m.group(0).startswith("!") else "iv")) + m.group(2)
                      for m in re.finditer(r"!?\b(step|is_value)\(\s*&?term([12])\s*\)", t)]
            rebuilds = []
            for m in re.finditer(r"variant\s*:\s*(\w+)\s*\(([^()]*(?:\([^()]*\)[^()]*)*)\)", t):
                v = m.group(1)
                if v not in BINARY: continue
                args = [re.sub(r"\s+", "", a) for a in split_top(m.group(2), ",") if a.strip()]
                codes = []
                for a in args:
                    key = {re.sub(r"\s+", "", k): c for k, c in ARG.items()}.get(a)
                    if key is None: fail(f"arms: step/{name}: unreadable congruence operand `{a}`")
                    codes.append(key)
                rebuilds.append((v, codes))
            rows[name] = (events, rebuilds)
    for b in BINARY:
        if b not in rows: fail(f"arms: step: no arm for {b}")
    return [(b,) + rows[b] for b in BINARY]

def checker_shape(src):
    """type_checker.rs::type_check_rec, binary arms: which operand is checked, against which type each operand's
    type is unified (and whose range the error carries), the node rebuilt and the type returned"""
    body = fn_body(src, "type_check_rec")
    blk = top_match(body, "type_check_rec")
    rows = {}
    TY = {"integer_term": "int", "boolean_term": "bool", "type_term": "type"}
    for pat, abody in split_arms(blk, "type_check_rec"):
        for name, _ in parse_pattern(pat, "type_check_rec"):
            if name not in BINARY: continue
            t = re.sub(r"\s+", " ", abody)
            # events in textual order: inference of an operand, unification of an operand's type
            ev = []
            for m in re.finditer(r"let \((term[12]), (term[12])_type\) = type_check_rec\(([^;]*?)\);|!?unify\(\s*&(\w+)\s*,\s*&(\w+)\s*,[^)]*\)\s*\{(.*?)\bNone\s*,?\s*\)\s*\)\s*;", t):
                if m.group(1):
                    args = [a.strip() for a in split_top(m.group(3), ",") if a.strip()]
                    if m.group(1) != m.group(2) or m.group(1) not in args: fail(f"arms: type_check_rec/{name}: unreadable operand inference")
                    ev.append("inf" + m.group(1)[-1])
                else:
                    a, b, errbody = m.group(4), m.group(5), m.group(6)
                    mm = re.fullmatch(r"term([12])_type", a)
                    if not mm or b not in TY: fail(f"arms: type_check_rec/{name}: unreadable unify({a}, {b})")
                    rng = re.search(r"\b(term[12]|term)\s*\.\s*source_range", errbody)
                    if not rng: fail(f"arms: type_check_rec/{name}: no range in the error of unify({a}, {b})")
                    ev.append("u" + mm.group(1) + TY[b] + "r" + (rng.group(1)[-1] if rng.group(1) != "term" else "0"))
            m = re.search(r"\(\s*Term\s*\{\s*source_range\s*:\s*term\.source_range\s*,\s*variant\s*:\s*(\w+)\(\s*Rc::new\((term[12])\)\s*,\s*Rc::new\((term[12])\)\s*,?\s*\)\s*,?\s*\}\s*,\s*(\w+)\s*,?\s*\)\s*$", t.strip())
            if not m or m.group(4) not in TY: fail(f"arms: type_check_rec/{name}: unreadable result")
            rows[name] = (ev, m.group(1), m.group(2)[-1] + m.group(3)[-1], TY[m.group(4)])
    for b in BINARY:
        if b not in rows: fail(f"arms: type_check_rec: no arm for {b}")
    return [(b,) + rows[b] for b in BINARY]


def pair_arms(src, fname, what):
    """`match (&a.variant, &b.variant)` of a structural comparison: for every arm `(A(..), B(..))` made of two plain
    constructor patterns, the pairs (position in A, position in B) handed to the recursive calls, in order"""
    body = fn_body(src, fname)
    blk = None
    for m in re.finditer(r"\bmatch\s*\(\s*&\w+\.variant\s*,\s*&\w+\.variant\s*\)\s*\{", body):
        b, _ = match_block(body, m.start())
        if "Sum(" in b and "If(" in b: blk = b
    if blk is None: fail(f"arms: {what}: no match on a pair of variants")
    rows, seen = [], []
    for pat, abody in split_arms(blk, what):
        for alt in split_top(pat, "|"):
            alt = re.sub(r"\)\s*if\b.*$", ")", alt.strip(), flags=re.S)     # drop a match guard
            if not (alt.startswith("(") and alt.endswith(")")): fail(f"arms: {what}: unreadable pair pattern `{alt}`")
            comps = [c.strip() for c in split_top(alt[1:-1], ",") if c.strip()]
            if len(comps) != 2: fail(f"arms: {what}: pair pattern with {len(comps)} components")
            if any("|" in c or c == "_" for c in comps): continue          # the catch-all arms
            (v1, f1), = parse_pattern(comps[0], what)
            (v2, f2), = parse_pattern(comps[1], what)
            if v1 in ("Unifier", "Variable", "IntegerLiteral", "Let") or not f1:
                continue                                                     # leaves and the special arms
            seen.append(v1)
            p1 = {f: i for i, f in enumerate(f1) if f != "_"}
            p2 = {f: i for i, f in enumerate(f2) if f != "_"}
            calls = []
            for args in calls_of(abody, fname):
                a, b = norm(args[0]), norm(args[1])
                if a not in p1 or b not in p2:
                    fail(f"arms: {what}/{v1}: compares `{a}` with `{b}`, which the pattern does not bind on the left / right")
                calls.append((p1[a], p2[b]))
            glue = re.sub(r"\s+", "", re.sub(r"\b" + fname + r"\s*\((?:[^()]|\([^()]*\))*\)", "C", abody))
            conj = all(ch in "C&{}" for ch in re.sub(r"implicit1==implicit2", "C", glue)) if v1 not in ("Lambda", "Pi") or fname != "unify" else True
            rows.append((v1, v2, calls, conj))
    for v in ["Lambda", "Pi", "Application", "Negation", "If"] + BINARY:
        if seen.count(v) != 1: fail(f"arms: {what}: {seen.count(v)} arms for ({v}, {v})")
    return rows

def check_err_sites(src):
    """type_check_rec: every `if !unify(&a, &b, ..) { errors.push(throw(.. X.source_range ..)) }` — which arm, the two
    things unified (a trailing `_type` stripped: `x_type` is the inferred type of `x`), and whose range the error carries"""
    body = fn_body(src, "type_check_rec")
    blk = top_match(body, "type_check_rec")
    rows = []
    for pat, abody in split_arms(blk, "type_check_rec"):
        name = parse_pattern(pat, "type_check_rec")[0][0]
        alts = [n for n, _ in parse_pattern(pat, "type_check_rec")]
        for m in re.finditer(r"\bunify\s*\(", abody):
            pre = abody[max(0, m.start() - 12):m.start()]
            depth, j = 0, m.end() - 1
            start = j + 1
            while True:
                if abody[j] == "(": depth += 1
                elif abody[j] == ")":
                    depth -= 1
                    if depth == 0: break
                j += 1
            args = [norm(a) for a in split_top(abody[start:j], ",") if a.strip()]
            if not re.search(r"if\s*!\s*$", pre):
                fail(f"arms: type_check_rec/{name}: a unify call that is not of the form `if !unify(..) {{ report }}`")
            blk2, _ = match_block(abody, j)
            owners = re.findall(r"\b(\w+)\s*\.\s*source_range", blk2)
            if len(owners) != 1 or "errors.push" not in blk2:
                fail(f"arms: type_check_rec/{name}: cannot read the range of the error after unify({args[0]}, {args[1]})")
            for v in alts:
                rows.append((v, [re.sub(r"_type$", "", a) for a in args[:2]], [a.endswith("_type") for a in args[:2]], owners[0]))
    return rows

def display_table(src):
    """term.rs, `impl Display for Variant`: for the binary operators and negation the format string and how each operand
    is wrapped; for the other arms the CRC-32 of their text"""
    m = re.search(r"impl\s+Display\s+for\s+Variant", src)
    if not m: fail("arms: Display for Variant not found")
    body, _ = match_block(src, m.end())
    mm = re.search(r"\bmatch\s+self\s*\{", body)
    if not mm: fail("arms: Display: no `match self`")
    blk, _ = match_block(body, mm.start())
    ops, others = {}, {}
    for pat, abody in split_arms(blk, "Display"):
        for name, fields in parse_pattern(pat.replace("Self::", ""), "Display"):
            t = re.sub(r"\s+", " ", abody).strip()
            if name in BINARY or name == "Negation":
                w = re.fullmatch(r"\{? ?write!\( ?f, \"([^\"]*)\", ?(.*?),? ?\) ?\}?", t)
                if not w: fail(f"arms: Display/{name}: unreadable `{t}`")
                args = [a.strip() for a in split_top(w.group(2), ",") if a.strip()]
                wrapped = []
                for a in args:
                    g = re.fullmatch(r"(\w+)\((\w+)\)", a)
                    if g: wrapped.append((g.group(1), fields.index(g.group(2)) if g.group(2) in fields else 99))
                    elif a in fields: wrapped.append(("bare", fields.index(a)))
                    else: fail(f"arms: Display/{name}: unreadable operand `{a}`")
                ops[name] = (w.group(1), wrapped)
            else:
                others[name] = zlib.crc32(re.sub(r"\s+", "", pat + "=>" + abody).encode())
    for b in BINARY + ["Negation"]:
        if b not in ops: fail(f"arms: Display: no arm for {b}")
    fns = {}
    for fn in ("annotation", "group"):
        fns[fn] = zlib.crc32(re.sub(r"\s+", "", fn_body(src, fn)).encode())
    return ops, others, fns

def gen_arms():
    db = strip_hooks(strip_comments(strip_tests(read("src/de_bruijn.rs"))))
    tm = strip_hooks(strip_comments(strip_tests(read("src/term.rs"))))
    ev_src = ev = strip_hooks(strip_comments(strip_tests(read("src/evaluator.rs"))))
    nz = strip_hooks(strip_comments(strip_tests(read("src/normalizer.rs"))))
    out = ["/-! GENERATED by extract/arms.py from /repo/src/de_bruijn.rs, term.rs, evaluator.rs, normalizer.rs — do not edit. -/",
           "", "namespace Generated", "",
           "/-- the variants of `term::Variant` -/",
           "inductive V", "  | " + " | ".join(VARIANTS), "deriving DecidableEq, Repr", "",
           "/-- how a varying parameter changes on the way down to a child -/",
           "inductive D | same | plus1 | plusLen", "deriving DecidableEq, Repr", "",
           "/-- one congruence arm: the variant matched, the variant rebuilt, and the traversed children in the order they",
           "are put back — (pattern position, deltas of the varying parameters); positions 10/11/12 are the components of a",
           "definition `(variable, annotation, definition)` of a `Let` -/",
           "structure Arm where", "  variant : V", "  rebuilt : V", "  calls : List (Nat × List D)", "deriving DecidableEq, Repr", ""]
    for fname, src, varying, fixed, rebuilds, lname in (
            ("signed_shift", db, ["cutoff"], ["amount"], True, "shift"),
            ("open", db, ["index_to_replace", "shift_amount"], ["term_to_insert"], True, "open"),
            ("free_variables", tm, ["cutoff"], ["variables"], False, "fv")):
        rows, leaves, special = traversal(src, fname, varying, fixed, rebuilds)
        for v, form in leaves:
            if form not in {re.sub(r"\s+", "", f) for f in LEAF_FORMS[fname]}:
                fail(f"arms: {fname}/{v}: a leaf arm that does `{form}`")
        out += lean_rows(lname + "Arms", rows, f"`{fname}`: the congruence arms, in source order")
        out += [f"/-- `{fname}`: the variants returned unchanged -/",
                f"def {lname}Leaves : List V := [" + ", ".join("." + v for v, _ in leaves) + "]", "",
                f"/-- `{fname}`: CRC-32 of the (whitespace-free, comment-free, hook-free) text of the `Variable` and `Unifier` arms -/",
                f"def {lname}VariableArm : Nat := {special.get('Variable', 0)}",
                f"def {lname}UnifierArm : Nat := {special.get('Unifier', 0)}", ""]
    out += ["/-- the primitive that fires on two integer literals -/",
            "inductive Prim", "  | add | addSwap | sub | subSwap | mul | mulSwap | tdiv | tdivSwap | divPanicking",
            "  | " + " | ".join(c + s + n for c in CMPS.values() for s in ("", "Swap") for n in ("", "Neg")),
            "deriving DecidableEq, Repr", ""]
    for fname, src, lname in (("step", ev, "stepPrims"), ("normalize_weak_head", nz, "whnfPrims")):
        t = prim_table(src, fname)
        out += [f"/-- `{fname}`: primitive of each binary-operator arm -/",
                f"def {lname} : List (V × Prim) := [" + ", ".join(f"(.{b}, .{p})" for b, p in t) + "]", ""]
    tc = strip_hooks(strip_comments(strip_tests(read("src/type_checker.rs"))))
    out += ["/-- events of a binary arm of `step` -/",
            "inductive Ev | st1 | st2 | nv1 | nv2 | iv1 | iv2", "deriving DecidableEq, Repr", "",
            "/-- operand of a congruence rebuild: the stepped / the untouched left / right operand -/",
            "inductive Opd | s1 | s2 | t1 | t2", "deriving DecidableEq, Repr", "",
            "/-- `step`, binary arms: (variant, order of sub-steps and `!is_value` tests, the congruence nodes rebuilt) -/",
            "def stepShape : List (V × List Ev × List (V × List Opd)) := ["]
    out.append(",\n".join("  (.%s, [%s], [%s])" % (b, ", ".join("." + e for e in ev),
               ", ".join("(.%s, [%s])" % (v, ", ".join("." + c for c in cs)) for v, cs in rb)) for b, ev, rb in step_shape(ev_src)))
    out += ["]", "",
            "/-- events of a binary arm of `type_check_rec`: inference of operand k; unification of operand k's type with a",
            "ground type, the error carrying the range of operand r (0 = the whole node) -/",
            "inductive Ty | int | bool | type", "deriving DecidableEq, Repr", "",
            "inductive CEv | inf (k : Nat) | uni (k : Nat) (ty : Ty) (r : Nat)", "deriving DecidableEq, Repr", "",
            "/-- `type_check_rec`, binary arms: (variant, events, variant rebuilt, operand order in the rebuilt node, type returned) -/",
            "def checkShape : List (V × List CEv × V × Nat × Nat × Ty) := ["]
    def cev(e):
        if e.startswith("inf"): return f".inf {e[3]}"
        m = re.fullmatch(r"u([12])(int|bool|type)r([012])", e)
        return f".uni {m.group(1)} .{m.group(2)} {m.group(3)}"
    out.append(",\n".join("  (.%s, [%s], .%s, %s, %s, .%s)" % (b, ", ".join(cev(e) for e in evs), v, o[0], o[1], ty)
               for b, evs, v, o, ty in checker_shape(tc)))
    out += ["]", ""]
    out += ["/-- `type_check_rec`: every reported unification — (arm, the two sides with a trailing `_type` stripped, which of them is",
            "an inferred type `x_type`, the term whose source range the diagnostic carries) -/",
            "def checkErrSites : List (V × List String × List Bool × String) := ["]
    out.append(",\n".join('  (.%s, [%s], [%s], "%s")' % (v, ", ".join(f'"{a}"' for a in ab), ", ".join("true" if t else "false" for t in ts), o)
               for v, ab, ts, o in check_err_sites(tc)))
    out += ["]", ""]
    ops, others, fns = display_table(tm)
    out += ["/-- `impl Display for Variant`: (variant, format string, for each `{}` how the operand is wrapped and which field it is) -/",
            "def printOps : List (V × String × List (String × Nat)) := ["]
    out.append(",\n".join('  (.%s, "%s", [%s])' % (v, ops[v][0], ", ".join(f'("{w}", {i})' for w, i in ops[v][1])) for v in BINARY + ["Negation"]))
    out += ["]", "", "/-- CRC-32 of the text of the other arms of `Display`, and of `annotation` and `group` -/",
            "def printOtherArms : List (V × Nat) := [" + ", ".join(f"(.{v}, {c})" for v, c in others.items()) + "]",
            f"def printAnnotationFn : Nat := {fns['annotation']}", f"def printGroupFn : Nat := {fns['group']}", ""]
    un = strip_hooks(strip_comments(strip_tests(read("src/unifier.rs"))))
    eq = strip_hooks(strip_comments(strip_tests(read("src/equality.rs"))))
    for fname, src, lname in (("unify", un, "unifyPairs"), ("syntactically_equal", eq, "synEqPairs")):
        rows = pair_arms(src, fname, fname)
        out += [f"/-- `{fname}`: structural arms — (left variant, right variant, (left position, right position) of each recursive",
                "comparison in order, whether the comparisons are joined by `&&` only) -/",
                f"def {lname} : List (V × V × List (Nat × Nat) × Bool) := ["]
        out.append(",\n".join("  (.%s, .%s, [%s], %s)" % (a, b, ", ".join(f"({i}, {j})" for i, j in cs), "true" if cj else "false") for a, b, cs, cj in rows))
        out += ["]", ""]
    out += ["end Generated", ""]
    return "\n".join(out)

if __name__ == "__main__":
    print(gen_arms())


def gen_tokenizer_arms():
    """tokenizer.rs, the `match c` of the first pass: the symbol arms (character, optional second character, length, variant)
    and the order of the arms"""
    from extract import TOK
    tz = strip_hooks(strip_comments(strip_tests(read("src/tokenizer.rs"))))
    # bracket characters written as character literals must not confuse the bracket matcher
    BR = {"'{'": "'\u0001'", "'}'": "'\u0002'", "'('": "'\u0003'", "')'": "'\u0004'"}
    for k, v in BR.items(): tz = tz.replace(k, v)
    UNBR = {"\u0001": "{", "\u0002": "}", "\u0003": "(", "\u0004": ")"}
    body = fn_body(tz, "tokenize")
    m = re.search(r"\bmatch\s+c\s*\{", body)
    if not m: fail("arms: tokenizer: no `match c`")
    blk, _ = match_block(body, m.start())
    rows, order = [], []
    for pat, abody in split_arms(blk, "tokenize"):
        p = re.sub(r"\s+", " ", pat).strip()
        ch = re.fullmatch(r"'(\\?.)'", p)
        if ch and ch.group(1) not in ("\\n", "#"):
            c = UNBR.get(ch.group(1), ch.group(1))
            order.append("sym")
            cur = None
            for t in re.finditer(r"Some\(&\(_, '(.)'\)\)|\belse\b|\b_\s*=>|end:\s*i\s*\+\s*(\d+)\s*,?\s*\}\s*,\s*variant:\s*Variant::(\w+(?:\([^)]*\))?)", abody):
                if t.group(1): cur = (t.group(1), t.end())
                elif t.group(2):
                    v = t.group(3)
                    if v not in TOK: fail(f"arms: tokenizer: unknown variant {v}")
                    if cur is not None:
                        if "iter.next()" not in abody[cur[1]:t.start()]: fail(f"arms: tokenizer: the arm of '{c}' does not consume the second character of {v}")
                        rows.append((c, cur[0], int(t.group(2)), TOK[v]))
                    else:
                        rows.append((c, None, int(t.group(2)), TOK[v]))
                else: cur = None
        else:
            if p.startswith("_ if"):
                guard = p[4:].strip()
                guard = " || ".join(sorted(x.strip() for x in guard.split("||")))
                order.append("if " + guard)
            else:
                order.append(p)
    # the inner loops: what continues an identifier / a number; where a comment stops; how a literal gets its value
    loops = []
    for pat, abody in split_arms(blk, "tokenize"):
        p = re.sub(r"\s+", " ", pat).strip()
        for m in re.finditer(r"while let Some\(\((\w+), (\w+)\)\) = iter\.peek\(\) \{\s*if (.*?) \{\s*iter\.next\(\);", re.sub(r"\s+", " ", abody)):
            cond = m.group(3).replace("*" + m.group(2), "d").replace(m.group(2) + ".", "d.")
            cond = " || ".join(sorted(x.strip() for x in cond.split("||")))
            loops.append((("ident" if "alphabetic" in p else "number" if "'0'" in p else "comment" if "#" in p else p)[:20], cond))
    literal_value = "?"
    for pat, abody in split_arms(blk, "tokenize"):
        if "'0'" in pat:
            value = re.search(r"Variant::IntegerLiteral\(\s*(.*?)\s*,?\s*\)\s*,\s*\}\s*\)", re.sub(r"\s+", " ", abody))
            if value: literal_value = re.sub(r"\s+", "", value.group(1))
    out = ["import GramModel.Token", "", "/-! GENERATED by extract/arms.py from /repo/src/tokenizer.rs — do not edit. -/", "", "namespace Generated", "",
           "/-- the `while let Some((j, d)) = iter.peek() { if COND { iter.next() } … }` loops: (arm, COND with `||` operands sorted) -/",
           "def scanLoops : List (String × String) := [" + ", ".join('("%s", "%s")' % (a, c.replace('"', '\\"')) for a, c in loops) + "]", "",
           "/-- how an integer literal gets its value -/",
           'def literalValue : String := "%s"' % literal_value.replace('"', '\\"'), "",
           "/-- the symbol arms of `tokenize`: (first character, second character if the arm peeks, byte length of the token, kind) -/",
           "def symbolArms : List (Char × Option Char × Nat × TokKind) := [",
           ",\n".join("  ('%s', %s, %d, %s)" % (c, ("some '%s'" % d) if d else "none", n, k) for c, d, n, k in rows), "]", "",
           "/-- the arms of `match c` in order (`sym` = a symbol arm; guards with their `||` operands sorted) -/",
           "def scanArmOrder : List String := [" + ", ".join('"%s"' % o.replace("\\", "\\\\").replace('"', '\\"') for o in order) + "]", "",
           "end Generated", ""]
    return "\n".join(out)


def gen_parser_steps():
    """parser.rs: for each of the 36 packrat functions the sequence of steps in textual order —
    alt X (try_return! of parse_x), eval X (try_eval! of parse_x), call X (plain call of parse_x), tok0/tok1 T (consume_token_k!),
    exp0/exp1 T (expect_token_k!) — and the variant(s) built"""
    src = strip_hooks(strip_comments(strip_tests(read("src/parser.rs"))))
    fns = re.findall(r"\bfn\s+(parse_\w+)\s*<", src)
    rows = []
    for fn in fns:
        body = fn_body(src, fn)
        ev = []
        pat = re.compile(r"\b(try_return|try_eval|consume_token_0|consume_token_1|expect_token_0|expect_token_1)!\s*\(|\b(parse_\w+)\s*\(\s*cache\s*,\s*tokens\s*,|\bvariant\s*:\s*Variant::(\w+)")
        i = 0
        while True:
            m = pat.search(body, i)
            if not m: break
            if m.group(1):
                depth, j = 0, m.end() - 1
                while True:
                    if body[j] == "(": depth += 1
                    elif body[j] == ")":
                        depth -= 1
                        if depth == 0: break
                    j += 1
                inner = body[m.end():j]
                args = [re.sub(r"\s+", " ", a).strip() for a in split_top(inner, ",") if a.strip()]
                mac = m.group(1)
                if mac in ("try_return", "try_eval"):
                    c = re.match(r"(parse_\w+)\s*\(", args[2]) if len(args) >= 3 else None
                    if not c: fail(f"arms: parser/{fn}: unreadable {mac}!({inner[:60]})")
                    ev.append(("alt" if mac == "try_return" else "eval", c.group(1)))
                else:
                    # (cache, cache_key, tokens, next, Variant, expectation[, ...])
                    tokpos = 4 if mac.startswith("consume") else 3
                    if len(args) <= tokpos or not re.fullmatch(r"[A-Z]\w*(\(.*\))?", args[tokpos].replace(" ", "")): fail(f"arms: parser/{fn}: unreadable {mac}!")
                    ev.append(({"consume_token_0": "tok0", "consume_token_1": "tok1", "expect_token_0": "exp0", "expect_token_1": "exp1"}[mac], args[tokpos].replace(" ", "")))
                i = j + 1
            elif m.group(2):
                ev.append(("call", m.group(2)))
                i = m.end()
            else:
                v = m.group(3)
                # a literal `true` / `false` among the constructor's arguments (the `implicit` flag of Lambda / Pi)
                flag = ""
                k = m.end()
                while k < len(body) and body[k] in " \n\t": k += 1
                if k < len(body) and body[k] == "(":
                    depth, j = 0, k
                    while True:
                        if body[j] == "(": depth += 1
                        elif body[j] == ")":
                            depth -= 1
                            if depth == 0: break
                        j += 1
                    for a in split_top(body[k + 1:j], ","):
                        if a.strip() in ("true", "false"): flag = " " + a.strip()
                ev.append(("build", v + flag))
                i = m.end()
        rows.append((fn, ev))
    if len(rows) != 36: fail(f"arms: parser: {len(rows)} parse functions")
    out = ["/-! GENERATED by extract/arms.py from /repo/src/parser.rs — do not edit. -/", "", "namespace Generated", "",
           "/-- the steps of each packrat function in textual order: `alt f` = `try_return!(.. f ..)`, `eval f` = `try_eval!(.. f ..)`, `call f` = a plain",
           "call, `tok0/tok1 T` = `consume_token_k!(.. T ..)`, `exp0/exp1 T` = `expect_token_k!(.. T ..)`, `build V` = a node `Variant::V` is built -/",
           "def parserSteps : List (String × List (String × String)) := ["]
    out.append(",\n".join('  ("%s", [%s])' % (fn, ", ".join(f'("{a}", "{b}")' for a, b in ev)) for fn, ev in rows))
    out += ["]", "", "end Generated", ""]
    return "\n".join(out)


EVENT_PAT = re.compile(
    r"\b(type_check_rec|unify|normalize_weak_head|open|unsigned_shift|signed_shift|syntactically_equal|step|is_value)\s*\(|"
    r"\b(typing_context|definitions_context)\s*\.\s*(push|pop|truncate)\s*\(|"
    r"\b(Rc::new\(RefCell::new\(None\)\))|\b(context_cell!|ScopeGuard|scopeguard::guard|defer!)")

def event_trace(abody, self_fn):
    """the calls that matter, in textual order, with whitespace-free arguments"""
    ev = []
    for m in EVENT_PAT.finditer(abody):
        if m.group(1):
            depth, j = 0, m.end() - 1
            start = j + 1
            while True:
                if abody[j] == "(": depth += 1
                elif abody[j] == ")":
                    depth -= 1
                    if depth == 0: break
                j += 1
            args = [re.sub(r"\s+", "", a) for a in split_top(abody[start:j], ",") if a.strip()]
            f = m.group(1)
            if f == "type_check_rec":
                # (source_path, source_contents, term, typing_context, definitions_context, errors)
                ev.append("infer " + (args[2] if len(args) > 2 else "?"))
            elif f == "unify":
                ev.append("unify " + " ".join(a.lstrip("&") for a in args[:2]))
            elif f in ("open", "unsigned_shift", "signed_shift"):
                ev.append(f + " " + " ".join(a.lstrip("&") for a in args))
            elif f == "normalize_weak_head":
                ev.append("whnf " + (args[0].lstrip("&") if args else "?"))
            elif f in ("step", "is_value"):
                neg = abody[max(0, m.start() - 1):m.start()] == "!"
                ev.append(("not-" if neg else "") + f + " " + (args[0].lstrip("&") if args else "?"))
            else:
                ev.append(f + " " + " ".join(a.lstrip("&") for a in args[:2]))
        elif m.group(2):
            ev.append(m.group(3) + " " + ("T" if m.group(2) == "typing_context" else "D"))
        elif m.group(4):
            ev.append("fresh-hole")
        else:
            ev.append("guard")
    return ev

def gen_event_traces():
    """type_check_rec (every arm) and unify (the binder arms): the calls that matter, in order — which child is checked when, what
    is unified with what, where the two contexts are pushed and popped, which `open`/shift is applied with which arguments"""
    tc = strip_hooks(strip_comments(strip_tests(read("src/type_checker.rs"))))
    un = strip_hooks(strip_comments(strip_tests(read("src/unifier.rs"))))
    rows = []
    body = fn_body(tc, "type_check_rec")
    blk = top_match(body, "type_check_rec")
    for pat, abody in split_arms(blk, "type_check_rec"):
        for name, fields in parse_pattern(pat, "type_check_rec"):
            if name in BINARY: continue          # covered by checkShape
            ev = event_trace(abody, "type_check_rec")
            # names bound by the pattern are written by position, so that renaming them consistently changes nothing
            for i, f in sorted(enumerate(fields), key=lambda p: -len(p[1])):
                if f in ("_", ""): continue
                ev = [re.sub(r"\b" + re.escape(f) + r"_type\b", f"${i}_type", re.sub(r"\b" + re.escape(f) + r"\b", f"${i}", e)) for e in ev]
            rows.append(("type_check_rec", name, ev))
    ub = fn_body(un, "unify")
    blk = None
    for m in re.finditer(r"\bmatch\s*\(\s*&\w+\.variant\s*,\s*&\w+\.variant\s*\)\s*\{", ub):
        b, _ = match_block(ub, m.start())
        if "Sum(" in b and "If(" in b: blk = b
    if blk is None: fail("arms: unify: no match on a pair of variants")
    for pat, abody in split_arms(blk, "unify"):
        head = re.sub(r"\s+", "", pat)
        for v in ("Lambda", "Pi"):
            if head.startswith("(" + v + "("):
                ev = event_trace(abody, "unify")
                ev = [re.sub(r"\b(body|domain|codomain)([12])\b", lambda m: "$" + m.group(1) + m.group(2), e) for e in ev]
                rows.append(("unify", v, ev))
    out = ["/-! GENERATED by extract/arms.py from /repo/src/type_checker.rs and unifier.rs — do not edit. -/", "", "namespace Generated", "",
           "/-- (function, arm, the calls that matter in textual order: `infer x` = `type_check_rec(.., x, ..)`, `unify a b`, `push T|D` / `pop T|D` on the typing /",
           "definitions context, `open ..`, `unsigned_shift ..`, `fresh-hole`, `whnf x`) -/",
           "def eventTraces : List (String × String × List String) := ["]
    out.append(",\n".join('  ("%s", "%s", [%s])' % (f, a, ", ".join('"%s"' % e.replace("\\", "\\\\").replace('"', '\\"') for e in ev)) for f, a, ev in rows))
    out += ["]", "", "end Generated", ""]
    return "\n".join(out)


def gen_eval_traces():
    """evaluator.rs::step and normalizer.rs::normalize_weak_head, the arms other than the nine binary operators: the calls that
    matter in textual order (sub-steps, value tests, `open` / shifts with their arguments, recursive normalisations)"""
    rows = []
    for fname, path in (("step", "src/evaluator.rs"), ("normalize_weak_head", "src/normalizer.rs")):
        src = strip_hooks(strip_comments(strip_tests(read(path))))
        body = fn_body(src, fname)
        blk = top_match(body, fname)
        for pat, abody in split_arms(blk, fname):
            for name, fields in parse_pattern(pat, fname):
                if name in BINARY: continue
                ev = event_trace(abody, fname)
                for i, f in sorted(enumerate(fields), key=lambda p: -len(p[1])):
                    if f in ("_", ""): continue
                    ev = [re.sub(r"\b" + re.escape(f) + r"\b", f"${i}", e) for e in ev]
                rows.append((fname, name, ev))
    out = ["/-! GENERATED by extract/arms.py from /repo/src/evaluator.rs and normalizer.rs — do not edit. -/", "", "namespace Generated", "",
           "/-- (function, arm, the calls that matter in textual order; pattern fields written by position) -/",
           "def evalTraces : List (String × String × List String) := ["]
    out.append(",\n".join('  ("%s", "%s", [%s])' % (f, a, ", ".join('"%s"' % e.replace("\\", "\\\\").replace('"', '\\"') for e in ev)) for f, a, ev in rows))
    out += ["]", "", "end Generated", ""]
    return "\n".join(out)


def gen_cli():
    """main.rs: for `run`, `entry` and `main`, in textual order: the stage calls, the error propagations (`?`), every write to standard
    output / standard error and every `exit(n)`"""
    src = strip_hooks(strip_comments(strip_tests(read("src/main.rs"))))
    pat = re.compile(r"\b(eprintln|println|eprint|print|write|writeln)!\s*\(|\bexit\s*\(\s*(\d+)\s*\)|\b(tokenize|parse|type_check|evaluate|run|entry|read_to_string)\s*\(|(\?)\s*[;)]|\b(panic|unreachable|todo|unimplemented)!")
    rows = []
    for fn in ("run", "entry", "main"):
        body = fn_body(src, fn)
        ev = []
        for m in pat.finditer(body):
            if m.group(1): ev.append(m.group(1) + "!")
            elif m.group(2) is not None: ev.append("exit " + m.group(2))
            elif m.group(3): ev.append("call " + m.group(3))
            elif m.group(4): ev.append("?")
            else: ev.append(m.group(5) + "!")
        rows.append((fn, ev))
    out = ["/-! GENERATED by extract/arms.py from /repo/src/main.rs — do not edit. -/", "", "namespace Generated", "",
           "/-- (function, events in textual order: `call f`, `?` (an error is returned to the caller), `println!` / `eprintln!` …, `exit n`) -/",
           "def cliEvents : List (String × List String) := ["]
    out.append(",\n".join('  ("%s", [%s])' % (f, ", ".join(f'"{e}"' for e in ev)) for f, ev in rows))
    out += ["]", "", "end Generated", ""]
    return "\n".join(out)
