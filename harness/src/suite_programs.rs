// Suite `programs`: type-directed generated programs (G-prog) through the real pipeline.
// Correspondence ops: `infer` (store layer) and `evalz` (evaluation of the zonked elaboration).
// Oracles on the implementation, each tagged with the property it decides:
//   C07 sentence accepted / tree shape      C08 indices vs. the reference resolver
//   C05 fully annotated accepted, elaboration = input, reported type = expected type
//   C02 value = reference semantics         C01 no stuck term other than division by zero
//   C04 value has the shape of the reported type
//   C06 normalizer agrees with evaluator; unify(t,t), unify(t, reduct)
//   C18 contexts restored                   C19 meaning-preserving rewrites
//   C10 re-layout keeps the parse           C16 printed term reads back
use crate::equality::syntactically_equal;
use crate::normalizer::normalize_weak_head;
use crate::out::{guarded, Out};
use crate::pipeline::*;
use crate::prog::{self, Expected, Prog, Style, E};
use crate::resolve_ref::{db_e, db_term, db_term_noshift};
use crate::rng::Rng;
use crate::ser::{HoleMode, Ser};
use crate::suite_progstat::{canon_e, canon_term, cfg_mix, style_mix};
use crate::term::{Term, Variant};
use crate::unifier::unify;
use std::rc::Rc;

fn ptr_str(t: &Term) -> String {
    use Variant::*;
    let b2 = |n: &str, a: &Term, b: &Term| format!("({n} {} {})", ptr_str(a), ptr_str(b));
    match &t.variant {
        Unifier(r, s) => format!("@{:x}:{s}", Rc::as_ptr(r) as usize),
        Type => "type".into(),
        Variable(x, i) => format!("{x}#{i}"),
        Lambda(x, i, d, b) => format!("(lam{} {x} {} {})", u8::from(*i), ptr_str(d), ptr_str(b)),
        Pi(x, i, d, b) => format!("(pi{} {x} {} {})", u8::from(*i), ptr_str(d), ptr_str(b)),
        Application(a, b) => b2("app", a, b),
        Let(defs, body) => format!("(let {} {})", defs.iter().map(|(x, a, d)| format!("[{x} {} {}]", ptr_str(a), ptr_str(d))).collect::<Vec<_>>().join(" "), ptr_str(body)),
        Integer => "int".into(),
        IntegerLiteral(n) => n.to_string(),
        Negation(a) => format!("(neg {})", ptr_str(a)),
        Sum(a, b) => b2("+", a, b), Difference(a, b) => b2("-", a, b), Product(a, b) => b2("*", a, b), Quotient(a, b) => b2("/", a, b),
        LessThan(a, b) => b2("<", a, b), LessThanOrEqualTo(a, b) => b2("<=", a, b), EqualTo(a, b) => b2("==", a, b),
        GreaterThan(a, b) => b2(">", a, b), GreaterThanOrEqualTo(a, b) => b2(">=", a, b),
        Boolean => "bool".into(), True => "true".into(), False => "false".into(),
        If(c, a, b) => format!("(if {} {} {})", ptr_str(c), ptr_str(a), ptr_str(b)),
    }
}

// ---- C18: two representations of one context ----------------------------------------------------
// An entry (T, offset) of the typing context at position pos says: T lives in the context made of
// the first pos + offset entries. Lifting T by d and storing (T↑d, offset + d) describes the same
// variable (d at most the number of entries after those). `rebase` lifts every entry as far as
// it goes, so that every stored type/definition lives in the whole context. Checking an open
// subterm of a program under the context that the checker itself builds on the way to it, and
// under the rebased context, must give the same verdict and convertible types.
use crate::ser_store::{DCtx, TCtx};

fn rebase<'a>(tctx: &TCtx<'a>, dctx: &DCtx<'a>) -> (TCtx<'a>, DCtx<'a>) {
    let len = tctx.len();
    let t2 = tctx.iter().enumerate().map(|(pos, (t, off))| { let d = len - pos - off; (Rc::new(crate::de_bruijn::unsigned_shift(t, 0, d)), off + d) }).collect();
    let d2 = dctx.iter().enumerate().map(|(pos, e)| e.as_ref().map(|(t, off)| { let d = len - pos - off; (Rc::new(crate::de_bruijn::unsigned_shift(t, 0, d)), off + d) })).collect();
    (t2, d2)
}

fn c18_context_oracle<'a>(out: &mut Out, src: &'a str, term: &Term<'a>, rng: &mut Rng, origin: &str) {
    use Variant::*;
    let (mut tctx, mut dctx): (TCtx<'a>, DCtx<'a>) = (vec![], vec![]);
    let mut cur: Term<'a> = term.clone();
    let mut done = 0;
    for _depth in 0..60 {
        // some entry must have room to be lifted, else the two contexts are the same
        let movable = tctx.iter().enumerate().any(|(pos, (_, off))| tctx.len() - pos - off > 0);
        if movable && done < 3 && rng.chance(1, 2) {
            done += 1;
            let (mut t2, mut d2) = rebase(&tctx, &dctx);
            let (mut t1, mut d1) = (tctx.clone(), dctx.clone());
            let r1 = guarded(|| crate::type_checker::type_check(None, src, &cur, &mut t1, &mut d1));
            let r2 = guarded(|| crate::type_checker::type_check(None, src, &cur, &mut t2, &mut d2));
            out.stat("c18:open-subterm-checked-under-both-contexts");
            let show = |r: &Result<Result<(Term, Term), Vec<crate::error::Error>>, String>| match r { Ok(Ok((_, t))) => format!("accepted : {t}"), Ok(Err(es)) => format!("rejected ({} diagnostics)", es.len()), Err(m) => format!("panic {m}") };
            let agree = match (&r1, &r2) {
                (Ok(Ok((_, a))), Ok(Ok((_, b)))) => guarded(|| unify(a, b, &mut d2)) == Ok(true),
                (Ok(Err(_)), Ok(Err(_))) => true,
                (Err(_), Err(_)) => true,
                _ => false,
            };
            if !agree {
                out.hit("C18", "verdict-depends-on-representation-of-context", src, &format!("{origin} open subterm `{cur}` at context depth {}: under the context as the checker builds it: {}; with every entry lifted to the whole context: {}", tctx.len(), show(&r1), show(&r2)));
                return;
            }
        }
        let next = match &cur.variant {
            Lambda(_, _, dom, body) | Pi(_, _, dom, body) => {
                if rng.chance(1, 6) { (**dom).clone() } else { tctx.push((dom.clone(), 0)); dctx.push(None); (**body).clone() }
            }
            Let(defs, body) => {
                let n = defs.len();
                for (i, (_, a, d)) in defs.iter().enumerate() { tctx.push((a.clone(), n - i)); dctx.push(Some((d.clone(), n - i))); }
                let k = rng.below(n + 1);
                if k == n { (**body).clone() } else if rng.chance(1, 6) { (*defs[k].1).clone() } else { (*defs[k].2).clone() }
            }
            Application(a, b) | Sum(a, b) | Difference(a, b) | Product(a, b) | Quotient(a, b) | LessThan(a, b) | LessThanOrEqualTo(a, b)
            | EqualTo(a, b) | GreaterThan(a, b) | GreaterThanOrEqualTo(a, b) => if rng.chance(1, 2) { (**a).clone() } else { (**b).clone() },
            If(c, a, b) => match rng.below(3) { 0 => (**c).clone(), 1 => (**a).clone(), _ => (**b).clone() },
            Negation(a) => (**a).clone(),
            _ => break,
        };
        cur = next;
    }
}

#[derive(Clone, Debug, PartialEq)]
pub enum Obs { Rejected(&'static str), Value(String), Stuck(String), Cap, Panic }

// (accepted?, printed value) the way `gram check` / `gram run` would show it
pub fn observe(src: &str) -> Obs {
    let mut tokens = vec![];
    let term = match front(src, &mut tokens) {
        Stage::TokErr(_) => return Obs::Rejected("tokenize"),
        Stage::ParseErr(_) => return Obs::Rejected("parse"),
        Stage::Panic(..) => return Obs::Panic,
        Stage::Parsed(t) => t,
    };
    let elab = match guarded(|| crate::type_checker::type_check(None, src, &term, &mut vec![], &mut vec![])) {
        Err(_) => return Obs::Panic,
        Ok(Err(_)) => return Obs::Rejected("type_check"),
        Ok(Ok((e, _))) => e,
    };
    match run_eval(&elab, EVAL_CAP) {
        Err(_) => Obs::Panic,
        Ok((Final::Cap, _, _)) => Obs::Cap,
        Ok((Final::Value, v, _)) => Obs::Value(match &v.variant {
            Variant::IntegerLiteral(_) | Variant::True | Variant::False => v.to_string(),
            Variant::Lambda(..) => "<function>".into(),
            _ => "<type>".into(),
        }),
        Ok((Final::Stuck(r), _, _)) => Obs::Stuck(r.to_owned()),
    }
}

fn value_kind(v: &Term) -> &'static str {
    match &v.variant {
        Variant::IntegerLiteral(_) => "int-literal",
        Variant::True | Variant::False => "boolean",
        Variant::Lambda(..) => "function",
        Variant::Type | Variant::Integer | Variant::Boolean | Variant::Pi(..) => "type",
        _ => "other",
    }
}

pub fn check_program(out: &mut Out, names: &mut Ser, p: &Prog, src: &str, defect_shape: bool, rng: &mut Rng, idx: usize) {
    let origin = format!("gprog#{idx}");
    if !out.begin(src) { out.stat("skipped-known-abort"); return; }
    if p.features.first() == Some(&"universe-alias") { out.stat("feature:universe-alias"); } else { for f in &p.features { out.stat(&format!("feature:{f}")); } }
    // --- reference scoping -----------------------------------------------------------------------
    let want_db = db_e(&p.e, &mut vec![]);
    let mut ttoks = vec![];
    let mut tokens = vec![];
    let term = match front(src, &mut tokens) {
        Stage::TokErr(_) => { out.stat("stage:tok-err"); out.hit("C07", "sentence-rejected-by-tokenizer", src, &origin); return; }
        Stage::ParseErr(_) => {
            out.stat("stage:parse-err");
            if want_db.is_ok() {
                out.hit("C07", "sentence-rejected-by-parser", src, &origin);
                if p.fully_annotated { out.hit("C05", "fully-annotated-well-formed-program-rejected-by-front-end", src, &origin); }
            }
            return;
        }
        Stage::Panic(stage, m) => { out.hit("C14", &format!("{stage}-panic"), src, &m); return; }
        Stage::Parsed(t) => t,
    };
    out.stat("stage:parsed");
    // --- C07 tree shape, C08 binding ---------------------------------------------------------------
    let tree_ok = canon_term(&term) == canon_e(&p.e);
    if !tree_ok {
        out.stat("tree:differs");
        out.hit("C07", "tree-shape-differs-from-derivation", src, &format!("{origin} defect-shape={defect_shape} expected {} got {}", canon_e(&p.e), canon_term(&term)));
    } else {
        out.stat("tree:same");
        match &want_db {
            Ok(w) => if *w != db_term(&term) { out.hit("C08", "variable-bound-to-wrong-binder", src, &format!("{origin} expected {w} got {}", db_term(&term))); },
            Err(e) => out.hit("C08", "ill-scoped-program-accepted", src, &format!("{origin} {e:?}")),
        }
    }
    // --- C16: the printed term reads back -----------------------------------------------------------
    {
        let printed = term.to_string();
        let mut toks2 = vec![];
        match front(&printed, &mut toks2) {
            Stage::Parsed(t2) => {
                if db_term_noshift(&t2) != db_term_noshift(&term) {
                    out.hit("C16", "printed-term-reads-back-differently", &printed, &format!("{origin} source={src}"));
                } else { out.stat("print:roundtrip-ok"); }
            }
            Stage::Panic(st, m) => out.hit("C14", &format!("{st}-panic"), &printed, &m),
            _ => out.hit("C16", "printed-term-does-not-parse", &printed, &format!("{origin} source={src}")),
        }
    }
    // --- C10: another layout of the same program parses to the same tree ----------------------------
    for _ in 0..2 {
        let st = Style { newlines: rng.chance(1, 2), redundant_parens: 0, comments: rng.chance(1, 2) };
        let alt = prog::render_ex(&p.e, &st, rng);
        let mut toks3 = vec![];
        let same = match front(&alt.text, &mut toks3) { Stage::Parsed(t3) => canon_term(&t3) == canon_term(&term) || !tree_ok, _ => false };
        if !same { out.hit("C10", "layout-changes-parse", &alt.text, &format!("{origin} original={src}")); } else { out.stat("layout:same-parse"); }
    }
    // --- C18: open subterms under two representations of their context --------------------------------
    if p.fully_annotated && tree_ok { c18_context_oracle(out, src, &term, rng, &origin); }
    // --- type checking: correspondence op `infer` ----------------------------------------------------
    let hc0 = holecopy_events();
    let hd0 = holedepth_events();
    let (mut tctx, mut dctx) = (vec![], vec![]);
    let c = check_term(names, src, &term, &mut tctx, &mut dctx);
    out.case(&c.op, &c.answer);
    if let Some(m) = &c.panic { out.hit("C14", "type_check-panic", src, &format!("{m} holedepth-events={}", holedepth_events() - hd0)); return; }
    if !c.ctx_restored { out.hit("C18", "contexts-not-restored", src, &c.answer); }
    // programs made around dependent types: conversion is what decides about them
    let conversion_matters = p.features.iter().any(|f| matches!(*f, "dep-indexed-predicate" | "dep-type-family" | "dep-type-level-if-on-bound-variable" | "dep-equality-by-predicate" | "dep-alias-group-under-binder"));
    let Some((elab, ty)) = c.accepted else {
        out.stat("stage:rejected");
        if let Some(why) = p.expect_reject {
            // a deliberate near miss: rejection is what the typing rules prescribe
            out.stat("near-miss:rejected(as expected)");
            out.stat(&format!("near-miss:{why}"));
            return;
        }
        if p.fully_annotated && tree_ok {
            out.hit("C05", "fully-annotated-well-typed-program-rejected", src, &format!("{origin} expected type {}", p.ty_src));
            if conversion_matters { out.hit("C06", "definitionally-equal-types-judged-different", src, &format!("{origin} well typed by construction (the types to be identified are convertible), rejected; expected type {}", p.ty_src)); }
        }
        return;
    };
    out.stat("stage:accepted");
    if let Some(why) = p.expect_reject {
        // The near miss requires two types to be equal that are not definitionally equal. Where a
        // hole was copied by substitution gram's known defect KF-holecopy decides, not the near miss.
        let hc = holecopy_events() - hc0;
        if !tree_ok || hc > 0 {
            out.stat("near-miss:accepted(excused: tree differs or hole copied)");
        } else {
            out.stat("near-miss:ACCEPTED");
            out.hit("C03", "ill-typed-program-accepted", src, &format!("{origin} deliberate near miss ({why}): ill typed by construction, accepted with type {ty}"));
            out.hit("C06", "types-that-are-not-definitionally-equal-judged-equal", src, &format!("{origin} deliberate near miss ({why}): accepted with type {ty}"));
        }
    }
    // --- C05: elaboration only fills holes; reported type equals the expected one ---------------------
    if ptr_str(&elab) != ptr_str(&term) {
        out.hit("C05", "elaboration-rewrote-the-term", src, &format!("{origin} input {} elaborated {}", ptr_str(&term), ptr_str(&elab)));
    }
    if tree_ok {
        if let Stage::Parsed(tyterm) = front(&p.ty_src, &mut ttoks) {
            if let Ok(Ok((tyel, _))) = guarded(|| crate::type_checker::type_check(None, &p.ty_src, &tyterm, &mut vec![], &mut vec![])) {
                match guarded(|| unify(&ty, &tyel, &mut vec![])) {
                    Ok(true) => out.stat("type:as-expected"),
                    Ok(false) => out.hit("C05", "reported-type-differs-from-expected", src, &format!("{origin} reported {} expected {}", ty, p.ty_src)),
                    Err(m) => out.hit("C14", "unify-panic", src, &m),
                }
            }
        }
    }
    // --- evaluation: correspondence op `evalz` ---------------------------------------------------------
    let mut es = Ser::new();
    es.names = std::mem::take(&mut names.names);
    es.name_list = std::mem::take(&mut names.name_list);
    let zonked = es.term(&elab, HoleMode::ZonkIds);
    let ev = run_eval(&elab, EVAL_CAP);
    let answer = match &ev {
        Err(_) => "panic".to_owned(),
        Ok((Final::Cap, _, n)) => if *n == usize::MAX { "timeout".to_owned() } else { "fuel".to_owned() },
        Ok((Final::Value, v, _)) => format!("value {}", es.term(v, HoleMode::ZonkErase)),
        Ok((Final::Stuck(r), v, _)) => format!("stuck {} {}", r, es.term(v, HoleMode::ZonkErase)),
    };
    // --- C03: the independent checker (Lean `inferX`) must accept the zonked elaboration at the reported type
    es.reset_holes();
    let oz_e = es.term(&elab, HoleMode::ZonkIds);
    let oz_t = es.term(&ty, HoleMode::ZonkIds);
    let hexsrc: String = src.bytes().map(|b| format!("{b:02x}")).collect();
    let hc = holecopy_events() - hc0;
    // --- C04: and the value, when there is one, at the same type
    let oz_v = match &ev { Ok((Final::Value, v, _)) => Some(es.term(v, HoleMode::ZonkIds)), _ => None };
    names.names = std::mem::take(&mut es.names);
    names.name_list = std::mem::take(&mut es.name_list);
    out.case(&format!("evalz {EVAL_CAP} {zonked}"), &answer);
    out.case(&format!("oracle 3000 {oz_e} {oz_t} C03 hc={hc} src:{hexsrc}"), "ok");
    if let Some(v) = oz_v { out.case(&format!("oracle 3000 {v} {oz_t} C04 hc={hc} src:{hexsrc}"), "ok"); }
    let (fin, val, _steps) = match ev { Err(m) => { out.hit("C14", "evaluate-panic", src, &m); return; } Ok(x) => x };
    let exp = format!("{:?}", p.expected);
    match &fin {
        Final::Cap => out.stat("eval:cap"),
        Final::Stuck(r) => {
            out.stat(&format!("eval:stuck-{r}"));
            if *r != "div-zero" {
                out.hit("C01", &format!("stuck-{r}"), src, &format!("{origin} forward-value-ref={} unresolved-hole-in-elaboration={} holecopy-events={} stuck-term={}", has_forward_value_ref(&term), has_unresolved(&elab), holecopy_events() - hc0, val));
            } else if !matches!(p.expected, Expected::DivZero | Expected::Unknown | Expected::Diverges) {
                out.hit("C02", "division-by-zero-not-prescribed", src, &format!("{origin} expected {exp}"));
            }
        }
        Final::Value => {
            out.stat("eval:value");
            let ok = match (&p.expected, &val.variant) {
                (Expected::Int(n), Variant::IntegerLiteral(m)) => n == m,
                (Expected::Bool(b), Variant::True) => *b,
                (Expected::Bool(b), Variant::False) => !*b,
                (Expected::Int(_) | Expected::Bool(_) | Expected::DivZero, _) => false,
                (Expected::Function, v) => matches!(v, Variant::Lambda(..)),
                (Expected::Type, v) => matches!(v, Variant::Type | Variant::Integer | Variant::Boolean | Variant::Pi(..)),
                _ => true,
            };
            if !ok {
                out.hit("C02", "value-differs-from-reference-semantics", src, &format!("{origin} expected {exp}, gram produced {val}"));
            } else if ok { out.stat("value:as-expected"); }
            // --- C04: the value has the shape of the reported type ------------------------------------
            match guarded(|| normalize_weak_head(&ty, &mut vec![])) {
                Ok(wty) => {
                    let want = match &wty.variant {
                        Variant::Integer => Some("int-literal"), Variant::Boolean => Some("boolean"),
                        Variant::Pi(..) => Some("function"), Variant::Type => Some("type"), _ => None,
                    };
                    if let Some(w) = want {
                        if value_kind(&val) != w {
                            out.hit("C04", "value-does-not-inhabit-reported-type", src, &format!("{origin} reported type {ty} (whnf {wty}), value {val} holecopy-events={}", holecopy_events() - hc0));
                        } else { out.stat("c04:shape-ok"); }
                    } else { out.stat("c04:type-not-canonical"); }
                }
                Err(m) => out.hit("C14", "normalize-panic", src, &m),
            }
            // --- C06: the checker's normalizer agrees with the evaluator; conversion contains reduction -
            if matches!(val.variant, Variant::IntegerLiteral(_) | Variant::True | Variant::False) {
                let t_whnf = std::time::Instant::now();
                match guarded(|| normalize_weak_head(&elab, &mut vec![])) {
                    Ok(w) => if !syntactically_equal(&w, &val) {
                        out.hit("C06", "normalizer-disagrees-with-evaluator", src, &format!("{origin} evaluate gives {val}, normalize_weak_head gives {w}"));
                    } else { out.stat("c06:whnf=eval"); },
                    Err(m) => out.hit("C14", "normalize-panic", src, &m),
                }
                // the normalizer works in normal order: a function with two recursive calls can cost
                // exponentially more than evaluation; the ten further normalisations below are
                // then left out
                let cheap = t_whnf.elapsed().as_millis() < 40;
                if !cheap { out.stat("c06:conversion-checks-skipped(normalisation-expensive)"); }
                if cheap {
                let refl = guarded(|| unify(&elab, &elab, &mut vec![]));
                if refl != Ok(true) { out.hit("C06", "term-not-equal-to-itself", src, &origin); }
                let red = guarded(|| unify(&elab, &val, &mut vec![]));
                if red != Ok(true) { out.hit("C06", "term-not-equal-to-its-value", src, &format!("{origin} value {val}")); }
                let red2 = guarded(|| unify(&val, &elab, &mut vec![]));
                if red2 != Ok(true) { out.hit("C06", "conversion-not-symmetric", src, &format!("{origin} value {val}")); }
                // a one-step and a few-step reduct
                let mut cur = elab.clone();
                for k in 0..3 {
                    match guarded(|| crate::evaluator::step(&cur)) { Ok(Some(n)) => cur = n, _ => break }
                    if guarded(|| unify(&elab, &cur, &mut vec![])) != Ok(true) {
                        out.hit("C06", "term-not-equal-to-its-reduct", src, &format!("{origin} after {} step(s): {cur}", k + 1));
                        break;
                    }
                }
                }
            }
        }
    }
    // --- C19: meaning-preserving rewrites ------------------------------------------------------------
    if tree_ok {
        let base = observe(src);
        let keep_types = p.features.contains(&"dep-recursive-type-family");
        let mut rws = prog::rewrites_opt(&p.e, rng, keep_types);
        // a bounded number per program, rotating over the kinds
        while rws.len() > 3 { let k = rng.below(rws.len()); rws.remove(k); }
        // rewrites inside definition groups, wherever they are nested; more of them for the
        // programs whose groups have types that mention their definitions
        let dependent = p.features.contains(&"dependent-mode");
        rws.extend(prog::rewrites_groups(&p.e, rng, if dependent { 3 } else { 1 }, keep_types));
        // a call added to a program with forward references can run into gram's known finding
        // KF-order (a function whose body has a group with a forward reference gets stuck when called)
        if p.features.contains(&"forward-ref") { rws.retain(|r| r.0 != "unused-call-in-group"); }
        for (kind, e2) in rws {
            let r2 = prog::render_ex(&e2, &Style { newlines: false, redundant_parens: 0, comments: false }, rng);
            let o2 = observe(&r2.text);
            out.stat(&format!("rewrite:{kind}"));
            if o2 != base {
                out.hit("C19", &format!("rewrite-changes-outcome:{kind}"), &r2.text, &format!("{origin} original `{src}` gave {base:?}, rewritten gave {o2:?}"));
            }
        }
    }
    // --- C15 (and C03): a type fault at a position whose expected type is known ------------------------
    // (not with a recursive type family around: an ill-typed variant can take away its base case,
    // and the checker, which goes on after the first diagnostic, then normalises for ever)
    if tree_ok && p.expect_reject.is_none() && !p.features.contains(&"dep-recursive-type-family") {
        if let Some(tp) = prog::perturb_typed(&p.e, rng) {
            let style = Style { newlines: rng.chance(1, 2), redundant_parens: [0, 0, 10][rng.below(3)], comments: rng.chance(1, 4) };
            let (r, spans) = prog::render_marked(&tp.e, &style, rng, Some(&tp.path));
            if let Some(spans) = spans { type_fault_oracle(out, &tp, &r.text, spans, &origin); }
        }
    }
}

// The program `text` has ONE type fault: the subexpression at `spans` has type `tp.got` where
// `int`/`bool` is required. The checker must reject it (C03), and one of its diagnostics must have
// exactly that subexpression as its range (C15). gram's convention, found by experiment on the
// pinned tree and the same at all five kinds of position (argument, operand, operand of a negation,
// condition, right-hand side of an annotated definition):
//   - anything but a chain (literal, name, negation, comparison, conditional, function, function
//     type, group of definitions): the subexpression WITH all parentheses directly around it;
//   - a chain (application, product/quotient, sum/difference; these are rebuilt by the parser's
//     re-association passes) without parentheses around it: from its first to its last operand;
//   - a chain in parentheses: the same, and the parentheses are included or not depending on how
//     re-association went (`(g (1))`, `(8 + (3 + 7))` with, `(1 + 2)`, `(g 1 (2))` without): both
//     are accepted here.
// A chain that BEGINS with a parenthesised operand and does not end with one, `(1 * 2) - 3`, is
// reported from inside the first parenthesis, `1 * 2) - 3`: that is a defect of gram (NOTES.md,
// finding F2); those hits carry `shape=chain-beginning-with-a-parenthesised-operand`.
fn type_fault_oracle(out: &mut Out, tp: &prog::TypedPerturb, text: &str, spans: prog::Spans, origin: &str) {
    if !out.begin(text) { out.stat("skipped-known-abort"); return; }
    let mut tokens = vec![];
    let term = match front(text, &mut tokens) {
        Stage::Parsed(t) => t,
        // replacing a value by a non-value (or the reverse) can break the definition-order rule
        _ => { out.stat("type-fault:not-applicable(front-end-rejects)"); return; }
    };
    if canon_term(&term) != canon_e(&tp.e) { out.stat("type-fault:not-applicable(parse-tree-differs)"); return; }
    crate::error::verif_hooks::LISTING_RANGES.with(|v| v.borrow_mut().clear());
    let r = guarded(|| crate::type_checker::type_check(None, text, &term, &mut vec![], &mut vec![]));
    let ranges: Vec<(usize, usize)> = crate::error::verif_hooks::LISTING_RANGES.with(|v| v.borrow().clone());
    let what = format!("{} of type {} where {} is required, written as a {}", tp.position, tp.got, if tp.expected_type { "a type" } else if tp.expected_int { "int" } else { "bool" }, tp.form);
    match r {
        Err(m) => { out.hit("C14", "type_check-panic", text, &m); return; }
        Ok(Ok((_, ty))) => {
            out.hit("C03", "type-fault-at-position-of-known-type-accepted", text, &format!("{origin} {what}: `{}`; accepted with type {ty}", &text[spans.full.0..spans.full.1]));
            return;
        }
        Ok(Err(_)) => {}
    }
    out.stat("type-fault:range-oracle-applied");
    out.stat(&format!("type-fault:position:{}", tp.position));
    out.stat(&format!("type-fault:form:{}", tp.form));
    let node = prog::at(&tp.e, &tp.path);
    let chain = prog::reported_span_is_core(node);
    let want = if chain { spans.core } else { spans.full };
    if ranges.contains(&want) || (chain && ranges.contains(&spans.full)) {
        out.stat("type-fault:range-is-the-offending-subexpression");
    } else {
        let shown: Vec<String> = ranges.iter().map(|(a, b)| format!("{a}..{b} `{}`", text.get(*a..*b).unwrap_or("?"))).collect();
        out.hit("C15", "type-error-range-is-not-the-offending-subexpression", text, &format!(
            "{origin} {what}; shape={}; expected range {}..{} `{}`; reported ranges: {}",
            if chain && text[want.0..want.1].starts_with('(') { "chain-beginning-with-a-parenthesised-operand" } else { "plain" },
            want.0, want.1, &text[want.0..want.1], shown.join(" | ")));
    }
}

// "naming a subexpression with a definition", applied to the universe itself: `u0 = type; …` with
// occurrences of `type` replaced by `u0` (so that `type` is reached through a definition)
fn alias_type(e: &E, rng: &mut Rng) -> Option<E> {
    fn go(e: &mut E, rng: &mut Rng, n: &mut usize) {
        if matches!(e, E::TyType) && rng.chance(2, 3) { *e = E::Var("u0_".to_owned()); *n += 1; return; }
        // a definition `u = type` stays a value (a variable is not one, and whether a definition is
        // a value decides if earlier definitions may mention it)
        if let E::Let(defs, body) = e {
            for (_, a, d) in defs.iter_mut() {
                if let Some(a) = a { go(a, rng, n); }
                if !matches!(prog::strip(d), E::TyType) { go(d, rng, n); }
            }
            go(body, rng, n);
            return;
        }
        for k in prog::kids_mut(e) { go(k, rng, n); }
    }
    let mut c = e.clone();
    let mut n = 0;
    go(&mut c, rng, &mut n);
    if n == 0 { return None; }
    Some(prog::mk_let(vec![("u0_".to_owned(), Some(E::TyType), E::TyType)], c))
}

// ---- E-order: every small definition group by kind (constant / function / recursive function) and
// every pattern of references between its definitions -------------------------------------------
#[derive(Clone, Copy, PartialEq)]
enum DK { Const, Fun, Rec }

fn order_program(kinds: &[DK], refs: &[Vec<usize>], names: &[String], body_refs: &[usize]) -> E {
    let int = || E::TyInt;
    let use_of = |j: usize| -> E { match kinds[j] { DK::Const => prog::var(&names[j]), DK::Fun => prog::app(prog::var(&names[j]), prog::lit(1)), DK::Rec => prog::app(prog::var(&names[j]), prog::lit(2)) } };
    let sum = |init: E, js: &[usize]| js.iter().fold(init, |acc, j| prog::bin(0, acc, use_of(*j)));
    let mut defs = vec![];
    for (i, k) in kinds.iter().enumerate() {
        let v = format!("v{i}");
        let (ann, rhs) = match k {
            // never a literal, so that the definition is not a value
            DK::Const => (int(), sum(prog::bin(0, prog::lit(1), prog::lit(1)), &refs[i])),
            DK::Fun => (prog::arrow(int(), int()), prog::lam(&v, Some(int()), sum(prog::var(&v), &refs[i]))),
            DK::Rec => (prog::arrow(int(), int()), prog::lam(&v, Some(int()),
                prog::ite(prog::bin(5, prog::var(&v), prog::lit(0)), prog::lit(0),
                    prog::bin(0, sum(prog::lit(2), &refs[i]), prog::app(prog::var(&names[i]), prog::bin(1, prog::var(&v), prog::lit(1))))))),
        };
        defs.push((names[i].clone(), Some(ann), rhs));
    }
    prog::mk_let(defs, sum(prog::lit(0), body_refs))
}

// the language's rule for definition order, stated independently: a non-value definition k may not
// reach, directly or through value definitions, a non-value definition at a position >= k
fn order_rule_accepts(kinds: &[DK], refs: &[Vec<usize>]) -> bool {
    let n = kinds.len();
    for k in 0..n {
        if kinds[k] != DK::Const { continue; }
        let mut seen = vec![false; n];
        let mut stack: Vec<usize> = refs[k].clone();
        while let Some(j) = stack.pop() {
            if seen[j] { continue; }
            seen[j] = true;
            if kinds[j] == DK::Const { if j >= k { return false; } } else {
                stack.extend(refs[j].iter().copied());
                if kinds[j] == DK::Rec { stack.push(j); }
            }
        }
    }
    true
}

fn run_order_patterns(out: &mut Out, names: &mut Ser, tier: &str, rng: &mut Rng) {
    let kinds_all = [DK::Const, DK::Fun, DK::Rec];
    let max_n = 3;
    let mut idx = 0usize;
    for n in 2..=max_n {
        let nk = 3usize.pow(n as u32);
        for kc in 0..nk {
            let kinds: Vec<DK> = (0..n).map(|i| kinds_all[(kc / 3usize.pow(i as u32)) % 3]).collect();
            let others: Vec<Vec<usize>> = (0..n).map(|i| (0..n).filter(|j| *j != i).collect()).collect();
            let subsets = 1usize << (n - 1);
            let total = subsets.pow(n as u32);
            for rc in 0..total {
                // in quick, thin out the 3-definition patterns
                if n == 3 && tier != "thorough" && rc % 3 != (kc % 3) { continue; }
                let refs: Vec<Vec<usize>> = (0..n).map(|i| {
                    let m = (rc / subsets.pow(i as u32)) % subsets;
                    others[i].iter().enumerate().filter(|(b, _)| m >> b & 1 == 1).map(|(_, j)| *j).collect()
                }).collect();
                // no cycle among function definitions other than a recursive function's own base-cased loop
                // (mutual recursion without a base case would diverge)
                let mut cyclic = false;
                for a in 0..n {
                    if kinds[a] == DK::Const { continue; }
                    let mut seen = vec![false; n];
                    let mut st: Vec<usize> = refs[a].iter().copied().filter(|j| kinds[*j] != DK::Const).collect();
                    while let Some(j) = st.pop() {
                        if j == a { cyclic = true; break; }
                        if seen[j] { continue; }
                        seen[j] = true;
                        st.extend(refs[j].iter().copied().filter(|q| kinds[*q] != DK::Const));
                    }
                }
                if cyclic { continue; }
                // one definition that nobody mentions may be named `_`
                let mentioned: Vec<bool> = (0..n).map(|j| refs.iter().any(|r| r.contains(&j)) || kinds[j] == DK::Rec).collect();
                let mut dnames: Vec<String> = (0..n).map(|i| format!("x{i}")).collect();
                let mut body_refs: Vec<usize> = (0..n).collect();
                if let Some(j) = (0..n).find(|j| !mentioned[*j]) {
                    if rng.chance(1, 2) { dnames[j] = "_".to_owned(); body_refs.retain(|b| *b != j); }
                }
                let e = order_program(&kinds, &refs, &dnames, &body_refs);
                let ok = order_rule_accepts(&kinds, &refs);
                let expected = if ok { prog::reference_eval(&e, 50_000) } else { Expected::Unknown };
                let src = prog::render_plain(&e);
                idx += 1;
                if ok {
                    let p = Prog { e, ty_src: "int".to_owned(), expected, features: vec!["order-pattern"], fully_annotated: true, expect_reject: None };
                    check_program(out, names, &p, &src, false, rng, 1_000_000 + idx);
                } else {
                    out.stat("order:rule-rejects");
                    // the front end must reject it (a definition is not available in time)
                    let mut toks = vec![];
                    if let Stage::Parsed(_) = front(&src, &mut toks) {
                        out.hit("C01", "definition-order-violation-accepted", &src, "a non-value definition reaches a later (or its own) non-value definition");
                    }
                }
            }
        }
    }
    out.stat_add("order-patterns", idx as u64);
}

pub fn run(out: &mut Out, tier: &str, seed: u64) {
    let mut names = Ser::new();
    names.name("_");
    let mut rng = Rng::new(seed ^ 0x6006);
    let n = if tier == "thorough" { 30000 } else { 2500 };
    for i in 0..n {
        let mut sub = rng.fork();
        let cfg = cfg_mix(i % 6, &mut sub);
        let p = prog::gen_program(&mut sub, &cfg);
        let style = style_mix(&mut sub);
        let r = prog::render_ex(&p.e, &style, &mut sub);
        check_program(out, &mut names, &p, &r.text, r.reassoc_defect_sites > 0, &mut sub, i);
        // the same program with the universe reached through a definition (1 in 3)
        if i % 3 == 0 {
            if let Some(e2) = alias_type(&p.e, &mut sub) {
                // the variant keeps the features of the program (some oracles depend on them); the
                // first one marks it as a variant, whose features are not counted again
                let mut features = vec!["universe-alias"];
                features.extend(p.features.iter().copied());
                let p2 = Prog { e: e2, ty_src: p.ty_src.clone(), expected: p.expected.clone(), features, fully_annotated: p.fully_annotated, expect_reject: p.expect_reject };
                let r2 = prog::render_ex(&p2.e, &style, &mut sub);
                check_program(out, &mut names, &p2, &r2.text, false, &mut sub, i);
            }
        }
    }
    out.stat_add("programs", n as u64);
    run_order_patterns(out, &mut names, tier, &mut rng);
}
