// Suite `programs`: type-directed generated programs (G-prog) through the real pipeline.
// Correspondence ops: `infer` (store layer) and `evalz` (evaluation of the zonked elaboration).
// Oracles on the implementation, each tagged with the property it decides:
//   C07 sentence accepted / tree shape      C08 indices vs. the reference resolver
//   C05 fully annotated accepted, elaboration = input, reported type = expected type
//   C02 value = reference semantics         C01 no stuck term other than division by zero
//   C04 value has the shape of the reported type
//   C06 normalizer agrees with evaluator; unify(t,t), unify(t, reduct)
//   C18 contexts restored                   C19 meaning-preserving rewrites
//   C10 re-layout keeps the parse           C16 printed term reads back
use crate::equality::syntactically_equal;
use crate::normalizer::normalize_weak_head;
use crate::out::{guarded, Out};
use crate::pipeline::*;
use crate::prog::{self, Expected, Prog, Style, E};
use crate::resolve_ref::{db_e, db_term, db_term_noshift};
use crate::rng::Rng;
use crate::ser::{HoleMode, Ser};
use crate::suite_progstat::{canon_e, canon_term, cfg_mix, style_mix};
use crate::term::{Term, Variant};
use crate::unifier::unify;
use std::rc::Rc;

fn ptr_str(t: &Term) -> String {
    use Variant::*;
    let b2 = |n: &str, a: &Term, b: &Term| format!("({n} {} {})", ptr_str(a), ptr_str(b));
    match &t.variant {
        Unifier(r, s) => format!("@{:x}:{s}", Rc::as_ptr(r) as usize),
        Type => "type".into(),
        Variable(x, i) => format!("{x}#{i}"),
        Lambda(x, i, d, b) => format!("(lam{} {x} {} {})", u8::from(*i), ptr_str(d), ptr_str(b)),
        Pi(x, i, d, b) => format!("(pi{} {x} {} {})", u8::from(*i), ptr_str(d), ptr_str(b)),
        Application(a, b) => b2("app", a, b),
        Let(defs, body) => format!("(let {} {})", defs.iter().map(|(x, a, d)| format!("[{x} {} {}]", ptr_str(a), ptr_str(d))).collect::<Vec<_>>().join(" "), ptr_str(body)),
        Integer => "int".into(),
        IntegerLiteral(n) => n.to_string(),
        Negation(a) => format!("(neg {})", ptr_str(a)),
        Sum(a, b) => b2("+", a, b), Difference(a, b) => b2("-", a, b), Product(a, b) => b2("*", a, b), Quotient(a, b) => b2("/", a, b),
        LessThan(a, b) => b2("<", a, b), LessThanOrEqualTo(a, b) => b2("<=", a, b), EqualTo(a, b) => b2("==", a, b),
        GreaterThan(a, b) => b2(">", a, b), GreaterThanOrEqualTo(a, b) => b2(">=", a, b),
        Boolean => "bool".into(), True => "true".into(), False => "false".into(),
        If(c, a, b) => format!("(if {} {} {})", ptr_str(c), ptr_str(a), ptr_str(b)),
    }
}

#[derive(Clone, Debug, PartialEq)]
pub enum Obs { Rejected(&'static str), Value(String), Stuck(String), Cap, Panic }

// (accepted?, printed value) the way `gram check` / `gram run` would show it
pub fn observe(src: &str) -> Obs {
    let mut tokens = vec![];
    let term = match front(src, &mut tokens) {
        Stage::TokErr(_) => return Obs::Rejected("tokenize"),
        Stage::ParseErr(_) => return Obs::Rejected("parse"),
        Stage::Panic(..) => return Obs::Panic,
        Stage::Parsed(t) => t,
    };
    let elab = match guarded(|| crate::type_checker::type_check(None, src, &term, &mut vec![], &mut vec![])) {
        Err(_) => return Obs::Panic,
        Ok(Err(_)) => return Obs::Rejected("type_check"),
        Ok(Ok((e, _))) => e,
    };
    match run_eval(&elab, EVAL_CAP) {
        Err(_) => Obs::Panic,
        Ok((Final::Cap, _, _)) => Obs::Cap,
        Ok((Final::Value, v, _)) => Obs::Value(match &v.variant {
            Variant::IntegerLiteral(_) | Variant::True | Variant::False => v.to_string(),
            Variant::Lambda(..) => "<function>".into(),
            _ => "<type>".into(),
        }),
        Ok((Final::Stuck(r), _, _)) => Obs::Stuck(r.to_owned()),
    }
}

fn value_kind(v: &Term) -> &'static str {
    match &v.variant {
        Variant::IntegerLiteral(_) => "int-literal",
        Variant::True | Variant::False => "boolean",
        Variant::Lambda(..) => "function",
        Variant::Type | Variant::Integer | Variant::Boolean | Variant::Pi(..) => "type",
        _ => "other",
    }
}

pub fn check_program(out: &mut Out, names: &mut Ser, p: &Prog, src: &str, defect_shape: bool, rng: &mut Rng, idx: usize) {
    let origin = format!("gprog#{idx}");
    if !out.begin(src) { out.stat("skipped-known-abort"); return; }
    for f in &p.features { out.stat(&format!("feature:{f}")); }
    // --- reference scoping -----------------------------------------------------------------------
    let want_db = db_e(&p.e, &mut vec![]);
    let mut ttoks = vec![];
    let mut tokens = vec![];
    let term = match front(src, &mut tokens) {
        Stage::TokErr(_) => { out.stat("stage:tok-err"); out.hit("C07", "sentence-rejected-by-tokenizer", src, &origin); return; }
        Stage::ParseErr(_) => {
            out.stat("stage:parse-err");
            if want_db.is_ok() {
                out.hit("C07", "sentence-rejected-by-parser", src, &origin);
                if p.fully_annotated { out.hit("C05", "fully-annotated-well-formed-program-rejected-by-front-end", src, &origin); }
            }
            return;
        }
        Stage::Panic(stage, m) => { out.hit("C14", &format!("{stage}-panic"), src, &m); return; }
        Stage::Parsed(t) => t,
    };
    out.stat("stage:parsed");
    // --- C07 tree shape, C08 binding ---------------------------------------------------------------
    let tree_ok = canon_term(&term) == canon_e(&p.e);
    if !tree_ok {
        out.stat("tree:differs");
        out.hit("C07", "tree-shape-differs-from-derivation", src, &format!("{origin} defect-shape={defect_shape} expected {} got {}", canon_e(&p.e), canon_term(&term)));
    } else {
        out.stat("tree:same");
        match &want_db {
            Ok(w) => if *w != db_term(&term) { out.hit("C08", "variable-bound-to-wrong-binder", src, &format!("{origin} expected {w} got {}", db_term(&term))); },
            Err(e) => out.hit("C08", "ill-scoped-program-accepted", src, &format!("{origin} {e:?}")),
        }
    }
    // --- C16: the printed term reads back -----------------------------------------------------------
    {
        let printed = term.to_string();
        let mut toks2 = vec![];
        match front(&printed, &mut toks2) {
            Stage::Parsed(t2) => {
                if db_term_noshift(&t2) != db_term_noshift(&term) {
                    out.hit("C16", "printed-term-reads-back-differently", &printed, &format!("{origin} source={src}"));
                } else { out.stat("print:roundtrip-ok"); }
            }
            Stage::Panic(st, m) => out.hit("C14", &format!("{st}-panic"), &printed, &m),
            _ => out.hit("C16", "printed-term-does-not-parse", &printed, &format!("{origin} source={src}")),
        }
    }
    // --- C10: another layout of the same program parses to the same tree ----------------------------
    for _ in 0..2 {
        let st = Style { newlines: rng.chance(1, 2), redundant_parens: 0, comments: rng.chance(1, 2) };
        let alt = prog::render_ex(&p.e, &st, rng);
        let mut toks3 = vec![];
        let same = match front(&alt.text, &mut toks3) { Stage::Parsed(t3) => canon_term(&t3) == canon_term(&term) || !tree_ok, _ => false };
        if !same { out.hit("C10", "layout-changes-parse", &alt.text, &format!("{origin} original={src}")); } else { out.stat("layout:same-parse"); }
    }
    // --- type checking: correspondence op `infer` ----------------------------------------------------
    let hc0 = holecopy_events();
    let hd0 = holedepth_events();
    let (mut tctx, mut dctx) = (vec![], vec![]);
    let c = check_term(names, src, &term, &mut tctx, &mut dctx);
    out.case(&c.op, &c.answer);
    if let Some(m) = &c.panic { out.hit("C14", "type_check-panic", src, &format!("{m} holedepth-events={}", holedepth_events() - hd0)); return; }
    if !c.ctx_restored { out.hit("C18", "contexts-not-restored", src, &c.answer); }
    let Some((elab, ty)) = c.accepted else {
        out.stat("stage:rejected");
        if p.fully_annotated && tree_ok { out.hit("C05", "fully-annotated-well-typed-program-rejected", src, &format!("{origin} expected type {}", p.ty_src)); }
        return;
    };
    out.stat("stage:accepted");
    // --- C05: elaboration only fills holes; reported type equals the expected one ---------------------
    if ptr_str(&elab) != ptr_str(&term) {
        out.hit("C05", "elaboration-rewrote-the-term", src, &format!("{origin} input {} elaborated {}", ptr_str(&term), ptr_str(&elab)));
    }
    if tree_ok {
        if let Stage::Parsed(tyterm) = front(&p.ty_src, &mut ttoks) {
            if let Ok(Ok((tyel, _))) = guarded(|| crate::type_checker::type_check(None, &p.ty_src, &tyterm, &mut vec![], &mut vec![])) {
                match guarded(|| unify(&ty, &tyel, &mut vec![])) {
                    Ok(true) => out.stat("type:as-expected"),
                    Ok(false) => out.hit("C05", "reported-type-differs-from-expected", src, &format!("{origin} reported {} expected {}", ty, p.ty_src)),
                    Err(m) => out.hit("C14", "unify-panic", src, &m),
                }
            }
        }
    }
    // --- evaluation: correspondence op `evalz` ---------------------------------------------------------
    let mut es = Ser::new();
    es.names = std::mem::take(&mut names.names);
    es.name_list = std::mem::take(&mut names.name_list);
    let zonked = es.term(&elab, HoleMode::ZonkIds);
    let ev = run_eval(&elab, EVAL_CAP);
    let answer = match &ev {
        Err(_) => "panic".to_owned(),
        Ok((Final::Cap, _, _)) => "fuel".to_owned(),
        Ok((Final::Value, v, _)) => format!("value {}", es.term(v, HoleMode::ZonkErase)),
        Ok((Final::Stuck(r), v, _)) => format!("stuck {} {}", r, es.term(v, HoleMode::ZonkErase)),
    };
    // --- C03: the independent checker (Lean `inferX`) must accept the zonked elaboration at the reported type
    es.reset_holes();
    let oz_e = es.term(&elab, HoleMode::ZonkIds);
    let oz_t = es.term(&ty, HoleMode::ZonkIds);
    let hexsrc: String = src.bytes().map(|b| format!("{b:02x}")).collect();
    let hc = holecopy_events() - hc0;
    // --- C04: and the value, when there is one, at the same type
    let oz_v = match &ev { Ok((Final::Value, v, _)) => Some(es.term(v, HoleMode::ZonkIds)), _ => None };
    names.names = std::mem::take(&mut es.names);
    names.name_list = std::mem::take(&mut es.name_list);
    out.case(&format!("evalz {EVAL_CAP} {zonked}"), &answer);
    out.case(&format!("oracle 3000 {oz_e} {oz_t} C03 hc={hc} src:{hexsrc}"), "ok");
    if let Some(v) = oz_v { out.case(&format!("oracle 3000 {v} {oz_t} C04 hc={hc} src:{hexsrc}"), "ok"); }
    let (fin, val, _steps) = match ev { Err(m) => { out.hit("C14", "evaluate-panic", src, &m); return; } Ok(x) => x };
    let exp = format!("{:?}", p.expected);
    match &fin {
        Final::Cap => out.stat("eval:cap"),
        Final::Stuck(r) => {
            out.stat(&format!("eval:stuck-{r}"));
            if *r != "div-zero" {
                out.hit("C01", &format!("stuck-{r}"), src, &format!("{origin} forward-value-ref={} unresolved-hole-in-elaboration={} holecopy-events={} stuck-term={}", has_forward_value_ref(&term), has_unresolved(&elab), holecopy_events() - hc0, val));
            } else if !matches!(p.expected, Expected::DivZero | Expected::Unknown | Expected::Diverges) {
                out.hit("C02", "division-by-zero-not-prescribed", src, &format!("{origin} expected {exp}"));
            }
        }
        Final::Value => {
            out.stat("eval:value");
            let ok = match (&p.expected, &val.variant) {
                (Expected::Int(n), Variant::IntegerLiteral(m)) => n == m,
                (Expected::Bool(b), Variant::True) => *b,
                (Expected::Bool(b), Variant::False) => !*b,
                (Expected::Int(_) | Expected::Bool(_) | Expected::DivZero, _) => false,
                (Expected::Function, v) => matches!(v, Variant::Lambda(..)),
                (Expected::Type, v) => matches!(v, Variant::Type | Variant::Integer | Variant::Boolean | Variant::Pi(..)),
                _ => true,
            };
            if !ok {
                out.hit("C02", "value-differs-from-reference-semantics", src, &format!("{origin} expected {exp}, gram produced {val}"));
            } else if ok { out.stat("value:as-expected"); }
            // --- C04: the value has the shape of the reported type ------------------------------------
            match guarded(|| normalize_weak_head(&ty, &mut vec![])) {
                Ok(wty) => {
                    let want = match &wty.variant {
                        Variant::Integer => Some("int-literal"), Variant::Boolean => Some("boolean"),
                        Variant::Pi(..) => Some("function"), Variant::Type => Some("type"), _ => None,
                    };
                    if let Some(w) = want {
                        if value_kind(&val) != w {
                            out.hit("C04", "value-does-not-inhabit-reported-type", src, &format!("{origin} reported type {ty} (whnf {wty}), value {val} holecopy-events={}", holecopy_events() - hc0));
                        } else { out.stat("c04:shape-ok"); }
                    } else { out.stat("c04:type-not-canonical"); }
                }
                Err(m) => out.hit("C14", "normalize-panic", src, &m),
            }
            // --- C06: the checker's normalizer agrees with the evaluator; conversion contains reduction -
            if matches!(val.variant, Variant::IntegerLiteral(_) | Variant::True | Variant::False) {
                match guarded(|| normalize_weak_head(&elab, &mut vec![])) {
                    Ok(w) => if !syntactically_equal(&w, &val) {
                        out.hit("C06", "normalizer-disagrees-with-evaluator", src, &format!("{origin} evaluate gives {val}, normalize_weak_head gives {w}"));
                    } else { out.stat("c06:whnf=eval"); },
                    Err(m) => out.hit("C14", "normalize-panic", src, &m),
                }
                let refl = guarded(|| unify(&elab, &elab, &mut vec![]));
                if refl != Ok(true) { out.hit("C06", "term-not-equal-to-itself", src, &origin); }
                let red = guarded(|| unify(&elab, &val, &mut vec![]));
                if red != Ok(true) { out.hit("C06", "term-not-equal-to-its-value", src, &format!("{origin} value {val}")); }
                let red2 = guarded(|| unify(&val, &elab, &mut vec![]));
                if red2 != Ok(true) { out.hit("C06", "conversion-not-symmetric", src, &format!("{origin} value {val}")); }
                // a one-step and a few-step reduct
                let mut cur = elab.clone();
                for k in 0..3 {
                    match guarded(|| crate::evaluator::step(&cur)) { Ok(Some(n)) => cur = n, _ => break }
                    if guarded(|| unify(&elab, &cur, &mut vec![])) != Ok(true) {
                        out.hit("C06", "term-not-equal-to-its-reduct", src, &format!("{origin} after {} step(s): {cur}", k + 1));
                        break;
                    }
                }
            }
        }
    }
    // --- C19: meaning-preserving rewrites ------------------------------------------------------------
    if tree_ok {
        let base = observe(src);
        let mut rws = prog::rewrites(&p.e, rng);
        // a bounded number per program, rotating over the kinds
        while rws.len() > 3 { let k = rng.below(rws.len()); rws.remove(k); }
        for (kind, e2) in rws {
            let r2 = prog::render_ex(&e2, &Style { newlines: false, redundant_parens: 0, comments: false }, rng);
            let o2 = observe(&r2.text);
            out.stat(&format!("rewrite:{kind}"));
            if o2 != base {
                out.hit("C19", &format!("rewrite-changes-outcome:{kind}"), &r2.text, &format!("{origin} original `{src}` gave {base:?}, rewritten gave {o2:?}"));
            }
        }
    }
}

// "naming a subexpression with a definition", applied to the universe itself: `u0 = type; …` with
// occurrences of `type` replaced by `u0` (so that `type` is reached through a definition)
fn alias_type(e: &E, rng: &mut Rng) -> Option<E> {
    fn go(e: &mut E, rng: &mut Rng, n: &mut usize) {
        if matches!(e, E::TyType) && rng.chance(2, 3) { *e = E::Var("u0_".to_owned()); *n += 1; return; }
        for k in prog::kids_mut(e) { go(k, rng, n); }
    }
    let mut c = e.clone();
    let mut n = 0;
    go(&mut c, rng, &mut n);
    if n == 0 { return None; }
    Some(prog::mk_let(vec![("u0_".to_owned(), Some(E::TyType), E::TyType)], c))
}

// ---- E-order: every small definition group by kind (constant / function / recursive function) and
// every pattern of references between its definitions -------------------------------------------
#[derive(Clone, Copy, PartialEq)]
enum DK { Const, Fun, Rec }

fn order_program(kinds: &[DK], refs: &[Vec<usize>], names: &[String], body_refs: &[usize]) -> E {
    let int = || E::TyInt;
    let use_of = |j: usize| -> E { match kinds[j] { DK::Const => prog::var(&names[j]), DK::Fun => prog::app(prog::var(&names[j]), prog::lit(1)), DK::Rec => prog::app(prog::var(&names[j]), prog::lit(2)) } };
    let sum = |init: E, js: &[usize]| js.iter().fold(init, |acc, j| prog::bin(0, acc, use_of(*j)));
    let mut defs = vec![];
    for (i, k) in kinds.iter().enumerate() {
        let v = format!("v{i}");
        let (ann, rhs) = match k {
            // never a literal, so that the definition is not a value
            DK::Const => (int(), sum(prog::bin(0, prog::lit(1), prog::lit(1)), &refs[i])),
            DK::Fun => (prog::arrow(int(), int()), prog::lam(&v, Some(int()), sum(prog::var(&v), &refs[i]))),
            DK::Rec => (prog::arrow(int(), int()), prog::lam(&v, Some(int()),
                prog::ite(prog::bin(5, prog::var(&v), prog::lit(0)), prog::lit(0),
                    prog::bin(0, sum(prog::lit(2), &refs[i]), prog::app(prog::var(&names[i]), prog::bin(1, prog::var(&v), prog::lit(1))))))),
        };
        defs.push((names[i].clone(), Some(ann), rhs));
    }
    prog::mk_let(defs, sum(prog::lit(0), body_refs))
}

// the language's rule for definition order, stated independently: a non-value definition k may not
// reach, directly or through value definitions, a non-value definition at a position >= k
fn order_rule_accepts(kinds: &[DK], refs: &[Vec<usize>]) -> bool {
    let n = kinds.len();
    for k in 0..n {
        if kinds[k] != DK::Const { continue; }
        let mut seen = vec![false; n];
        let mut stack: Vec<usize> = refs[k].clone();
        while let Some(j) = stack.pop() {
            if seen[j] { continue; }
            seen[j] = true;
            if kinds[j] == DK::Const { if j >= k { return false; } } else {
                stack.extend(refs[j].iter().copied());
                if kinds[j] == DK::Rec { stack.push(j); }
            }
        }
    }
    true
}

fn run_order_patterns(out: &mut Out, names: &mut Ser, tier: &str, rng: &mut Rng) {
    let kinds_all = [DK::Const, DK::Fun, DK::Rec];
    let max_n = 3;
    let mut idx = 0usize;
    for n in 2..=max_n {
        let nk = 3usize.pow(n as u32);
        for kc in 0..nk {
            let kinds: Vec<DK> = (0..n).map(|i| kinds_all[(kc / 3usize.pow(i as u32)) % 3]).collect();
            let others: Vec<Vec<usize>> = (0..n).map(|i| (0..n).filter(|j| *j != i).collect()).collect();
            let subsets = 1usize << (n - 1);
            let total = subsets.pow(n as u32);
            for rc in 0..total {
                // in quick, thin out the 3-definition patterns
                if n == 3 && tier != "thorough" && rc % 3 != (kc % 3) { continue; }
                let refs: Vec<Vec<usize>> = (0..n).map(|i| {
                    let m = (rc / subsets.pow(i as u32)) % subsets;
                    others[i].iter().enumerate().filter(|(b, _)| m >> b & 1 == 1).map(|(_, j)| *j).collect()
                }).collect();
                // no cycle among function definitions other than a recursive function's own base-cased loop
                // (mutual recursion without a base case would diverge)
                let mut cyclic = false;
                for a in 0..n {
                    if kinds[a] == DK::Const { continue; }
                    let mut seen = vec![false; n];
                    let mut st: Vec<usize> = refs[a].iter().copied().filter(|j| kinds[*j] != DK::Const).collect();
                    while let Some(j) = st.pop() {
                        if j == a { cyclic = true; break; }
                        if seen[j] { continue; }
                        seen[j] = true;
                        st.extend(refs[j].iter().copied().filter(|q| kinds[*q] != DK::Const));
                    }
                }
                if cyclic { continue; }
                // one definition that nobody mentions may be named `_`
                let mentioned: Vec<bool> = (0..n).map(|j| refs.iter().any(|r| r.contains(&j)) || kinds[j] == DK::Rec).collect();
                let mut dnames: Vec<String> = (0..n).map(|i| format!("x{i}")).collect();
                let mut body_refs: Vec<usize> = (0..n).collect();
                if let Some(j) = (0..n).find(|j| !mentioned[*j]) {
                    if rng.chance(1, 2) { dnames[j] = "_".to_owned(); body_refs.retain(|b| *b != j); }
                }
                let e = order_program(&kinds, &refs, &dnames, &body_refs);
                let ok = order_rule_accepts(&kinds, &refs);
                let expected = if ok { prog::reference_eval(&e, 50_000) } else { Expected::Unknown };
                let src = prog::render_plain(&e);
                idx += 1;
                if ok {
                    let p = Prog { e, ty_src: "int".to_owned(), expected, features: vec!["order-pattern"], fully_annotated: true };
                    check_program(out, names, &p, &src, false, rng, 1_000_000 + idx);
                } else {
                    out.stat("order:rule-rejects");
                    // the front end must reject it (a definition is not available in time)
                    let mut toks = vec![];
                    if let Stage::Parsed(_) = front(&src, &mut toks) {
                        out.hit("C01", "definition-order-violation-accepted", &src, "a non-value definition reaches a later (or its own) non-value definition");
                    }
                }
            }
        }
    }
    out.stat_add("order-patterns", idx as u64);
}

pub fn run(out: &mut Out, tier: &str, seed: u64) {
    let mut names = Ser::new();
    names.name("_");
    let mut rng = Rng::new(seed ^ 0x6006);
    let n = if tier == "thorough" { 30000 } else { 2500 };
    for i in 0..n {
        let mut sub = rng.fork();
        let cfg = cfg_mix(i % 6, &mut sub);
        let p = prog::gen_program(&mut sub, &cfg);
        let style = style_mix(&mut sub);
        let r = prog::render_ex(&p.e, &style, &mut sub);
        check_program(out, &mut names, &p, &r.text, r.reassoc_defect_sites > 0, &mut sub, i);
        // the same program with the universe reached through a definition (1 in 3)
        if i % 3 == 0 {
            if let Some(e2) = alias_type(&p.e, &mut sub) {
                let p2 = Prog { e: e2, ty_src: p.ty_src.clone(), expected: p.expected.clone(), features: vec!["universe-alias"], fully_annotated: p.fully_annotated };
                let r2 = prog::render_ex(&p2.e, &style, &mut sub);
                check_program(out, &mut names, &p2, &r2.text, false, &mut sub, i);
            }
        }
    }
    out.stat_add("programs", n as u64);
    run_order_patterns(out, &mut names, tier, &mut rng);
}
