// Family "scope-errors" of the `parser` suite (C08, C15; also feeds C07/C13-like order checks through
// the correspondence with the model): small source templates, enumerated exhaustively, in which
//   a. a name is bound twice (every ordered pair of binder forms, the inner one in every position of
//      the outer one, under several wrappers, in several layouts),
//   b. a name is used just outside the scope of its binder, or is not bound at all (every syntactic
//      position),
//   c. the valid twins of a. and b. (second binder renamed, `_` binders, sibling scopes, the same name
//      in a position the outer binder does not scope over),
//   d. programs with several scope diagnostics (their order and ranges).
// Every text goes through `suite_parser::check_text_ex`, i.e. it becomes a `parse` op compared with
// the Lean model (tree with all ranges, or the ranges of all diagnostics in order) and is seen by the
// suite's oracles.  In addition the family carries its own expectation: a reference resolver over the
// template's tree (written from the description of the scoping rules, it shares no code with the
// implementation) predicts the scope diagnostics -- kind, name and the byte range of the offending
// identifier, which the renderer recorded -- or the De Bruijn form of the accepted tree.
//
// Note on the reference: gram keeps ONE map name -> depth.  A clashing binder overwrites the entry and
// removes it when its scope ends, so after a clash the *outer* binding is gone as well and later uses of
// the name are reported as "not in scope" (`x => ((x => 1) x)` gives two diagnostics, and the second
// `x =>` in `x => ((x => 1) (x => 2))` is not a clash).  This only affects programs that are rejected
// anyway; the reference reproduces it so that complete diagnostic lists can be compared.
use crate::out::Out;
use crate::ser::Ser;
use crate::suite_parser::{check_text_ex, Diag, DiagKind, Seen};
use std::cell::Cell;
use std::collections::HashMap;

// ------------------------------------------------------------------------------------------- trees
#[derive(Clone, Debug)]
pub struct Id { pub name: String, pub at: Cell<(usize, usize)> }

fn id(n: &str) -> Id { Id { name: n.to_owned(), at: Cell::new((0, 0)) } }

#[derive(Clone, Debug)]
pub enum S {
    Atom(&'static str), // a keyword or literal: `1`, `int`, `true`, `type`, ...
    Var(Id),            // `_` included: a hole when nothing of that name is in scope (never is)
    Lam { var: Id, implicit: bool, ann: Option<Box<S>>, body: Box<S> },
    Pi { var: Id, implicit: bool, dom: Box<S>, cod: Box<S> },
    Arrow(Box<S>, Box<S>),
    App(Box<S>, Box<S>),
    Let(Vec<(Id, Option<S>, S)>, Box<S>),
    Neg(Box<S>),
    Bin(&'static str, Box<S>, Box<S>),
    If(Box<S>, Box<S>, Box<S>),
    Paren(Box<S>),
}

fn atom(a: &'static str) -> S { S::Atom(a) }
fn var(x: &str) -> S { S::Var(id(x)) }
fn app(f: S, a: S) -> S { S::App(Box::new(f), Box::new(a)) }
fn bin(op: &'static str, a: S, b: S) -> S { S::Bin(op, Box::new(a), Box::new(b)) }
fn ite(c: S, a: S, b: S) -> S { S::If(Box::new(c), Box::new(a), Box::new(b)) }
fn paren(a: S) -> S { S::Paren(Box::new(a)) }
fn arrow(a: S, b: S) -> S { S::Arrow(Box::new(a), Box::new(b)) }
fn lam(x: &str, body: S) -> S { S::Lam { var: id(x), implicit: false, ann: None, body: Box::new(body) } }
fn def(x: &str, rhs: S, body: S) -> S { S::Let(vec![(id(x), None, rhs)], Box::new(body)) }
fn group(defs: Vec<(&str, Option<S>, S)>, body: S) -> S { S::Let(defs.into_iter().map(|(x, a, d)| (id(x), a, d)).collect(), Box::new(body)) }

// the eight binder forms of grammar.y
#[derive(Clone, Copy, PartialEq, Debug)]
pub enum B { Lam, LamI, LamA, LamIA, Pi, PiI, Def, DefA }
pub const FORMS: [B; 8] = [B::Lam, B::LamI, B::LamA, B::LamIA, B::Pi, B::PiI, B::Def, B::DefA];

fn bname(b: B) -> &'static str {
    match b { B::Lam => "lam", B::LamI => "lam-implicit", B::LamA => "lam-annotated", B::LamIA => "lam-implicit-annotated", B::Pi => "pi", B::PiI => "pi-implicit", B::Def => "def", B::DefA => "def-annotated" }
}

// binder form `b` binding `x`: annotation / domain `ann` (where the form has one), right-hand side
// `rhs` (definitions), and `scope` = body / codomain / rest of the group
fn bind(b: B, x: &str, ann: S, rhs: S, scope: S) -> S {
    match b {
        B::Lam | B::LamI => S::Lam { var: id(x), implicit: b == B::LamI, ann: None, body: Box::new(scope) },
        B::LamA | B::LamIA => S::Lam { var: id(x), implicit: b == B::LamIA, ann: Some(Box::new(ann)), body: Box::new(scope) },
        B::Pi | B::PiI => S::Pi { var: id(x), implicit: b == B::PiI, dom: Box::new(ann), cod: Box::new(scope) },
        B::Def => S::Let(vec![(id(x), None, rhs)], Box::new(scope)),
        B::DefA => S::Let(vec![(id(x), Some(ann), rhs)], Box::new(scope)),
    }
}

// where a subterm can sit relative to a binder of `x`
#[derive(Clone, Copy, PartialEq, Debug)]
pub enum Pos { Scope, Ann, Rhs, LaterRhs, EarlierRhs, LaterAnn, EarlierAnn }
pub const POSITIONS: [Pos; 7] = [Pos::Scope, Pos::Ann, Pos::Rhs, Pos::LaterRhs, Pos::EarlierRhs, Pos::LaterAnn, Pos::EarlierAnn];

fn pname(p: Pos) -> &'static str {
    match p { Pos::Scope => "scope", Pos::Ann => "annotation", Pos::Rhs => "rhs", Pos::LaterRhs => "later-rhs", Pos::EarlierRhs => "earlier-rhs", Pos::LaterAnn => "later-annotation", Pos::EarlierAnn => "earlier-annotation" }
}

// `inner` placed at position `pos` of a binder of form `b1` for `x`; the second component says whether
// `x` is in scope there.  `fill` is what the binder's scope holds when `inner` sits elsewhere.
fn place(b1: B, pos: Pos, x: &str, inner: S, fill: S) -> Option<(S, bool)> {
    let is_def = matches!(b1, B::Def | B::DefA);
    let has_ann = matches!(b1, B::LamA | B::LamIA | B::Pi | B::PiI | B::DefA);
    let ann = if b1 == B::DefA { Some(atom("int")) } else { None };
    let own = |a: Option<S>, r: S| (id(x), a, r);
    Some(match pos {
        Pos::Scope => (bind(b1, x, atom("int"), atom("1"), inner), true),
        Pos::Ann if has_ann => (bind(b1, x, inner, atom("1"), fill), is_def),
        Pos::Rhs if is_def => (S::Let(vec![own(ann, inner)], Box::new(fill)), true),
        Pos::LaterRhs if is_def => (S::Let(vec![own(ann, atom("1")), (id("p"), None, inner)], Box::new(fill)), true),
        Pos::EarlierRhs if b1 == B::Def => (S::Let(vec![(id("p"), None, inner), own(ann, atom("1"))], Box::new(fill)), true),
        Pos::LaterAnn if b1 == B::DefA => (S::Let(vec![own(ann, atom("1")), (id("p"), Some(inner), atom("2"))], Box::new(fill)), true),
        Pos::EarlierAnn if b1 == B::DefA => (S::Let(vec![(id("p"), Some(inner), atom("2")), own(ann, atom("1"))], Box::new(fill)), true),
        _ => return None,
    })
}

// surroundings of the inner binder
pub const WRAPS: [&str; 5] = ["direct", "argument", "else-branch", "under-binder", "parenthesised"];
fn wrap(w: usize, inner: S) -> S {
    match w {
        0 => inner,
        1 => app(atom("int"), inner),
        2 => ite(atom("true"), atom("0"), inner),
        3 => lam("z", inner),
        _ => paren(inner),
    }
}

// ---------------------------------------------------------------------------------------- renderer
const ATOM: u8 = 0;
const APP: u8 = 1;
const MUL: u8 = 2;
const NEG: u8 = 3;
const ADD: u8 = 4;
const CMP: u8 = 5;
const JUMBO: u8 = 6;
const TERM: u8 = 7;

fn level(s: &S) -> u8 {
    match s {
        S::Atom(_) | S::Var(_) | S::Paren(_) => ATOM,
        S::App(..) => APP,
        S::Bin("*" | "/", ..) => MUL,
        S::Neg(_) => NEG,
        S::Bin("+" | "-", ..) => ADD,
        S::Bin(..) => CMP,
        S::Lam { .. } | S::Pi { .. } | S::Arrow(..) | S::If(..) => JUMBO,
        S::Let(..) => TERM,
    }
}

fn starts_with_minus(s: &S) -> bool {
    match s {
        S::Neg(_) => true,
        S::App(a, _) | S::Bin(_, a, _) | S::Arrow(a, _) => level(a) <= level(s) && starts_with_minus(a),
        _ => false,
    }
}

struct R { out: String, multiline: bool, depth: usize }

impl R {
    fn ident(&mut self, i: &Id) {
        let a = self.out.len();
        self.out.push_str(&i.name);
        i.at.set((a, self.out.len()));
    }
    // a place where a line break is never a terminator (after `=>`, `->`, `=`, `then`, `else`)
    fn brk(&mut self) {
        if self.multiline { self.out.push('\n'); for _ in 0..=self.depth { self.out.push_str("  "); } } else { self.out.push(' '); }
    }
    fn go(&mut self, s: &S, max: u8) {
        if level(s) > max { self.out.push('('); self.bare(s); self.out.push(')'); } else { self.bare(s); }
    }
    fn binder(&mut self, var: &Id, implicit: bool, ann: Option<&S>, arrow: &str) {
        match (implicit, ann) {
            (false, None) => self.ident(var),
            (true, None) => { self.out.push('{'); self.ident(var); self.out.push('}'); }
            (_, Some(a)) => {
                self.out.push(if implicit { '{' } else { '(' });
                self.ident(var);
                self.out.push_str(" : ");
                self.go(a, JUMBO);
                self.out.push(if implicit { '}' } else { ')' });
            }
        }
        self.out.push(' ');
        self.out.push_str(arrow);
        self.brk();
    }
    fn bare(&mut self, s: &S) {
        match s {
            S::Atom(a) => self.out.push_str(a),
            S::Var(i) => self.ident(i),
            S::Lam { var, implicit, ann, body } => { self.binder(var, *implicit, ann.as_deref(), "=>"); self.depth += 1; self.go(body, TERM); self.depth -= 1; }
            S::Pi { var, implicit, dom, cod } => { self.binder(var, *implicit, Some(dom), "->"); self.depth += 1; self.go(cod, TERM); self.depth -= 1; }
            S::Arrow(a, b) => { self.go(a, APP); self.out.push_str(" ->"); self.brk(); self.go(b, TERM); }
            S::App(f, a) => {
                if matches!(**f, S::App(..)) { self.bare(f); } else { self.go(f, ATOM); }
                self.out.push(' ');
                self.go(a, ATOM);
            }
            S::Let(defs, body) => {
                for (k, (x, a, d)) in defs.iter().enumerate() {
                    let minus_follows = k + 1 == defs.len() && starts_with_minus(body);
                    self.ident(x);
                    if let Some(a) = a { self.out.push_str(" : "); self.go(a, APP); }
                    self.out.push_str(" =");
                    self.depth += 1;
                    self.brk();
                    self.go(d, TERM);
                    self.depth -= 1;
                    // a line break after a definition is a terminator of its own (unless a `-` follows)
                    if self.multiline && !minus_follows {
                        self.out.push('\n');
                        for _ in 0..self.depth { self.out.push_str("  "); }
                    } else { self.out.push_str("; "); }
                }
                self.go(body, TERM);
            }
            S::Neg(a) => { self.out.push('-'); self.go(a, NEG); }
            S::Bin(op, a, b) => {
                let (l, r) = match *op { "+" | "-" => (ADD, NEG), "*" | "/" => (MUL, APP), _ => (ADD, ADD) };
                self.go(a, l);
                self.out.push(' '); self.out.push_str(op); self.out.push(' ');
                self.go(b, r);
            }
            S::If(c, a, b) => {
                self.out.push_str("if ");
                self.go(c, TERM);
                self.out.push_str(" then");
                self.brk();
                self.go(a, TERM);
                self.out.push_str(" else");
                self.brk();
                self.go(b, TERM);
            }
            S::Paren(a) => {
                let start = self.out.len();
                self.out.push('(');
                self.go(a, TERM);
                self.out.push(')');
                // a parenthesised variable is a subexpression whose range includes the parentheses
                if let S::Var(i) = strip(a) { i.at.set((start, self.out.len())); }
            }
        }
    }
}

// the layouts: where on the page the program (and so the offending identifier) ends up
pub const LAYOUTS: [&str; 5] = ["plain", "blank-lines", "comment-and-indent", "after-non-ascii-on-the-line", "multi-line"];

// Renders `s` in layout `k`; returns the text and the tree that text denotes (layout 3 puts the
// program into the group of a definition with a non-ASCII name).  The identifier ranges are recorded
// in the returned tree.
fn render(s: &S, k: usize) -> (String, S) {
    let (tree, prefix, multiline) = match k {
        0 => (s.clone(), "", false),
        1 => (s.clone(), "\n\n", false),
        2 => (s.clone(), "# les d\u{e9}finitions \u{2192} ci-dessous\n\t  ", false),
        3 => (S::Let(vec![(id("id\u{e9}"), None, atom("0"))], Box::new(s.clone())), "", false),
        _ => (s.clone(), "  ", true),
    };
    let mut r = R { out: prefix.to_owned(), multiline, depth: 0 };
    r.go(&tree, TERM);
    if k == 1 || k == 4 { r.out.push('\n'); }
    (r.out, tree)
}

// --------------------------------------------------------------------------------- reference resolver
struct Resolver { ctx: HashMap<String, usize>, diags: Vec<Diag> }

fn strip(s: &S) -> &S { match s { S::Paren(x) => strip(x), _ => s } }

impl Resolver {
    fn enter(&mut self, v: &Id, depth: usize) {
        if v.name != "_" {
            if self.ctx.contains_key(&v.name) {
                self.diags.push(Diag { kind: DiagKind::AlreadyExists, name: v.name.clone(), range: Some(v.at.get()) });
            }
            self.ctx.insert(v.name.clone(), depth);
        }
    }
    // the tree in the notation of `resolve_ref::db_term`
    fn go(&mut self, s: &S, depth: usize) -> String {
        match s {
            S::Atom(a) => (*a).to_owned(),
            S::Var(i) => match self.ctx.get(&i.name) {
                Some(d) => format!("#{}", depth - 1 - d),
                None => {
                    if i.name != "_" { self.diags.push(Diag { kind: DiagKind::NotInScope, name: i.name.clone(), range: Some(i.at.get()) }); }
                    "?0".to_owned()
                }
            },
            S::Lam { var, implicit, ann, body } => {
                let a = match ann { Some(a) => self.go(a, depth), None => "?0".to_owned() };
                self.enter(var, depth);
                let b = self.go(body, depth + 1);
                self.ctx.remove(&var.name);
                format!("(lam{} {a} {b})", if *implicit { "!" } else { "" })
            }
            S::Pi { var, implicit, dom, cod } => {
                let a = self.go(dom, depth);
                self.enter(var, depth);
                let b = self.go(cod, depth + 1);
                self.ctx.remove(&var.name);
                format!("(pi{} {a} {b})", if *implicit { "!" } else { "" })
            }
            S::Arrow(a, b) => format!("(pi {} {})", self.go(a, depth), self.go(b, depth + 1)),
            S::App(a, b) => format!("(app {} {})", self.go(a, depth), self.go(b, depth)),
            S::Let(..) => {
                // a group: the definitions of nested groups in body position (parentheses or not)
                let mut defs: Vec<&(Id, Option<S>, S)> = vec![];
                let mut cur = s;
                while let S::Let(ds, body) = strip(cur) { defs.extend(ds.iter()); cur = body; }
                let n = defs.len();
                for (i, (x, _, _)) in defs.iter().enumerate() { self.enter(x, depth + i); }
                let mut parts = vec![];
                for (i, (_, a, d)) in defs.iter().enumerate() {
                    let a = match a { Some(a) => self.go(a, depth + n), None => format!("?{}", n - i) };
                    let d = self.go(d, depth + n);
                    parts.push(format!("[{a} {d}]"));
                }
                let b = self.go(cur, depth + n);
                for (x, _, _) in &defs { self.ctx.remove(&x.name); }
                format!("(let {} {b})", parts.join(" "))
            }
            S::Neg(a) => format!("(neg {})", self.go(a, depth)),
            S::Bin(op, a, b) => format!("({op} {} {})", self.go(a, depth), self.go(b, depth)),
            S::If(c, a, b) => format!("(if {} {} {})", self.go(c, depth), self.go(a, depth), self.go(b, depth)),
            S::Paren(a) => self.go(a, depth),
        }
    }
}

fn reference(tree: &S, ctx: &[&str]) -> (Vec<Diag>, String) {
    let mut r = Resolver { ctx: ctx.iter().enumerate().map(|(i, x)| ((*x).to_owned(), i)).collect(), diags: vec![] };
    let db = r.go(tree, ctx.len());
    (r.diags, db)
}

// ------------------------------------------------------------------------------------------- cases
// What the sub-family itself promises about its inputs (independent of the reference resolver).
#[derive(Clone, Copy, PartialEq, Debug)]
enum Promise {
    Valid,                 // no scope diagnostic
    FirstClash,            // at least one diagnostic, the first one is a clash
    OneUnbound,            // exactly one diagnostic: an unbound name
    Count(usize),          // exactly that many scope diagnostics
    Any,
}

struct Case { sub: String, tree: S, layout: usize, ctx: Vec<&'static str>, promise: Promise }

struct Gen { cases: Vec<Case>, rot: HashMap<String, usize> }

impl Gen {
    // one layout, rotating within the sub-family
    fn one(&mut self, sub: &str, tree: S, promise: Promise) {
        let n = self.rot.entry(sub.to_owned()).or_insert(0);
        let k = *n % LAYOUTS.len();
        *n += 1;
        self.cases.push(Case { sub: sub.to_owned(), tree, layout: k, ctx: vec![], promise });
    }
    fn all(&mut self, sub: &str, tree: S, promise: Promise) {
        for k in 0..LAYOUTS.len() { self.cases.push(Case { sub: sub.to_owned(), tree: tree.clone(), layout: k, ctx: vec![], promise }); }
    }
    fn with_ctx(&mut self, sub: &str, tree: S, ctx: &[&'static str], promise: Promise) {
        for k in 0..LAYOUTS.len() { self.cases.push(Case { sub: sub.to_owned(), tree: tree.clone(), layout: k, ctx: ctx.to_vec(), promise }); }
    }
}

// an inner binder of form `b2` for `y` whose scope holds `leaf`
fn inner_binder(b2: B, y: &str, leaf: S) -> S { bind(b2, y, atom("int"), atom("1"), leaf) }

// one-hole contexts: every syntactic position a name can occur in
fn positions(u: &S) -> Vec<(&'static str, S)> {
    let u = || u.clone();
    let mut v: Vec<(&'static str, S)> = vec![
        ("root", u()),
        ("parenthesised", paren(u())),
        ("function", app(u(), atom("1"))),
        ("argument", app(atom("int"), u())),
        ("middle-argument", app(app(atom("int"), u()), atom("2"))),
        ("negation-operand", S::Neg(Box::new(u()))),
        ("condition", ite(u(), atom("1"), atom("2"))),
        ("then-branch", ite(atom("true"), u(), atom("2"))),
        ("else-branch", ite(atom("true"), atom("1"), u())),
        ("lam-body", lam("a", u())),
        ("lam-implicit-body", bind(B::LamI, "a", atom("int"), atom("1"), u())),
        ("lam-annotation", bind(B::LamA, "a", u(), atom("1"), atom("1"))),
        ("lam-annotated-body", bind(B::LamA, "a", atom("int"), atom("1"), u())),
        ("lam-implicit-annotation", bind(B::LamIA, "a", u(), atom("1"), atom("1"))),
        ("lam-implicit-annotated-body", bind(B::LamIA, "a", atom("int"), atom("1"), u())),
        ("pi-domain", bind(B::Pi, "a", u(), atom("1"), atom("int"))),
        ("pi-codomain", bind(B::Pi, "a", atom("int"), atom("1"), u())),
        ("pi-implicit-domain", bind(B::PiI, "a", u(), atom("1"), atom("int"))),
        ("pi-implicit-codomain", bind(B::PiI, "a", atom("int"), atom("1"), u())),
        ("arrow-domain", arrow(u(), atom("int"))),
        ("arrow-codomain", arrow(atom("int"), u())),
        ("def-rhs", def("a", u(), atom("0"))),
        ("def-body", def("a", atom("1"), u())),
        ("def-annotation", group(vec![("a", Some(u()), atom("1"))], atom("0"))),
        ("def-annotated-rhs", group(vec![("a", Some(atom("int")), u())], atom("0"))),
        ("second-def-rhs", group(vec![("a", None, atom("1")), ("b", None, u())], atom("0"))),
        ("second-def-annotation", group(vec![("a", None, atom("1")), ("b", Some(u()), atom("2"))], atom("0"))),
    ];
    for op in ["+", "-", "*", "/", "<", "<=", "==", ">", ">="] {
        v.push(("left-operand", bin(op, u(), atom("2"))));
        v.push(("right-operand", bin(op, atom("1"), u())));
    }
    v
}

fn generate() -> Vec<Case> {
    let mut g = Gen { cases: vec![], rot: HashMap::new() };
    let x = "x";

    // ---- a. CLASH, and c. the twins -------------------------------------------------------------
    for b1 in FORMS {
        for pos in POSITIONS {
            if place(b1, pos, x, atom("1"), atom("1")).is_none() { continue; }
            for b2 in FORMS {
                for w in 0..WRAPS.len() {
                    // same name twice
                    let inner = wrap(w, inner_binder(b2, x, var(x)));
                    let Some((t, in_scope)) = place(b1, pos, x, inner, var(x)) else { continue; };
                    if in_scope {
                        let sub = format!("clash:{}@{}", bname(b2), pname(pos));
                        if w == 0 { g.all(&sub, t, Promise::FirstClash); } else { g.one(&sub, t, Promise::FirstClash); }
                    } else {
                        // the outer binder does not scope over its own annotation / domain: no clash
                        g.one("valid:same-name-outside-scope", t, Promise::Valid);
                    }
                    // twin: the inner binder renamed
                    let inner = wrap(w, inner_binder(b2, "y", var("y")));
                    let (t, _) = place(b1, pos, x, inner, var(x)).unwrap();
                    g.one("valid:renamed-twin", t, Promise::Valid);
                }
                // the renamed inner binder's scope mentions both variables (indices to two binders)
                if let Some((t, true)) = place(b1, pos, x, inner_binder(b2, "y", app(var("y"), var(x))), var(x)) {
                    g.one("valid:both-used", t, Promise::Valid);
                }
                // `_` never binds: twice is fine, and it does not clash with / hide a real name
                let (t, _) = place(b1, pos, "_", inner_binder(b2, "_", var("_")), atom("0")).unwrap();
                g.one("valid:underscore-twice", t, Promise::Valid);
                let (t, x_visible) = place(b1, pos, x, atom("1"), var(x)).unwrap();
                let _ = t;
                let (t, _) = place(b1, pos, x, inner_binder(b2, "_", if x_visible { var(x) } else { atom("1") }), var(x)).unwrap();
                g.one("valid:underscore-inside", t, Promise::Valid);
                let (t, _) = place(b1, pos, "_", inner_binder(b2, x, var(x)), atom("0")).unwrap();
                g.one("valid:underscore-outside", t, Promise::Valid);
            }
        }
    }
    // the initial context counts as bound
    for b in FORMS {
        g.with_ctx(&format!("clash:{}@context", bname(b)), inner_binder(b, x, var(x)), &["x"], Promise::FirstClash);
        g.with_ctx("valid:context", inner_binder(b, "y", app(var("y"), var(x))), &["w", "x"], Promise::Valid);
        g.with_ctx(&format!("clash:{}@context", bname(b)), lam("z", inner_binder(b, "w", var(x))), &["w", "x"], Promise::FirstClash);
    }

    // ---- b. NOT IN SCOPE ------------------------------------------------------------------------
    for b in FORMS {
        // a closed binder of x, and x used next to it
        let closed = |name: &str| inner_binder(b, name, var(name));
        let sub = format!("unbound:after-{}", bname(b));
        // (in the two `group-body-...` contexts a parenthesised group in body position joins the group)
        let outside: Vec<(&str, Box<dyn Fn(S, S) -> S>)> = vec![
            ("argument-after", Box::new(|t, u| app(paren(t), u))),
            ("function-before", Box::new(|t, u| app(u, paren(t)))),
            ("right-operand", Box::new(|t, u| bin("+", paren(t), u))),
            ("left-operand", Box::new(|t, u| bin("*", u, paren(t)))),
            ("then-after-condition", Box::new(|t, u| ite(paren(t), u, atom("1")))),
            ("else-after-then", Box::new(|t, u| ite(atom("true"), t, u))),
            ("arrow-codomain", Box::new(|t, u| arrow(paren(t), u))),
            ("group-body-after-rhs", Box::new(|t, u| def("a", t, u))),
            ("later-rhs", Box::new(|t, u| group(vec![("a", None, t), ("b", None, u)], atom("0")))),
            ("earlier-rhs", Box::new(|t, u| group(vec![("a", None, u), ("b", None, t)], atom("0")))),
            ("group-body-after-annotation", Box::new(|t, u| group(vec![("a", Some(t), atom("1"))], u))),
            ("lam-body-after-annotation", Box::new(|t, u| S::Lam { var: id("a"), implicit: false, ann: Some(Box::new(t)), body: Box::new(u) })),
            ("pi-codomain-after-domain", Box::new(|t, u| S::Pi { var: id("a"), implicit: true, dom: Box::new(t), cod: Box::new(u) })),
        ];
        for (on, f) in &outside {
            g.one(&sub, f(closed(x), var(x)), Promise::OneUnbound);
            // twins: nothing outside; and a sibling scope re-using the name
            g.one("valid:nothing-outside", f(closed(x), atom("1")), Promise::Valid);
            let joins = on.starts_with("group-body") && matches!(b, B::Def | B::DefA);
            if joins { g.one("clash:sibling-group-joins-the-group", f(closed(x), paren(closed(x))), Promise::FirstClash); }
            else { g.one("valid:sibling-scopes", f(closed(x), paren(closed(x))), Promise::Valid); }
        }
        // the variable in its own annotation / domain (a group scopes over its annotations, the others do not)
        match b {
            B::LamA | B::LamIA | B::Pi | B::PiI => g.all(&format!("unbound:own-annotation-{}", bname(b)), bind(b, x, var(x), atom("1"), var(x)), Promise::OneUnbound),
            B::DefA => g.all("valid:own-annotation-def", bind(b, x, var(x), atom("1"), var(x)), Promise::Valid),
            B::Def => g.all("valid:own-rhs-def", bind(b, x, atom("int"), var(x), var(x)), Promise::Valid),
            _ => {}
        }
    }
    // a name that is bound nowhere, at every syntactic position; the twin binds it around the program
    let enclosing: Vec<(&str, Box<dyn Fn(S) -> S>)> = vec![
        ("top", Box::new(|t| t)),
        ("in-lam-body", Box::new(|t| lam("c", t))),
        ("in-pi-codomain", Box::new(|t| bind(B::PiI, "c", atom("type"), atom("1"), t))),
        ("in-def-rhs", Box::new(|t| def("c", t, atom("0")))),
        ("in-group-body", Box::new(|t| def("c", atom("1"), t))),
    ];
    for (en, e) in &enclosing {
        for (pn, t) in positions(&var("u")) {
            g.one(&format!("unbound:unknown-name@{pn}"), e(t.clone()), Promise::OneUnbound);
            if *en == "top" {
                g.one("valid:unknown-name-bound-around", def("u", atom("1"), t.clone()), Promise::Valid);
                g.one("valid:unknown-name-bound-around", lam("u", t), Promise::Valid);
            }
        }
    }
    // `_` as an expression is a hole at every position
    for (_, t) in positions(&var("_")) { g.one("valid:hole-expression", t, Promise::Valid); }

    // ---- d. several diagnostics -----------------------------------------------------------------
    for ba in FORMS {
        for bb in FORMS {
            let two = |a: &str, b: &str| ite(atom("true"), inner_binder(ba, a, var(a)), inner_binder(bb, b, var(b)));
            g.one("two:clash-clash", lam(x, lam("y", two(x, "y"))), Promise::Count(2));
            g.one("two:clash-clash", group(vec![(x, None, atom("1")), ("y", Some(atom("int")), atom("2"))], two("y", x)), Promise::Count(2));
            g.one("valid:two-renamed", lam(x, lam("y", two("v", "w"))), Promise::Valid);
        }
        let clash = || paren(inner_binder(ba, x, var(x)));
        g.one("two:clash-unbound", lam(x, bin("+", clash(), var("u"))), Promise::Count(2));
        g.one("two:unbound-clash", lam(x, bin("+", var("u"), clash())), Promise::Count(2));
        g.one("two:clash-unbound", def(x, atom("1"), app(app(atom("int"), clash()), var("u"))), Promise::Count(2));
        g.one("two:unbound-clash", def(x, app(var("u"), clash()), atom("0")), Promise::Count(2));
        // the outer binding does not survive the clash (see the note at the top)
        g.one("two:clash-then-outer-use", lam(x, app(clash(), var(x))), Promise::Count(2));
        g.one("two:clash-then-rebind", lam(x, app(clash(), clash())), Promise::Count(1));
    }
    let int = || Some(atom("int"));
    let hand: Vec<(S, Promise)> = vec![
        (group(vec![(x, None, atom("1")), ("y", None, atom("2")), (x, None, atom("3")), ("y", None, atom("4"))], var(x)), Promise::Count(2)),
        (group(vec![(x, None, atom("1")), ("y", None, atom("2")), ("y", None, atom("3")), (x, None, atom("4"))], var("y")), Promise::Count(2)),
        (group(vec![(x, None, atom("1")), (x, None, atom("2")), (x, None, atom("3"))], var(x)), Promise::Count(2)),
        (group(vec![(x, int(), atom("1")), ("y", None, atom("2")), ("y", int(), atom("3")), (x, None, atom("4"))], atom("0")), Promise::Count(2)),
        (group(vec![(x, None, atom("1")), ("y", None, atom("2")), ("z", None, atom("3")), ("z", None, atom("4")), ("y", None, atom("5")), (x, None, atom("6"))], atom("0")), Promise::Count(3)),
        (lam(x, group(vec![(x, None, atom("1")), (x, None, atom("2"))], var(x))), Promise::Count(2)),
        (lam(x, def(x, lam(x, var(x)), var(x))), Promise::Count(3)),
        (def(x, atom("1"), paren(def("y", atom("2"), paren(def(x, atom("3"), var("y")))))), Promise::Count(1)),
        (def(x, def(x, atom("1"), var(x)), var(x)), Promise::Any),
        (bin("+", var("u"), bin("*", var("v"), var("w"))), Promise::Count(3)),
        (bin("+", var("u"), var("u")), Promise::Count(2)),
        (app(var("u"), var("u")), Promise::Count(2)),
        (app(app(var("u"), paren(var("v"))), var("w")), Promise::Count(3)),
        (bind(B::LamA, x, var("u"), atom("1"), bind(B::Pi, x, var("v"), atom("1"), var(x))), Promise::Count(3)),
        (bind(B::PiI, x, var(x), atom("1"), bind(B::PiI, x, var(x), atom("1"), var(x))), Promise::Count(2)),
        (group(vec![(x, None, var("u")), (x, None, var("v"))], var("w")), Promise::Count(4)),
        (group(vec![(x, Some(var("u")), var("v")), ("y", Some(var("w")), var(x))], var("y")), Promise::Count(3)),
        (ite(var("u"), var("v"), var("w")), Promise::Count(3)),
        (ite(paren(lam(x, var(x))), var(x), paren(lam(x, var("y")))), Promise::Count(2)),
        // accepted programs with `_` definitions and binders (positions of the real names must not move)
        (group(vec![("_", None, atom("1")), ("_", None, atom("2"))], var("_")), Promise::Valid),
        (group(vec![("_", None, atom("1")), (x, None, atom("2"))], var(x)), Promise::Valid),
        (group(vec![(x, None, atom("1")), ("_", None, var(x)), ("y", None, atom("2")), ("_", int(), var("y"))], bin("+", var(x), var("y"))), Promise::Valid),
        (lam("_", lam("_", var("_"))), Promise::Valid),
        (lam(x, lam("_", lam("y", app(var(x), var("y"))))), Promise::Valid),
        (bind(B::Pi, "_", atom("int"), atom("1"), bind(B::Pi, "_", atom("int"), atom("1"), var("_"))), Promise::Valid),
        (bind(B::Pi, x, atom("type"), atom("1"), bind(B::PiI, "_", var(x), atom("1"), arrow(var(x), var(x)))), Promise::Valid),
        (bind(B::LamIA, x, atom("type"), atom("1"), bind(B::LamI, "_", atom("1"), atom("1"), arrow(var("_"), var(x)))), Promise::Valid),
        (arrow(atom("int"), arrow(atom("int"), lam(x, var(x)))), Promise::Valid),
        (lam(x, arrow(var(x), arrow(var(x), var(x)))), Promise::Valid),
    ];
    for (t, p) in hand {
        let sub = if p == Promise::Valid { "valid:hand-written" } else { "two:hand-written" };
        g.all(sub, t, p);
    }
    g.cases
}

fn show(ds: &[Diag]) -> String {
    ds.iter().map(|d| {
        let k = match d.kind { DiagKind::AlreadyExists => "already-exists", DiagKind::NotInScope => "not-in-scope", DiagKind::DefinitionOrder => "definition-order", DiagKind::Other => "other" };
        match d.range { Some((a, b)) => format!("{k} `{}` {a}..{b}", d.name), None => format!("{k} `{}`", d.name) }
    }).collect::<Vec<_>>().join(", ")
}

pub fn run(out: &mut Out, names: &mut Ser) {
    let cases = generate();
    let mut seen_texts = std::collections::HashSet::new();
    // SCOPE_FAMILY_DUMP=<file>: the inputs, one per line (sub-family, layout, context, text, expectation)
    let mut dump = std::env::var("SCOPE_FAMILY_DUMP").ok().and_then(|p| std::fs::File::create(p).ok());
    for c in &cases {
        let (text, tree) = render(&c.tree, c.layout);
        if !seen_texts.insert((text.clone(), c.ctx.clone())) { out.stat("scope-family:duplicate-text-skipped"); continue; }
        let (want, want_db) = reference(&tree, &c.ctx);
        if let Some(f) = dump.as_mut() {
            use std::io::Write;
            let _ = writeln!(f, "{}\t{}\t{}\t{}\t{}", c.sub, LAYOUTS[c.layout], c.ctx.join(","), text.replace('\n', "\\n").replace('\t', "\\t"), if want.is_empty() { format!("accept {want_db}") } else { show(&want) });
        }
        let head = c.sub.split(':').next().unwrap_or("");
        out.stat("scope-family:inputs");
        out.stat(&format!("scope-family:{head}"));
        out.stat(&format!("scope-sub:{}", c.sub));
        out.stat(&format!("scope-layout:{}", LAYOUTS[c.layout]));
        // the sub-family's own promise, against the reference (a failure is a defect of this generator)
        let kept = match c.promise {
            Promise::Valid => want.is_empty(),
            Promise::FirstClash => want.first().map_or(false, |d| d.kind == DiagKind::AlreadyExists),
            Promise::OneUnbound => want.len() == 1 && want[0].kind == DiagKind::NotInScope,
            Promise::Count(n) => want.len() == n,
            Promise::Any => true,
        };
        if !kept { out.hit("C08", "scope-family-template-does-not-keep-its-promise", &text, &format!("{} promised {:?}, reference resolver: [{}]", c.sub, c.promise, show(&want))); }
        let ctx: Vec<&str> = c.ctx.clone();
        let got = check_text_ex(out, names, &text, &ctx, false, true);
        match got {
            Seen::TokErr | Seen::Panic => out.hit("C07", "scope-family-template-not-tokenised-or-panic", &text, &c.sub),
            Seen::Accepted(db) => {
                out.stat("scope-family:accepted");
                if !want.is_empty() {
                    out.hit("C08", "ill-scoped-program-accepted", &text, &format!("{} expected diagnostics: [{}]", c.sub, show(&want)));
                } else if db != want_db {
                    out.hit("C08", "variable-bound-to-wrong-binder", &text, &format!("{} expected {want_db} got {db}", c.sub));
                } else { out.stat("scope-family:accepted-tree-as-expected"); }
            }
            Seen::Rejected(ds) => {
                let scope: Vec<Diag> = ds.iter().filter(|d| matches!(d.kind, DiagKind::AlreadyExists | DiagKind::NotInScope)).cloned().collect();
                // the templates are sentences of the grammar by construction
                if ds.iter().any(|d| d.kind == DiagKind::Other) {
                    out.hit("C07", "scope-family-template-rejected-with-a-syntax-diagnostic", &text, &c.sub);
                    continue;
                }
                if scope.is_empty() {
                    // not a scope matter: a definition-order error
                    if want.is_empty() { out.stat("scope-family:well-scoped-rejected-for-another-reason"); }
                    else { out.hit("C08", "ill-scoped-program-rejected-without-scope-diagnostic", &text, &format!("{} expected [{}]", c.sub, show(&want))); }
                    continue;
                }
                out.stat("scope-family:rejected-with-scope-diagnostics");
                let key = |v: &[Diag]| v.iter().map(|d| (d.kind.clone(), d.name.clone())).collect::<Vec<_>>();
                if want.is_empty() {
                    out.hit("C08", "well-scoped-program-rejected", &text, &format!("{} got [{}]", c.sub, show(&scope)));
                } else if key(&scope) != key(&want) {
                    out.hit("C08", "scope-diagnostics-differ-from-reference-resolver", &text, &format!("{} expected [{}] got [{}]", c.sub, show(&want), show(&scope)));
                } else if scope != want {
                    out.hit("C15", "scope-diagnostic-points-at-the-wrong-occurrence", &text, &format!("{} expected [{}] got [{}]", c.sub, show(&want), show(&scope)));
                } else {
                    out.stat("scope-family:diagnostics-as-expected");
                    out.stat_add("scope-family:diagnostics-compared", scope.len() as u64);
                }
            }
        }
    }
}
