// Suite `scaling` (C17): time of tokenize + parse for input families parameterised by n, and the
// memoisation counters (hook H1). Results are written as stat lines `scale:<family>:<n>` =
// microseconds and `memo:<family>:<n>` = cache misses; bin/check fits the growth and applies the
// bounds. `out.begin` records the family/size being measured, so a run that has to be killed is
// attributed to it.
use crate::out::{guarded, Out};
use crate::parser::parse;
use crate::parser::verif_hooks::CACHE_STATS;
use crate::tokenizer::tokenize;
use std::time::Instant;

pub fn family(name: &str, n: usize) -> String {
    match name {
        "nested-parens" => format!("{}1{}", "(".repeat(n), ")".repeat(n)),
        "unclosed-parens" => format!("{}1", "(".repeat(n)),
        "misclosed-parens" => format!("{}1{}", "(".repeat(n), "}".repeat(n)),
        // a parenthesised chain in the MIDDLE of a chain of the same family, nested n deep (each re-association
        // pass meets a grouped operand with an accumulator pending and an operator still to come)
        "nested-quotient-chain" => (0..n).fold("1".to_owned(), |acc, _| format!("1 * ({acc}) / 1")),
        "nested-difference-chain" => (0..n).fold("1".to_owned(), |acc, _| format!("1 + ({acc}) - 1")),
        "nested-application-chain" => format!("f => {}", (0..n).fold("1".to_owned(), |acc, _| format!("f 1 ({acc}) 1"))),
        // the parenthesised chain as the LAST operand / argument, nested n deep; and a malformed innermost term
        "nested-last-argument" => format!("f => {}", (0..n).fold("1".to_owned(), |acc, _| format!("f 1 ({acc})"))),
        "nested-last-operand" => (0..n).fold("1".to_owned(), |acc, i| if i % 2 == 0 { format!("1 - ({acc})") } else { format!("1 / ({acc})") }),
        "nested-argument-error" => format!("f => x => {}", (0..n).fold("if x".to_owned(), |acc, _| format!("f ({acc})"))),
        // let blocks of two definitions nested through lambdas inside a function that a later non-value
        // definition uses (what the definition-order pass walks: free variables of nested groups)
        "nested-let-lambda" => format!("f = ({} b{}); r = f 1; 0",
            (0..n).map(|i| format!("(x{i} : int) => a{i} = x{i}; b{i} = a{i};")).collect::<Vec<_>>().join(" "), n - 1),
        // a long chain of non-dependent arrows as a definition
        "arrow-definition" => format!("t = {} int; 0", "int -> ".repeat(n)),
        "nested-if-condition" => (0..n).fold("true".to_owned(), |acc, _| format!("if ({acc}) then true else false")),
        "plus-chain" => vec!["1"; n].join(" + "),
        "mixed-chain" => (0..n).map(|i| ["1 *", "2 -", "3 /", "4 +"][i % 4]).collect::<Vec<_>>().join(" ") + " 5",
        "application-chain" => format!("f = x => x; f {}", vec!["1"; n].join(" ")),
        "definitions" => (0..n).map(|i| format!("x{i} = {i}\n")).collect::<String>() + "x0",
        "nested-if" => vec!["if true then 1 else"; n].join(" ") + " 0",
        "truncated-if" => vec!["if true then"; n].join(" "),
        "lambda-chain" => (0..n).map(|i| format!("(a{i} : int) =>")).collect::<Vec<_>>().join(" ") + " 1",
        "arrow-chain" => vec!["int ->"; n].join(" ") + " int",
        "negation-chain" => format!("{}1", "- ".repeat(n)),
        "comparison-chain" => vec!["1 <"; n].join(" ") + " 2",
        // long AND nested: many definitions, then a nested expression
        "definitions-then-nested" => {
            let d = (n / 60).clamp(2, 14);
            (0..n).map(|i| format!("x{i} = {i}\n")).collect::<String>() + &format!("{}1{}", "(".repeat(d), ")".repeat(d))
        }
        // a dependency graph with sharing among function definitions, reached from one non-value definition
        "shared-dependencies" => {
            let m = (n / 10).clamp(3, 400);
            let mut s = String::from("f0 = (x : int) => x\nf1 = (x : int) => f0 x\n");
            for i in 2..m { s.push_str(&format!("f{i} = (x : int) => f{} (f{} x)\n", i - 1, i - 2)); }
            s.push_str(&format!("r = f{} 1\nr", m - 1));
            s
        }
        // nested groups inside definitions
        "nested-groups" => {
            let d = (n / 20).clamp(2, 200);
            let mut s = String::new();
            for i in 0..d { s.push_str(&format!("x{i} = (y{i} = {i}; ")); }
            s.push('0');
            for i in (0..d).rev() { s.push_str(&format!("); x{i}")); if i > 0 { s.push(' '); } }
            // keep it simple: the text may be ill-formed in detail; only time matters
            s
        }
        _ => String::new(),
    }
}

pub const FAMILIES: [&str; 25] = ["nested-parens", "unclosed-parens", "misclosed-parens", "nested-quotient-chain", "nested-difference-chain",
    "nested-application-chain", "nested-last-argument", "nested-last-operand", "nested-argument-error", "nested-let-lambda", "arrow-definition", "nested-if-condition", "plus-chain", "mixed-chain", "application-chain",
    "definitions", "nested-if", "truncated-if", "lambda-chain", "arrow-chain", "negation-chain", "comparison-chain",
    "definitions-then-nested", "shared-dependencies", "nested-groups"];

pub fn run(out: &mut Out, tier: &str, _seed: u64) {
    let sizes: &[usize] = if tier == "thorough" { &[250, 500, 1000, 2000, 4000] } else { &[250, 500, 1000, 2000] };
    // VERIF_SCALING_ONLY=<family>: measure one family again (bin/check re-measures before it reports growth)
    let only = std::env::var("VERIF_SCALING_ONLY").ok();
    for fam in FAMILIES {
        if only.as_deref().map_or(false, |o| o != fam) { continue; }
        for &n in sizes {
            let text = family(fam, n);
            let label = format!("family:{fam} n={n}");
            if !out.begin(&label) { continue; }
            CACHE_STATS.with(|s| *s.borrow_mut() = [(0, 0); 36]);
            let t0 = Instant::now();
            let r = guarded(|| {
                match tokenize(None, &text) {
                    Ok(toks) => { let n = toks.len(); let _ = parse(None, &text, &toks[..], &[]); n }
                    Err(_) => 0,
                }
            });
            let us = t0.elapsed().as_micros() as u64;
            let ntok = r.unwrap_or(0);
            let (hits, misses) = CACHE_STATS.with(|s| s.borrow().iter().fold((0usize, 0usize), |a, x| (a.0 + x.0, a.1 + x.1)));
            out.stat_add(&format!("scale:{fam}:{n}"), us);
            out.stat_add(&format!("tokens:{fam}:{n}"), ntok as u64);
            out.stat_add(&format!("memo-misses:{fam}:{n}"), misses as u64);
            out.stat_add(&format!("memo-hits:{fam}:{n}"), hits as u64);
            // each (nonterminal, position) is computed at most once: misses <= 36 * (tokens + 1)
            if misses > 36 * (ntok + 1) {
                out.hit("C17", "more-cache-misses-than-nonterminal-position-pairs", &label, &format!("{misses} misses for {ntok} tokens"));
            }
        }
    }
}
