// Suite `pipeline`: source programs through tokenize/parse/type_check/evaluate.
// Correspondence ops `infer` (store layer) and `eval` (pure layer, on the zonked elaboration);
// oracles: C01 (accepted programs do not get stuck), C18 (contexts restored), C14 (no panics,
// non-empty error lists).
use crate::out::Out;
use crate::pipeline::*;
use crate::rng::Rng;
use crate::ser::{HoleMode, Ser};
use std::io::BufRead;

// `# expect: value 5` / `# expect: accepted` / `# expect: rejected` on the first line of a corpus file
fn expectation(src: &str) -> Option<String> {
    let first = src.lines().next()?.trim();
    first.strip_prefix("# expect:").map(|s| s.trim().to_owned())
}

fn check_expectation(out: &mut Out, src: &str, origin: &str) {
    let Some(exp) = expectation(src) else { return; };
    let obs = crate::suite_programs::observe(src);
    use crate::suite_programs::Obs;
    let ok = match (&obs, exp.as_str()) {
        (Obs::Rejected(_), "rejected") => true,
        (Obs::Value(_) | Obs::Stuck(_) | Obs::Cap, "accepted") => true,
        (Obs::Value(v), e) if e.starts_with("value ") => v.trim_matches('`') == &e[6..],
        _ => false,
    };
    out.stat("corpus:expectations");
    if !ok {
        // a feature program with a known outcome: which property is hit depends on the direction
        let (prop, kind) = match (&obs, exp.as_str()) {
            (Obs::Rejected(_), _) => ("C05", "well-typed-feature-program-rejected"),
            (_, "rejected") => ("C03", "ill-typed-feature-program-accepted"),
            (Obs::Stuck(_), _) => ("C01", "feature-program-stuck"),
            _ => ("C02", "feature-program-wrong-value"),
        };
        out.hit(prop, kind, src, &format!("{origin} expected `{exp}`, observed {obs:?}"));
    }
}

pub fn check_source(out: &mut Out, names: &mut Ser, src: &str, origin: &str) {
    let mut tokens = vec![];
    let term = match front(src, &mut tokens) {
        Stage::TokErr(n) => { out.stat("stage:tok-err"); if n == 0 { out.hit("C14", "tokenize-empty-error-list", src, ""); } return; }
        Stage::ParseErr(n) => { out.stat("stage:parse-err"); if n == 0 { out.hit("C14", "parse-empty-error-list", src, ""); } return; }
        Stage::Panic(stage, m) => { out.stat("stage:panic"); out.hit("C14", &format!("{stage}-panic"), src, &m); return; }
        Stage::Parsed(t) => t,
    };
    out.stat("stage:parsed");
    if !out.begin(src) { out.stat("skipped-known-abort"); return; }
    let hc0 = holecopy_events();
    let hd0 = holedepth_events();
    let (mut tctx, mut dctx) = (vec![], vec![]);
    let c = check_term(names, src, &term, &mut tctx, &mut dctx);
    out.case(&c.op, &c.answer);
    if let Some(m) = &c.panic { out.hit("C14", "type_check-panic", src, &format!("{m} holedepth-events={}", holedepth_events() - hd0)); return; }
    if !c.ctx_restored { out.hit("C18", "contexts-not-restored", src, &c.answer); }
    let Some((elab, _ty)) = c.accepted else {
        out.stat("stage:rejected");
        if c.nerrs == 0 { out.hit("C14", "type_check-empty-error-list", src, ""); }
        return;
    };
    out.stat("stage:accepted");
    // evaluate the elaborated term (as `gram run` does)
    let mut es = Ser::new();
    es.names = std::mem::take(&mut names.names);
    es.name_list = std::mem::take(&mut names.name_list);
    let zonked = es.term(&elab, HoleMode::ZonkIds);
    let ev = run_eval(&elab, EVAL_CAP);
    let answer = match &ev {
        Err(_) => "panic".to_owned(),
        Ok((Final::Cap, _, _)) => "fuel".to_owned(),
        Ok((Final::Value, v, _)) => format!("value {}", es.term(v, HoleMode::ZonkErase)),
        Ok((Final::Stuck(r), v, _)) => format!("stuck {} {}", r, es.term(v, HoleMode::ZonkErase)),
    };
    es.reset_holes();
    let oz_e = es.term(&elab, HoleMode::ZonkIds);
    let oz_t = es.term(&_ty, HoleMode::ZonkIds);
    let hexsrc: String = src.bytes().map(|b| format!("{b:02x}")).collect();
    let hc = holecopy_events() - hc0;
    let oz_v = match &ev { Ok((Final::Value, v, _)) => Some(es.term(v, HoleMode::ZonkIds)), _ => None };
    names.names = std::mem::take(&mut es.names);
    names.name_list = std::mem::take(&mut es.name_list);
    out.case(&format!("evalz {EVAL_CAP} {zonked}"), &answer);
    out.case(&format!("oracle 3000 {oz_e} {oz_t} C03 hc={hc} src:{hexsrc}"), "ok");
    if let Some(v) = oz_v { out.case(&format!("oracle 3000 {v} {oz_t} C04 hc={hc} src:{hexsrc}"), "ok"); }
    match &ev {
        Err(m) => out.hit("C14", "evaluate-panic", src, m),
        Ok((Final::Value, _, n)) => { out.stat("eval:value"); out.stat_add("eval:steps", *n as u64); }
        Ok((Final::Cap, _, _)) => out.stat("eval:cap"),
        Ok((Final::Stuck(r), v, _)) => {
            out.stat(&format!("eval:stuck-{r}"));
            if *r != "div-zero" {
                let detail = format!("origin={origin} forward-value-ref={} unresolved-hole-in-elaboration={} holecopy-events={} stuck-term={}",
                    has_forward_value_ref(&term), has_unresolved(&elab), holecopy_events() - hc0, v);
                out.hit("C01", &format!("stuck-{r}"), src, &detail);
            }
        }
    }
}

pub fn run(out: &mut Out, tier: &str, seed: u64) {
    let mut names = Ser::new();
    names.name("_");
    let _rng = Rng::new(seed ^ 0xC01);
    // replay mode: a single source text
    if let Ok(path) = std::env::var("VERIF_ONLY_FILE") {
        if let Ok(src) = std::fs::read_to_string(&path) {
            check_source(out, &mut names, &src, "replay");
        }
        return;
    }
    // corpus first
    if let Ok(rd) = std::fs::read_dir(format!("{}/corpus", crate::out::verif_root())) {
        let mut files: Vec<_> = rd.filter_map(|e| e.ok()).map(|e| e.path()).filter(|p| p.extension().map_or(false, |x| x == "g")).collect();
        files.sort();
        for p in files {
            if let Ok(src) = std::fs::read_to_string(&p) {
                let origin = format!("corpus:{}", p.file_name().unwrap().to_string_lossy());
                check_source(out, &mut names, &src, &origin);
                check_expectation(out, &src, &origin);
                out.stat("corpus-files");
            }
        }
    }
    // E-small: every sentence of grammar.y up to a token bound (written by bin/esmall.py)
    let n = if tier == "thorough" { 6 } else { 5 };
    let path = format!("{}/build/gen/esmall-{n}.txt", crate::out::verif_root());
    if let Ok(f) = std::fs::File::open(&path) {
        for line in std::io::BufReader::new(f).lines().map_while(Result::ok) {
            check_source(out, &mut names, &line, "esmall");
            out.stat("esmall-sentences");
        }
    } else {
        eprintln!("E-small file {path} missing");
        std::process::exit(3);
    }
}
