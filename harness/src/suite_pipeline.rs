// Suite `pipeline`: source programs through tokenize/parse/type_check/evaluate.
// Correspondence ops `infer` (store layer) and `eval` (pure layer, on the zonked elaboration);
// oracles: C01 (accepted programs do not get stuck), C18 (contexts restored), C14 (no panics,
// non-empty error lists).
use crate::out::{guarded, Out};
use crate::pipeline::*;
use crate::rng::Rng;
use crate::ser::{HoleMode, Ser};
use std::io::BufRead;

// `# expect: value 5` / `# expect: accepted` / `# expect: rejected` on the first line of a corpus file
fn expectation(src: &str) -> Option<String> {
    let first = src.lines().next()?.trim();
    first.strip_prefix("# expect:").map(|s| s.trim().to_owned())
}

fn check_expectation(out: &mut Out, src: &str, origin: &str) {
    let Some(exp) = expectation(src) else { return; };
    let obs = crate::suite_programs::observe(src);
    use crate::suite_programs::Obs;
    let ok = match (&obs, exp.as_str()) {
        (Obs::Rejected(_), "rejected") => true,
        (Obs::Value(_) | Obs::Stuck(_) | Obs::Cap, "accepted") => true,
        (Obs::Value(v), e) if e.starts_with("value ") => v.trim_matches('`') == &e[6..],
        _ => false,
    };
    out.stat("corpus:expectations");
    if !ok {
        // a feature program with a known outcome: which property is hit depends on the direction
        let (prop, kind) = match (&obs, exp.as_str()) {
            (Obs::Rejected(_), _) => ("C05", "well-typed-feature-program-rejected"),
            (_, "rejected") => ("C03", "ill-typed-feature-program-accepted"),
            (Obs::Stuck(_), _) => ("C01", "feature-program-stuck"),
            _ => ("C02", "feature-program-wrong-value"),
        };
        out.hit(prop, kind, src, &format!("{origin} expected `{exp}`, observed {obs:?}"));
        // `# props: Cxx Cyy` on the second line: the program demonstrates these properties too (it is the
        // witness of an earlier violation of them), so a deviation on it is reported under each
        if let Some(list) = src.lines().nth(1).and_then(|l| l.trim().strip_prefix("# props:")) {
            for q in list.split_whitespace() {
                if q != prop { out.hit(q, kind, src, &format!("{origin} expected `{exp}`, observed {obs:?}")); }
            }
        }
    }
}

pub fn check_source(out: &mut Out, names: &mut Ser, src: &str, origin: &str) {
    let mut tokens = vec![];
    let term = match front(src, &mut tokens) {
        Stage::TokErr(n) => { out.stat("stage:tok-err"); if n == 0 { out.hit("C14", "tokenize-empty-error-list", src, ""); } return; }
        Stage::ParseErr(n) => { out.stat("stage:parse-err"); if n == 0 { out.hit("C14", "parse-empty-error-list", src, ""); } return; }
        Stage::Panic(stage, m) => { out.stat("stage:panic"); out.hit("C14", &format!("{stage}-panic"), src, &m); return; }
        Stage::Parsed(t) => t,
    };
    out.stat("stage:parsed");
    if !out.begin(src) { out.stat("skipped-known-abort"); return; }
    let hc0 = holecopy_events();
    let hd0 = holedepth_events();
    let (mut tctx, mut dctx) = (vec![], vec![]);
    let c = check_term(names, src, &term, &mut tctx, &mut dctx);
    out.case(&c.op, &c.answer);
    if let Some(m) = &c.panic { out.hit("C14", "type_check-panic", src, &format!("{m} holedepth-events={}", holedepth_events() - hd0)); return; }
    if !c.ctx_restored { out.hit("C18", "contexts-not-restored", src, &c.answer); }
    let Some((elab, _ty)) = c.accepted else {
        out.stat("stage:rejected");
        if c.nerrs == 0 { out.hit("C14", "type_check-empty-error-list", src, ""); }
        return;
    };
    out.stat("stage:accepted");
    // evaluate the elaborated term (as `gram run` does)
    let mut es = Ser::new();
    es.names = std::mem::take(&mut names.names);
    es.name_list = std::mem::take(&mut names.name_list);
    let zonked = es.term(&elab, HoleMode::ZonkIds);
    let ev = run_eval(&elab, EVAL_CAP);
    let answer = match &ev {
        Err(_) => "panic".to_owned(),
        Ok((Final::Cap, _, n)) => if *n == usize::MAX { "timeout".to_owned() } else { "fuel".to_owned() },
        Ok((Final::Value, v, _)) => format!("value {}", es.term(v, HoleMode::ZonkErase)),
        Ok((Final::Stuck(r), v, _)) => format!("stuck {} {}", r, es.term(v, HoleMode::ZonkErase)),
    };
    es.reset_holes();
    let oz_e = es.term(&elab, HoleMode::ZonkIds);
    let oz_t = es.term(&_ty, HoleMode::ZonkIds);
    let hexsrc: String = src.bytes().map(|b| format!("{b:02x}")).collect();
    let hc = holecopy_events() - hc0;
    let oz_v = match &ev { Ok((Final::Value, v, _)) => Some(es.term(v, HoleMode::ZonkIds)), _ => None };
    names.names = std::mem::take(&mut es.names);
    names.name_list = std::mem::take(&mut es.name_list);
    out.case(&format!("evalz {EVAL_CAP} {zonked}"), &answer);
    out.case(&format!("oracle 3000 {oz_e} {oz_t} C03 hc={hc} src:{hexsrc}"), "ok");
    if let Some(v) = oz_v { out.case(&format!("oracle 3000 {v} {oz_t} C04 hc={hc} src:{hexsrc}"), "ok"); }
    match &ev {
        Err(m) => out.hit("C14", "evaluate-panic", src, m),
        Ok((Final::Value, _, n)) => { out.stat("eval:value"); out.stat_add("eval:steps", *n as u64); }
        Ok((Final::Cap, _, _)) => out.stat("eval:cap"),
        Ok((Final::Stuck(r), v, _)) => {
            out.stat(&format!("eval:stuck-{r}"));
            if *r != "div-zero" {
                let detail = format!("origin={origin} forward-value-ref={} unresolved-hole-in-elaboration={} holecopy-events={} stuck-term={}",
                    has_forward_value_ref(&term), has_unresolved(&elab), holecopy_events() - hc0, v);
                out.hit("C01", &format!("stuck-{r}"), src, &detail);
            }
        }
    }
}

pub fn run(out: &mut Out, tier: &str, seed: u64) {
    let mut names = Ser::new();
    names.name("_");
    let mut rng = Rng::new(seed ^ 0xC01);
    // replay mode: a single source text
    if let Ok(path) = std::env::var("VERIF_ONLY_FILE") {
        if let Ok(src) = std::fs::read_to_string(&path) {
            check_source(out, &mut names, &src, "replay");
        }
        return;
    }
    // corpus first
    if let Ok(rd) = std::fs::read_dir(format!("{}/corpus", crate::out::verif_root())) {
        let mut files: Vec<_> = rd.filter_map(|e| e.ok()).map(|e| e.path()).filter(|p| p.extension().map_or(false, |x| x == "g")).collect();
        files.sort();
        for p in files {
            if let Ok(src) = std::fs::read_to_string(&p) {
                let origin = format!("corpus:{}", p.file_name().unwrap().to_string_lossy());
                check_source(out, &mut names, &src, &origin);
                check_expectation(out, &src, &origin);
                corpus_variants(out, &mut names, &src, &origin, &mut rng, if tier == "thorough" { 6 } else { 2 });
                out.stat("corpus-files");
            }
        }
    }
    // E-small: every sentence of grammar.y up to a token bound (written by bin/esmall.py)
    let n = if tier == "thorough" { 6 } else { 5 };
    let path = format!("{}/build/gen/esmall-{n}.txt", crate::out::verif_root());
    if let Ok(f) = std::fs::File::open(&path) {
        for line in std::io::BufReader::new(f).lines().map_while(Result::ok) {
            check_source(out, &mut names, &line, "esmall");
            out.stat("esmall-sentences");
        }
    } else {
        eprintln!("E-small file {path} missing");
        std::process::exit(3);
    }
}

// ---------------------------------------------------------------------------------------------------
// Variants of corpus programs.  Every corpus program (feature programs, witnesses of past violations) is
// rewritten at token level:
//   * meaning-preserving rewrites of C19 (consistent renaming, redundant parentheses, an unused definition
//     after any separator, naming the body, `if true` around the body, an annotated identity around the
//     body): acceptance and value must not change;
//   * small mutations (literal, operator of the same class, boolean constant, two adjacent top-level
//     segments swapped): no expectation, they only widen what the correspondence ops see.
// ---------------------------------------------------------------------------------------------------
use crate::suite_programs::{observe, Obs};
use crate::token::Variant as TV;

struct Tk { start: usize, end: usize, kind: TkKind }
#[derive(Clone, PartialEq)]
enum TkKind { Ident(String), Lit, Bool(bool), Op(&'static str, u8), Sep, Open, Close, Other }

fn lex(src: &str) -> Option<Vec<Tk>> {
    let toks = match guarded(|| crate::tokenizer::tokenize(None, src)) { Ok(Ok(t)) => t, _ => return None };
    Some(toks.iter().filter_map(|t| {
        let (s, e) = (t.source_range.start, t.source_range.end);
        let kind = match &t.variant {
            TV::Identifier(x) => TkKind::Ident((*x).to_owned()),
            TV::IntegerLiteral(_) => TkKind::Lit,
            TV::True => TkKind::Bool(true),
            TV::False => TkKind::Bool(false),
            TV::Plus => TkKind::Op("+", 0), TV::Minus => TkKind::Op("-", 0), TV::Asterisk => TkKind::Op("*", 0),
            TV::LessThan => TkKind::Op("<", 1), TV::LessThanOrEqualTo => TkKind::Op("<=", 1), TV::DoubleEquals => TkKind::Op("==", 1),
            TV::GreaterThan => TkKind::Op(">", 1), TV::GreaterThanOrEqualTo => TkKind::Op(">=", 1),
            TV::Terminator(_) => TkKind::Sep,
            TV::LeftParen | TV::LeftCurly => TkKind::Open,
            TV::RightParen | TV::RightCurly => TkKind::Close,
            _ => TkKind::Other,
        };
        Some(Tk { start: s, end: e, kind })
    }).collect())
}

fn splice(src: &str, edits: &mut Vec<(usize, usize, String)>) -> String {
    edits.sort_by_key(|e| (e.0, e.1));
    let mut out = String::new();
    let mut pos = 0;
    for (s, e, r) in edits.iter() {
        if *s < pos { continue; }
        out.push_str(&src[pos..*s]);
        out.push_str(r);
        pos = *e;
    }
    out.push_str(&src[pos..]);
    out
}

fn variants(src: &str, rng: &mut Rng, per_kind: usize) -> Vec<(&'static str, bool, String)> {
    // (kind, meaning preserving?, text)
    let mut out = vec![];
    let Some(tk) = lex(src) else { return out; };
    if tk.is_empty() { return out; }
    let code_start = tk[0].start;          // after the leading comment lines
    let fresh = |n: usize| format!("zq{n}w");
    let mut names: Vec<String> = tk.iter().filter_map(|t| if let TkKind::Ident(x) = &t.kind { Some(x.clone()) } else { None }).collect();
    names.sort(); names.dedup();
    names.retain(|n| n != "_" && !n.starts_with("zq"));
    // R1: consistent renaming of one name
    for k in 0..per_kind.min(names.len()) {
        let n = &names[(rng.below(names.len()) + k) % names.len()];
        let mut ed: Vec<_> = tk.iter().filter(|t| t.kind == TkKind::Ident(n.clone())).map(|t| (t.start, t.end, fresh(1))).collect();
        out.push(("rename", true, splice(src, &mut ed)));
    }
    // R2: redundant parentheses around an atom in expression position
    let atoms: Vec<usize> = (0..tk.len()).filter(|&i| {
        let next_binds = matches!(tk.get(i + 1).map(|t| &src[t.start..t.end]), Some("=" | ":" | "=>" | "}"));
        let prev_curly = i > 0 && &src[tk[i - 1].start..tk[i - 1].end] == "{";
        match &tk[i].kind { TkKind::Lit | TkKind::Bool(_) => true, TkKind::Ident(x) => x != "_" && !next_binds && !prev_curly, _ => false }
    }).collect();
    for _ in 0..per_kind.min(atoms.len()) {
        let t = &tk[atoms[rng.below(atoms.len())]];
        out.push(("parens", true, splice(src, &mut vec![(t.start, t.end, format!("({})", &src[t.start..t.end]))])));
    }
    // R3: an unused definition after a separator (any nesting depth), or in front of the whole program
    let seps: Vec<usize> = (0..tk.len()).filter(|&i| tk[i].kind == TkKind::Sep).collect();
    out.push(("unused-def-front", true, splice(src, &mut vec![(code_start, code_start, format!("{} = 1; ", fresh(2)))])));
    for _ in 0..per_kind.min(seps.len()) {
        let t = &tk[seps[rng.below(seps.len())]];
        // after `;` another `;`-terminated definition; after a separating line break a line of its own
        let ins = if &src[t.start..t.end] == ";" { format!(" {} = 1;", fresh(2)) } else { format!("{} = 1\n", fresh(2)) };
        out.push(("unused-def", true, splice(src, &mut vec![(t.end, t.end, ins)])));
    }
    // the body: everything after the last separator at bracket depth 0 (or the whole program)
    let mut depth = 0i32;
    let mut body_from = code_start;
    for t in &tk {
        match t.kind { TkKind::Open => depth += 1, TkKind::Close => depth -= 1, TkKind::Sep if depth == 0 => body_from = t.end, _ => {} }
    }
    let body_to = tk.last().unwrap().end;
    // the body rewrites need a body that really is one: the definitions in front of it must form a program of their
    // own (with a dummy body), and the body must not be a parenthesised group -- gram flattens `a = 1; (b = 2; c)` into
    // ONE group, so that naming such a body changes what scopes over what (a rewrite of another kind)
    let prefix_ok = {
        let probe = format!("{}0", &src[..body_from]);
        let mut toks = vec![];
        matches!(front(&probe, &mut toks), Stage::Parsed(_))
    };
    let body_is_group = {
        let b = src[body_from..body_to].trim();
        let inner: Vec<&Tk> = tk.iter().filter(|t| t.start >= body_from).collect();
        let mut depth = 0i32;
        let mut sep_at_1 = false;
        let mut closes_at_end = false;
        for (n, t) in inner.iter().enumerate() {
            match t.kind {
                TkKind::Open => depth += 1,
                TkKind::Close => { depth -= 1; if depth == 0 { closes_at_end = n + 1 == inner.len(); if !closes_at_end { break; } } }
                TkKind::Sep if depth == 1 => sep_at_1 = true,
                _ => {}
            }
        }
        b.starts_with('(') && closes_at_end && sep_at_1
    };
    if body_from < body_to && tk.last().unwrap().kind != TkKind::Sep && prefix_ok && !body_is_group {
        let body = src[body_from..body_to].trim().to_owned();
        let lead = if body_from == code_start { "" } else { " " };
        // R4: naming the body
        out.push(("name-body", true, splice(src, &mut vec![(body_from, body_to, format!("{lead}{} = {body}; {}", fresh(3), fresh(3)))])));
        // R5: `if true`
        out.push(("if-true", true, splice(src, &mut vec![(body_from, body_to, format!("{lead}if true then ({body}) else ({body})"))])));
        // R6: annotated identity, when the value's type is evident from the value
        if let Obs::Value(v) = observe(src) {
            let ty = if v == "true" || v == "false" { Some("bool") } else if v.trim_start_matches('-').chars().all(|c| c.is_ascii_digit()) && !v.is_empty() { Some("int") } else { None };
            if let Some(ty) = ty {
                out.push(("identity", true, splice(src, &mut vec![(body_from, body_to, format!("{lead}(({} : {ty}) => {}) ({body})", fresh(4), fresh(4)))])));
            }
        }
    }
    // mutations -- not for programs with type families: a mutated recursion argument of a type-level function
    // makes the implementation's normalizer (which has no step bound) run forever
    if src.contains("-> type") || src.contains("->type") { return out; }
    let lits: Vec<usize> = (0..tk.len()).filter(|&i| tk[i].kind == TkKind::Lit).collect();
    for _ in 0..per_kind.min(lits.len()) {
        let t = &tk[lits[rng.below(lits.len())]];
        out.push(("mut-literal", false, splice(src, &mut vec![(t.start, t.end, format!("{}", rng.below(4)))])));
    }
    let ops: Vec<usize> = (0..tk.len()).filter(|&i| matches!(tk[i].kind, TkKind::Op(..))).collect();
    for _ in 0..per_kind.min(ops.len()) {
        let t = &tk[ops[rng.below(ops.len())]];
        if let TkKind::Op(cur, class) = &t.kind {
            let pool: &[&str] = if *class == 0 { &["+", "-", "*"] } else { &["<", "<=", "==", ">", ">="] };
            let new = pool[rng.below(pool.len())];
            if new != *cur { out.push(("mut-operator", false, splice(src, &mut vec![(t.start, t.end, new.to_owned())]))); }
        }
    }
    let bools: Vec<usize> = (0..tk.len()).filter(|&i| matches!(tk[i].kind, TkKind::Bool(_))).collect();
    for _ in 0..per_kind.min(bools.len()) {
        let t = &tk[bools[rng.below(bools.len())]];
        if let TkKind::Bool(b) = t.kind { out.push(("mut-bool", false, splice(src, &mut vec![(t.start, t.end, (!b).to_string())]))); }
    }
    // two adjacent depth-0 segments swapped
    let mut cuts = vec![code_start];
    let mut depth = 0i32;
    for t in &tk {
        match t.kind { TkKind::Open => depth += 1, TkKind::Close => depth -= 1, TkKind::Sep if depth == 0 => cuts.push(t.end), _ => {} }
    }
    if cuts.len() >= 3 {
        for _ in 0..per_kind.min(cuts.len() - 2) {
            let i = rng.below(cuts.len() - 2);
            let (a, b, c) = (cuts[i], cuts[i + 1], cuts[i + 2]);
            let (s1, s2) = (&src[a..b], &src[b..c]);
            let s1t = s1.trim_end();
            let glue = if s1t.ends_with(';') { " " } else { "\n" };
            out.push(("mut-swap-definitions", false, format!("{}{}{}{}{}", &src[..a], s2, if s2.trim_end().ends_with(';') || s2.ends_with('\n') { "" } else { glue }, s1, &src[c..])));
        }
    }
    out
}

fn corpus_variants(out: &mut Out, names: &mut Ser, src: &str, origin: &str, rng: &mut Rng, per_kind: usize) {
    let base = observe(src);
    if base == Obs::Panic { return; }
    for (kind, preserving, text) in variants(src, rng, per_kind) {
        if text == src { continue; }
        out.stat(&format!("variant:{kind}"));
        check_source(out, names, &text, &format!("{origin}+{kind}"));
        if !preserving { continue; }
        let obs = observe(&text);
        let same = match (&base, &obs) {
            (Obs::Rejected(_), Obs::Rejected(_)) => true,
            (Obs::Cap, _) | (_, Obs::Cap) => true,      // no verdict within the step budget
            (a, b) => a == b,
        };
        if same { out.stat("variant:outcome-unchanged"); } else {
            out.hit("C19", &format!("rewrite-{kind}-changes-outcome"), &text, &format!("{origin} original outcome {base:?}, rewritten outcome {obs:?}; original program: {}", src.replace('\n', "\\n")));
        }
    }
}
