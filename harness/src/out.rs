// Output files of one suite run: the op lines fed to the Lean driver, the implementation's
// answers, the property-oracle hits found on the implementation, and distribution statistics.
use std::collections::BTreeMap;
use std::fs::File;
use std::io::{BufWriter, Write};
use std::panic::{catch_unwind, AssertUnwindSafe};

pub struct Out {
    ops: BufWriter<File>,
    imp: BufWriter<File>,
    hits: BufWriter<File>,
    pub stats: BTreeMap<String, u64>,
    pub samples: Vec<String>,
    pub cases: u64,
    pub nhits: u64,
    dir: String,
    suite: String,
    pub skip: std::collections::HashSet<String>,
    current: Option<File>,
}

impl Out {
    pub fn new(dir: &str, suite: &str) -> Self {
        std::fs::create_dir_all(dir).unwrap();
        let f = |ext: &str| BufWriter::new(File::create(format!("{dir}/{suite}.{ext}")).unwrap());
        Out {
            ops: f("ops"),
            imp: f("impl"),
            hits: f("hits"),
            stats: BTreeMap::new(),
            samples: vec![],
            cases: 0,
            nhits: 0,
            dir: dir.to_owned(),
            suite: suite.to_owned(),
            skip: load_skip(),
            current: None,
        }
    }

    // Record the input about to be processed, so that an abort (stack exhaustion) of the
    // implementation can be attributed to it by bin/check, which then re-runs with it skipped.
    pub fn begin(&mut self, input: &str) -> bool {
        let esc = input.replace('\\', "\\\\").replace('\n', "\\n");
        if self.skip.contains(&esc) {
            return false;
        }
        // one positioned write per case, no truncation: `<len>\n<input>` at offset 0
        use std::io::{Seek, SeekFrom};
        if self.current.is_none() {
            self.current = File::create(format!("{}/{}.current", self.dir, self.suite)).ok();
        }
        if let Some(f) = self.current.as_mut() {
            let payload = format!("{:010}\n{}", esc.len(), esc);
            let _ = f.seek(SeekFrom::Start(0));
            let _ = f.write_all(payload.as_bytes());
        }
        true
    }

    // One correspondence case: the op line and what the implementation answered.
    pub fn case(&mut self, op: &str, imp: &str) {
        debug_assert!(!op.contains('\n') && !imp.contains('\n'));
        writeln!(self.ops, "{op}").unwrap();
        writeln!(self.imp, "{imp}").unwrap();
        self.cases += 1;
        if self.samples.len() < 12 && (self.cases % 97 == 1) {
            self.samples.push(format!("{op}  =>  {imp}"));
        }
    }

    // A violation of the property itself, observed on the implementation.
    pub fn hit(&mut self, property: &str, kind: &str, input: &str, detail: &str) {
        let clean = |s: &str| s.replace('\t', " ").replace('\n', "\\n");
        writeln!(self.hits, "{}\t{}\t{}\t{}", property, kind, clean(input), clean(detail)).unwrap();
        self.nhits += 1;
    }

    pub fn stat(&mut self, key: &str) {
        *self.stats.entry(key.to_owned()).or_insert(0) += 1;
    }
    pub fn stat_add(&mut self, key: &str, n: u64) {
        *self.stats.entry(key.to_owned()).or_insert(0) += n;
    }

    pub fn finish(mut self) {
        self.ops.flush().unwrap();
        self.imp.flush().unwrap();
        self.hits.flush().unwrap();
        let _ = std::fs::remove_file(format!("{}/{}.current", self.dir, self.suite));
        let mut f = File::create(format!("{}/{}.stats", self.dir, self.suite)).unwrap();
        writeln!(f, "cases\t{}", self.cases).unwrap();
        writeln!(f, "hits\t{}", self.nhits).unwrap();
        for (k, v) in &self.stats {
            writeln!(f, "stat:{k}\t{v}").unwrap();
        }
        for s in &self.samples {
            writeln!(f, "sample\t{s}").unwrap();
        }
    }
}

// root of the verification tree (bin/check passes its own location)
pub fn verif_root() -> String {
    std::env::var("VERIF_ROOT").unwrap_or_else(|_| "/verif".to_owned())
}

fn load_skip() -> std::collections::HashSet<String> {
    let mut set = std::collections::HashSet::new();
    if let Ok(p) = std::env::var("VERIF_SKIP") {
        if let Ok(txt) = std::fs::read_to_string(p) {
            for l in txt.lines() { set.insert(l.to_owned()); }
        }
    }
    set
}

// Run `f`, mapping a panic to `Err(message)`.
pub fn guarded<T>(f: impl FnOnce() -> T) -> Result<T, String> {
    catch_unwind(AssertUnwindSafe(f)).map_err(|e| {
        if let Some(s) = e.downcast_ref::<String>() {
            s.clone()
        } else if let Some(s) = e.downcast_ref::<&str>() {
            (*s).to_owned()
        } else {
            "panic".to_owned()
        }
    })
}
