// Suite `parser` (C07, C08, C14, C15, C17): correspondence ops `parse` (tokens -> resolved term
// with the source range of every node, or the ranges of the diagnostics in order) and
// `parsestats` (per-nonterminal memoisation hits/misses, hook H1).
use crate::error::verif_hooks::LISTING_RANGES;
use crate::out::{guarded, Out};
use crate::parser::parse;
use crate::pipeline::{front, Stage};
use crate::parser::verif_hooks::CACHE_STATS;
use crate::prog;
use crate::rng::Rng;
use crate::ser::Ser;
use crate::suite_lexer::tag;
use crate::suite_progstat::cfg_mix;
use crate::term::{Term, Variant};
use crate::token::{Token, Variant as TV};
use crate::tokenizer::tokenize;
use std::collections::HashMap;
use std::io::BufRead;
use std::rc::Rc;

pub fn toks_str(names: &mut Ser, toks: &[Token]) -> String {
    let mut out = String::from("(");
    for (k, t) in toks.iter().enumerate() {
        if k > 0 { out.push(' '); }
        let payload = match &t.variant {
            TV::Identifier(s) => format!(" {}", names.name(s)),
            TV::IntegerLiteral(n) => format!(" {n}"),
            _ => String::new(),
        };
        out.push_str(&format!("({} {} {}{})", tag(&t.variant), t.source_range.start, t.source_range.end, payload));
    }
    out.push(')');
    out
}

// term with the source range of every node: `(@ s e NODE)`, `(@ - - NODE)` when there is none
pub fn ranged(names: &mut Ser, t: &Term, holes: &mut HashMap<usize, usize>) -> String {
    use Variant::*;
    let r = match t.source_range { Some(r) => format!("{} {}", r.start, r.end), None => "- -".to_owned() };
    let mut bin = |op: &str, a: &Term, b: &Term, names: &mut Ser, holes: &mut HashMap<usize, usize>| format!("(O {op} {} {})", ranged(names, a, holes), ranged(names, b, holes));
    let node = match &t.variant {
        Unifier(c, s) => {
            let addr = Rc::as_ptr(c) as usize;
            let n = holes.len();
            let id = *holes.entry(addr).or_insert(n);
            format!("(h {id} {s})")
        }
        Type => "T".into(), Integer => "I".into(), Boolean => "B".into(), True => "t".into(), False => "f".into(),
        IntegerLiteral(n) => format!("(n {n})"),
        Variable(x, i) => format!("(v {} {i})", names.name(x)),
        Lambda(x, i, d, b) => format!("(L {} {} {} {})", names.name(x), u8::from(*i), ranged(names, d, holes), ranged(names, b, holes)),
        Pi(x, i, d, b) => format!("(P {} {} {} {})", names.name(x), u8::from(*i), ranged(names, d, holes), ranged(names, b, holes)),
        Application(a, b) => format!("(A {} {})", ranged(names, a, holes), ranged(names, b, holes)),
        Let(defs, body) => {
            let mut s = String::from("(G ");
            for (x, a, d) in defs { s.push_str(&format!("(D {} {} {}) ", names.name(x), ranged(names, a, holes), ranged(names, d, holes))); }
            s.push_str(&ranged(names, body, holes));
            s.push(')');
            s
        }
        Negation(a) => format!("(N {})", ranged(names, a, holes)),
        Sum(a, b) => bin("+", a, b, names, holes), Difference(a, b) => bin("-", a, b, names, holes),
        Product(a, b) => bin("*", a, b, names, holes), Quotient(a, b) => bin("/", a, b, names, holes),
        LessThan(a, b) => bin("<", a, b, names, holes), LessThanOrEqualTo(a, b) => bin("<=", a, b, names, holes),
        EqualTo(a, b) => bin("==", a, b, names, holes), GreaterThan(a, b) => bin(">", a, b, names, holes),
        GreaterThanOrEqualTo(a, b) => bin(">=", a, b, names, holes),
        If(c, a, b) => format!("(F {} {} {})", ranged(names, c, holes), ranged(names, a, holes), ranged(names, b, holes)),
    };
    format!("(@ {r} {node})")
}

pub fn reset_hooks() {
    LISTING_RANGES.with(|v| v.borrow_mut().clear());
    CACHE_STATS.with(|s| *s.borrow_mut() = [(0, 0); 36]);
}

thread_local! {
    static GRAMMAR: std::cell::RefCell<Option<crate::earley::Grammar>> = const { std::cell::RefCell::new(None) };
}

// C07, one direction: whatever the parser accepts is a sentence of grammar.y, with exactly one derivation
fn check_sentence(out: &mut Out, text: &str, toks: &[Token], accepted: bool, parse_errors_only: bool) {
    GRAMMAR.with(|g| {
        let mut g = g.borrow_mut();
        if g.is_none() { *g = crate::earley::load(&format!("{}/grammar.y", std::env::var("GRAM_REPO").unwrap_or_else(|_| "/repo".to_owned()))).ok(); }
        let Some(gr) = g.as_ref() else { return; };
        let names: Vec<&str> = toks.iter().map(|t| crate::earley::TERMINAL_OF_TAG[tag(&t.variant)]).collect();
        let is_sentence = gr.recognises(&names);
        if accepted && !is_sentence {
            out.hit("C07", "accepted-token-sequence-is-not-a-sentence-of-grammar.y", text, "");
        }
        if accepted && is_sentence && names.len() <= 14 {
            let n = gr.count_derivations(&names);
            if n != 1 { out.hit("C07", "sentence-with-several-derivations", text, &format!("{n}+ derivations")); }
            out.stat("grammar:unambiguous-checked");
        }
        if !accepted && parse_errors_only && is_sentence {
            // rejected although it is a sentence and no scoping is involved
            out.hit("C07", "sentence-rejected", text, "");
        }
        out.stat(if is_sentence { "grammar:sentence" } else { "grammar:non-sentence" });
    });
}

// What the front end did with one text, for the callers that have an expectation of their own.
pub enum Seen {
    TokErr,
    Panic,
    // accepted: the resolved tree in the notation of `resolve_ref::db_term` (only when asked for)
    Accepted(String),
    // rejected: the diagnostics in order
    Rejected(Vec<Diag>),
}

#[derive(Clone, Debug, PartialEq)]
pub enum DiagKind { AlreadyExists, NotInScope, DefinitionOrder, Other }

#[derive(Clone, Debug, PartialEq)]
pub struct Diag { pub kind: DiagKind, pub name: String, pub range: Option<(usize, usize)> }

// "Variable `x` already exists." / "Variable `x` not in scope." (colours are off: names are in backticks)
pub fn scope_diag(message: &str) -> (DiagKind, String) {
    if let Some(p) = message.find("Variable `") {
        let rest = &message[p + 10..];
        if let Some(q) = rest.find('`') {
            let tail = &rest[q + 1..];
            if tail.starts_with(" already exists.") { return (DiagKind::AlreadyExists, rest[..q].to_owned()); }
            if tail.starts_with(" not in scope.") { return (DiagKind::NotInScope, rest[..q].to_owned()); }
        }
    }
    if message.contains("which will not be available in time during evaluation") { return (DiagKind::DefinitionOrder, String::new()); }
    (DiagKind::Other, String::new())
}

// C15 ("for scoping errors the range is precisely the text of the offending identifier or
// subexpression"): the range of a scope diagnostic about `x` is the identifier `x` itself -- for a
// re-bound name exactly the binder's identifier, for an unbound name the identifier possibly with the
// parentheses around it (a parenthesised variable is a subexpression whose range includes them).
fn check_scope_range(out: &mut Out, text: &str, toks: &[Token], d: &Diag) {
    let Some((a, b)) = d.range else { return; };
    if a > b || b > text.len() || !text.is_char_boundary(a) || !text.is_char_boundary(b) { return; } // reported by the caller
    let inside: Vec<&Token> = toks.iter().filter(|t| a <= t.source_range.start && t.source_range.end <= b).collect();
    let idents: Vec<&&Token> = inside.iter().filter(|t| !matches!(t.variant, TV::LeftParen | TV::RightParen)).collect();
    let is_x = idents.len() == 1 && matches!(&idents[0].variant, TV::Identifier(s) if *s == d.name.as_str());
    let exact = &text[a..b] == d.name.as_str();
    let good = match d.kind { DiagKind::AlreadyExists => exact, DiagKind::NotInScope => exact || (is_x && text[a..b].starts_with('(') && text[a..b].ends_with(')')), _ => true };
    out.stat("scope-diag:range-checked");
    if !good {
        let kind = if d.kind == DiagKind::AlreadyExists { "rebound-name-diagnostic-does-not-point-at-the-binder-identifier" } else { "unbound-name-diagnostic-does-not-point-at-the-identifier" };
        out.hit("C15", kind, text, &format!("variable `{}`: reported range {a}..{b} is the text `{}`", d.name, &text[a..b]));
    }
}

pub fn check_text(out: &mut Out, names: &mut Ser, text: &str, ctx: &[&str], with_stats: bool) {
    check_text_ex(out, names, text, ctx, with_stats, false);
}

pub fn check_text_ex(out: &mut Out, names: &mut Ser, text: &str, ctx: &[&str], with_stats: bool, want_db: bool) -> Seen {
    let toks = match guarded(|| tokenize(None, text)) { Ok(Ok(t)) => t, Ok(Err(_)) => { out.stat("parser:tok-err"); return Seen::TokErr; } Err(m) => { out.hit("C14", "tokenize-panic", text, &m); return Seen::Panic; } };
    let ts = toks_str(names, &toks);
    let cs = format!("({})", ctx.iter().map(|c| names.name(c).to_string()).collect::<Vec<_>>().join(" "));
    reset_hooks();
    let r = guarded(|| parse(None, text, &toks[..], ctx));
    let ranges: Vec<(usize, usize)> = LISTING_RANGES.with(|v| v.borrow().clone());
    let stats: [(usize, usize); 36] = CACHE_STATS.with(|s| *s.borrow());
    let mut seen = Seen::Panic;
    let answer = match &r {
        Err(m) => { out.hit("C14", "parse-panic", text, m); "panic".to_owned() }
        Ok(Ok(t)) => {
            out.stat("parser:ok");
            check_sentence(out, text, &toks, true, false);
            seen = Seen::Accepted(if want_db { crate::resolve_ref::db_term(t) } else { String::new() });
            format!("ok {}", ranged(names, t, &mut HashMap::new()))
        }
        Ok(Err(es)) => {
            out.stat("parser:err");
            if es.is_empty() { out.hit("C14", "parse-empty-error-list", text, ""); }
            // a rejection whose diagnostics are all syntax errors ("Expected ...", "never closed") of a sentence
            let syntax_only = es.iter().all(|e| e.message.contains("Expected") || e.message.contains("never closed"));
            check_sentence(out, text, &toks, false, syntax_only);
            // every diagnostic range lies within the text, on character boundaries
            for (a, b) in &ranges {
                if a > b || *b > text.len() || !text.is_char_boundary(*a) || !text.is_char_boundary(*b) {
                    out.hit("C15", "diagnostic-range-outside-text", text, &format!("{a}..{b}"));
                }
            }
            // scope diagnostics name their variable: the range must be that identifier. Every scope
            // diagnostic takes exactly one listing (hook H3), in order; syntax errors ("never closed")
            // may take two, but never occur together with scope diagnostics.
            let mut diags: Vec<Diag> = es.iter().map(|e| { let (kind, name) = scope_diag(&e.message); Diag { kind, name, range: None } }).collect();
            if diags.iter().any(|d| matches!(d.kind, DiagKind::AlreadyExists | DiagKind::NotInScope)) {
                if diags.len() == ranges.len() {
                    for (d, r) in diags.iter_mut().zip(&ranges) { d.range = Some(*r); }
                    for d in &diags { check_scope_range(out, text, &toks, d); }
                } else {
                    out.hit("C15", "scope-diagnostics-and-listed-ranges-do-not-pair-up", text, &format!("{} diagnostics, {} listings", diags.len(), ranges.len()));
                }
            }
            seen = Seen::Rejected(diags);
            format!("err {} {}", es.len(), ranges.iter().map(|(a, b)| format!("({a} {b})")).collect::<Vec<_>>().join(" "))
        }
    };
    out.case(&format!("parse {cs} {ts}"), &answer);
    if with_stats {
        out.case(&format!("parsestats {ts}"), &stats.iter().map(|(h, m)| format!("{h}:{m}")).collect::<Vec<_>>().join(" "));
    }
    seen
}

const SOUP: [&str; 30] = ["*", "bool", ":", "==", "else", "=", "false", ">", ">=", "x", "if", "int", "1", "{", "(", "<", "<=", "-", "+", "}", ")", "/", "\n", ";", "then", "=>", "->", "true", "type", "y"];

pub fn run(out: &mut Out, tier: &str, seed: u64) {
    let mut names = Ser::new();
    names.name("_");
    let mut rng = Rng::new(seed ^ 0xC07);
    // family "scope-errors": name clashes and unbound names at every binder form and position, with
    // valid twins and multi-diagnostic programs (deterministic, exhaustive over its templates, both tiers)
    crate::scope_family::run(out, &mut names);
    // corpus
    if let Ok(rd) = std::fs::read_dir(format!("{}/corpus", crate::out::verif_root())) {
        let mut files: Vec<_> = rd.filter_map(|e| e.ok()).map(|e| e.path()).filter(|p| p.extension().map_or(false, |x| x == "g")).collect();
        files.sort();
        for p in files { if let Ok(src) = std::fs::read_to_string(&p) { check_text(out, &mut names, &src, &[], true); } }
    }
    // every token sequence up to a length bound over the full alphabet (token soup, exhaustive)
    let max_len = if tier == "thorough" { 4 } else { 3 };
    for len in 0..=max_len {
        let mut idx = vec![0usize; len];
        loop {
            let s: String = idx.iter().map(|i| SOUP[*i]).collect::<Vec<_>>().join(" ");
            check_text(out, &mut names, &s, &["x"], len <= 2);
            let mut k = 0;
            while k < len { idx[k] += 1; if idx[k] < SOUP.len() { break; } idx[k] = 0; k += 1; }
            if k == len { break; }
        }
    }
    // random longer soups
    let n_soup = if tier == "thorough" { 300000 } else { 30000 };
    for _ in 0..n_soup {
        let len = 4 + rng.below(12);
        let s: String = (0..len).map(|_| SOUP[rng.below(SOUP.len())]).collect::<Vec<_>>().join(" ");
        check_text(out, &mut names, &s, &["x", "y"], false);
    }
    // E-small sentences (a sample in quick)
    let n = if tier == "thorough" { 5 } else { 4 };
    if let Ok(f) = std::fs::File::open(format!("{}/build/gen/esmall-{n}.txt", crate::out::verif_root())) {
        for line in std::io::BufReader::new(f).lines().map_while(Result::ok) {
            check_text(out, &mut names, &line, &[], false);
        }
    }
    // grammar-derived programs with single-token deletions, insertions and substitutions
    let np = if tier == "thorough" { 20000 } else { 2000 };
    for i in 0..np {
        let mut sub = rng.fork();
        let cfg = cfg_mix(i % 6, &mut sub);
        let p = prog::gen_program(&mut sub, &cfg);
        let style = crate::suite_progstat::style_mix(&mut sub);
        let src = prog::render(&p.e, &style, &mut sub);
        check_text(out, &mut names, &src, &[], i % 4 == 0);
        // token edits on the plain rendering
        let plain = prog::render_plain(&p.e);
        let words: Vec<&str> = plain.split(' ').collect();
        if words.len() > 2 {
            for _ in 0..2 {
                let k = sub.below(words.len());
                let mut w: Vec<String> = words.iter().map(|x| (*x).to_owned()).collect();
                match sub.below(3) {
                    0 => { w.remove(k); }
                    1 => w.insert(k, SOUP[sub.below(SOUP.len())].to_owned()),
                    _ => w[k] = SOUP[sub.below(SOUP.len())].to_owned(),
                }
                check_text(out, &mut names, &w.join(" "), &[], false);
            }
        }
        // C10 at parser level: a separating line break is interchangeable with `;`.  One separator of the plain
        // rendering (all separators are `;` there) is written as a line break: same outcome as the original; and
        // doubled in its three mixed spellings `;` + line break, line break + `;`, `;;`: the three must fare alike.
        // (only where a line break separates at all: the next token must be able to start an expression -- a
        // leading `-` cannot, `3 \n -8` is one expression -- and the previous one able to end one)
        let starts = |k: usize| plain[k + 1..].trim_start().chars().next().map_or(false, |c| c.is_alphanumeric() || c == '_' || c == '(');
        let ends = |k: usize| plain[..k].trim_end().chars().last().map_or(false, |c| c.is_alphanumeric() || c == '_' || c == ')');
        let seps: Vec<usize> = plain.char_indices().filter(|(k, c)| *c == ';' && starts(*k) && ends(*k)).map(|(k, _)| k).collect();
        if !seps.is_empty() {
            let k = seps[sub.below(seps.len())];
            let spell = |sep: &str| -> String { format!("{}{}{}", &plain[..k], sep, &plain[k + 1..]) };
            let outcome = |text: &str| -> &'static str {
                let mut toks = vec![];
                match front(text, &mut toks) { Stage::Parsed(_) => "accepted", Stage::TokErr(_) => "tokenize-error", Stage::ParseErr(_) => "rejected", Stage::Panic(..) => "panic" }
            };
            let base = outcome(&plain);
            let single = spell("\n");
            check_text(out, &mut names, &single, &[], false);
            if outcome(&single) != base {
                out.hit("C10", "line-break-not-interchangeable-with-semicolon", &single, &format!("with `;`: {base}; with a line break: {}; original: {plain}", outcome(&single)));
            }
            let doubles = [spell(";\n"), spell("\n;"), spell("; ;")];
            let outs: Vec<&str> = doubles.iter().map(|t| outcome(t)).collect();
            for t in &doubles { check_text(out, &mut names, t, &[], false); }
            out.stat("c10:separator-spellings");
            if outs[0] != outs[2] || outs[1] != outs[2] {
                out.hit("C10", "doubled-separator-spellings-fare-differently", &doubles[0], &format!("`;` + line break: {}, line break + `;`: {}, `;;`: {}", outs[0], outs[1], outs[2]));
            }
        }
    }
    // families for the memoisation counters (C17): nested, unclosed, chains
    let sizes: &[usize] = if tier == "thorough" { &[5, 20, 60, 150] } else { &[5, 20, 50] };
    for &n in sizes {
        let fams: Vec<String> = vec![
            format!("{}1{}", "(".repeat(n), ")".repeat(n)),
            format!("{}1", "(".repeat(n)),
            format!("{}1{}", "(".repeat(n), "}".repeat(n)),
            (0..n).map(|_| "1").collect::<Vec<_>>().join(" + "),
            (0..n).map(|i| if i % 2 == 0 { "1 *" } else { "2 -" }).collect::<Vec<_>>().join(" ") + " 3",
            format!("f = x => x; f {}", (0..n).map(|_| "1").collect::<Vec<_>>().join(" ")),
            (0..n).map(|i| format!("x{i} = {i};")).collect::<Vec<_>>().join(" ") + " x0",
            (0..n).map(|_| "if true then 1 else").collect::<Vec<_>>().join(" ") + " 0",
            (0..n).map(|_| "if true then").collect::<Vec<_>>().join(" "),
            (0..n).map(|i| format!("(a{i} : int) =>")).collect::<Vec<_>>().join(" ") + " 1",
            (0..n).map(|_| "int ->").collect::<Vec<_>>().join(" ") + " int",
            format!("{}1", "- ".repeat(n)),
            (0..n).map(|_| "1 <").collect::<Vec<_>>().join(" ") + " 2",
        ];
        for f in fams { check_text(out, &mut names, &f, &[], true); }
    }
}
