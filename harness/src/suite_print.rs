// Suite `print` (C16): the printer `impl Display for Variant/Term`, `annotation`, `group` of term.rs.
// Correspondence op:
//   print (NAMES) (S c0 c1 ...) TERM   ->   ok cp cp ...      (the printed text, decimal code points)
// Inputs:
//   (a) every (parent position, child former) pair, built from source templates run through the real
//       tokenizer and parser (depth 2 exhaustively, depth 3 exhaustively in the thorough tier and
//       sampled in the quick one); the coverage of the pair universe is measured on the parsed
//       terms and reported in the statistics (`pair-missing:*`);
//   (b) G-prog programs: the parser's output and, when the program type-checks, the elaborated term
//       (resolved cells) and the reported type;
//   (c) raw terms: exhaustive small hole-free terms, and random terms with cells, some of them
//       resolved (chains of cells, shared cells) - beyond what the parser produces.
// Oracle (C16) on the parser-produced terms of (a) and (b): print, tokenize, parse in the same
// (empty) scope, compare the name-free structure (`db_term_noshift`).
use crate::gen_term::{enumerate, TermGen};
use crate::out::{guarded, Out};
use crate::pipeline::{front, Stage};
use crate::prog::{self, Style};
use crate::resolve_ref::db_term_noshift;
use crate::rng::Rng;
use crate::ser::Ser;
use crate::ser_store::StoreSer;
use crate::suite_progstat::{cfg_mix, style_mix};
use crate::term::{free_variables, Term, Variant};
use std::cell::RefCell;
use std::collections::{BTreeSet, HashSet};
use std::rc::Rc;

type Cell<'a> = Rc<RefCell<Option<Term<'a>>>>;

// ---------------------------------------------------------------------------------------------------
// the correspondence op

pub fn code_points(s: &str) -> String {
    let mut out = String::new();
    for c in s.chars() {
        out.push(' ');
        out.push_str(&(c as u32).to_string());
    }
    out
}

// Emits the `print` op for `t`; returns the printed text (None if the printer panicked).
fn emit<'a>(out: &mut Out, t: &Term<'a>) -> Option<String> {
    let mut names = Ser::new();
    names.name("_");
    let mut ss = StoreSer::new();
    let ts = ss.term(&mut names, t);
    let st = ss.store(&mut names);
    let mut nm = String::new();
    for (i, s) in names.name_list.iter().enumerate() {
        if i > 0 { nm.push(' '); }
        nm.push_str(&format!("({i}{})", code_points(s)));
    }
    let printed = guarded(|| t.to_string());
    let answer = match &printed {
        Ok(s) => format!("ok{}", code_points(s)),
        Err(_) => "panic".to_owned(),
    };
    out.case(&format!("print ({nm}) {st} {ts}"), &answer);
    printed.ok()
}

// ---------------------------------------------------------------------------------------------------
// former / position bookkeeping (on `term::Term`, independent of the Lean side)

fn is_dependent(cod: &Term) -> bool {
    let mut s = HashSet::new();
    free_variables(cod, 0, &mut s);
    s.contains(&0)
}

// child kinds: the 23 variants, with Lambda and Pi refined by what the printer distinguishes
const CHILD_KINDS: [&str; 27] = [
    "Unifier", "Type", "Variable", "Lambda", "LambdaImp", "PiDep", "PiDepImp", "Arrow", "ArrowImp", "Application",
    "Let", "Integer", "IntegerLiteral", "Negation", "Sum", "Difference", "Product", "Quotient", "LessThan",
    "LessThanOrEqualTo", "EqualTo", "GreaterThan", "GreaterThanOrEqualTo", "Boolean", "True", "False", "If",
];

fn kind(t: &Term) -> &'static str {
    use Variant::*;
    match &t.variant {
        Unifier(..) => "Unifier",
        Type => "Type",
        Variable(..) => "Variable",
        Lambda(_, imp, _, _) => if *imp { "LambdaImp" } else { "Lambda" },
        Pi(_, imp, _, cod) => match (is_dependent(cod), *imp) {
            (true, false) => "PiDep", (true, true) => "PiDepImp", (false, false) => "Arrow", (false, true) => "ArrowImp",
        },
        Application(..) => "Application",
        Let(..) => "Let",
        Integer => "Integer",
        IntegerLiteral(_) => "IntegerLiteral",
        Negation(_) => "Negation",
        Sum(..) => "Sum", Difference(..) => "Difference", Product(..) => "Product", Quotient(..) => "Quotient",
        LessThan(..) => "LessThan", LessThanOrEqualTo(..) => "LessThanOrEqualTo", EqualTo(..) => "EqualTo",
        GreaterThan(..) => "GreaterThan", GreaterThanOrEqualTo(..) => "GreaterThanOrEqualTo",
        Boolean => "Boolean", True => "True", False => "False",
        If(..) => "If",
    }
}

fn positions() -> Vec<String> {
    let mut v = vec![];
    for p in ["Lambda", "LambdaImp", "PiDep", "PiDepImp", "Arrow", "ArrowImp"] {
        v.push(format!("{p}.dom"));
        v.push(format!("{p}.{}", if p.starts_with("Lambda") { "body" } else { "cod" }));
    }
    v.push("Application.fun".into());
    v.push("Application.arg".into());
    for p in ["ann", "def", "body"] { v.push(format!("Let.{p}")); }
    v.push("Negation.arg".into());
    for op in ["Sum", "Difference", "Product", "Quotient", "LessThan", "LessThanOrEqualTo", "EqualTo", "GreaterThan", "GreaterThanOrEqualTo"] {
        v.push(format!("{op}.l"));
        v.push(format!("{op}.r"));
    }
    for p in ["c", "t", "e"] { v.push(format!("If.{p}")); }
    v
}

// every (position, child kind) pair occurring in `t`
fn pairs(t: &Term, acc: &mut BTreeSet<(String, &'static str)>) {
    use Variant::*;
    let k = kind(t);
    let sub = |pos: &str, c: &Term, acc: &mut BTreeSet<(String, &'static str)>| {
        acc.insert((format!("{k}.{pos}"), kind(c)));
        pairs(c, acc);
    };
    match &t.variant {
        Lambda(_, _, d, b) => { sub("dom", d, acc); sub("body", b, acc); }
        Pi(_, _, d, c) => { sub("dom", d, acc); sub("cod", c, acc); }
        Application(f, a) => { sub("fun", f, acc); sub("arg", a, acc); }
        Let(defs, body) => {
            for (_, a, d) in defs { sub("ann", a, acc); sub("def", d, acc); }
            sub("body", body, acc);
        }
        Negation(a) => sub("arg", a, acc),
        Sum(a, b) | Difference(a, b) | Product(a, b) | Quotient(a, b) | LessThan(a, b) | LessThanOrEqualTo(a, b)
        | EqualTo(a, b) | GreaterThan(a, b) | GreaterThanOrEqualTo(a, b) => { sub("l", a, acc); sub("r", b, acc); }
        If(c, a, b) => { sub("c", c, acc); sub("t", a, acc); sub("e", b, acc); }
        Unifier(..) | Type | Variable(..) | Integer | IntegerLiteral(_) | Boolean | True | False => {}
    }
}

fn has_implicit_arrow(t: &Term) -> bool {
    let mut acc = BTreeSet::new();
    pairs(t, &mut acc);
    kind(t) == "ArrowImp" || acc.iter().any(|(p, c)| *c == "ArrowImp" || p.starts_with("ArrowImp."))
}

// ---------------------------------------------------------------------------------------------------
// the C16 oracle

fn oracle(out: &mut Out, term: &Term, printed: &str, origin: &str) {
    let mut toks = vec![];
    let known = if has_implicit_arrow(term) { " contains-implicit-non-dependent-pi" } else { "" };
    match front(printed, &mut toks) {
        Stage::Parsed(t2) => {
            let (a, b) = (db_term_noshift(&t2), db_term_noshift(term));
            if a != b {
                out.hit("C16", "printed-term-reads-back-differently", printed, &format!("{origin}{known} original {b} read-back {a}"));
            } else {
                out.stat("oracle:roundtrip-ok");
            }
        }
        Stage::Panic(st, m) => out.hit("C14", &format!("{st}-panic"), printed, &m),
        Stage::TokErr(_) | Stage::ParseErr(_) => out.hit("C16", "printed-term-does-not-parse", printed, &format!("{origin}{known}")),
    }
}

// ---------------------------------------------------------------------------------------------------
// (a) templates

// `§` = the operand; `$` = a fresh suffix (one per instantiation); `@` (children only) = a variable in
// scope, which is the template's own binder when the template needs its operand to mention it.
struct Tpl { text: &'static str, var: Option<&'static str> }

fn templates() -> Vec<Tpl> {
    let mut v = vec![];
    let mut add = |text: &'static str, var: Option<&'static str>| v.push(Tpl { text, var });
    add("(p$ : §) => p$", None);
    add("(p$ : int) => §", None);
    add("(p$ : int) => §", Some("p$"));
    add("{p$ : §} => p$", None);
    add("{p$ : int} => §", None);
    add("p$ => §", None);
    add("{p$} => §", Some("p$"));
    add("(p$ : §) -> p$", None);
    add("(p$ : type) -> §", Some("p$"));
    add("{p$ : §} -> p$", None);
    add("{p$ : type} -> §", Some("p$"));
    add("§ -> int", None);
    add("int -> §", None);
    add("(p$ : §) -> int", None);
    add("(p$ : int) -> §", None);
    add("{p$ : §} -> int", None);
    add("{p$ : int} -> §", None);
    add("§ 1", None);
    add("§ 1 2", None);
    add("f §", None);
    add("g § 2", None);
    add("g 1 §", None);
    add("-§", None);
    add("§ + 1", None); add("1 + §", None);
    add("§ - 1", None); add("1 - §", None);
    add("§ * 1", None); add("1 * §", None);
    add("§ / 1", None); add("1 / §", None);
    add("§ < 1", None); add("1 < §", None);
    add("§ <= 1", None); add("1 <= §", None);
    add("§ == 1", None); add("1 == §", None);
    add("§ > 1", None); add("1 > §", None);
    add("§ >= 1", None); add("1 >= §", None);
    add("if § then 1 else 2", None);
    add("if true then § else 2", None);
    add("if true then 1 else §", None);
    add("z$ : § = 1; z$", None);
    add("z$ = §; z$", None);
    add("z$ = 1; §", None);
    add("z$ : int = 1; w$ = §; z$", None);
    v
}

const CHILDREN: [&str; 44] = [
    "1", "@", "type", "int", "bool", "true", "false", "_", "123456789012345678901234567890",
    "-@", "-1",
    "@ + 2", "@ - 2", "@ * 2", "@ / 2", "@ < 2", "@ <= 2", "@ == 2", "@ > 2", "@ >= 2",
    "f @", "g @ 2",
    "(y$ : int) => @", "(é$ : int) => é$", "{y$ : int} => @", "y$ => @", "{y$} => y$",
    "(y$ : type) -> y$", "(y$ : @) -> y$", "{y$ : type} -> y$", "{y$ : @} -> y$",
    "@ -> int", "int -> @", "int -> int -> @", "{y$ : @} -> int", "(y$ : int) -> @",
    "if true then @ else 2", "if @ then 1 else 2",
    "y$ = @; y$", "y$ : int = @; y$", "y$ = 1; v$ = @; y$", "_ = @; 1",
    "(_ : int) => @", "(_ : @) -> int",
];

// the third one gives the closed instances their shortest form (the others are rejected: unbound names)
const WRAPPERS: [&str; 3] = [
    "f = (a : int) => a; g = (b : int) => (c : int) => b; x = 1; §",
    "(f : int -> int) => (g : int -> int -> int) => (x : int) => §",
    "§",
];

struct Fresh(usize);
impl Fresh {
    fn subst(&mut self, text: &str) -> (String, String) {
        self.0 += 1;
        let n = self.0.to_string();
        (text.replace('$', &n), n)
    }
}

// template applied to an operand text; `var` is what `@` of the innermost child stands for
fn apply(fresh: &mut Fresh, t: &Tpl, operand: &dyn Fn(&mut Fresh, &str) -> String, outer_var: Option<&str>, parens: bool) -> String {
    let (text, n) = fresh.subst(t.text);
    let own = t.var.map(|v| v.replace('$', &n));
    let var = own.as_deref().or(outer_var).unwrap_or("x").to_owned();
    let inner = operand(fresh, &var);
    text.replace('§', &if parens { format!("({inner})") } else { inner })
}

fn child_text(fresh: &mut Fresh, c: &str, var: &str) -> String {
    fresh.subst(c).0.replace('@', var)
}

fn run_source(out: &mut Out, src: &str, cover: &mut BTreeSet<(String, &'static str)>, label: &str) {
    if !out.begin(src) { out.stat("skipped-known-abort"); return; }
    let mut tokens = vec![];
    let term = match front(src, &mut tokens) {
        Stage::Parsed(t) => t,
        Stage::Panic(st, m) => { out.hit("C14", &format!("{st}-panic"), src, &m); return; }
        _ => { out.stat(&format!("{label}:source-rejected")); return; }
    };
    out.stat(&format!("{label}:parsed"));
    pairs(&term, cover);
    if let Some(printed) = emit(out, &term) {
        oracle(out, &term, &printed, &format!("{label} source={src}"));
    } else {
        out.hit("C14", "display-panic", src, label);
    }
}

fn category_a(out: &mut Out, tier: &str, rng: &mut Rng) {
    let tpls = templates();
    let mut fresh = Fresh(0);
    let mut cover = BTreeSet::new();
    // depth 2: wrapper[ template[ child ] ], operand in parentheses and bare
    for w in WRAPPERS {
        for t in &tpls {
            for c in CHILDREN {
                for parens in [true, false] {
                    let body = apply(&mut fresh, t, &|f, v| child_text(f, c, v), None, parens);
                    run_source(out, &w.replace('§', &body), &mut cover, "a2");
                }
            }
        }
    }
    // depth 3: wrapper[ t1[ (t2[ (child) ]) ] ]
    let total = tpls.len() * tpls.len() * CHILDREN.len();
    let sample = if tier == "thorough" { total } else { 4000 };
    let mut k = 0usize;
    for (i1, t1) in tpls.iter().enumerate() {
        for (i2, t2) in tpls.iter().enumerate() {
            for (ic, c) in CHILDREN.iter().enumerate() {
                let take = if sample == total { true } else { rng.below(total) < sample };
                if !take { continue; }
                k += 1;
                let parens2 = sample == total || rng.chance(3, 4);
                let body = apply(&mut fresh, t1, &|f, v| apply(f, t2, &|f2, v2| child_text(f2, c, v2), Some(v), parens2), None, true);
                let w = WRAPPERS[(i1 + i2 + ic) % 2];
                run_source(out, &w.replace('§', &body), &mut cover, "a3");
            }
        }
    }
    out.stat_add("a3:generated", k as u64);
    // coverage of the pair universe
    let mut universe = 0u64;
    let mut covered = 0u64;
    for p in positions() {
        for c in CHILD_KINDS {
            universe += 1;
            if cover.contains(&(p.clone(), c)) { covered += 1; } else { out.stat(&format!("pair-missing:{p}/{c}")); }
        }
    }
    out.stat_add("pairs:universe", universe);
    out.stat_add("pairs:covered", covered);
}

// ---------------------------------------------------------------------------------------------------
// (b) programs

fn category_b(out: &mut Out, tier: &str, rng: &mut Rng) {
    let n = if tier == "thorough" { 20000 } else { 1500 };
    for i in 0..n {
        let mut sub = rng.fork();
        let cfg = cfg_mix(i % 6, &mut sub);
        let p = prog::gen_program(&mut sub, &cfg);
        let style: Style = style_mix(&mut sub);
        let r = prog::render_ex(&p.e, &style, &mut sub);
        let src: &str = &r.text;
        if !out.begin(src) { out.stat("skipped-known-abort"); continue; }
        let mut tokens = vec![];
        let term = match front(src, &mut tokens) {
            Stage::Parsed(t) => t,
            Stage::Panic(st, m) => { out.hit("C14", &format!("{st}-panic"), src, &m); continue; }
            _ => { out.stat("b:source-rejected"); continue; }
        };
        out.stat("b:parsed");
        match emit(out, &term) {
            Some(printed) => oracle(out, &term, &printed, &format!("gprog#{i} source={src}")),
            None => out.hit("C14", "display-panic", src, "parsed term"),
        }
        match guarded(|| crate::type_checker::type_check(None, src, &term, &mut vec![], &mut vec![])) {
            Err(m) => out.hit("C14", "type_check-panic", src, &m),
            Ok(Err(_)) => out.stat("b:rejected"),
            Ok(Ok((elab, ty))) => {
                out.stat("b:accepted");
                if emit(out, &elab).is_none() { out.hit("C14", "display-panic", src, "elaborated term"); }
                if emit(out, &ty).is_none() { out.hit("C14", "display-panic", src, "reported type"); }
            }
        }
    }
    out.stat_add("b:programs", n as u64);
}

// ---------------------------------------------------------------------------------------------------
// (c) raw terms

// rebuild `t`, replacing every cell occurrence by `f(cell, shift)`
fn map_cells<'a>(t: &Term<'a>, f: &mut dyn FnMut(&Cell<'a>, usize) -> Variant<'a>) -> Term<'a> {
    use Variant::*;
    let r = |x: &Rc<Term<'a>>, f: &mut dyn FnMut(&Cell<'a>, usize) -> Variant<'a>| Rc::new(map_cells(x, f));
    let v = match &t.variant {
        Unifier(c, s) => f(c, *s),
        Lambda(x, i, a, b) => Lambda(x, *i, r(a, f), r(b, f)),
        Pi(x, i, a, b) => Pi(x, *i, r(a, f), r(b, f)),
        Application(a, b) => Application(r(a, f), r(b, f)),
        Let(defs, body) => Let(defs.iter().map(|(x, a, d)| (*x, r(a, f), r(d, f))).collect(), r(body, f)),
        Negation(a) => Negation(r(a, f)),
        Sum(a, b) => Sum(r(a, f), r(b, f)),
        Difference(a, b) => Difference(r(a, f), r(b, f)),
        Product(a, b) => Product(r(a, f), r(b, f)),
        Quotient(a, b) => Quotient(r(a, f), r(b, f)),
        LessThan(a, b) => LessThan(r(a, f), r(b, f)),
        LessThanOrEqualTo(a, b) => LessThanOrEqualTo(r(a, f), r(b, f)),
        EqualTo(a, b) => EqualTo(r(a, f), r(b, f)),
        GreaterThan(a, b) => GreaterThan(r(a, f), r(b, f)),
        GreaterThanOrEqualTo(a, b) => GreaterThanOrEqualTo(r(a, f), r(b, f)),
        If(a, b, c) => If(r(a, f), r(b, f), r(c, f)),
        other => other.clone(),
    };
    Term { source_range: None, variant: v }
}

fn cells_of<'a>(t: &Term<'a>) -> Vec<Cell<'a>> {
    let mut v: Vec<Cell<'a>> = vec![];
    let _ = map_cells(t, &mut |c, s| { v.push(c.clone()); Variant::Unifier(c.clone(), s) });
    v
}

// Resolve some of the (fresh, unshared-with-older) cells of `t` to random terms, whose own cells are
// treated the same way one level down: the store is a forest, never cyclic.
fn resolve_some<'a>(t: &Term<'a>, g: &TermGen, rng: &mut Rng, depth: usize) {
    if depth == 0 { return; }
    let mut seen = HashSet::new();
    for c in cells_of(t) {
        if !seen.insert(Rc::as_ptr(&c) as usize) { continue; }
        if c.borrow().is_some() || !rng.chance(3, 5) { continue; }
        let budget = *rng.pick(&[1usize, 1, 2, 3, 5, 8, 12]);
        let scope = rng.below(3);
        let content = share(&g.make(rng, budget, scope), rng);
        resolve_some(&content, g, rng, depth - 1);
        *c.borrow_mut() = Some(content);
    }
}

// make some cell occurrences of `t` share a cell (with their own shifts)
fn share<'a>(t: &Term<'a>, rng: &mut Rng) -> Term<'a> {
    let mut pool: Vec<Cell<'a>> = vec![];
    map_cells(t, &mut |c, s| {
        if !pool.is_empty() && rng.chance(1, 3) {
            let k = rng.below(pool.len());
            Variant::Unifier(pool[k].clone(), s)
        } else {
            pool.push(c.clone());
            Variant::Unifier(c.clone(), s)
        }
    })
}


// cell-specific behaviours, deterministically: the dependent test applies the shift of a resolved
// cell, the head tests do not look through a cell, `group` / `annotation` do, chains of cells
fn crafted<'a>() -> Vec<Term<'a>> {
    use crate::mk;
    fn solved<'a>(content: Term<'a>, shift: usize) -> Term<'a> {
        mk::t(Variant::Unifier(Rc::new(RefCell::new(Some(content))), shift))
    }
    let mut v = vec![];
    for imp in [false, true] {
        for s in 0..3 {
            for j in 0..3 {
                v.push(mk::pi("x", imp, mk::int(), solved(mk::var("y", j), s)));
                v.push(mk::pi("x", imp, mk::int(), mk::lam("z", false, mk::int(), solved(mk::var("y", j), s))));
                v.push(mk::pi("x", imp, mk::int(), solved(mk::lam("z", false, mk::int(), mk::var("y", j)), s)));
                v.push(mk::pi("x", imp, mk::int(), solved(solved(mk::var("y", j), s), 1)));
                v.push(mk::pi("x", imp, mk::int(), solved(mk::app(mk::hole(j), solved(mk::var("y", j), s)), 0)));
                v.push(mk::pi("x", imp, solved(mk::var("y", j), s), mk::var("x", 0)));
            }
        }
    }
    let fx = || mk::app(mk::var("f", 1), mk::var("x", 0));
    let lt = || mk::letg(vec![("y", mk::hole(1), mk::lit(1))], mk::var("y", 0));
    let operands: Vec<Box<dyn Fn() -> Term<'a>>> = vec![
        Box::new(fx), Box::new(lt), Box::new(|| mk::lit(-3)), Box::new(|| mk::neg(mk::lit(2))), Box::new(|| mk::hole(0)),
        Box::new(|| mk::var("x", 0)), Box::new(|| mk::ite(mk::tt(), mk::lit(1), mk::lit(2))),
        Box::new(|| mk::pi("a", false, mk::int(), mk::int())), Box::new(|| mk::lam("a", true, mk::int(), mk::var("a", 0))),
    ];
    for o in &operands {
        for wrap in 0..3 {
            let w = |t: Term<'a>| match wrap { 0 => t, 1 => solved(t, 0), _ => solved(solved(t, 1), 2) };
            v.push(mk::app(w(o()), w(o())));
            v.push(mk::app(mk::app(w(o()), mk::lit(1)), w(o())));
            v.push(mk::pi("p", false, w(o()), mk::int()));
            v.push(mk::pi("p", true, w(o()), mk::int()));
            v.push(mk::pi("p", false, w(o()), mk::var("p", 0)));
            v.push(mk::lam("p", false, w(o()), w(o())));
            v.push(mk::lam("p", true, w(o()), w(o())));
            v.push(mk::neg(w(o())));
            v.push(mk::bin(1, w(o()), w(o())));
            v.push(mk::ite(w(o()), w(o()), w(o())));
            v.push(mk::letg(vec![("d", w(o()), w(o()))], w(o())));
            v.push(w(o()));
        }
    }
    v
}

fn category_c(out: &mut Out, tier: &str, rng: &mut Rng) {
    for t in crafted() {
        out.stat("c:crafted");
        if emit(out, &t).is_none() { out.hit("C14", "display-panic", &format!("{t:?}"), "crafted raw term"); }
    }
    // exhaustive small hole-free terms
    let max = if tier == "thorough" { 5 } else { 4 };
    for level in enumerate(max) {
        for t in &level {
            out.stat("c:enumerated");
            if emit(out, t).is_none() { out.hit("C14", "display-panic", &format!("{t:?}"), "enumerated raw term"); }
        }
    }
    // random terms with cells
    let n = if tier == "thorough" { 30000 } else { 3000 };
    for i in 0..n {
        let g = TermGen { holes: i % 4 != 0, max_var: 2, big_lits: true, closed: i % 3 == 0 };
        let budget = *rng.pick(&[2usize, 4, 6, 10, 15, 25, 40]);
        let scope = rng.below(3);
        let t = share(&g.make(rng, budget, scope), rng);
        resolve_some(&t, &g, rng, 3);
        out.stat("c:random");
        if cells_of(&t).iter().any(|c| c.borrow().is_some()) { out.stat("c:random-with-resolved-cell"); }
        if emit(out, &t).is_none() { out.hit("C14", "display-panic", &format!("{t:?}"), "random raw term"); }
    }
}

pub fn run(out: &mut Out, tier: &str, seed: u64) {
    let mut rng = Rng::new(seed ^ 0xC16);
    let mut ra = rng.fork();
    let mut rb = rng.fork();
    let mut rc = rng.fork();
    category_a(out, tier, &mut ra);
    category_b(out, tier, &mut rb);
    category_c(out, tier, &mut rc);
}
