// Generators of raw de Bruijn terms: `G-term` (random) and the exhaustive enumeration by size.
use crate::mk;
use crate::rng::Rng;
use crate::term::Term;
use num_bigint::BigInt;

pub const NAMES: [&str; 8] = ["a", "b", "c", "d", "f", "g", "x", "y"];

pub struct TermGen {
    pub holes: bool,      // may produce unresolved holes
    pub max_var: usize,   // free variables up to scope + max_var
    pub big_lits: bool,
    pub closed: bool,     // variables strictly below the scope
}

impl TermGen {
    pub fn literal<'a>(&self, rng: &mut Rng) -> Term<'a> {
        match rng.below(10) {
            0..=5 => mk::lit(rng.range(-9, 9)),
            6 => mk::lit(0),
            7 => mk::lit(rng.range(-1_000_000, 1_000_000)),
            _ if self.big_lits => {
                // far beyond 64 bits
                let digits = 20 + rng.below(40);
                let mut s = String::new();
                if rng.chance(1, 2) { s.push('-'); }
                s.push(char::from(b'1' + rng.below(9) as u8));
                for _ in 0..digits { s.push(char::from(b'0' + rng.below(10) as u8)); }
                mk::big(s.parse::<BigInt>().unwrap())
            }
            _ => mk::lit(rng.range(-3, 3)),
        }
    }

    pub fn leaf<'a>(&self, rng: &mut Rng, scope: usize) -> Term<'a> {
        match rng.below(12) {
            0 => mk::ty(),
            1 => mk::int(),
            2 => mk::boolean(),
            3 => mk::tt(),
            4 => mk::ff(),
            5 | 6 => self.literal(rng),
            7 if self.holes => mk::hole(rng.below(scope + 2)),
            _ => {
                if self.closed {
                    if scope == 0 { return self.literal(rng); }
                    return mk::var(NAMES[rng.below(NAMES.len())], rng.below(scope));
                }
                let i = rng.below(scope + self.max_var + 1);
                mk::var(NAMES[rng.below(NAMES.len())], i)
            }
        }
    }

    pub fn make<'a>(&self, rng: &mut Rng, budget: usize, scope: usize) -> Term<'a> {
        if budget <= 1 {
            return self.leaf(rng, scope);
        }
        let b = budget - 1;
        match rng.below(14) {
            0 => self.leaf(rng, scope),
            1 | 2 => {
                let k = rng.below(b + 1);
                mk::lam(NAMES[rng.below(8)], rng.chance(1, 4), self.make(rng, k, scope), self.make(rng, b - k, scope + 1))
            }
            3 | 4 => {
                let k = rng.below(b + 1);
                mk::pi(NAMES[rng.below(8)], rng.chance(1, 4), self.make(rng, k, scope), self.make(rng, b - k, scope + 1))
            }
            5 | 6 => {
                let k = rng.below(b + 1);
                mk::app(self.make(rng, k, scope), self.make(rng, b - k, scope))
            }
            7 | 8 => {
                // group of 0..=4 definitions
                let n = *rng.pick(&[0usize, 1, 1, 2, 2, 3, 4]);
                let parts = 2 * n + 1;
                let each = b / parts.max(1);
                let mut defs = vec![];
                for _ in 0..n {
                    defs.push((
                        NAMES[rng.below(8)],
                        self.make(rng, each, scope + n),
                        self.make(rng, each, scope + n),
                    ));
                }
                mk::letg(defs, self.make(rng, each.max(1), scope + n))
            }
            9 => mk::neg(self.make(rng, b, scope)),
            10 | 11 | 12 => {
                let k = rng.below(b + 1);
                mk::bin(rng.below(9), self.make(rng, k, scope), self.make(rng, b - k, scope))
            }
            _ => {
                let k = b / 3;
                mk::ite(self.make(rng, k, scope), self.make(rng, k, scope), self.make(rng, b - 2 * k, scope))
            }
        }
    }
}

// All hole-free terms of exactly `size` nodes over a small leaf alphabet and every term former
// (each of the nine binary operators, groups of one and two definitions).
pub fn enumerate<'a>(max_size: usize) -> Vec<Vec<Term<'a>>> {
    let mut by: Vec<Vec<Term<'a>>> = vec![vec![]; max_size + 1];
    if max_size == 0 {
        return by;
    }
    by[1] = vec![
        mk::ty(),
        mk::tt(),
        mk::lit(7),
        mk::var("x", 0),
        mk::var("y", 1),
        mk::var("a", 2),
        mk::var("b", 3),
    ];
    for n in 2..=max_size {
        let mut out = vec![];
        // unary
        for a in &by[n - 1] {
            out.push(mk::neg(a.clone()));
        }
        // binary formers: sizes i + j = n - 1
        for i in 1..n - 1 {
            let j = n - 1 - i;
            if j < 1 { continue; }
            for a in &by[i] {
                for b in &by[j] {
                    out.push(mk::lam("x", false, a.clone(), b.clone()));
                    out.push(mk::pi("y", true, a.clone(), b.clone()));
                    out.push(mk::app(a.clone(), b.clone()));
                    for op in 0..9 {
                        out.push(mk::bin(op, a.clone(), b.clone()));
                    }
                }
            }
        }
        // ternary formers: if, group of one definition
        if n >= 4 {
            for i in 1..n - 2 {
                for j in 1..n - 1 - i {
                    let k = n - 1 - i - j;
                    if k < 1 { continue; }
                    for a in &by[i] {
                        for b in &by[j] {
                            for c in &by[k] {
                                out.push(mk::ite(a.clone(), b.clone(), c.clone()));
                                out.push(mk::letg(vec![("f", a.clone(), b.clone())], c.clone()));
                            }
                        }
                    }
                }
            }
        }
        // empty group
        for a in &by[n - 1] {
            out.push(mk::letg(vec![], a.clone()));
        }
        // group of two definitions with leaf components (size 6)
        if n == 6 {
            let leaves = by[1].clone();
            for a in &leaves { for b in &leaves { for c in &leaves { for d in &leaves { for e in &leaves {
                out.push(mk::letg(vec![("f", a.clone(), b.clone()), ("g", c.clone(), d.clone())], e.clone()));
            }}}}}
        }
        by[n] = out;
    }
    by
}
