// Serialisation of `term::Term` into the line protocol understood by the Lean driver
// (`lean/Driver/Sexp.lean`, written independently).
use crate::de_bruijn::unsigned_shift;
use crate::term::{Term, Variant};
use std::cell::RefCell;
use std::collections::HashMap;
use std::rc::Rc;

pub type Cell<'a> = Rc<RefCell<Option<Term<'a>>>>;

#[derive(Clone, Copy, PartialEq, Eq)]
pub enum HoleMode {
    // Resolved cells are replaced by their (shifted) contents; unresolved cells are numbered by
    // first occurrence.
    ZonkIds,
    // As above but every id is printed as `_` (used where cell identity is not observable).
    ZonkErase,
    // Cells are printed by id whether resolved or not; contents are dumped separately.
    Store,
}

pub struct Ser {
    pub names: HashMap<String, usize>,
    pub name_list: Vec<String>,
    pub holes: HashMap<usize, usize>, // cell address -> id
    pub hole_cells: Vec<usize>,
    pub erase_names: bool,
}

impl Ser {
    pub fn new() -> Self {
        Ser { names: HashMap::new(), name_list: vec![], holes: HashMap::new(), hole_cells: vec![], erase_names: false }
    }

    pub fn reset_holes(&mut self) {
        self.holes.clear();
        self.hole_cells.clear();
    }

    pub fn name(&mut self, s: &str) -> usize {
        if self.erase_names {
            return 0;
        }
        if let Some(i) = self.names.get(s) {
            return *i;
        }
        let i = self.name_list.len();
        self.names.insert(s.to_owned(), i);
        self.name_list.push(s.to_owned());
        i
    }

    pub fn hole_id<'a>(&mut self, cell: &Cell<'a>) -> usize {
        let addr = Rc::as_ptr(cell) as usize;
        if let Some(i) = self.holes.get(&addr) {
            return *i;
        }
        let i = self.hole_cells.len();
        self.holes.insert(addr, i);
        self.hole_cells.push(addr);
        i
    }

    pub fn term<'a>(&mut self, t: &Term<'a>, mode: HoleMode) -> String {
        let mut out = String::new();
        self.go(t, mode, &mut out);
        out
    }

    fn bin<'a>(&mut self, op: &str, a: &Term<'a>, b: &Term<'a>, mode: HoleMode, out: &mut String) {
        out.push_str("(O ");
        out.push_str(op);
        out.push(' ');
        self.go(a, mode, out);
        out.push(' ');
        self.go(b, mode, out);
        out.push(')');
    }

    fn go<'a>(&mut self, t: &Term<'a>, mode: HoleMode, out: &mut String) {
        use Variant::*;
        match &t.variant {
            Unifier(cell, shift) => {
                let content = { cell.borrow().clone() };
                match (content, mode) {
                    (Some(sub), HoleMode::ZonkIds | HoleMode::ZonkErase) => {
                        let shifted = unsigned_shift(&sub, 0, *shift);
                        self.go(&shifted, mode, out);
                    }
                    (_, HoleMode::ZonkErase) => {
                        out.push_str(&format!("(h _ {shift})"));
                    }
                    _ => {
                        let id = self.hole_id(cell);
                        out.push_str(&format!("(h {id} {shift})"));
                    }
                }
            }
            Type => out.push('T'),
            Integer => out.push('I'),
            Boolean => out.push('B'),
            True => out.push('t'),
            False => out.push('f'),
            IntegerLiteral(n) => out.push_str(&format!("(n {n})")),
            Variable(x, i) => {
                let x = self.name(x);
                out.push_str(&format!("(v {x} {i})"));
            }
            Lambda(x, imp, d, b) => {
                let x = self.name(x);
                out.push_str(&format!("(L {x} {} ", u8::from(*imp)));
                self.go(d, mode, out);
                out.push(' ');
                self.go(b, mode, out);
                out.push(')');
            }
            Pi(x, imp, d, b) => {
                let x = self.name(x);
                out.push_str(&format!("(P {x} {} ", u8::from(*imp)));
                self.go(d, mode, out);
                out.push(' ');
                self.go(b, mode, out);
                out.push(')');
            }
            Application(f, a) => {
                out.push_str("(A ");
                self.go(f, mode, out);
                out.push(' ');
                self.go(a, mode, out);
                out.push(')');
            }
            Let(defs, body) => {
                out.push_str("(G ");
                for (x, ann, def) in defs {
                    let x = self.name(x);
                    out.push_str(&format!("(D {x} "));
                    self.go(ann, mode, out);
                    out.push(' ');
                    self.go(def, mode, out);
                    out.push_str(") ");
                }
                self.go(body, mode, out);
                out.push(')');
            }
            Negation(a) => {
                out.push_str("(N ");
                self.go(a, mode, out);
                out.push(')');
            }
            Sum(a, b) => self.bin("+", a, b, mode, out),
            Difference(a, b) => self.bin("-", a, b, mode, out),
            Product(a, b) => self.bin("*", a, b, mode, out),
            Quotient(a, b) => self.bin("/", a, b, mode, out),
            LessThan(a, b) => self.bin("<", a, b, mode, out),
            LessThanOrEqualTo(a, b) => self.bin("<=", a, b, mode, out),
            EqualTo(a, b) => self.bin("==", a, b, mode, out),
            GreaterThan(a, b) => self.bin(">", a, b, mode, out),
            GreaterThanOrEqualTo(a, b) => self.bin(">=", a, b, mode, out),
            If(c, a, b) => {
                out.push_str("(F ");
                self.go(c, mode, out);
                out.push(' ');
                self.go(a, mode, out);
                out.push(' ');
                self.go(b, mode, out);
                out.push(')');
            }
        }
    }
}
