// Correspondence and search harness for the Lean model of gramlang/gram.
// The real sources are compiled in from /repo's working tree (gram is a bin-only crate).
#![allow(dead_code, unused_imports, clippy::all)]

#[path = "/repo/src/de_bruijn.rs"] mod de_bruijn;
#[path = "/repo/src/equality.rs"] mod equality;
#[path = "/repo/src/error.rs"] mod error;
#[path = "/repo/src/evaluator.rs"] mod evaluator;
#[path = "/repo/src/format.rs"] mod format;
#[path = "/repo/src/normalizer.rs"] mod normalizer;
#[path = "/repo/src/parser.rs"] mod parser;
#[path = "/repo/src/term.rs"] mod term;
#[path = "/repo/src/token.rs"] mod token;
#[path = "/repo/src/tokenizer.rs"] mod tokenizer;
#[path = "/repo/src/type_checker.rs"] mod type_checker;
#[path = "/repo/src/unifier.rs"] mod unifier;

mod gen_term;
mod mk;
mod named;
mod out;
mod prog;
mod rng;
mod ser;
mod suite_debruijn;
mod suite_eval;
mod suite_progstat;
mod suite_lexer;
mod pipeline;
mod ser_store;
mod suite_pipeline;
mod resolve_ref;
mod suite_programs;
mod suite_unify;
mod suite_parser;
mod scope_family;
mod suite_scaling;
mod suite_listing;
mod suite_print;
mod earley;
mod replay;

use std::env;

fn main() {
    colored::control::set_override(false);
    std::panic::set_hook(Box::new(|_| {}));
    let args: Vec<String> = env::args().collect();
    if args.len() >= 2 && args[1] == "replayops" {
        if args.len() != 4 {
            eprintln!("usage: harness replayops <opsfile> <outfile>");
            std::process::exit(2);
        }
        let (ops, outfile) = (args[2].clone(), args[3].clone());
        let child = std::thread::Builder::new()
            .stack_size(64 << 20)
            .spawn(move || replay::run(&ops, &outfile))
            .unwrap();
        if let Err(e) = child.join().unwrap() {
            eprintln!("replayops: {e}");
            std::process::exit(1);
        }
        return;
    }
    if args.len() < 5 {
        eprintln!("usage: harness <suite> <tier> <seed> <outdir>\n       harness replayops <opsfile> <outfile>");
        std::process::exit(2);
    }
    let (suite, tier, seed, dir) = (args[1].clone(), args[2].clone(), args[3].parse::<u64>().unwrap_or(0), args[4].clone());
    // run on a big stack: the implementation recurses deeply
    let child = std::thread::Builder::new()
        .stack_size(64 << 20)
        .spawn(move || {
            let mut out = out::Out::new(&dir, &suite);
            match suite.as_str() {
                "debruijn" => suite_debruijn::run(&mut out, &tier, seed),
                "eval" => suite_eval::run(&mut out, &tier, seed),
                "lexer" => suite_lexer::run(&mut out, &tier, seed),
                "pipeline" => suite_pipeline::run(&mut out, &tier, seed),
                "programs" => suite_programs::run(&mut out, &tier, seed),
                "unify" => suite_unify::run(&mut out, &tier, seed),
                "parser" => suite_parser::run(&mut out, &tier, seed),
                "scaling" => suite_scaling::run(&mut out, &tier, seed),
                "listing" => suite_listing::run(&mut out, &tier, seed),
                "print" => suite_print::run(&mut out, &tier, seed),
                "progstat" => suite_progstat::run(&mut out, &tier, seed),
                _ => {
                    eprintln!("unknown suite {suite}");
                    std::process::exit(2);
                }
            }
            out.finish();
        })
        .unwrap();
    child.join().unwrap();
}
