// G-prog: a type-directed generator of gram source programs that knows, independently of gram,
// each program's type and the value it must evaluate to. Sections of this file:
//   1. syntax tree `E`, the public result types and configuration
//   2. tree utilities (children, paths, free variables, scopes)
//   3. renderer (E -> source text, minimal parentheses by the precedence levels of grammar.y)
//   4. reference evaluator (big-step CBV with closures, the oracle for `Expected`)
//   5. generator (types `T`, contexts, productions)
//   6. meaning-preserving rewrites
//   7. single-point ill-typing perturbations
// Nothing in this file calls into gram's sources.
use crate::rng::Rng;
use num_bigint::{BigInt, Sign};
use std::cell::RefCell;
use std::collections::{BTreeSet, HashMap};
use std::rc::Rc;

// ---------------------------------------------------------------------------------------------
// 1. Syntax tree and public types
// ---------------------------------------------------------------------------------------------

#[derive(Clone, Debug, PartialEq)]
pub enum E {
    Lit(BigInt), // non-negative; negative numbers are `Neg(Lit)`
    True,
    False,
    TyInt,
    TyBool,
    TyType,
    Hole, // `_`
    Var(String),
    Lam { var: String, implicit: bool, ann: Option<Box<E>>, body: Box<E> },
    // (x : A) -> B, {x : A} -> B, or A -> B when var is None
    Pi { var: Option<String>, implicit: bool, dom: Box<E>, cod: Box<E> },
    App(Box<E>, Box<E>),
    // A group of definitions (name, annotation, right-hand side) then a body. Invariant kept by
    // the generator and the rewrites: the body is never itself a `Let` (gram flattens
    // `x = a; (y = b; c)` into one group, parentheses or not).
    Let(Vec<(String, Option<E>, E)>, Box<E>),
    Neg(Box<E>),
    Bin(u8 /* 0..9: + - * / < <= == > >= */, Box<E>, Box<E>),
    If(Box<E>, Box<E>, Box<E>),
    Paren(Box<E>), // explicit redundant parentheses
}

#[derive(Clone, Debug, PartialEq)]
pub enum Expected {
    Int(BigInt),
    Bool(bool),
    Function,
    Type,
    DivZero,  // evaluation reaches an integer division by zero
    Diverges, // the reference evaluator ran out of fuel
    Unknown,  // the reference evaluator got stuck (ill-typed / unbound / not available yet)
}

#[derive(Clone, Debug)]
pub struct Prog {
    pub e: E,
    pub ty_src: String, // the generator's own rendering of the expected type
    pub expected: Expected,
    pub features: Vec<&'static str>,
    pub fully_annotated: bool,
}

#[derive(Clone, Debug)]
pub struct GenCfg {
    pub size: usize,
    pub allow_holes: bool, // `_` and omitted annotations
    pub allow_forward_refs: bool,
    pub allow_nested_groups: bool,
    pub allow_div: bool,
    pub big_literals: bool,
}

#[derive(Clone, Debug)]
pub struct Style {
    pub newlines: bool,       // use line breaks instead of `;` between definitions
    pub redundant_parens: u8, // percent
    pub comments: bool,
}

pub const OPS: [&str; 9] = ["+", "-", "*", "/", "<", "<=", "==", ">", ">="];

// Small constructors, used everywhere below.
pub fn lit(n: i64) -> E {
    if n < 0 { E::Neg(Box::new(E::Lit(BigInt::from(-n)))) } else { E::Lit(BigInt::from(n)) }
}
pub fn var(s: &str) -> E { E::Var(s.to_owned()) }
pub fn app(f: E, a: E) -> E { E::App(Box::new(f), Box::new(a)) }
pub fn bin(op: u8, a: E, b: E) -> E { E::Bin(op, Box::new(a), Box::new(b)) }
pub fn ite(c: E, a: E, b: E) -> E { E::If(Box::new(c), Box::new(a), Box::new(b)) }
pub fn lam(v: &str, ann: Option<E>, body: E) -> E {
    E::Lam { var: v.to_owned(), implicit: false, ann: ann.map(Box::new), body: Box::new(body) }
}
pub fn arrow(a: E, b: E) -> E { E::Pi { var: None, implicit: false, dom: Box::new(a), cod: Box::new(b) } }
pub fn paren(e: E) -> E { E::Paren(Box::new(e)) }

// Build a group, merging into the body's group when the body is itself a group (see the
// invariant on `E::Let`).
pub fn mk_let(mut defs: Vec<(String, Option<E>, E)>, body: E) -> E {
    match body {
        E::Let(more, inner) => {
            defs.extend(more);
            E::Let(defs, inner)
        }
        b => E::Let(defs, Box::new(b)),
    }
}

// ---------------------------------------------------------------------------------------------
// 2. Tree utilities
// ---------------------------------------------------------------------------------------------

// Children in a fixed order: Lam [ann?, body]; Pi [dom, cod]; App [f, a];
// Let [ann0?, rhs0, ann1?, rhs1, ..., body]; Neg [x]; Bin [l, r]; If [c, t, e]; Paren [x].
pub fn kids(e: &E) -> Vec<&E> {
    match e {
        E::Lam { ann, body, .. } => ann.iter().map(|a| &**a).chain(std::iter::once(&**body)).collect(),
        E::Pi { dom, cod, .. } => vec![dom, cod],
        E::App(f, a) => vec![f, a],
        E::Let(defs, body) => {
            let mut v = vec![];
            for (_, a, d) in defs {
                if let Some(a) = a { v.push(a); }
                v.push(d);
            }
            v.push(&**body);
            v
        }
        E::Neg(x) | E::Paren(x) => vec![x],
        E::Bin(_, l, r) => vec![l, r],
        E::If(c, t, f) => vec![c, t, f],
        _ => vec![],
    }
}

pub fn kids_mut(e: &mut E) -> Vec<&mut E> {
    match e {
        E::Lam { ann, body, .. } => ann.iter_mut().map(|a| &mut **a).chain(std::iter::once(&mut **body)).collect(),
        E::Pi { dom, cod, .. } => vec![dom, cod],
        E::App(f, a) => vec![f, a],
        E::Let(defs, body) => {
            let mut v = vec![];
            for (_, a, d) in defs.iter_mut() {
                if let Some(a) = a { v.push(a); }
                v.push(d);
            }
            v.push(&mut **body);
            v
        }
        E::Neg(x) | E::Paren(x) => vec![x],
        E::Bin(_, l, r) => vec![l, r],
        E::If(c, t, f) => vec![c, t, f],
        _ => vec![],
    }
}

pub type Path = Vec<usize>;

pub fn at<'a>(e: &'a E, p: &[usize]) -> &'a E {
    let mut cur = e;
    for &i in p { cur = kids(cur)[i]; }
    cur
}

pub fn at_mut<'a>(e: &'a mut E, p: &[usize]) -> &'a mut E {
    let mut cur = e;
    for &i in p { cur = kids_mut(cur).into_iter().nth(i).unwrap(); }
    cur
}

pub fn size(e: &E) -> usize { 1 + kids(e).iter().map(|k| size(k)).sum::<usize>() }

pub fn strip(e: &E) -> &E {
    match e { E::Paren(x) => strip(x), _ => e }
}

// The role a child plays in its parent; drives which rewrites/perturbations apply where.
#[derive(Clone, Copy, Debug, PartialEq)]
pub enum Role { Root, LamAnn, LamBody, PiDom, PiCod, AppFun, AppArg, DefAnn, DefRhs, LetBody, NegArg, BinL(u8), BinR(u8), IfCond, IfThen, IfElse, ParenIn }

fn roles(e: &E) -> Vec<Role> {
    match e {
        E::Lam { ann, .. } => if ann.is_some() { vec![Role::LamAnn, Role::LamBody] } else { vec![Role::LamBody] },
        E::Pi { .. } => vec![Role::PiDom, Role::PiCod],
        E::App(..) => vec![Role::AppFun, Role::AppArg],
        E::Let(defs, _) => {
            let mut v = vec![];
            for (_, a, _) in defs {
                if a.is_some() { v.push(Role::DefAnn); }
                v.push(Role::DefRhs);
            }
            v.push(Role::LetBody);
            v
        }
        E::Neg(_) => vec![Role::NegArg],
        E::Paren(_) => vec![Role::ParenIn],
        E::Bin(op, ..) => vec![Role::BinL(*op), Role::BinR(*op)],
        E::If(..) => vec![Role::IfCond, Role::IfThen, Role::IfElse],
        _ => vec![],
    }
}

// Names a node binds in its child number `i`.
fn binds_in_child(e: &E, i: usize) -> Vec<String> {
    match e {
        E::Lam { var, ann, .. } => {
            let body_idx = if ann.is_some() { 1 } else { 0 };
            if i == body_idx && var != "_" { vec![var.clone()] } else { vec![] }
        }
        E::Pi { var: Some(v), .. } => if i == 1 && v != "_" { vec![v.clone()] } else { vec![] },
        E::Let(defs, _) => defs.iter().map(|d| d.0.clone()).collect(),
        _ => vec![],
    }
}

// One node of the tree with everything the rewrites need to know about its position.
#[derive(Clone, Debug)]
pub struct Site {
    pub path: Path,
    pub role: Role,
    pub scope: Vec<String>, // names bound by enclosing binders (all in scope at this node)
    pub in_type: bool,      // inside an annotation / pi (a type-level position)
}

pub fn sites(e: &E) -> Vec<Site> {
    fn go(e: &E, path: &mut Path, role: Role, scope: &mut Vec<String>, in_type: bool, out: &mut Vec<Site>) {
        out.push(Site { path: path.clone(), role, scope: scope.clone(), in_type });
        let rs = roles(e);
        for (i, k) in kids(e).into_iter().enumerate() {
            let b = binds_in_child(e, i);
            let n = b.len();
            scope.extend(b);
            path.push(i);
            let t = in_type || matches!(rs[i], Role::LamAnn | Role::DefAnn | Role::PiDom | Role::PiCod);
            go(k, path, rs[i], scope, t, out);
            path.pop();
            scope.truncate(scope.len() - n);
        }
    }
    let mut out = vec![];
    go(e, &mut vec![], Role::Root, &mut vec![], false, &mut out);
    out
}

pub fn free_vars(e: &E, bound: &mut Vec<String>, out: &mut BTreeSet<String>) {
    if let E::Var(x) = e {
        if !bound.contains(x) { out.insert(x.clone()); }
        return;
    }
    for (i, k) in kids(e).into_iter().enumerate() {
        let b = binds_in_child(e, i);
        let n = b.len();
        bound.extend(b);
        free_vars(k, bound, out);
        bound.truncate(bound.len() - n);
    }
}

pub fn is_closed(e: &E) -> bool {
    let mut s = BTreeSet::new();
    free_vars(e, &mut vec![], &mut s);
    s.is_empty()
}

pub fn mentions(e: &E, name: &str) -> bool {
    match e {
        E::Var(x) => x == name,
        _ => kids(e).iter().any(|k| mentions(k, name)),
    }
}

// Every identifier occurring anywhere (binders and uses).
pub fn all_names(e: &E, out: &mut BTreeSet<String>) {
    match e {
        E::Var(x) => { out.insert(x.clone()); }
        E::Lam { var, .. } => { out.insert(var.clone()); }
        E::Pi { var: Some(v), .. } => { out.insert(v.clone()); }
        E::Let(defs, _) => for d in defs { out.insert(d.0.clone()); },
        _ => {}
    }
    for k in kids(e) { all_names(k, out); }
}

fn has_hole(e: &E) -> bool {
    match e {
        E::Hole => true,
        E::Lam { ann: None, .. } => true,
        E::Let(defs, _) if defs.iter().any(|d| d.1.is_none()) => true,
        _ => kids(e).iter().any(|k| has_hole(k)),
    }
}

// Rename every use of `old` (and nothing else) inside `e`.
fn rename_uses(e: &mut E, old: &str, new: &str) {
    if let E::Var(x) = e {
        if x == old { *x = new.to_owned(); }
        return;
    }
    for k in kids_mut(e) { rename_uses(k, old, new); }
}

// A syntactic value in the sense of gram's `is_value`: available to the whole group without
// being evaluated first.
pub fn is_syntactic_value(e: &E) -> bool {
    matches!(strip(e), E::Lit(_) | E::True | E::False | E::TyInt | E::TyBool | E::TyType | E::Lam { .. } | E::Pi { .. })
}

// ---------------------------------------------------------------------------------------------
// 3. Renderer
// ---------------------------------------------------------------------------------------------

// Precedence levels of grammar.y.
const ATOM: u8 = 0;
const SMALL: u8 = 1; // application
const MEDIUM: u8 = 2; // * /
const LARGE: u8 = 3; // unary minus
const HUGE: u8 = 4; // + -
const GIANT: u8 = 5; // comparisons
const JUMBO: u8 = 6; // lambda, pi, if
const TERM: u8 = 7; // let

fn level(e: &E) -> u8 {
    match e {
        E::Lit(n) => if n.sign() == Sign::Minus { LARGE } else { ATOM },
        E::True | E::False | E::TyInt | E::TyBool | E::TyType | E::Hole | E::Var(_) | E::Paren(_) => ATOM,
        E::App(..) => SMALL,
        E::Bin(2 | 3, ..) => MEDIUM,
        E::Neg(_) => LARGE,
        E::Bin(0 | 1, ..) => HUGE,
        E::Bin(..) => GIANT,
        E::Lam { .. } | E::Pi { .. } | E::If(..) => JUMBO,
        E::Let(..) => TERM,
    }
}

// The result of rendering, with the number of places where the text contains the operand shape
// that gram's reassociation pass is known to mishandle: in a left-associative chain of
// applications / products / sums with at least three operands, a parenthesised operand that is
// itself a chain of the same class, directly followed by a parenthesised last operand
// (`f (g x) (y)`, `a - (b - c) - (d)`).
pub struct Rendered {
    pub text: String,
    pub reassoc_defect_sites: usize,
}

struct Renderer<'a> {
    style: &'a Style,
    rng: &'a mut Rng,
    out: String,
    indent: usize,
    defect_sites: usize,
    comment_no: usize,
    // how the right operand of the chain node rendered last was written:
    // (in parentheses, chain class of what is inside)
    last_right: (bool, u8),
    // whether the chain node rendered last carries gram's "group" flag after reassociation
    last_flag: bool,
    // whether the chain node rendered last added to `defect_sites`
    last_counted: bool,
}

pub fn render(e: &E, style: &Style, rng: &mut Rng) -> String { render_ex(e, style, rng).text }

pub fn render_ex(e: &E, style: &Style, rng: &mut Rng) -> Rendered {
    let mut r = Renderer { style, rng, out: String::new(), indent: 0, defect_sites: 0, comment_no: 0, last_right: (false, 0), last_flag: false, last_counted: false };
    if style.comments && r.rng.chance(1, 2) {
        r.out.push_str("# generated program\n");
    }
    r.go(e, TERM, false);
    if style.comments && r.rng.chance(1, 3) {
        r.out.push_str(" # end");
    }
    Rendered { text: r.out, reassoc_defect_sites: r.defect_sites }
}

// Deterministic rendering without any decoration.
pub fn render_plain(e: &E) -> String {
    render(e, &Style { newlines: false, redundant_parens: 0, comments: false }, &mut Rng::new(0))
}

// Which chain class a node belongs to (0 none, 1 application, 2 product/quotient, 3 sum/difference).
fn chain_class(e: &E) -> u8 {
    match e {
        E::App(..) => 1,
        E::Bin(2 | 3, ..) => 2,
        E::Bin(0 | 1, ..) => 3,
        _ => 0,
    }
}

impl Renderer<'_> {
    // Render `e` where the grammar allows a term of at most level `max`. `before_mul` is set when
    // the text is directly followed by `*` or `/` of the same chain: an unparenthesised trailing
    // unary minus would then swallow the rest of the chain.
    // Returns true when the expression was written inside parentheses.
    fn go(&mut self, e: &E, max: u8, before_mul: bool) -> bool {
        let extra = self.style.redundant_parens > 0 && (self.rng.below(100) as u8) < self.style.redundant_parens;
        if level(e) > max || extra {
            self.out.push('(');
            self.go_bare(e, false);
            self.out.push(')');
            true
        } else {
            self.go_bare(e, before_mul);
            matches!(e, E::Paren(_))
        }
    }

    // A node of a left-associative chain: the left operand may continue the chain (level `lmax`),
    // the right operand is at most `rmax`. Counts the known-defect shape: gram's reassociation
    // goes wrong when the second-to-last operand is a parenthesised chain of the same class and
    // the last operand carries gram's internal "group" flag. That flag is set by real
    // parentheses, but also (by the earlier reassociation passes) on every application or
    // product chain except a two-element one whose right operand is flagged: in
    // `a - (b + c) + f x` the last operand counts as parenthesised.
    fn chain(&mut self, e: &E, l: &E, r: &E, lmax: u8, rmax: u8, op: &str, before_mul: bool) {
        let class = chain_class(e);
        let l_wrapped = self.go(l, lmax, class == 2);
        let l_continues = !l_wrapped && chain_class(l) == class;
        // when `l` continues this chain, its right operand is our second-to-last operand
        let prev = if l_continues { self.last_right } else { (false, 0) };
        // only the last two operands of the whole chain matter: what the continued part counted
        // for its own end does not apply
        if l_continues && self.last_counted { self.defect_sites -= 1; }
        self.out.push_str(op);
        // `a * -b * c` would parse as `a * -(b * c)`
        let rmax = if class == 2 && matches!(r, E::Neg(_)) { if before_mul { ATOM } else { LARGE } } else { rmax };
        let r_wrapped = self.go(r, rmax, false);
        let r_flag = r_wrapped || (matches!(chain_class(r), 1 | 2) && self.last_flag);
        let counted = r_flag && prev.0 && prev.1 == class;
        if counted { self.defect_sites += 1; }
        self.last_counted = counted;
        self.last_right = (r_wrapped, chain_class(strip(r)));
        self.last_flag = l_continues || !r_flag;
    }

    fn go_bare(&mut self, e: &E, before_mul: bool) {
        match e {
            E::Lit(n) => self.out.push_str(&n.to_string()),
            E::True => self.out.push_str("true"),
            E::False => self.out.push_str("false"),
            E::TyInt => self.out.push_str("int"),
            E::TyBool => self.out.push_str("bool"),
            E::TyType => self.out.push_str("type"),
            E::Hole => self.out.push('_'),
            E::Var(x) => self.out.push_str(x),
            E::Paren(x) => {
                self.out.push('(');
                self.go_bare(x, false);
                self.out.push(')');
            }
            E::App(f, a) => self.chain(e, f, a, SMALL, ATOM, " ", false),
            E::Bin(op @ (2 | 3), l, r) => self.chain(e, l, r, MEDIUM, SMALL, &format!(" {} ", OPS[*op as usize]), before_mul),
            E::Bin(op @ (0 | 1), l, r) => self.chain(e, l, r, HUGE, LARGE, &format!(" {} ", OPS[*op as usize]), false),
            E::Bin(op, l, r) => {
                self.go(l, HUGE, false);
                self.out.push_str(&format!(" {} ", OPS[*op as usize % 9]));
                self.go(r, HUGE, false);
            }
            E::Neg(x) => {
                self.out.push('-');
                self.go(x, LARGE, before_mul);
            }
            E::Lam { var, implicit, ann, body } => {
                let (o, c) = if *implicit { ('{', '}') } else { ('(', ')') };
                match ann {
                    Some(a) => {
                        self.out.push(o);
                        self.out.push_str(var);
                        self.out.push_str(" : ");
                        self.go(a, JUMBO, false);
                        self.out.push(c);
                    }
                    None if *implicit => {
                        self.out.push('{');
                        self.out.push_str(var);
                        self.out.push('}');
                    }
                    None => self.out.push_str(var),
                }
                self.out.push_str(" => ");
                self.go(body, TERM, false);
            }
            E::Pi { var, implicit, dom, cod } => {
                match var {
                    Some(v) => {
                        let (o, c) = if *implicit { ('{', '}') } else { ('(', ')') };
                        self.out.push(o);
                        self.out.push_str(v);
                        self.out.push_str(" : ");
                        self.go(dom, JUMBO, false);
                        self.out.push(c);
                    }
                    None => {
                        self.go(dom, SMALL, false);
                    }
                }
                self.out.push_str(" -> ");
                self.go(cod, TERM, false);
            }
            E::If(c, t, f) => {
                self.out.push_str("if ");
                self.go(c, TERM, false);
                self.out.push_str(" then ");
                self.go(t, TERM, false);
                self.out.push_str(" else ");
                self.go(f, TERM, false);
            }
            E::Let(defs, body) => {
                self.indent += 1;
                for (i, (name, ann, rhs)) in defs.iter().enumerate() {
                    if i > 0 { self.terminator(false); }
                    self.out.push_str(name);
                    if let Some(a) = ann {
                        self.out.push_str(" : ");
                        self.go(a, SMALL, false);
                    }
                    self.out.push_str(" = ");
                    self.go(rhs, TERM, false);
                }
                self.indent -= 1;
                // Render the body aside first: a line break before `-` is not a terminator, so a
                // body starting with a unary minus must be separated by `;`.
                let saved = std::mem::take(&mut self.out);
                self.go(body, TERM, false);
                let body_text = std::mem::replace(&mut self.out, saved);
                self.terminator(body_text.starts_with('-'));
                self.out.push_str(&body_text);
            }
        }
    }

    // The terminator after a definition: `;`, or a line break (optionally after a comment).
    fn terminator(&mut self, force_semicolon: bool) {
        if self.style.newlines && !force_semicolon {
            if self.style.comments && self.rng.chance(1, 5) {
                self.comment_no += 1;
                let c = format!(" # note {}", self.comment_no);
                self.out.push_str(&c);
            }
            self.out.push('\n');
            for _ in 0..self.indent { self.out.push_str("  "); }
        } else {
            self.out.push_str("; ");
        }
    }
}

// ---------------------------------------------------------------------------------------------
// 4. Reference evaluator
// ---------------------------------------------------------------------------------------------

// Values of the reference semantics. Types are values too, but carry no structure. Everything
// borrows from the program tree, which outlives the evaluation.
#[derive(Clone)]
enum V<'a> {
    Int(BigInt),
    Bool(bool),
    Ty,
    Clo(Rc<Closure<'a>>),
}

struct Closure<'a> {
    var: &'a str,
    body: &'a E,
    env: Env<'a>,
}

// Environments are persistent linked lists of lambda bindings and group frames.
#[derive(Clone)]
enum Env<'a> {
    Nil,
    Bind(Rc<(&'a str, V<'a>, Env<'a>)>),
    Group(Rc<Frame<'a>>),
}

// One (flattened) group of definitions. Definitions that are syntactic values are available to
// the whole group from the start, closing over the frame itself: that is what makes the group
// mutually recursive. The others become available once evaluated, in order; looking one up
// earlier is an error (gram has no shadowing, so the name cannot mean anything else).
struct Frame<'a> {
    values: Vec<(&'a str, &'a E)>,
    names: Vec<&'a str>,
    evaluated: RefCell<Vec<(&'a str, V<'a>)>>,
    outer: Env<'a>,
}

enum Stop { DivZero, Fuel, Stuck }

fn tdiv(a: &BigInt, b: &BigInt) -> Option<BigInt> {
    // exact division truncating toward zero, spelled out on magnitudes
    if b.sign() == Sign::NoSign { return None; }
    let q = BigInt::from(a.magnitude() / b.magnitude());
    Some(if (a.sign() == Sign::Minus) != (b.sign() == Sign::Minus) { -q } else { q })
}

struct Eval { fuel: usize, depth: usize }

impl Eval {
    fn lookup<'a>(&mut self, env: &Env<'a>, x: &str) -> Result<V<'a>, Stop> {
        let mut cur = env;
        loop {
            match cur {
                Env::Nil => return Err(Stop::Stuck),
                Env::Bind(b) => {
                    if b.0 == x { return Ok(b.1.clone()); }
                    cur = &b.2;
                }
                Env::Group(g) => {
                    if let Some((_, v)) = g.evaluated.borrow().iter().find(|d| d.0 == x) { return Ok(v.clone()); }
                    if let Some((_, rhs)) = g.values.iter().find(|d| d.0 == x) {
                        let genv = cur.clone();
                        return self.eval(rhs, &genv);
                    }
                    if g.names.iter().any(|n| *n == x) { return Err(Stop::Stuck); } // not evaluated yet
                    cur = &g.outer;
                }
            }
        }
    }

    fn int2<'a>(&mut self, a: &'a E, b: &'a E, env: &Env<'a>) -> Result<(BigInt, BigInt), Stop> {
        let x = self.eval(a, env)?;
        let y = self.eval(b, env)?;
        match (x, y) {
            (V::Int(x), V::Int(y)) => Ok((x, y)),
            _ => Err(Stop::Stuck),
        }
    }

    fn eval<'a>(&mut self, e: &'a E, env: &Env<'a>) -> Result<V<'a>, Stop> {
        if self.fuel == 0 || self.depth > 2500 { return Err(Stop::Fuel); }
        self.fuel -= 1;
        self.depth += 1;
        let r = self.eval_inner(e, env);
        self.depth -= 1;
        r
    }

    fn eval_inner<'a>(&mut self, e: &'a E, env: &Env<'a>) -> Result<V<'a>, Stop> {
        Ok(match e {
            E::Lit(n) => V::Int(n.clone()),
            E::True => V::Bool(true),
            E::False => V::Bool(false),
            E::TyInt | E::TyBool | E::TyType | E::Pi { .. } => V::Ty,
            E::Hole => return Err(Stop::Stuck),
            E::Var(x) => self.lookup(env, x)?,
            E::Paren(x) => self.eval(x, env)?,
            E::Lam { var, body, .. } => V::Clo(Rc::new(Closure { var, body, env: env.clone() })),
            E::App(f, a) => {
                let fv = self.eval(f, env)?;
                let av = self.eval(a, env)?;
                match fv {
                    V::Clo(c) => {
                        let env2 = if c.var == "_" { c.env.clone() } else { Env::Bind(Rc::new((c.var, av, c.env.clone()))) };
                        self.eval(c.body, &env2)?
                    }
                    _ => return Err(Stop::Stuck),
                }
            }
            E::Let(..) => {
                // collect the flattened group (a group body that is a group continues it)
                let mut defs: Vec<&'a (String, Option<E>, E)> = vec![];
                let mut body = e;
                while let E::Let(ds, b) = strip(body) {
                    defs.extend(ds.iter());
                    body = b;
                }
                let frame = Rc::new(Frame {
                    values: defs.iter().filter(|d| is_syntactic_value(&d.2)).map(|d| (d.0.as_str(), &d.2)).collect(),
                    names: defs.iter().map(|d| d.0.as_str()).collect(),
                    evaluated: RefCell::new(vec![]),
                    outer: env.clone(),
                });
                let env2 = Env::Group(frame.clone());
                for d in &defs {
                    if is_syntactic_value(&d.2) { continue; }
                    let v = self.eval(&d.2, &env2)?;
                    frame.evaluated.borrow_mut().push((d.0.as_str(), v));
                }
                self.eval(body, &env2)?
            }
            E::Neg(x) => match self.eval(x, env)? {
                V::Int(n) => V::Int(-n),
                _ => return Err(Stop::Stuck),
            },
            E::Bin(op, a, b) => {
                let (x, y) = self.int2(a, b, env)?;
                // a recursive function that keeps multiplying makes the numbers double in length at each
                // level: such a program is treated like one that runs too long (discarded by the caller)
                if x.bits() + y.bits() > 20_000 { return Err(Stop::Fuel); }
                match op {
                    0 => V::Int(x + y),
                    1 => V::Int(x - y),
                    2 => V::Int(x * y),
                    3 => V::Int(tdiv(&x, &y).ok_or(Stop::DivZero)?),
                    4 => V::Bool(x < y),
                    5 => V::Bool(x <= y),
                    6 => V::Bool(x == y),
                    7 => V::Bool(x > y),
                    8 => V::Bool(x >= y),
                    _ => return Err(Stop::Stuck),
                }
            }
            E::If(c, t, f) => match self.eval(c, env)? {
                V::Bool(true) => self.eval(t, env)?,
                V::Bool(false) => self.eval(f, env)?,
                _ => return Err(Stop::Stuck),
            },
        })
    }
}

// Independent big-step call-by-value evaluation of a closed program.
pub fn reference_eval(e: &E, fuel: usize) -> Expected { reference_eval_cost(e, fuel).0 }

// The same, also returning the number of nodes evaluated (a rough measure of the work that any
// evaluator has to do).
pub fn reference_eval_cost(e: &E, fuel: usize) -> (Expected, usize) {
    let mut ev = Eval { fuel, depth: 0 };
    let r = ev.eval(e, &Env::Nil);
    (expected_of(r), fuel - ev.fuel)
}

fn expected_of(r: Result<V, Stop>) -> Expected {
    match r {
        Ok(V::Int(n)) => Expected::Int(n),
        Ok(V::Bool(b)) => Expected::Bool(b),
        Ok(V::Ty) => Expected::Type,
        Ok(V::Clo(_)) => Expected::Function,
        Err(Stop::DivZero) => Expected::DivZero,
        Err(Stop::Fuel) => Expected::Diverges,
        Err(Stop::Stuck) => Expected::Unknown,
    }
}

// ---------------------------------------------------------------------------------------------
// 5. Generator
// ---------------------------------------------------------------------------------------------

// The generator's own, deliberately simple notion of types. `All(a, t)` is `(a : type) -> t`.
#[derive(Clone, Debug, PartialEq)]
pub enum T {
    Int,
    Bool,
    Type,
    TVar(String),
    Fun(Box<T>, Box<T>),
    All(String, Box<T>),
}

impl T {
    pub fn fun(a: T, b: T) -> T { T::Fun(Box::new(a), Box::new(b)) }
    pub fn all(a: &str, b: T) -> T { T::All(a.to_owned(), Box::new(b)) }
    fn funs(params: &[T], res: T) -> T { params.iter().rev().fold(res, |acc, p| T::fun(p.clone(), acc)) }

    // Simultaneous substitution of type variables.
    fn subst(&self, m: &HashMap<String, T>) -> T {
        match self {
            T::TVar(a) => m.get(a).cloned().unwrap_or_else(|| self.clone()),
            T::Fun(a, b) => T::fun(a.subst(m), b.subst(m)),
            T::All(a, b) => {
                if m.contains_key(a) {
                    let mut m2 = m.clone();
                    m2.remove(a);
                    T::all(a, b.subst(&m2))
                } else {
                    T::all(a, b.subst(m))
                }
            }
            _ => self.clone(),
        }
    }
    fn has_all(&self) -> bool {
        match self {
            T::All(..) => true,
            T::Fun(a, b) => a.has_all() || b.has_all(),
            _ => false,
        }
    }
    fn is_fun(&self) -> bool { matches!(self, T::Fun(..) | T::All(..)) }
    fn has_tvar(&self) -> bool {
        match self {
            T::TVar(_) | T::All(..) => true,
            T::Fun(a, b) => a.has_tvar() || b.has_tvar(),
            _ => false,
        }
    }
    fn is_ground_base(&self) -> bool { matches!(self, T::Int | T::Bool) }
    // The final result type after all parameters.
    fn result(&self) -> &T {
        match self {
            T::Fun(_, b) | T::All(_, b) => b.result(),
            t => t,
        }
    }
}

enum Param { Ty(String), Val(T) }

// Parameters of a function type and the residual type after the first k of them (k = 0..=n).
fn spine(t: &T) -> (Vec<Param>, Vec<T>) {
    let (mut ps, mut rs, mut cur) = (vec![], vec![t.clone()], t.clone());
    loop {
        let next = match &cur {
            T::Fun(a, b) => { ps.push(Param::Val((**a).clone())); (**b).clone() }
            T::All(a, b) => { ps.push(Param::Ty(a.clone())); (**b).clone() }
            _ => break,
        };
        rs.push(next.clone());
        cur = next;
    }
    (ps, rs)
}

// First-order matching of `p` (whose variables `vars` may be instantiated) against `g`.
fn match_ty(p: &T, g: &T, vars: &[String], m: &mut HashMap<String, T>) -> bool {
    match (p, g) {
        (T::TVar(a), _) if vars.contains(a) => {
            if let Some(t) = m.get(a) { return t == g; }
            if g.has_all() { return false; }
            m.insert(a.clone(), g.clone());
            true
        }
        (T::Fun(a, b), T::Fun(c, d)) => match_ty(a, c, vars, m) && match_ty(b, d, vars, m),
        (T::All(a, b), T::All(c, d)) => a == c && !vars.contains(a) && match_ty(b, d, vars, m),
        _ => p == g,
    }
}

// Plain rendering of a type as an expression (no obfuscation); `All` binders keep their names.
pub fn ty_plain(t: &T) -> E {
    match t {
        T::Int => E::TyInt,
        T::Bool => E::TyBool,
        T::Type => E::TyType,
        T::TVar(a) => var(a),
        T::Fun(a, b) => arrow(ty_plain(a), ty_plain(b)),
        T::All(a, b) => E::Pi { var: Some(a.clone()), implicit: false, dom: Box::new(E::TyType), cod: Box::new(ty_plain(b)) },
    }
}

const NAME_POOL: [&str; 44] = [
    "x", "y", "z", "n", "m", "k", "f", "g", "h", "p", "q", "r", "s", "u", "v", "w", "i", "j", "acc", "tmp", "foo", "bar",
    "iff", "int2", "type_", "thenx", "elsey", "boolean", "truex", "false_", "ifx", "é", "λx", "名", "x1", "y2", "go", "fn1",
    "val", "id", "x_y", "_u", "Q", "数",
];
const TYVAR_POOL: [&str; 14] = ["a", "b", "c", "d", "t", "t1", "t2", "ty", "elt", "α", "β", "A", "B", "tt"];

#[derive(Clone)]
struct Bind {
    name: String,
    ty: T,
    alias: Option<T>,     // this name is a type alias for that type
    guarded: Option<i64>, // recursive function: the first argument must be a natural number <= this
    usable: bool,         // may be referenced from the position being generated
    forward: bool,        // referencing it from here is a forward reference of a non-function definition
}

impl Bind {
    fn plain(name: &str, ty: T) -> Bind {
        Bind { name: name.to_owned(), ty, alias: None, guarded: None, usable: true, forward: false }
    }
}

struct Gen<'r> {
    rng: &'r mut Rng,
    cfg: GenCfg,
    scope: Vec<Bind>,
    feats: BTreeSet<&'static str>,
    in_guarded: usize,  // > 0 inside the body of a recursive function: no calls of guarded functions
    let_depth: usize,   // number of enclosing groups
    no_let: bool,       // the next node must not be a group (body of a group)
    used_tyvars: BTreeSet<String>,
    obfuscate: bool,    // annotations may be obfuscated into definitionally equal types
}

// What a group is planned to contain, before any right-hand side is generated.
#[derive(Clone)]
enum Kind { Alias(T), Value, Func, Rec { calls: usize }, Poly }

#[derive(Clone)]
struct Item {
    kind: Kind,
    name: String,
    ty: T,
    cluster: Option<String>, // the partner of a mutually recursive pair
    fwd_user: Option<usize>, // index of the earliest non-function definition that calls it early
    literal: bool,           // a value definition whose right-hand side is forced to be a literal
}

impl Gen<'_> {
    // ---- names and scopes ----

    fn in_scope(&self, n: &str) -> bool { self.scope.iter().any(|b| b.name == n) }

    fn fresh_name(&mut self) -> String {
        for _ in 0..40 {
            let n = *self.rng.pick(&NAME_POOL);
            if !self.in_scope(n) && !self.used_tyvars.contains(n) { return n.to_owned(); }
        }
        let mut i = 0;
        loop {
            let n = format!("v{i}");
            if !self.in_scope(&n) { return n; }
            i += 1;
        }
    }

    // Type variable names are never reused within one program, so instantiating a polymorphic
    // type can never capture.
    fn fresh_tyvar(&mut self) -> String {
        for _ in 0..20 {
            let n = *self.rng.pick(&TYVAR_POOL);
            if !self.in_scope(n) && !self.used_tyvars.contains(n) {
                self.used_tyvars.insert(n.to_owned());
                return n.to_owned();
            }
        }
        let mut i = 0;
        loop {
            let n = format!("a{i}");
            if !self.in_scope(&n) && !self.used_tyvars.contains(&n) {
                self.used_tyvars.insert(n.clone());
                return n;
            }
            i += 1;
        }
    }

    fn feat(&mut self, f: &'static str) { self.feats.insert(f); }

    // ---- types ----

    fn ground_base(&mut self) -> T { if self.rng.chance(3, 5) { T::Int } else { T::Bool } }

    fn gen_type(&mut self, depth: usize) -> T {
        if depth == 0 || self.rng.chance(3, 4) { return self.ground_base(); }
        let a = self.gen_type(depth - 1);
        let b = self.gen_type(depth - 1);
        T::fun(a, b)
    }

    // A closed boolean expression with a known value.
    fn closed_bool(&mut self, want: bool) -> E {
        if self.rng.chance(1, 4) { return if want { E::True } else { E::False }; }
        loop {
            let (a, b, op) = (self.rng.range(0, 9), self.rng.range(0, 9), 4 + self.rng.below(5) as u8);
            let holds = match op { 4 => a < b, 5 => a <= b, 6 => a == b, 7 => a > b, _ => a >= b };
            if holds == want { return bin(op, lit(a), lit(b)); }
        }
    }

    // Render a type as an annotation / type argument, sometimes obfuscated into a definitionally
    // equal expression.
    fn ty_e(&mut self, t: &T) -> E {
        // an alias in scope for exactly this type
        if self.obfuscate {
            let aliases: Vec<String> = self.scope.iter().filter(|b| b.usable && b.alias.as_ref() == Some(t)).map(|b| b.name.clone()).collect();
            if !aliases.is_empty() && self.rng.chance(3, 5) {
                self.feat("type-alias");
                return var(self.rng.pick::<String>(&aliases[..]));
            }
        }
        let base = match t {
            T::Int => E::TyInt,
            T::Bool => E::TyBool,
            T::Type => E::TyType,
            T::TVar(a) => var(a),
            T::Fun(a, b) => {
                let dom = self.ty_e(a);
                if self.obfuscate && self.rng.chance(1, 8) {
                    // a dependent function type whose variable is not used
                    self.feat("dependent-pi");
                    let x = self.fresh_name();
                    self.scope.push(Bind { usable: false, ..Bind::plain(&x, (**a).clone()) });
                    let cod = self.ty_e(b);
                    self.scope.pop();
                    E::Pi { var: Some(x), implicit: false, dom: Box::new(dom), cod: Box::new(cod) }
                } else {
                    arrow(dom, self.ty_e(b))
                }
            }
            T::All(a, b) => {
                // rename the bound variable: the stored name may clash with the scope here
                let a2 = self.fresh_tyvar();
                let mut m = HashMap::new();
                m.insert(a.clone(), T::TVar(a2.clone()));
                let b2 = b.subst(&m);
                self.scope.push(Bind { usable: false, ..Bind::plain(&a2, T::Type) });
                let cod = self.ty_e(&b2);
                self.scope.pop();
                E::Pi { var: Some(a2), implicit: false, dom: Box::new(E::TyType), cod: Box::new(cod) }
            }
        };
        if !self.obfuscate || !self.rng.chance(1, 10) { return base; }
        match self.rng.below(3) {
            0 => {
                self.feat("type-level-if");
                let other = ty_plain(&self.gen_type(1));
                if self.rng.chance(1, 2) { ite(self.closed_bool(true), base, other) } else { ite(self.closed_bool(false), other, base) }
            }
            1 => {
                self.feat("type-id-app");
                let v = self.fresh_tyvar();
                app(lam(&v, Some(E::TyType), var(&v)), base)
            }
            _ => {
                self.feat("type-let");
                let v = self.fresh_tyvar();
                let ann = if self.cfg.allow_holes && self.rng.chance(1, 2) { None } else { Some(E::TyType) };
                paren(E::Let(vec![(v.clone(), ann, base)], Box::new(var(&v))))
            }
        }
    }

    // ---- leaves ----

    fn int_literal(&mut self) -> E {
        let r = self.rng.below(20);
        if self.cfg.big_literals && r < 3 {
            self.feat("big-literal");
            let digits = self.rng.range(20, 60) as usize;
            let mut s = String::new();
            s.push(char::from(b'1' + self.rng.below(9) as u8));
            for _ in 1..digits { s.push(char::from(b'0' + self.rng.below(10) as u8)); }
            let n = E::Lit(s.parse().unwrap());
            return if self.rng.chance(1, 4) { E::Neg(Box::new(n)) } else { n };
        }
        match r {
            3 | 4 => { self.feat("negative-literal"); lit(-self.rng.range(1, 12)) }
            5 => lit(0),
            6 => lit(self.rng.range(10, 1000)),
            _ => lit(self.rng.range(0, 9)),
        }
    }

    // A closed expression whose value is a natural number <= max.
    fn small_nat(&mut self, max: i64) -> E {
        let k = self.rng.range(0, max);
        match self.rng.below(8) {
            0 if k > 0 => { let a = self.rng.range(0, k); bin(0, lit(a), lit(k - a)) }
            1 => ite(self.closed_bool(true), lit(k), lit(self.rng.range(0, max))),
            _ => lit(k),
        }
    }

    fn vars_of(&self, goal: &T) -> Vec<String> {
        self.scope.iter().filter(|b| b.usable && !b.forward && b.alias.is_none() && b.guarded.is_none() && &b.ty == goal).map(|b| b.name.clone()).collect()
    }

    // The smallest expression of the goal type.
    fn leaf(&mut self, goal: &T, depth: usize) -> E {
        let vs = self.vars_of(goal);
        if !vs.is_empty() && (self.rng.chance(1, 2) || matches!(goal, T::TVar(_))) {
            return var(self.rng.pick::<String>(&vs[..]));
        }
        match goal {
            T::Int => self.int_literal(),
            T::Bool => if self.rng.chance(1, 2) { E::True } else { E::False },
            T::Type => { let t = self.gen_type(1); self.ty_e(&t) }
            T::TVar(_) => match self.inhabit(goal, depth.max(3)) {
                Some(e) => e,
                None => {
                    self.feat("BUG-no-inhabitant");
                    lit(0)
                }
            },
            T::Fun(..) | T::All(..) => self.gen_lambda(goal, 0),
        }
    }

    // A small expression of an abstract type (a type variable): a variable of that type, or a
    // monomorphic function in scope applied to such expressions. Proper search, so that it finds
    // an inhabitant whenever one exists within the depth.
    fn inhabit(&mut self, goal: &T, depth: usize) -> Option<E> {
        let vs = self.vars_of(goal);
        if !vs.is_empty() { return Some(var(self.rng.pick::<String>(&vs[..]))); }
        if depth == 0 { return None; }
        let mut cands: Vec<(usize, usize)> = vec![];
        for (i, b) in self.scope.iter().enumerate() {
            if !b.usable || b.forward || b.alias.is_some() || b.guarded.is_some() || !b.ty.is_fun() || b.ty.has_all() { continue; }
            let (ps, rs) = spine(&b.ty);
            for k in 1..=ps.len() { if &rs[k] == goal { cands.push((i, k)); } }
        }
        let start = self.rng.below(cands.len().max(1));
        for c in 0..cands.len() {
            let (i, k) = cands[(start + c) % cands.len()];
            let (ps, _) = spine(&self.scope[i].ty);
            let mut e = var(&self.scope[i].name);
            let mut ok = true;
            for p in &ps[..k] {
                let Param::Val(t) = p else { ok = false; break };
                let arg = if let T::TVar(_) = t { self.inhabit(t, depth - 1) } else { Some(self.leaf(t, depth - 1)) };
                match arg { Some(a) => e = app(e, a), None => { ok = false; break } }
            }
            if ok { return Some(e); }
        }
        None
    }

    // ---- productions ----

    // A lambda for a function goal; all parameters up to a random arity are taken at once.
    fn gen_lambda(&mut self, goal: &T, budget: usize) -> E {
        match goal {
            T::Fun(a, b) => {
                let x = self.fresh_name();
                let ann = self.param_ann(a);
                if a.is_fun() { self.feat("higher-order"); }
                self.scope.push(Bind::plain(&x, (**a).clone()));
                let body = if b.is_fun() && self.rng.chance(4, 5) { self.gen_lambda(b, budget.saturating_sub(1)) } else { self.expr(b, budget.saturating_sub(1)) };
                self.scope.pop();
                E::Lam { var: x, implicit: false, ann, body: Box::new(body) }
            }
            T::All(a, b) => {
                self.feat("polymorphism");
                let a2 = self.fresh_tyvar();
                let mut m = HashMap::new();
                m.insert(a.clone(), T::TVar(a2.clone()));
                let b2 = b.subst(&m);
                self.scope.push(Bind::plain(&a2, T::Type));
                let body = if b2.is_fun() { self.gen_lambda(&b2, budget.saturating_sub(1)) } else { self.expr(&b2, budget.saturating_sub(1)) };
                self.scope.pop();
                let ann = if self.cfg.allow_holes && self.rng.chance(1, 4) { self.feat("hole"); None } else { Some(Box::new(E::TyType)) };
                E::Lam { var: a2, implicit: false, ann, body: Box::new(body) }
            }
            _ => self.expr(goal, budget),
        }
    }

    // The annotation of a lambda parameter: present unless holes are allowed and the type is a
    // base type (gram cannot infer a function type for a parameter that is applied in the body).
    fn param_ann(&mut self, a: &T) -> Option<Box<E>> {
        if self.cfg.allow_holes && a.is_ground_base() && self.rng.chance(1, 4) {
            self.feat("hole");
            return if self.rng.chance(1, 3) { Some(Box::new(E::Hole)) } else { None };
        }
        Some(Box::new(self.ty_e(a)))
    }

    fn expr(&mut self, goal: &T, budget: usize) -> E {
        let no_let = std::mem::replace(&mut self.no_let, false);
        if budget <= 1 { return self.leaf(goal, 2); }
        if !no_let && self.rng.chance(1, 30) {
            self.feat("explicit-parens");
            return paren(self.expr(goal, budget - 1));
        }
        for _ in 0..4 {
            // weights: specific, if, call, var, applied lambda, group
            let group_ok = !no_let && budget >= 6 && (self.cfg.allow_nested_groups || self.let_depth == 0) && self.let_depth < 3;
            let w = [6, if budget >= 4 { 2 } else { 0 }, 6, 2, if budget >= 4 { 1 } else { 0 }, if group_ok { 2 } else { 0 }];
            let mut r = self.rng.below(w.iter().sum());
            let mut p = 0;
            while r >= w[p] { r -= w[p]; p += 1; }
            let got = match p {
                0 => self.gen_specific(goal, budget),
                1 => {
                    let c = self.expr(&T::Bool, budget / 3);
                    let a = self.expr(goal, budget / 3);
                    let b = self.expr(goal, budget / 3);
                    Some(ite(c, a, b))
                }
                2 => self.gen_call(goal, budget),
                3 => {
                    let vs = self.vars_of(goal);
                    if vs.is_empty() { None } else { Some(var(self.rng.pick::<String>(&vs[..]))) }
                }
                4 => Some(self.gen_applied_lambda(goal, budget)),
                _ => Some(self.gen_group(goal, budget)),
            };
            if let Some(e) = got { return e; }
        }
        self.leaf(goal, 2)
    }

    fn gen_specific(&mut self, goal: &T, budget: usize) -> Option<E> {
        let half = (budget - 1) / 2;
        Some(match goal {
            T::Int => {
                let r = self.rng.below(12);
                match r {
                    0..=2 => bin(0, self.expr(&T::Int, half), self.expr(&T::Int, half)),
                    3..=5 => bin(1, self.expr(&T::Int, half), self.expr(&T::Int, half)),
                    6..=8 => bin(2, self.expr(&T::Int, half), self.expr(&T::Int, half)),
                    9 | 10 if self.cfg.allow_div => {
                        self.feat("division");
                        let a = self.expr(&T::Int, half);
                        // the divisor is biased towards non-zero literals, zero is not excluded
                        let b = if self.rng.chance(7, 10) {
                            let k = self.rng.range(1, 9);
                            if self.rng.chance(1, 5) { lit(-k) } else { lit(k) }
                        } else {
                            self.expr(&T::Int, half)
                        };
                        bin(3, a, b)
                    }
                    9 | 10 => self.int_literal(),
                    _ => E::Neg(Box::new(self.expr(&T::Int, budget - 1))),
                }
            }
            T::Bool => {
                let op = 4 + self.rng.below(5) as u8;
                bin(op, self.expr(&T::Int, half), self.expr(&T::Int, half))
            }
            T::Type => { let t = self.gen_type(2); self.ty_e(&t) }
            T::TVar(_) => return None,
            T::Fun(..) | T::All(..) => self.gen_lambda(goal, budget),
        })
    }

    fn gen_applied_lambda(&mut self, goal: &T, budget: usize) -> E {
        let a = if self.rng.chance(1, 5) { self.feat("higher-order"); self.gen_type(1) } else { self.ground_base() };
        let a = if let T::Fun(..) = a { a } else if self.rng.chance(1, 6) { self.feat("higher-order"); T::fun(T::Int, self.ground_base()) } else { a };
        let arg = self.expr(&a, budget / 2);
        let x = self.fresh_name();
        let ann = self.param_ann(&a);
        self.scope.push(Bind::plain(&x, a));
        let body = self.expr(goal, budget / 2);
        self.scope.pop();
        self.feat("applied-lambda");
        app(E::Lam { var: x, implicit: false, ann, body: Box::new(body) }, arg)
    }

    // An application of a function in scope whose result (after k arguments) is the goal.
    fn gen_call(&mut self, goal: &T, budget: usize) -> Option<E> {
        // A function goal over abstract types is only met by a lambda: a partial application
        // would need arguments of abstract types before the parameters that provide them exist.
        if goal.is_fun() && goal.has_tvar() { return None; }
        let mut cands: Vec<(usize, usize, HashMap<String, T>)> = vec![];
        for (i, b) in self.scope.iter().enumerate() {
            if !b.usable || b.alias.is_some() || !b.ty.is_fun() { continue; }
            if b.guarded.is_some() && self.in_guarded > 0 { continue; }
            let (ps, rs) = spine(&b.ty);
            for k in 1..=ps.len() {
                let vars: Vec<String> = ps[..k].iter().filter_map(|p| if let Param::Ty(a) = p { Some(a.clone()) } else { None }).collect();
                let mut m = HashMap::new();
                if match_ty(&rs[k], goal, &vars, &mut m) {
                    let w = if b.ty.has_all() || b.forward { 3 } else { 1 };
                    for _ in 0..w { cands.push((i, k, m.clone())); }
                }
            }
        }
        if cands.is_empty() { return None; }
        let (i, k, m) = cands[self.rng.below(cands.len())].clone();
        Some(self.build_call(i, k, m, budget))
    }

    // A call of one specific function, if its result can be the goal (prefers full application).
    fn force_call(&mut self, name: &str, goal: &T, budget: usize) -> Option<E> {
        let i = self.scope.iter().position(|b| b.name == name)?;
        let (ps, rs) = spine(&self.scope[i].ty);
        for k in (1..=ps.len()).rev() {
            let vars: Vec<String> = ps[..k].iter().filter_map(|p| if let Param::Ty(a) = p { Some(a.clone()) } else { None }).collect();
            let mut m = HashMap::new();
            if match_ty(&rs[k], goal, &vars, &mut m) { return Some(self.build_call(i, k, m, budget)); }
        }
        None
    }

    fn build_call(&mut self, i: usize, k: usize, mut m: HashMap<String, T>, budget: usize) -> E {
        let b = self.scope[i].clone();
        let (ps, _) = spine(&b.ty);
        if b.ty.has_all() { self.feat("polymorphism"); }
        if b.forward { self.feat("forward-ref"); }
        if k < ps.len() { self.feat("partial-application"); }
        // type parameters not determined by the goal are instantiated at random
        for p in &ps[..k] {
            if let Param::Ty(a) = p {
                if !m.contains_key(a) { let t = self.ground_base(); m.insert(a.clone(), t); }
            }
        }
        let per = budget.saturating_sub(1) / k;
        let mut e = var(&b.name);
        let mut first_val = true;
        for (j, p) in ps[..k].iter().enumerate() {
            let arg = match p {
                Param::Ty(a) => {
                    // `_` when a later value argument has a type mentioning the variable
                    let inferable = ps[j + 1..k].iter().any(|q| matches!(q, Param::Val(t) if t == &T::TVar(a.clone())));
                    if self.cfg.allow_holes && inferable && self.rng.chance(1, 2) {
                        self.feat("hole");
                        E::Hole
                    } else {
                        let t = m[a].clone();
                        self.ty_e(&t)
                    }
                }
                Param::Val(t) => {
                    let t2 = t.subst(&m);
                    if t2.is_fun() { self.feat("higher-order"); }
                    let guarded_arg = first_val && b.guarded.is_some();
                    first_val = false;
                    if guarded_arg {
                        self.small_nat(b.guarded.unwrap())
                    } else {
                        self.expr(&t2, per)
                    }
                }
            };
            e = app(e, arg);
        }
        e
    }

    // ---- groups ----

    fn func_type(&mut self) -> T {
        let n = 1 + self.rng.below(3);
        let mut ps = vec![];
        for _ in 0..n {
            ps.push(if self.rng.chance(1, 4) { T::fun(self.ground_base(), self.ground_base()) } else { self.ground_base() });
        }
        let res = if self.rng.chance(1, 8) { T::fun(self.ground_base(), self.ground_base()) } else { self.ground_base() };
        T::funs(&ps, res)
    }

    fn rec_type(&mut self) -> T {
        let n = self.rng.below(3);
        let mut ps = vec![T::Int];
        for _ in 0..n { ps.push(self.ground_base()); }
        let res = if self.rng.chance(3, 4) { T::Int } else { T::Bool };
        T::funs(&ps, res)
    }

    fn poly_type(&mut self) -> T {
        let (a, b, c) = (self.fresh_tyvar(), self.fresh_tyvar(), self.fresh_tyvar());
        let (ta, tb, tc) = (T::TVar(a.clone()), T::TVar(b.clone()), T::TVar(c.clone()));
        match self.rng.below(6) {
            0 | 1 => T::all(&a, T::fun(ta.clone(), ta)),                                                    // id
            2 => T::all(&a, T::all(&b, T::funs(&[ta.clone(), tb], ta))),                                    // const
            3 => { self.feat("higher-order"); T::all(&a, T::funs(&[T::fun(ta.clone(), ta.clone()), ta.clone()], ta)) } // twice / apply
            4 => T::all(&a, T::funs(&[T::Bool, ta.clone(), ta.clone()], ta)),                               // choose
            _ => {
                self.feat("higher-order");
                T::all(&a, T::all(&b, T::all(&c, T::funs(&[T::fun(tb.clone(), tc.clone()), T::fun(ta.clone(), tb), ta], tc)))) // compose
            }
        }
    }

    fn plan_group(&mut self, budget: usize) -> Vec<Item> {
        let max_defs = if budget < 12 { 1 } else if budget < 25 { 2 } else if budget < 45 { 3 } else { 4 };
        let n_defs = 1 + self.rng.below(max_defs);
        let mut items: Vec<Item> = vec![];
        let mut names: Vec<String> = vec![];
        let name = |g: &mut Self, names: &mut Vec<String>| loop {
            let n = g.fresh_name();
            if !names.contains(&n) { names.push(n.clone()); return n; }
        };
        while items.len() < n_defs {
            let r = self.rng.below(13);
            let left = n_defs - items.len();
            let item = |kind: Kind, name: String, ty: T| Item { kind, name, ty, cluster: None, fwd_user: None, literal: false };
            match r {
                0..=3 => {
                    // sometimes a function-typed value: what is left of an earlier function of
                    // the group after its first arguments (so a partial application fits)
                    let earlier: Vec<T> = items.iter().filter(|it| matches!(it.kind, Kind::Func | Kind::Rec { .. }) && it.cluster.is_none()).filter_map(|it| {
                        let (ps, rs) = spine(&it.ty);
                        if ps.len() >= 2 { Some(rs[1 + self.rng.below(ps.len() - 1)].clone()) } else { None }
                    }).collect();
                    let ty = if !earlier.is_empty() && self.rng.chance(1, 3) {
                        self.rng.pick(&earlier).clone()
                    } else if self.rng.chance(1, 7) {
                        T::fun(self.ground_base(), self.ground_base())
                    } else {
                        self.ground_base()
                    };
                    let n = name(self, &mut names);
                    items.push(item(Kind::Value, n, ty));
                }
                4..=6 => {
                    let ty = self.func_type();
                    let n = name(self, &mut names);
                    items.push(item(Kind::Func, n, ty));
                }
                7..=9 => {
                    let ty = self.rec_type();
                    let n = name(self, &mut names);
                    let calls = if self.rng.chance(1, 4) { 2 } else { 1 };
                    items.push(item(Kind::Rec { calls }, n, ty));
                }
                10 if left >= 2 => {
                    let (t1, t2) = (self.rec_type(), self.rec_type());
                    let (n1, n2) = (name(self, &mut names), name(self, &mut names));
                    let mut i1 = item(Kind::Rec { calls: 1 }, n1.clone(), t1);
                    let mut i2 = item(Kind::Rec { calls: 1 }, n2.clone(), t2);
                    i1.cluster = Some(n2);
                    i2.cluster = Some(n1);
                    items.push(i1);
                    items.push(i2);
                }
                10 => {}
                _ => {
                    let ty = self.poly_type();
                    let n = if !self.in_scope("id") && !names.contains(&"id".to_owned()) && matches!(&ty, T::All(_, b) if matches!(**b, T::Fun(..)) && !b.has_all()) && self.rng.chance(1, 2) {
                        names.push("id".to_owned());
                        "id".to_owned()
                    } else {
                        name(self, &mut names)
                    };
                    items.push(item(Kind::Poly, n, ty));
                }
            }
        }
        // with forward references allowed, make sure there is something to refer forward to: a
        // non-function definition followed by a function definition
        if self.cfg.allow_forward_refs && self.rng.chance(2, 3) {
            let first_value = items.iter().position(|it| matches!(it.kind, Kind::Value) && it.ty.is_ground_base());
            let has_later_fn = first_value.map_or(false, |v| items[v + 1..].iter().any(|it| matches!(it.kind, Kind::Func | Kind::Rec { .. }) && it.cluster.is_none()));
            if !has_later_fn {
                if first_value.is_none() {
                    let n = name(self, &mut names);
                    let ty = self.ground_base();
                    items.insert(0, Item { kind: Kind::Value, name: n, ty, cluster: None, fwd_user: None, literal: false });
                }
                let n = name(self, &mut names);
                let (kind, ty) = if self.rng.chance(1, 2) { (Kind::Func, self.func_type()) } else { (Kind::Rec { calls: 1 }, self.rec_type()) };
                items.push(Item { kind, name: n, ty, cluster: None, fwd_user: None, literal: false });
            }
        }
        // a type alias for a type that the group is going to mention
        if self.rng.chance(1, 4) {
            let mut pool: Vec<T> = vec![];
            for it in &items {
                if let T::Fun(a, _) = &it.ty {
                    if !it.ty.has_all() { pool.push(it.ty.clone()); pool.push((**a).clone()); }
                }
            }
            pool.push(self.ground_base());
            let t = self.rng.pick(&pool).clone();
            let n = self.fresh_tyvar();
            items.insert(0, Item { kind: Kind::Alias(t), name: n, ty: T::Type, cluster: None, fwd_user: None, literal: false });
        }
        items
    }

    fn gen_group(&mut self, goal: &T, budget: usize) -> E {
        self.let_depth += 1;
        if self.let_depth > 1 { self.feat("nested-group"); }
        let base = self.scope.len();
        let mut items = self.plan_group(budget);
        let has_alias = matches!(items[0].kind, Kind::Alias(_));
        // all names of the group are in scope everywhere in it (no shadowing), but not usable yet
        for it in &items {
            let guarded = if let Kind::Rec { calls } = it.kind { Some(if calls > 1 { 3 } else { 4 }) } else { None };
            let alias = if let Kind::Alias(t) = &it.kind { Some(t.clone()) } else { None };
            self.scope.push(Bind { name: it.name.clone(), ty: it.ty.clone(), alias, guarded, usable: false, forward: false });
        }
        // forward references: a non-function definition may call a later function definition, or
        // use a later literal definition
        let mut fwd: HashMap<usize, usize> = HashMap::new(); // user -> target
        if self.cfg.allow_forward_refs {
            for i in 0..items.len() {
                if !matches!(items[i].kind, Kind::Value) || !items[i].ty.is_ground_base() || !self.rng.chance(2, 3) { continue; }
                let targets: Vec<usize> = (i + 1..items.len())
                    .filter(|&j| match items[j].kind {
                        Kind::Func | Kind::Rec { .. } => items[j].ty.result().is_ground_base() && items[j].cluster.is_none(),
                        Kind::Value => items[j].ty.is_ground_base() && !fwd.contains_key(&j),
                        _ => false,
                    })
                    .collect();
                if targets.is_empty() { continue; }
                let j = *self.rng.pick(&targets);
                fwd.insert(i, j);
                if matches!(items[j].kind, Kind::Value) { items[j].literal = true; }
                items[j].fwd_user = Some(items[j].fwd_user.map_or(i, |u| u.min(i)));
            }
        }
        let n_items = items.len();
        let per = (budget * 3 / 4) / n_items.max(1);
        let mut defs: Vec<(String, Option<E>, E)> = vec![];
        for i in 0..n_items {
            let it = items[i].clone();
            // a definition that is used early must not depend on anything from its user onwards
            let hidden: Vec<usize> = match it.fwd_user {
                Some(u) => (u..i).filter(|&j| self.scope[base + j].usable).collect(),
                None => vec![],
            };
            for &j in &hidden { self.scope[base + j].usable = false; }
            // Decide about the annotation first. gram cannot check an unannotated definition
            // whose type still contains an unresolved hole (`g = p => 4` is rejected), so holes
            // inside such a right-hand side are switched off, except for a few flagged cases.
            let needs_ann = matches!(it.kind, Kind::Rec { .. }) || it.fwd_user.is_some() || has_alias;
            let omit_ann = self.cfg.allow_holes && !needs_ann && self.rng.chance(2, 5);
            let saved_holes = self.cfg.allow_holes;
            if omit_ann {
                if self.rng.chance(1, 12) { self.feat("hole-in-unannotated-def"); } else { self.cfg.allow_holes = false; }
            }
            let rhs = match &it.kind {
                Kind::Alias(t) => {
                    let save = self.obfuscate;
                    self.obfuscate = save && self.rng.chance(1, 3);
                    let e = self.ty_e(&t.clone());
                    self.obfuscate = save;
                    e
                }
                Kind::Value if it.literal => if it.ty == T::Int { self.int_literal() } else if self.rng.chance(1, 2) { E::True } else { E::False },
                Kind::Value => match fwd.get(&i) {
                    Some(&j) => self.gen_forward_use(&it.ty, base + j, per),
                    None if it.ty.is_fun() && self.rng.chance(3, 4) => match self.gen_call(&it.ty, per) {
                        Some(e) => e,
                        None => self.expr(&it.ty, per),
                    },
                    None => self.expr(&it.ty, per),
                },
                Kind::Func | Kind::Poly => self.gen_lambda(&it.ty, per),
                Kind::Rec { calls } => self.gen_rec(&it, *calls, per),
            };
            for &j in &hidden { self.scope[base + j].usable = true; }
            self.cfg.allow_holes = saved_holes;
            let ann = if omit_ann {
                self.feat("hole");
                if self.rng.chance(1, 4) { Some(E::Hole) } else { None }
            } else {
                Some(self.ty_e(&it.ty))
            };
            defs.push((it.name.clone(), ann, rhs));
            self.scope[base + i].usable = true;
        }
        // body
        let rest = budget / 4 + 2;
        let polys: Vec<String> = items.iter().filter(|it| matches!(it.kind, Kind::Poly)).map(|it| it.name.clone()).collect();
        let body = if !polys.is_empty() && goal.is_ground_base() && self.rng.chance(3, 4) {
            // use a polymorphic definition at two different instances
            let p = self.rng.pick(&polys).clone();
            let other = if *goal == T::Int { T::Bool } else { T::Int };
            let c1 = self.force_call(&p, &other, rest / 3);
            let c2 = self.force_call(&p, goal, rest / 3);
            match (c1, c2) {
                (Some(c1), Some(c2)) => {
                    self.feat("polymorphism-two-instances");
                    let cond = if other == T::Bool { c1 } else { bin(4 + self.rng.below(5) as u8, c1, self.expr(&T::Int, 2)) };
                    let alt = self.expr(goal, rest / 3);
                    if self.rng.chance(1, 2) { ite(cond, c2, alt) } else { ite(cond, alt, c2) }
                }
                _ => { self.no_let = true; self.expr(goal, rest) }
            }
        } else {
            self.no_let = true;
            // prefer a body that uses the group
            let mut b = None;
            if self.rng.chance(2, 3) {
                let last = items.iter().rev().find(|it| !matches!(it.kind, Kind::Alias(_))).map(|it| it.name.clone());
                if let Some(n) = last {
                    if self.scope.iter().any(|x| x.name == n && x.ty.is_fun()) { b = self.force_call(&n, goal, rest); }
                }
            }
            self.no_let = true;
            match b { Some(b) => { self.no_let = false; b } None => self.expr(goal, rest) }
        };
        self.no_let = false;
        self.scope.truncate(base);
        self.let_depth -= 1;
        E::Let(defs, Box::new(body))
    }

    // The right-hand side of a non-function definition that uses a later definition.
    fn gen_forward_use(&mut self, ty: &T, target: usize, budget: usize) -> E {
        self.scope[target].usable = true;
        self.scope[target].forward = true;
        let name = self.scope[target].name.clone();
        let tty = self.scope[target].ty.clone();
        let res = tty.result().clone();
        self.feat("forward-ref");
        let c = if tty.is_fun() { self.force_call(&name, &res, budget / 2).unwrap_or_else(|| var(&name)) } else { var(&name) };
        self.scope[target].usable = false;
        self.scope[target].forward = false;
        let other = self.expr(&T::Int, budget / 3);
        match (ty, &res) {
            (T::Int, T::Int) => bin(self.rng.below(3) as u8, c, other),
            (T::Bool, T::Int) => bin(4 + self.rng.below(5) as u8, c, other),
            (T::Int, T::Bool) => ite(c, other, self.expr(&T::Int, budget / 3)),
            _ => c,
        }
    }

    // A (mutually) recursive function with a structurally decreasing first argument:
    //   (n : int) => (p : P) ... => if n <= 0 then BASE else STEP   with calls `f (n - 1) ...` in STEP.
    fn gen_rec(&mut self, it: &Item, calls: usize, budget: usize) -> E {
        self.feat("recursion");
        if it.cluster.is_some() { self.feat("mutual-recursion"); }
        let (ps, rs) = spine(&it.ty);
        let res = rs[ps.len()].clone();
        let base = self.scope.len();
        let mut params: Vec<(String, Option<Box<E>>)> = vec![];
        for p in &ps {
            if let Param::Val(t) = p {
                let x = self.fresh_name();
                // the parameter annotations of recursive functions are always written
                let ann = Some(Box::new(self.ty_e(t)));
                self.scope.push(Bind::plain(&x, t.clone()));
                params.push((x, ann));
            }
        }
        let n = params[0].0.clone();
        self.in_guarded += 1;
        let cond = match self.rng.below(6) {
            0 => bin(4, var(&n), lit(1)),
            1 => bin(8, lit(0), var(&n)),
            _ => bin(5, var(&n), lit(0)),
        };
        let base_e = self.expr(&res, budget / 4);
        // the recursive calls: to the partner if there is one (and then maybe also to itself)
        let mut rec_calls = vec![];
        for c in 0..calls {
            let callee = match &it.cluster {
                Some(partner) if c == 0 => partner.clone(),
                _ => it.name.clone(),
            };
            let cty = self.scope.iter().find(|b| b.name == callee).unwrap().ty.clone();
            let (cps, _) = spine(&cty);
            let mut e = app(var(&callee), bin(1, var(&n), lit(1)));
            for p in &cps[1..] {
                if let Param::Val(t) = p { e = app(e, self.expr(t, 3)); }
            }
            // the callee's result type may differ from ours (mutual recursion): adapt
            let cres = cty.result().clone();
            let e = match (&res, &cres) {
                (T::Int, T::Bool) => ite(e, self.expr(&T::Int, 2), self.expr(&T::Int, 2)),
                (T::Bool, T::Int) => bin(4 + self.rng.below(5) as u8, e, self.expr(&T::Int, 2)),
                _ => e,
            };
            rec_calls.push(e);
        }
        let mut step = rec_calls.remove(0);
        let extra = budget / 4;
        step = match res {
            T::Int => match self.rng.below(5) {
                0 => step,
                1 => bin(2, self.expr(&T::Int, extra), step),
                2 => bin(0, step, self.expr(&T::Int, extra)),
                3 => bin(1, step, self.expr(&T::Int, extra)),
                _ => bin(0, var(&n), step),
            },
            _ => match self.rng.below(3) {
                0 => step,
                1 => ite(self.expr(&T::Bool, extra), step, self.expr(&T::Bool, 2)),
                _ => ite(step, self.expr(&T::Bool, 2), self.expr(&T::Bool, 2)),
            },
        };
        if let Some(second) = rec_calls.pop() {
            step = match res {
                T::Int => bin(self.rng.below(3) as u8, step, second),
                _ => ite(self.expr(&T::Bool, 2), step, second),
            };
        }
        self.in_guarded -= 1;
        self.scope.truncate(base);
        let mut e = ite(cond, base_e, step);
        for (x, ann) in params.into_iter().rev() {
            e = E::Lam { var: x, implicit: false, ann, body: Box::new(e) };
        }
        e
    }
}

// Programs whose reference evaluation visits more nodes than this are generated again.
pub const MAX_REFERENCE_COST: usize = 6_000;

pub fn default_cfg() -> GenCfg {
    GenCfg { size: 40, allow_holes: false, allow_forward_refs: false, allow_nested_groups: true, allow_div: true, big_literals: true }
}

// One program, reproducible from the state of `rng`.
pub fn gen_program(rng: &mut Rng, cfg: &GenCfg) -> Prog {
    let mut last = None;
    for _attempt in 0..30 {
        let mut sub = rng.fork();
        let mut g = Gen {
            rng: &mut sub,
            cfg: cfg.clone(),
            scope: vec![],
            feats: BTreeSet::new(),
            in_guarded: 0,
            let_depth: 0,
            no_let: false,
            used_tyvars: BTreeSet::new(),
            obfuscate: true,
        };
        g.obfuscate = g.rng.chance(2, 3);
        let goal = match g.rng.below(20) {
            0..=10 => T::Int,
            11..=16 => T::Bool,
            17 => T::Type,
            18 => g.func_type(),
            _ => if g.rng.chance(1, 2) { g.poly_type() } else { g.func_type() },
        };
        let size = cfg.size.max(2);
        let e = if g.rng.chance(5, 6) && size >= 6 { g.gen_group(&goal, size) } else { g.expr(&goal, size) };
        let (expected, cost) = reference_eval_cost(&e, 400_000);
        let ty_src = render_plain(&ty_plain(&goal));
        let mut features: Vec<&'static str> = g.feats.iter().copied().collect();
        if has_hole(&e) && !features.contains(&"hole") { features.push("hole"); }
        let p = Prog { fully_annotated: !has_hole(&e), e, ty_src, expected, features };
        // the generator is meant to produce terminating, non-stuck programs: retry otherwise
        // and to stay cheap: evaluation is meant to take a few thousand steps at most
        if !matches!(p.expected, Expected::Diverges | Expected::Unknown) && cost <= MAX_REFERENCE_COST { return p; }
        last = Some(p);
    }
    last.unwrap()
}

// ---------------------------------------------------------------------------------------------
// 6. Meaning-preserving rewrites
// ---------------------------------------------------------------------------------------------

fn fresh_for(p: &E, taken: &[String], rng: &mut Rng) -> String {
    let mut names = BTreeSet::new();
    all_names(p, &mut names);
    for _ in 0..60 {
        let n = *rng.pick(&NAME_POOL);
        if !names.contains(n) && !taken.iter().any(|t| t == n) { return n.to_owned(); }
    }
    let mut i = 0;
    loop {
        let n = format!("w{i}");
        if !names.contains(&n) && !taken.contains(&n) { return n; }
        i += 1;
    }
}

fn replace_at(p: &E, path: &[usize], new: E) -> E {
    let mut q = p.clone();
    *at_mut(&mut q, path) = new;
    q
}

// Paths of right-hand sides of definitions (through parentheses): whether such a node is a
// syntactic value decides if the definition is available to the whole group, so rewrites that
// change the shape of a node leave these alone.
fn protected_paths(p: &E, all: &[Site]) -> BTreeSet<Path> {
    let mut out = BTreeSet::new();
    for s in all {
        if s.role == Role::DefRhs {
            let mut path = s.path.clone();
            out.insert(path.clone());
            while let E::Paren(_) = at(p, &path) {
                path.push(0);
                out.insert(path.clone());
            }
        }
    }
    out
}

// The ground type of a node when it is evident from its form or from its position:
// Some(true) = int, Some(false) = bool.
fn evident_ground_type(node: &E, role: Role) -> Option<bool> {
    match strip(node) {
        E::Lit(_) | E::Neg(_) | E::Bin(0..=3, ..) => return Some(true),
        E::True | E::False | E::Bin(4..=8, ..) => return Some(false),
        _ => {}
    }
    match role {
        Role::BinL(_) | Role::BinR(_) | Role::NegArg => Some(true),
        Role::IfCond => Some(false),
        _ => None,
    }
}

fn closed_true(rng: &mut Rng) -> E {
    match rng.below(4) {
        0 => E::True,
        1 => bin(4, lit(rng.range(0, 4)), lit(rng.range(5, 9))),
        2 => { let k = rng.range(0, 9); bin(6, lit(k), lit(k)) }
        _ => bin(8, lit(rng.range(5, 9)), lit(rng.range(0, 5))),
    }
}

// Each kind of rewrite applied once, at a random applicable site (kinds without a site are
// left out).
pub fn rewrites(p: &E, rng: &mut Rng) -> Vec<(&'static str, E)> {
    let all = sites(p);
    let prot = protected_paths(p, &all);
    let mut out: Vec<(&'static str, E)> = vec![];

    // rename: one binder and all its uses, to a name that occurs nowhere in the program
    {
        let mut binders: Vec<(Path, usize)> = vec![]; // (node, definition index for groups)
        for s in &all {
            match at(p, &s.path) {
                E::Lam { var, .. } if var != "_" => binders.push((s.path.clone(), 0)),
                E::Pi { var: Some(v), .. } if v != "_" => binders.push((s.path.clone(), 0)),
                E::Let(defs, _) => for i in 0..defs.len() { binders.push((s.path.clone(), i)); },
                _ => {}
            }
        }
        if !binders.is_empty() {
            let (path, i) = binders[rng.below(binders.len())].clone();
            let new = fresh_for(p, &[], rng);
            let mut q = p.clone();
            match at_mut(&mut q, &path) {
                E::Lam { var, body, .. } => {
                    let old = std::mem::replace(var, new.clone());
                    rename_uses(body, &old, &new);
                }
                E::Pi { var: Some(v), cod, .. } => {
                    let old = std::mem::replace(v, new.clone());
                    rename_uses(cod, &old, &new);
                }
                node @ E::Let(..) => {
                    let old = if let E::Let(defs, _) = node { std::mem::replace(&mut defs[i].0, new.clone()) } else { unreachable!() };
                    rename_uses(node, &old, &new);
                }
                _ => unreachable!(),
            }
            out.push(("rename", q));
        }
    }

    // parens: redundant parentheses around any node
    {
        let s = &all[rng.below(all.len())];
        let node = at(p, &s.path).clone();
        out.push(("parens", replace_at(p, &s.path, paren(node))));
    }

    // unused-def: a new definition that nothing refers to
    {
        let cands: Vec<&Site> = all.iter().filter(|s| s.role != Role::LetBody && !prot.contains(&s.path)).collect();
        if !cands.is_empty() {
            let s = cands[rng.below(cands.len())];
            let u = fresh_for(p, &[], rng);
            let z = fresh_for(p, &[u.clone()], rng);
            let (ann, rhs) = match rng.below(6) {
                0 => (E::TyInt, lit(rng.range(0, 99))),
                1 => (E::TyInt, bin(rng.below(3) as u8, lit(rng.range(0, 9)), lit(rng.range(0, 9)))),
                2 => (E::TyBool, bin(4 + rng.below(5) as u8, lit(rng.range(0, 9)), lit(rng.range(0, 9)))),
                3 => (arrow(E::TyInt, E::TyInt), lam(&z, Some(E::TyInt), bin(0, var(&z), lit(1)))),
                4 => (
                    E::Pi { var: Some(z.clone()), implicit: true, dom: Box::new(E::TyInt), cod: Box::new(E::TyInt) },
                    E::Lam { var: z.clone(), implicit: true, ann: Some(Box::new(E::TyInt)), body: Box::new(var(&z)) },
                ),
                _ => (E::TyType, arrow(E::TyInt, E::TyBool)),
            };
            let def = (u, Some(ann), rhs);
            let mut q = p.clone();
            let node = at_mut(&mut q, &s.path);
            if let E::Let(defs, _) = node {
                let k = rng.below(defs.len() + 1);
                defs.insert(k, def);
            } else {
                let inner = std::mem::replace(node, E::True);
                *node = E::Let(vec![def], Box::new(inner));
            }
            out.push(("unused-def", q));
        }
    }

    // name-subexpr: hoist a closed, total subexpression of ground type into a new definition at
    // the top of the program
    {
        let cands: Vec<&Site> = all
            .iter()
            .filter(|s| !s.in_type && !prot.contains(&s.path) && s.role != Role::Root)
            .filter(|s| {
                let n = at(p, &s.path);
                !matches!(strip(n), E::Var(_) | E::Hole) && size(n) <= 40 && is_closed(n)
            })
            .collect();
        // try a few candidates until one evaluates to a ground value
        for _ in 0..4 {
            if cands.is_empty() { break; }
            let s = cands[rng.below(cands.len())];
            let node = at(p, &s.path).clone();
            let ann = match reference_eval(&node, 50_000) {
                Expected::Int(_) => E::TyInt,
                Expected::Bool(_) => E::TyBool,
                _ => continue,
            };
            let v = fresh_for(p, &[], rng);
            let q = replace_at(p, &s.path, var(&v));
            out.push(("name-subexpr", mk_let(vec![(v, Some(ann), node)], q)));
            break;
        }
    }

    // identity-wrap: ((z : T) => z) e for a subexpression of evident ground type
    {
        let cands: Vec<(&Site, bool)> = all
            .iter()
            .filter(|s| !s.in_type && !prot.contains(&s.path))
            .filter_map(|s| evident_ground_type(at(p, &s.path), s.role).map(|t| (s, t)))
            .collect();
        if !cands.is_empty() {
            let (s, is_int) = cands[rng.below(cands.len())];
            let z = fresh_for(p, &[], rng);
            let t = if is_int { E::TyInt } else { E::TyBool };
            let node = at(p, &s.path).clone();
            out.push(("identity-wrap", replace_at(p, &s.path, app(lam(&z, Some(t), var(&z)), node))));
        }
    }

    // if-true: if <true> then e else e'
    {
        let cands: Vec<&Site> = all.iter().filter(|s| !prot.contains(&s.path) && s.role != Role::LetBody || s.role == Role::LetBody && !matches!(at(p, &s.path), E::Let(..))).filter(|s| !prot.contains(&s.path)).collect();
        if !cands.is_empty() {
            let s = cands[rng.below(cands.len())];
            let node = at(p, &s.path).clone();
            let other = match if s.in_type { None } else { evident_ground_type(&node, s.role) } {
                Some(true) if rng.chance(1, 2) => lit(rng.range(0, 99)),
                Some(false) if rng.chance(1, 2) => if rng.chance(1, 2) { E::True } else { E::False },
                _ => node.clone(),
            };
            let new = if rng.chance(2, 3) {
                ite(closed_true(rng), node, other)
            } else {
                ite(bin(7, lit(rng.range(0, 4)), lit(rng.range(5, 9))), other, node)
            };
            out.push(("if-true", replace_at(p, &s.path, new)));
        }
    }

    // reorder-fns: swap two adjacent function definitions that do not mention each other
    {
        let mut cands: Vec<(Path, usize)> = vec![];
        for s in &all {
            if let E::Let(defs, _) = at(p, &s.path) {
                for i in 0..defs.len().saturating_sub(1) {
                    let (a, b) = (&defs[i], &defs[i + 1]);
                    let lam_a = matches!(strip(&a.2), E::Lam { .. });
                    let lam_b = matches!(strip(&b.2), E::Lam { .. });
                    let indep = !mentions(&a.2, &b.0) && !mentions(&b.2, &a.0)
                        && !a.1.as_ref().map_or(false, |t| mentions(t, &b.0))
                        && !b.1.as_ref().map_or(false, |t| mentions(t, &a.0));
                    if lam_a && lam_b && indep { cands.push((s.path.clone(), i)); }
                }
            }
        }
        if !cands.is_empty() {
            let (path, i) = cands[rng.below(cands.len())].clone();
            let mut q = p.clone();
            if let E::Let(defs, _) = at_mut(&mut q, &path) { defs.swap(i, i + 1); }
            out.push(("reorder-fns", q));
        }
    }
    out
}

// ---------------------------------------------------------------------------------------------
// 7. Ill-typing / ill-scoping perturbations
// ---------------------------------------------------------------------------------------------

// ONE single-point perturbation that is meant to make the program ill-typed or ill-scoped.
pub fn perturb(p: &E, rng: &mut Rng) -> Option<(&'static str, E)> {
    let all = sites(p);
    let start = rng.below(6);
    for t in 0..6 {
        match (start + t) % 6 {
            // a subterm replaced by one of the other ground type
            0 => {
                let cands: Vec<(&Site, bool)> = all.iter().filter(|s| !s.in_type).filter_map(|s| evident_ground_type(at(p, &s.path), s.role).map(|t| (s, t))).collect();
                if cands.is_empty() { continue; }
                let (s, is_int) = cands[rng.below(cands.len())];
                let new = if is_int { if rng.chance(1, 2) { E::True } else { E::False } } else { lit(rng.range(0, 9)) };
                return Some(("wrong-type-subterm", replace_at(p, &s.path, new)));
            }
            // applicand and argument swapped
            1 => {
                let cands: Vec<&Site> = all.iter().filter(|s| !s.in_type && matches!(at(p, &s.path), E::App(..))).collect();
                if cands.is_empty() { continue; }
                let s = cands[rng.below(cands.len())];
                if let E::App(f, a) = at(p, &s.path) {
                    return Some(("swap-app", replace_at(p, &s.path, E::App(a.clone(), f.clone()))));
                }
            }
            // arithmetic operator <-> comparison
            2 => {
                let cands: Vec<&Site> = all.iter().filter(|s| !s.in_type && matches!(at(p, &s.path), E::Bin(..))).collect();
                if cands.is_empty() { continue; }
                let s = cands[rng.below(cands.len())];
                if let E::Bin(op, a, b) = at(p, &s.path) {
                    let op2 = if *op < 4 { 4 + rng.below(5) as u8 } else { rng.below(3) as u8 };
                    return Some(("op-class", replace_at(p, &s.path, E::Bin(op2, a.clone(), b.clone()))));
                }
            }
            // an annotation altered
            3 => {
                let cands: Vec<&Site> = all.iter().filter(|s| matches!(s.role, Role::LamAnn | Role::DefAnn) && !matches!(strip(at(p, &s.path)), E::Hole)).collect();
                if cands.is_empty() { continue; }
                let s = cands[rng.below(cands.len())];
                let old = at(p, &s.path);
                fn has_pi(e: &E) -> bool { matches!(e, E::Pi { .. }) || kids(e).iter().any(|k| has_pi(k)) }
                let new = if has_pi(old) || matches!(strip(old), E::TyType) {
                    if rng.chance(1, 2) { E::TyInt } else { E::TyBool }
                } else {
                    arrow(E::TyInt, E::TyBool)
                };
                return Some(("annotation", replace_at(p, &s.path, new)));
            }
            // a name made unbound
            4 => {
                let cands: Vec<&Site> = all.iter().filter(|s| matches!(at(p, &s.path), E::Var(_))).collect();
                if cands.is_empty() { continue; }
                let s = cands[rng.below(cands.len())];
                let n = fresh_for(p, &[], rng);
                return Some(("unbound", replace_at(p, &s.path, var(&n))));
            }
            // a binder renamed to a name already in scope
            _ => {
                let mut cands: Vec<(&Site, usize)> = vec![];
                for s in &all {
                    match at(p, &s.path) {
                        E::Lam { var, .. } if var != "_" && !s.scope.is_empty() => cands.push((s, 0)),
                        E::Let(defs, _) if !s.scope.is_empty() || defs.len() > 1 => for i in 0..defs.len() { cands.push((s, i)); },
                        _ => {}
                    }
                }
                if cands.is_empty() { continue; }
                let (s, i) = cands[rng.below(cands.len())];
                let mut q = p.clone();
                match at_mut(&mut q, &s.path) {
                    E::Lam { var, body, .. } => {
                        let new = rng.pick(&s.scope).clone();
                        let old = std::mem::replace(var, new.clone());
                        rename_uses(body, &old, &new);
                    }
                    node @ E::Let(..) => {
                        let mut pool = s.scope.clone();
                        if let E::Let(defs, _) = &*node {
                            for (j, d) in defs.iter().enumerate() { if j != i { pool.push(d.0.clone()); } }
                        }
                        let new = rng.pick(&pool).clone();
                        let old = if let E::Let(defs, _) = node { std::mem::replace(&mut defs[i].0, new.clone()) } else { unreachable!() };
                        // uses keep pointing at the old name's meaning where the new name was
                        // already bound; that is fine, the point is the duplicate binder
                        rename_uses(node, &old, &new);
                    }
                    _ => unreachable!(),
                }
                return Some(("shadow", q));
            }
        }
    }
    None
}
