// G-prog: a type-directed generator of gram source programs that knows, independently of gram,
// each program's type and the value it must evaluate to. Sections of this file:
//   1. syntax tree `E`, the public result types and configuration
//   2. tree utilities (children, paths, free variables, scopes)
//   3. renderer (E -> source text, minimal parentheses by the precedence levels of grammar.y)
//   4. reference evaluator (big-step CBV with closures, the oracle for `Expected`)
//   5. generator (types `T`, contexts, productions)
//   5b. dependently typed constructions ("dependent mode": aliases under binders, type families at
//       closed and bound indices, indexed predicates, groups whose type mentions their definitions,
//       and deliberate near misses that have to be rejected)
//   6. meaning-preserving rewrites (also inside nested definition groups)
//   7. single-point ill-typing perturbations
//   8. one type fault at a position of known expected type, with the byte span of the culprit
// Nothing in this file calls into gram's sources.
use crate::rng::Rng;
use num_bigint::{BigInt, Sign};
use std::cell::RefCell;
use std::collections::{BTreeSet, HashMap};
use std::rc::Rc;

// ---------------------------------------------------------------------------------------------
// 1. Syntax tree and public types
// ---------------------------------------------------------------------------------------------

#[derive(Clone, Debug, PartialEq)]
pub enum E {
    Lit(BigInt), // non-negative; negative numbers are `Neg(Lit)`
    True,
    False,
    TyInt,
    TyBool,
    TyType,
    Hole, // `_`
    Var(String),
    Lam { var: String, implicit: bool, ann: Option<Box<E>>, body: Box<E> },
    // (x : A) -> B, {x : A} -> B, or A -> B when var is None
    Pi { var: Option<String>, implicit: bool, dom: Box<E>, cod: Box<E> },
    App(Box<E>, Box<E>),
    // A group of definitions (name, annotation, right-hand side) then a body. Invariant kept by
    // the generator and the rewrites: the body is never itself a `Let` (gram flattens
    // `x = a; (y = b; c)` into one group, parentheses or not).
    Let(Vec<(String, Option<E>, E)>, Box<E>),
    Neg(Box<E>),
    Bin(u8 /* 0..9: + - * / < <= == > >= */, Box<E>, Box<E>),
    If(Box<E>, Box<E>, Box<E>),
    Paren(Box<E>), // explicit redundant parentheses
}

#[derive(Clone, Debug, PartialEq)]
pub enum Expected {
    Int(BigInt),
    Bool(bool),
    Function,
    Type,
    DivZero,  // evaluation reaches an integer division by zero
    Diverges, // the reference evaluator ran out of fuel
    Unknown,  // the reference evaluator got stuck (ill-typed / unbound / not available yet)
}

#[derive(Clone, Debug)]
pub struct Prog {
    pub e: E,
    pub ty_src: String, // the generator's own rendering of the expected type
    pub expected: Expected,
    pub features: Vec<&'static str>,
    pub fully_annotated: bool,
    // Some(kind): the program contains ONE deliberate near miss of that kind (two types that are
    // not definitionally equal are required to be); the checker must reject it.
    pub expect_reject: Option<&'static str>,
}

#[derive(Clone, Debug)]
pub struct GenCfg {
    pub size: usize,
    pub allow_holes: bool, // `_` and omitted annotations
    pub allow_forward_refs: bool,
    pub allow_nested_groups: bool,
    pub allow_div: bool,
    pub big_literals: bool,
    pub dependent: u8, // percent of programs generated in "dependent mode" (section 5b)
}

#[derive(Clone, Debug)]
pub struct Style {
    pub newlines: bool,       // use line breaks instead of `;` between definitions
    pub redundant_parens: u8, // percent
    pub comments: bool,
}

pub const OPS: [&str; 9] = ["+", "-", "*", "/", "<", "<=", "==", ">", ">="];

// Small constructors, used everywhere below.
pub fn lit(n: i64) -> E {
    if n < 0 { E::Neg(Box::new(E::Lit(BigInt::from(-n)))) } else { E::Lit(BigInt::from(n)) }
}
pub fn var(s: &str) -> E { E::Var(s.to_owned()) }
pub fn app(f: E, a: E) -> E { E::App(Box::new(f), Box::new(a)) }
pub fn bin(op: u8, a: E, b: E) -> E { E::Bin(op, Box::new(a), Box::new(b)) }
pub fn ite(c: E, a: E, b: E) -> E { E::If(Box::new(c), Box::new(a), Box::new(b)) }
pub fn lam(v: &str, ann: Option<E>, body: E) -> E {
    E::Lam { var: v.to_owned(), implicit: false, ann: ann.map(Box::new), body: Box::new(body) }
}
pub fn arrow(a: E, b: E) -> E { E::Pi { var: None, implicit: false, dom: Box::new(a), cod: Box::new(b) } }
pub fn paren(e: E) -> E { E::Paren(Box::new(e)) }

// Build a group, merging into the body's group when the body is itself a group (see the
// invariant on `E::Let`).
pub fn mk_let(mut defs: Vec<(String, Option<E>, E)>, body: E) -> E {
    match body {
        E::Let(more, inner) => {
            defs.extend(more);
            E::Let(defs, inner)
        }
        b => E::Let(defs, Box::new(b)),
    }
}

// ---------------------------------------------------------------------------------------------
// 2. Tree utilities
// ---------------------------------------------------------------------------------------------

// Children in a fixed order: Lam [ann?, body]; Pi [dom, cod]; App [f, a];
// Let [ann0?, rhs0, ann1?, rhs1, ..., body]; Neg [x]; Bin [l, r]; If [c, t, e]; Paren [x].
pub fn kids(e: &E) -> Vec<&E> {
    match e {
        E::Lam { ann, body, .. } => ann.iter().map(|a| &**a).chain(std::iter::once(&**body)).collect(),
        E::Pi { dom, cod, .. } => vec![dom, cod],
        E::App(f, a) => vec![f, a],
        E::Let(defs, body) => {
            let mut v = vec![];
            for (_, a, d) in defs {
                if let Some(a) = a { v.push(a); }
                v.push(d);
            }
            v.push(&**body);
            v
        }
        E::Neg(x) | E::Paren(x) => vec![x],
        E::Bin(_, l, r) => vec![l, r],
        E::If(c, t, f) => vec![c, t, f],
        _ => vec![],
    }
}

pub fn kids_mut(e: &mut E) -> Vec<&mut E> {
    match e {
        E::Lam { ann, body, .. } => ann.iter_mut().map(|a| &mut **a).chain(std::iter::once(&mut **body)).collect(),
        E::Pi { dom, cod, .. } => vec![dom, cod],
        E::App(f, a) => vec![f, a],
        E::Let(defs, body) => {
            let mut v = vec![];
            for (_, a, d) in defs.iter_mut() {
                if let Some(a) = a { v.push(a); }
                v.push(d);
            }
            v.push(&mut **body);
            v
        }
        E::Neg(x) | E::Paren(x) => vec![x],
        E::Bin(_, l, r) => vec![l, r],
        E::If(c, t, f) => vec![c, t, f],
        _ => vec![],
    }
}

pub type Path = Vec<usize>;

pub fn at<'a>(e: &'a E, p: &[usize]) -> &'a E {
    let mut cur = e;
    for &i in p { cur = kids(cur)[i]; }
    cur
}

pub fn at_mut<'a>(e: &'a mut E, p: &[usize]) -> &'a mut E {
    let mut cur = e;
    for &i in p { cur = kids_mut(cur).into_iter().nth(i).unwrap(); }
    cur
}

pub fn size(e: &E) -> usize { 1 + kids(e).iter().map(|k| size(k)).sum::<usize>() }

pub fn strip(e: &E) -> &E {
    match e { E::Paren(x) => strip(x), _ => e }
}

// The role a child plays in its parent; drives which rewrites/perturbations apply where.
#[derive(Clone, Copy, Debug, PartialEq)]
pub enum Role { Root, LamAnn, LamBody, PiDom, PiCod, AppFun, AppArg, DefAnn, DefRhs, LetBody, NegArg, BinL(u8), BinR(u8), IfCond, IfThen, IfElse, ParenIn }

fn roles(e: &E) -> Vec<Role> {
    match e {
        E::Lam { ann, .. } => if ann.is_some() { vec![Role::LamAnn, Role::LamBody] } else { vec![Role::LamBody] },
        E::Pi { .. } => vec![Role::PiDom, Role::PiCod],
        E::App(..) => vec![Role::AppFun, Role::AppArg],
        E::Let(defs, _) => {
            let mut v = vec![];
            for (_, a, _) in defs {
                if a.is_some() { v.push(Role::DefAnn); }
                v.push(Role::DefRhs);
            }
            v.push(Role::LetBody);
            v
        }
        E::Neg(_) => vec![Role::NegArg],
        E::Paren(_) => vec![Role::ParenIn],
        E::Bin(op, ..) => vec![Role::BinL(*op), Role::BinR(*op)],
        E::If(..) => vec![Role::IfCond, Role::IfThen, Role::IfElse],
        _ => vec![],
    }
}

// Names a node binds in its child number `i`.
fn binds_in_child(e: &E, i: usize) -> Vec<String> {
    match e {
        E::Lam { var, ann, .. } => {
            let body_idx = if ann.is_some() { 1 } else { 0 };
            if i == body_idx && var != "_" { vec![var.clone()] } else { vec![] }
        }
        E::Pi { var: Some(v), .. } => if i == 1 && v != "_" { vec![v.clone()] } else { vec![] },
        E::Let(defs, _) => defs.iter().map(|d| d.0.clone()).collect(),
        _ => vec![],
    }
}

// One node of the tree with everything the rewrites need to know about its position.
#[derive(Clone, Debug)]
pub struct Site {
    pub path: Path,
    pub role: Role,
    pub scope: Vec<String>, // names bound by enclosing binders (all in scope at this node)
    pub in_type: bool,      // inside an annotation / pi (a type-level position)
}

pub fn sites(e: &E) -> Vec<Site> {
    fn go(e: &E, path: &mut Path, role: Role, scope: &mut Vec<String>, in_type: bool, out: &mut Vec<Site>) {
        out.push(Site { path: path.clone(), role, scope: scope.clone(), in_type });
        let rs = roles(e);
        for (i, k) in kids(e).into_iter().enumerate() {
            let b = binds_in_child(e, i);
            let n = b.len();
            scope.extend(b);
            path.push(i);
            let t = in_type || matches!(rs[i], Role::LamAnn | Role::DefAnn | Role::PiDom | Role::PiCod);
            go(k, path, rs[i], scope, t, out);
            path.pop();
            scope.truncate(scope.len() - n);
        }
    }
    let mut out = vec![];
    go(e, &mut vec![], Role::Root, &mut vec![], false, &mut out);
    out
}

pub fn free_vars(e: &E, bound: &mut Vec<String>, out: &mut BTreeSet<String>) {
    if let E::Var(x) = e {
        if !bound.contains(x) { out.insert(x.clone()); }
        return;
    }
    for (i, k) in kids(e).into_iter().enumerate() {
        let b = binds_in_child(e, i);
        let n = b.len();
        bound.extend(b);
        free_vars(k, bound, out);
        bound.truncate(bound.len() - n);
    }
}

pub fn is_closed(e: &E) -> bool {
    let mut s = BTreeSet::new();
    free_vars(e, &mut vec![], &mut s);
    s.is_empty()
}

pub fn mentions(e: &E, name: &str) -> bool {
    match e {
        E::Var(x) => x == name,
        _ => kids(e).iter().any(|k| mentions(k, name)),
    }
}

// Every identifier occurring anywhere (binders and uses).
pub fn all_names(e: &E, out: &mut BTreeSet<String>) {
    match e {
        E::Var(x) => { out.insert(x.clone()); }
        E::Lam { var, .. } => { out.insert(var.clone()); }
        E::Pi { var: Some(v), .. } => { out.insert(v.clone()); }
        E::Let(defs, _) => for d in defs { out.insert(d.0.clone()); },
        _ => {}
    }
    for k in kids(e) { all_names(k, out); }
}

fn has_hole(e: &E) -> bool {
    match e {
        E::Hole => true,
        E::Lam { ann: None, .. } => true,
        E::Let(defs, _) if defs.iter().any(|d| d.1.is_none()) => true,
        _ => kids(e).iter().any(|k| has_hole(k)),
    }
}

// Rename every use of `old` (and nothing else) inside `e`.
fn rename_uses(e: &mut E, old: &str, new: &str) {
    if let E::Var(x) = e {
        if x == old { *x = new.to_owned(); }
        return;
    }
    for k in kids_mut(e) { rename_uses(k, old, new); }
}

// A syntactic value in the sense of gram's `is_value`: available to the whole group without
// being evaluated first.
pub fn is_syntactic_value(e: &E) -> bool {
    matches!(strip(e), E::Lit(_) | E::True | E::False | E::TyInt | E::TyBool | E::TyType | E::Lam { .. } | E::Pi { .. })
}

// ---------------------------------------------------------------------------------------------
// 3. Renderer
// ---------------------------------------------------------------------------------------------

// Precedence levels of grammar.y.
const ATOM: u8 = 0;
const SMALL: u8 = 1; // application
const MEDIUM: u8 = 2; // * /
const LARGE: u8 = 3; // unary minus
const HUGE: u8 = 4; // + -
const GIANT: u8 = 5; // comparisons
const JUMBO: u8 = 6; // lambda, pi, if
const TERM: u8 = 7; // let

fn level(e: &E) -> u8 {
    match e {
        E::Lit(n) => if n.sign() == Sign::Minus { LARGE } else { ATOM },
        E::True | E::False | E::TyInt | E::TyBool | E::TyType | E::Hole | E::Var(_) | E::Paren(_) => ATOM,
        E::App(..) => SMALL,
        E::Bin(2 | 3, ..) => MEDIUM,
        E::Neg(_) => LARGE,
        E::Bin(0 | 1, ..) => HUGE,
        E::Bin(..) => GIANT,
        E::Lam { .. } | E::Pi { .. } | E::If(..) => JUMBO,
        E::Let(..) => TERM,
    }
}

// The result of rendering, with the number of places where the text contains the operand shape
// that gram's reassociation pass is known to mishandle: in a left-associative chain of
// applications / products / sums with at least three operands, a parenthesised operand that is
// itself a chain of the same class, directly followed by a parenthesised last operand
// (`f (g x) (y)`, `a - (b - c) - (d)`).
pub struct Rendered {
    pub text: String,
    pub reassoc_defect_sites: usize,
}

struct Renderer<'a> {
    style: &'a Style,
    rng: &'a mut Rng,
    out: String,
    indent: usize,
    defect_sites: usize,
    comment_no: usize,
    // how the right operand of the chain node rendered last was written:
    // (in parentheses, chain class of what is inside)
    last_right: (bool, u8),
    // whether the chain node rendered last carries gram's "group" flag after reassociation
    last_flag: bool,
    // whether the chain node rendered last added to `defect_sites`
    last_counted: bool,
    // span tracking for one marked node: the node whose text with all parentheses directly around
    // it is wanted (`mark_full`), and the node under its explicit parentheses (`mark_core`)
    mark_full: *const E,
    mark_core: *const E,
    full: Option<(usize, usize)>,
    core: Option<(usize, usize)>,
}

// Byte spans of a marked node in the rendered text: `full` = the node with every parenthesis
// that directly surrounds it (written in the tree or added by the renderer), `core` = the node
// inside all those parentheses.
#[derive(Clone, Copy, Debug, PartialEq)]
pub struct Spans { pub full: (usize, usize), pub core: (usize, usize) }

pub fn render(e: &E, style: &Style, rng: &mut Rng) -> String { render_ex(e, style, rng).text }

pub fn render_ex(e: &E, style: &Style, rng: &mut Rng) -> Rendered { render_marked(e, style, rng, None).0 }

// Rendering that also reports where the node at `mark` ended up in the text.
pub fn render_marked(e: &E, style: &Style, rng: &mut Rng, mark: Option<&[usize]>) -> (Rendered, Option<Spans>) {
    let (mf, mc): (*const E, *const E) = match mark {
        Some(path) => { let n = at(e, path); (n as *const E, strip(n) as *const E) }
        None => (std::ptr::null(), std::ptr::null()),
    };
    let mut r = Renderer { style, rng, out: String::new(), indent: 0, defect_sites: 0, comment_no: 0, last_right: (false, 0), last_flag: false, last_counted: false, mark_full: mf, mark_core: mc, full: None, core: None };
    if style.comments && r.rng.chance(1, 2) {
        r.out.push_str("# generated program\n");
    }
    r.go(e, TERM, false);
    if style.comments && r.rng.chance(1, 3) {
        r.out.push_str(" # end");
    }
    let spans = match (r.full, r.core) { (Some(full), Some(core)) => Some(Spans { full, core }), _ => None };
    (Rendered { text: r.out, reassoc_defect_sites: r.defect_sites }, spans)
}

// Deterministic rendering without any decoration.
pub fn render_plain(e: &E) -> String {
    render(e, &Style { newlines: false, redundant_parens: 0, comments: false }, &mut Rng::new(0))
}

// Which chain class a node belongs to (0 none, 1 application, 2 product/quotient, 3 sum/difference).
fn chain_class(e: &E) -> u8 {
    match e {
        E::App(..) => 1,
        E::Bin(2 | 3, ..) => 2,
        E::Bin(0 | 1, ..) => 3,
        _ => 0,
    }
}

impl Renderer<'_> {
    // Render `e` where the grammar allows a term of at most level `max`. `before_mul` is set when
    // the text is directly followed by `*` or `/` of the same chain: an unparenthesised trailing
    // unary minus would then swallow the rest of the chain.
    // Returns true when the expression was written inside parentheses.
    fn go(&mut self, e: &E, max: u8, before_mul: bool) -> bool {
        let extra = self.style.redundant_parens > 0 && (self.rng.below(100) as u8) < self.style.redundant_parens;
        let start = self.out.len();
        let wrapped = if level(e) > max || extra {
            self.out.push('(');
            self.go_bare(e, false);
            self.out.push(')');
            true
        } else {
            self.go_bare(e, before_mul);
            matches!(e, E::Paren(_))
        };
        if std::ptr::eq(e, self.mark_full) { self.full = Some((start, self.out.len())); }
        wrapped
    }

    // A node of a left-associative chain: the left operand may continue the chain (level `lmax`),
    // the right operand is at most `rmax`. Counts the known-defect shape: gram's reassociation
    // goes wrong when the second-to-last operand is a parenthesised chain of the same class and
    // the last operand carries gram's internal "group" flag. That flag is set by real
    // parentheses, but also (by the earlier reassociation passes) on every application or
    // product chain except a two-element one whose right operand is flagged: in
    // `a - (b + c) + f x` the last operand counts as parenthesised.
    fn chain(&mut self, e: &E, l: &E, r: &E, lmax: u8, rmax: u8, op: &str, before_mul: bool) {
        let class = chain_class(e);
        let l_wrapped = self.go(l, lmax, class == 2);
        let l_continues = !l_wrapped && chain_class(l) == class;
        // when `l` continues this chain, its right operand is our second-to-last operand
        let prev = if l_continues { self.last_right } else { (false, 0) };
        // only the last two operands of the whole chain matter: what the continued part counted
        // for its own end does not apply
        if l_continues && self.last_counted { self.defect_sites -= 1; }
        self.out.push_str(op);
        // `a * -b * c` would parse as `a * -(b * c)`
        let rmax = if class == 2 && matches!(r, E::Neg(_)) { if before_mul { ATOM } else { LARGE } } else { rmax };
        let r_wrapped = self.go(r, rmax, false);
        let r_flag = r_wrapped || (matches!(chain_class(r), 1 | 2) && self.last_flag);
        let counted = r_flag && prev.0 && prev.1 == class;
        if counted { self.defect_sites += 1; }
        self.last_counted = counted;
        self.last_right = (r_wrapped, chain_class(strip(r)));
        self.last_flag = l_continues || !r_flag;
    }

    fn go_bare(&mut self, e: &E, before_mul: bool) {
        let start = self.out.len();
        self.go_bare_inner(e, before_mul);
        if std::ptr::eq(e, self.mark_core) { self.core = Some((start, self.out.len())); }
    }

    fn go_bare_inner(&mut self, e: &E, before_mul: bool) {
        match e {
            E::Lit(n) => self.out.push_str(&n.to_string()),
            E::True => self.out.push_str("true"),
            E::False => self.out.push_str("false"),
            E::TyInt => self.out.push_str("int"),
            E::TyBool => self.out.push_str("bool"),
            E::TyType => self.out.push_str("type"),
            E::Hole => self.out.push('_'),
            E::Var(x) => self.out.push_str(x),
            E::Paren(x) => {
                self.out.push('(');
                self.go_bare(x, false);
                self.out.push(')');
            }
            E::App(f, a) => self.chain(e, f, a, SMALL, ATOM, " ", false),
            E::Bin(op @ (2 | 3), l, r) => self.chain(e, l, r, MEDIUM, SMALL, &format!(" {} ", OPS[*op as usize]), before_mul),
            E::Bin(op @ (0 | 1), l, r) => self.chain(e, l, r, HUGE, LARGE, &format!(" {} ", OPS[*op as usize]), false),
            E::Bin(op, l, r) => {
                self.go(l, HUGE, false);
                self.out.push_str(&format!(" {} ", OPS[*op as usize % 9]));
                self.go(r, HUGE, false);
            }
            E::Neg(x) => {
                self.out.push('-');
                self.go(x, LARGE, before_mul);
            }
            E::Lam { var, implicit, ann, body } => {
                let (o, c) = if *implicit { ('{', '}') } else { ('(', ')') };
                match ann {
                    Some(a) => {
                        self.out.push(o);
                        self.out.push_str(var);
                        self.out.push_str(" : ");
                        self.go(a, JUMBO, false);
                        self.out.push(c);
                    }
                    None if *implicit => {
                        self.out.push('{');
                        self.out.push_str(var);
                        self.out.push('}');
                    }
                    None => self.out.push_str(var),
                }
                self.out.push_str(" => ");
                self.go(body, TERM, false);
            }
            E::Pi { var, implicit, dom, cod } => {
                match var {
                    Some(v) => {
                        let (o, c) = if *implicit { ('{', '}') } else { ('(', ')') };
                        self.out.push(o);
                        self.out.push_str(v);
                        self.out.push_str(" : ");
                        self.go(dom, JUMBO, false);
                        self.out.push(c);
                    }
                    None => {
                        self.go(dom, SMALL, false);
                    }
                }
                self.out.push_str(" -> ");
                self.go(cod, TERM, false);
            }
            E::If(c, t, f) => {
                self.out.push_str("if ");
                self.go(c, TERM, false);
                self.out.push_str(" then ");
                self.go(t, TERM, false);
                self.out.push_str(" else ");
                self.go(f, TERM, false);
            }
            E::Let(defs, body) => {
                self.indent += 1;
                for (i, (name, ann, rhs)) in defs.iter().enumerate() {
                    if i > 0 { self.terminator(false); }
                    self.out.push_str(name);
                    if let Some(a) = ann {
                        self.out.push_str(" : ");
                        self.go(a, SMALL, false);
                    }
                    self.out.push_str(" = ");
                    self.go(rhs, TERM, false);
                }
                self.indent -= 1;
                // Render the body aside first: a line break before `-` is not a terminator, so a
                // body starting with a unary minus must be separated by `;`.
                let saved = std::mem::take(&mut self.out);
                let (had_full, had_core) = (self.full.is_some(), self.core.is_some());
                self.go(body, TERM, false);
                let body_text = std::mem::replace(&mut self.out, saved);
                self.terminator(body_text.starts_with('-'));
                // spans recorded while the body was rendered aside are relative to it
                let base = self.out.len();
                if !had_full { if let Some(s) = self.full.as_mut() { s.0 += base; s.1 += base; } }
                if !had_core { if let Some(s) = self.core.as_mut() { s.0 += base; s.1 += base; } }
                self.out.push_str(&body_text);
            }
        }
    }

    // The terminator after a definition: `;`, or a line break (optionally after a comment).
    fn terminator(&mut self, force_semicolon: bool) {
        if self.style.newlines && !force_semicolon {
            if self.style.comments && self.rng.chance(1, 5) {
                self.comment_no += 1;
                let c = format!(" # note {}", self.comment_no);
                self.out.push_str(&c);
            }
            self.out.push('\n');
            for _ in 0..self.indent { self.out.push_str("  "); }
        } else {
            self.out.push_str("; ");
        }
    }
}

// ---------------------------------------------------------------------------------------------
// 4. Reference evaluator
// ---------------------------------------------------------------------------------------------

// Values of the reference semantics. Types are values too, but carry no structure. Everything
// borrows from the program tree, which outlives the evaluation.
#[derive(Clone)]
enum V<'a> {
    Int(BigInt),
    Bool(bool),
    Ty,
    Clo(Rc<Closure<'a>>),
}

struct Closure<'a> {
    var: &'a str,
    body: &'a E,
    env: Env<'a>,
}

// Environments are persistent linked lists of lambda bindings and group frames.
#[derive(Clone)]
enum Env<'a> {
    Nil,
    Bind(Rc<(&'a str, V<'a>, Env<'a>)>),
    Group(Rc<Frame<'a>>),
}

// One (flattened) group of definitions. Definitions that are syntactic values are available to
// the whole group from the start, closing over the frame itself: that is what makes the group
// mutually recursive. The others become available once evaluated, in order; looking one up
// earlier is an error (gram has no shadowing, so the name cannot mean anything else).
struct Frame<'a> {
    values: Vec<(&'a str, &'a E)>,
    names: Vec<&'a str>,
    evaluated: RefCell<Vec<(&'a str, V<'a>)>>,
    outer: Env<'a>,
}

enum Stop { DivZero, Fuel, Stuck }

fn tdiv(a: &BigInt, b: &BigInt) -> Option<BigInt> {
    // exact division truncating toward zero, spelled out on magnitudes
    if b.sign() == Sign::NoSign { return None; }
    let q = BigInt::from(a.magnitude() / b.magnitude());
    Some(if (a.sign() == Sign::Minus) != (b.sign() == Sign::Minus) { -q } else { q })
}

struct Eval { fuel: usize, depth: usize }

impl Eval {
    fn lookup<'a>(&mut self, env: &Env<'a>, x: &str) -> Result<V<'a>, Stop> {
        let mut cur = env;
        loop {
            match cur {
                Env::Nil => return Err(Stop::Stuck),
                Env::Bind(b) => {
                    if b.0 == x { return Ok(b.1.clone()); }
                    cur = &b.2;
                }
                Env::Group(g) => {
                    if let Some((_, v)) = g.evaluated.borrow().iter().find(|d| d.0 == x) { return Ok(v.clone()); }
                    if let Some((_, rhs)) = g.values.iter().find(|d| d.0 == x) {
                        let genv = cur.clone();
                        return self.eval(rhs, &genv);
                    }
                    if g.names.iter().any(|n| *n == x) { return Err(Stop::Stuck); } // not evaluated yet
                    cur = &g.outer;
                }
            }
        }
    }

    fn int2<'a>(&mut self, a: &'a E, b: &'a E, env: &Env<'a>) -> Result<(BigInt, BigInt), Stop> {
        let x = self.eval(a, env)?;
        let y = self.eval(b, env)?;
        match (x, y) {
            (V::Int(x), V::Int(y)) => Ok((x, y)),
            _ => Err(Stop::Stuck),
        }
    }

    fn eval<'a>(&mut self, e: &'a E, env: &Env<'a>) -> Result<V<'a>, Stop> {
        if self.fuel == 0 || self.depth > 2500 { return Err(Stop::Fuel); }
        self.fuel -= 1;
        self.depth += 1;
        let r = self.eval_inner(e, env);
        self.depth -= 1;
        r
    }

    fn eval_inner<'a>(&mut self, e: &'a E, env: &Env<'a>) -> Result<V<'a>, Stop> {
        Ok(match e {
            E::Lit(n) => V::Int(n.clone()),
            E::True => V::Bool(true),
            E::False => V::Bool(false),
            E::TyInt | E::TyBool | E::TyType | E::Pi { .. } => V::Ty,
            E::Hole => return Err(Stop::Stuck),
            E::Var(x) => self.lookup(env, x)?,
            E::Paren(x) => self.eval(x, env)?,
            E::Lam { var, body, .. } => V::Clo(Rc::new(Closure { var, body, env: env.clone() })),
            E::App(f, a) => {
                let fv = self.eval(f, env)?;
                let av = self.eval(a, env)?;
                match fv {
                    V::Clo(c) => {
                        let env2 = if c.var == "_" { c.env.clone() } else { Env::Bind(Rc::new((c.var, av, c.env.clone()))) };
                        self.eval(c.body, &env2)?
                    }
                    _ => return Err(Stop::Stuck),
                }
            }
            E::Let(..) => {
                // collect the flattened group (a group body that is a group continues it)
                let mut defs: Vec<&'a (String, Option<E>, E)> = vec![];
                let mut body = e;
                while let E::Let(ds, b) = strip(body) {
                    defs.extend(ds.iter());
                    body = b;
                }
                let frame = Rc::new(Frame {
                    values: defs.iter().filter(|d| is_syntactic_value(&d.2)).map(|d| (d.0.as_str(), &d.2)).collect(),
                    names: defs.iter().map(|d| d.0.as_str()).collect(),
                    evaluated: RefCell::new(vec![]),
                    outer: env.clone(),
                });
                let env2 = Env::Group(frame.clone());
                for d in &defs {
                    if is_syntactic_value(&d.2) { continue; }
                    let v = self.eval(&d.2, &env2)?;
                    frame.evaluated.borrow_mut().push((d.0.as_str(), v));
                }
                self.eval(body, &env2)?
            }
            E::Neg(x) => match self.eval(x, env)? {
                V::Int(n) => V::Int(-n),
                _ => return Err(Stop::Stuck),
            },
            E::Bin(op, a, b) => {
                let (x, y) = self.int2(a, b, env)?;
                // a recursive function that keeps multiplying makes the numbers double in length at each
                // level: such a program is treated like one that runs too long (discarded by the caller)
                if x.bits() + y.bits() > 20_000 { return Err(Stop::Fuel); }
                match op {
                    0 => V::Int(x + y),
                    1 => V::Int(x - y),
                    2 => V::Int(x * y),
                    3 => V::Int(tdiv(&x, &y).ok_or(Stop::DivZero)?),
                    4 => V::Bool(x < y),
                    5 => V::Bool(x <= y),
                    6 => V::Bool(x == y),
                    7 => V::Bool(x > y),
                    8 => V::Bool(x >= y),
                    _ => return Err(Stop::Stuck),
                }
            }
            E::If(c, t, f) => match self.eval(c, env)? {
                V::Bool(true) => self.eval(t, env)?,
                V::Bool(false) => self.eval(f, env)?,
                _ => return Err(Stop::Stuck),
            },
        })
    }
}

// Independent big-step call-by-value evaluation of a closed program.
pub fn reference_eval(e: &E, fuel: usize) -> Expected { reference_eval_cost(e, fuel).0 }

// The same, also returning the number of nodes evaluated (a rough measure of the work that any
// evaluator has to do).
pub fn reference_eval_cost(e: &E, fuel: usize) -> (Expected, usize) {
    let mut ev = Eval { fuel, depth: 0 };
    let r = ev.eval(e, &Env::Nil);
    (expected_of(r), fuel - ev.fuel)
}

fn expected_of(r: Result<V, Stop>) -> Expected {
    match r {
        Ok(V::Int(n)) => Expected::Int(n),
        Ok(V::Bool(b)) => Expected::Bool(b),
        Ok(V::Ty) => Expected::Type,
        Ok(V::Clo(_)) => Expected::Function,
        Err(Stop::DivZero) => Expected::DivZero,
        Err(Stop::Fuel) => Expected::Diverges,
        Err(Stop::Stuck) => Expected::Unknown,
    }
}

// ---------------------------------------------------------------------------------------------
// 5. Generator
// ---------------------------------------------------------------------------------------------

// The generator's own, deliberately simple notion of types. `All(a, t)` is `(a : type) -> t`.
#[derive(Clone, Debug, PartialEq)]
pub enum T {
    Int,
    Bool,
    Type,
    TVar(String),
    Fun(Box<T>, Box<T>),
    All(String, Box<T>),
}

impl T {
    pub fn fun(a: T, b: T) -> T { T::Fun(Box::new(a), Box::new(b)) }
    pub fn all(a: &str, b: T) -> T { T::All(a.to_owned(), Box::new(b)) }
    fn funs(params: &[T], res: T) -> T { params.iter().rev().fold(res, |acc, p| T::fun(p.clone(), acc)) }

    // Simultaneous substitution of type variables.
    fn subst(&self, m: &HashMap<String, T>) -> T {
        match self {
            T::TVar(a) => m.get(a).cloned().unwrap_or_else(|| self.clone()),
            T::Fun(a, b) => T::fun(a.subst(m), b.subst(m)),
            T::All(a, b) => {
                if m.contains_key(a) {
                    let mut m2 = m.clone();
                    m2.remove(a);
                    T::all(a, b.subst(&m2))
                } else {
                    T::all(a, b.subst(m))
                }
            }
            _ => self.clone(),
        }
    }
    fn has_all(&self) -> bool {
        match self {
            T::All(..) => true,
            T::Fun(a, b) => a.has_all() || b.has_all(),
            _ => false,
        }
    }
    fn is_fun(&self) -> bool { matches!(self, T::Fun(..) | T::All(..)) }
    fn has_tvar(&self) -> bool {
        match self {
            T::TVar(_) | T::All(..) => true,
            T::Fun(a, b) => a.has_tvar() || b.has_tvar(),
            _ => false,
        }
    }
    fn is_ground_base(&self) -> bool { matches!(self, T::Int | T::Bool) }
    // The final result type after all parameters.
    fn result(&self) -> &T {
        match self {
            T::Fun(_, b) | T::All(_, b) => b.result(),
            t => t,
        }
    }
}

enum Param { Ty(String), Val(T) }

// Parameters of a function type and the residual type after the first k of them (k = 0..=n).
fn spine(t: &T) -> (Vec<Param>, Vec<T>) {
    let (mut ps, mut rs, mut cur) = (vec![], vec![t.clone()], t.clone());
    loop {
        let next = match &cur {
            T::Fun(a, b) => { ps.push(Param::Val((**a).clone())); (**b).clone() }
            T::All(a, b) => { ps.push(Param::Ty(a.clone())); (**b).clone() }
            _ => break,
        };
        rs.push(next.clone());
        cur = next;
    }
    (ps, rs)
}

// First-order matching of `p` (whose variables `vars` may be instantiated) against `g`.
fn match_ty(p: &T, g: &T, vars: &[String], m: &mut HashMap<String, T>) -> bool {
    match (p, g) {
        (T::TVar(a), _) if vars.contains(a) => {
            if let Some(t) = m.get(a) { return t == g; }
            if g.has_all() { return false; }
            m.insert(a.clone(), g.clone());
            true
        }
        (T::Fun(a, b), T::Fun(c, d)) => match_ty(a, c, vars, m) && match_ty(b, d, vars, m),
        (T::All(a, b), T::All(c, d)) => a == c && !vars.contains(a) && match_ty(b, d, vars, m),
        _ => p == g,
    }
}

// Plain rendering of a type as an expression (no obfuscation); `All` binders keep their names.
pub fn ty_plain(t: &T) -> E {
    match t {
        T::Int => E::TyInt,
        T::Bool => E::TyBool,
        T::Type => E::TyType,
        T::TVar(a) => var(a),
        T::Fun(a, b) => arrow(ty_plain(a), ty_plain(b)),
        T::All(a, b) => E::Pi { var: Some(a.clone()), implicit: false, dom: Box::new(E::TyType), cod: Box::new(ty_plain(b)) },
    }
}

// A type family `int -> type` defined by comparisons of its parameter with literals, the way the
// generator knows it: which argument values give which of the two types.
//   shape 0: (n : int) => if n OP k then A else B
//   shape 1: (n : int) => if k OP n then A else B
//   shape 2: (n : int) => (lo : int = k; hi : int = k2; if n < hi then (if n >= lo then A else B) else B)
//   shape 3: (n : int) => if n <= 0 then A else fam (n - 1)          (recursive, always A)
//   shape 4: (n : int) => (lo = k; if n OP lo then A else B)
#[derive(Clone, Debug, PartialEq)]
pub struct Fam { shape: u8, op: u8, k: i64, k2: i64, then_t: T, else_t: T }

fn cmp_holds(op: u8, a: i64, b: i64) -> bool {
    match op { 4 => a < b, 5 => a <= b, 6 => a == b, 7 => a > b, _ => a >= b }
}

impl Fam {
    // does the argument value select the type `then_t`?
    fn holds(&self, n: i64) -> bool {
        match self.shape {
            1 => cmp_holds(self.op, self.k, n),
            2 => self.k <= n && n < self.k2,
            3 => true,
            _ => cmp_holds(self.op, n, self.k),
        }
    }
    fn denote(&self, n: i64) -> &T { if self.holds(n) { &self.then_t } else { &self.else_t } }
    // An argument value that selects the wanted branch, preferably at the boundary (where both
    // operands of a comparison are equal, or differ by one).
    fn arg_for(&self, want_then: bool, rng: &mut Rng) -> Option<i64> {
        if self.shape == 3 { return if want_then { Some(rng.range(0, 4)) } else { None }; }
        let mut cands = vec![self.k, self.k - 1, self.k + 1];
        if self.shape == 2 { cands.extend([self.k2, self.k2 - 1, self.k2 + 1]); }
        let near: Vec<i64> = cands.iter().copied().filter(|n| self.holds(*n) == want_then).collect();
        if !near.is_empty() && rng.chance(4, 5) { return Some(*rng.pick(&near)); }
        let all: Vec<i64> = (-12..=12).filter(|n| self.holds(*n) == want_then).collect();
        if all.is_empty() { None } else { Some(*rng.pick(&all)) }
    }
    // the branches an argument can select
    fn branches(&self) -> Vec<(bool, &T)> {
        if self.shape == 3 { vec![(true, &self.then_t)] } else { vec![(true, &self.then_t), (false, &self.else_t)] }
    }
}

const NAME_POOL: [&str; 44] = [
    "x", "y", "z", "n", "m", "k", "f", "g", "h", "p", "q", "r", "s", "u", "v", "w", "i", "j", "acc", "tmp", "foo", "bar",
    "iff", "int2", "type_", "thenx", "elsey", "boolean", "truex", "false_", "ifx", "é", "λx", "名", "x1", "y2", "go", "fn1",
    "val", "id", "x_y", "_u", "Q", "数",
];
const TYVAR_POOL: [&str; 14] = ["a", "b", "c", "d", "t", "t1", "t2", "ty", "elt", "α", "β", "A", "B", "tt"];

#[derive(Clone)]
struct Bind {
    name: String,
    ty: T,
    alias: Option<T>,     // this name is a type alias for that type
    guarded: Option<i64>, // recursive function: the first argument must be a natural number <= this
    usable: bool,         // may be referenced from the position being generated
    forward: bool,        // referencing it from here is a forward reference of a non-function definition
    fwd_ann: bool,        // a later member of the group being generated that annotations may already mention
    family: Option<Fam>,  // this name is a type family `int -> type`
    role: u8,             // 0 nothing special, ROLE_FIRST / ROLE_EQ / ROLE_REFL: helper definitions of section 5b
}

const ROLE_FIRST: u8 = 1; // first : int -> int -> int = a => b => a
const ROLE_EQ: u8 = 2; // eq = (a : type) => (x : a) => (y : a) => (p : a -> type) -> p x -> p y
const ROLE_REFL: u8 = 3; // refl : (a : type) -> (x : a) -> eq a x x

impl Bind {
    fn plain(name: &str, ty: T) -> Bind {
        Bind { name: name.to_owned(), ty, alias: None, guarded: None, usable: true, forward: false, fwd_ann: false, family: None, role: 0 }
    }
    fn opaque(name: &str) -> Bind { Bind { usable: false, ..Bind::plain(name, T::Int) } }
}

struct Gen<'r> {
    rng: &'r mut Rng,
    cfg: GenCfg,
    scope: Vec<Bind>,
    feats: BTreeSet<&'static str>,
    in_guarded: usize,  // > 0 inside the body of a recursive function: no calls of guarded functions
    let_depth: usize,   // number of enclosing groups
    no_let: bool,       // the next node must not be a group (body of a group)
    used_tyvars: BTreeSet<String>,
    obfuscate: bool,    // annotations may be obfuscated into definitionally equal types
    // dependent mode (section 5b)
    dep: bool,          // this program mixes in dependently typed constructions
    in_ann: usize,      // > 0 while an annotation (never evaluated) is being generated
    want_reject: bool,  // one of the constructions is to be a near miss
    reject: Option<(&'static str, String)>, // the near miss made: (kind, a name that occurs only inside it)
    dep_made: usize,    // number of dependent constructions made so far
}

// What a group is planned to contain, before any right-hand side is generated.
#[derive(Clone)]
enum Kind { Alias(T), Value, Func, Rec { calls: usize }, Poly, Family(Fam), Helper }

#[derive(Clone)]
struct Item {
    kind: Kind,
    name: String,
    ty: T,
    cluster: Option<String>, // the partner of a mutually recursive pair
    fwd_user: Option<usize>, // index of the earliest non-function definition that calls it early
    literal: bool,           // a value definition whose right-hand side is forced to be a literal
    fwd_ann: bool,           // annotations of earlier members of the group may mention it
    role: u8,                // helper definitions (ROLE_*)
    fwd_consts: Vec<usize>,  // a function whose body mentions these LATER non-value constants of the group
    uses_fn: Option<usize>,  // a non-value definition that calls this earlier function of the group
}

impl Gen<'_> {
    // ---- names and scopes ----

    fn in_scope(&self, n: &str) -> bool { self.scope.iter().any(|b| b.name == n) }

    fn fresh_name(&mut self) -> String {
        for _ in 0..40 {
            let n = *self.rng.pick(&NAME_POOL);
            if !self.in_scope(n) && !self.used_tyvars.contains(n) { return n.to_owned(); }
        }
        let mut i = 0;
        loop {
            let n = format!("v{i}");
            if !self.in_scope(&n) { return n; }
            i += 1;
        }
    }

    // Type variable names are never reused within one program, so instantiating a polymorphic
    // type can never capture.
    fn fresh_tyvar(&mut self) -> String {
        for _ in 0..20 {
            let n = *self.rng.pick(&TYVAR_POOL);
            if !self.in_scope(n) && !self.used_tyvars.contains(n) {
                self.used_tyvars.insert(n.to_owned());
                return n.to_owned();
            }
        }
        let mut i = 0;
        loop {
            let n = format!("a{i}");
            if !self.in_scope(&n) && !self.used_tyvars.contains(&n) {
                self.used_tyvars.insert(n.clone());
                return n;
            }
            i += 1;
        }
    }

    fn feat(&mut self, f: &'static str) { self.feats.insert(f); }

    // ---- types ----

    fn ground_base(&mut self) -> T { if self.rng.chance(3, 5) { T::Int } else { T::Bool } }

    fn gen_type(&mut self, depth: usize) -> T {
        if depth == 0 || self.rng.chance(3, 4) { return self.ground_base(); }
        let a = self.gen_type(depth - 1);
        let b = self.gen_type(depth - 1);
        T::fun(a, b)
    }

    // A closed boolean expression with a known value.
    fn closed_bool(&mut self, want: bool) -> E {
        if self.rng.chance(1, 4) { return if want { E::True } else { E::False }; }
        loop {
            let (a, b, op) = (self.rng.range(0, 9), self.rng.range(0, 9), 4 + self.rng.below(5) as u8);
            let holds = match op { 4 => a < b, 5 => a <= b, 6 => a == b, 7 => a > b, _ => a >= b };
            if holds == want { return bin(op, lit(a), lit(b)); }
        }
    }

    // Render a type as an annotation / type argument, sometimes obfuscated into a definitionally
    // equal expression.
    fn ty_e(&mut self, t: &T) -> E {
        // an alias in scope for exactly this type
        if self.obfuscate {
            let in_ann = self.in_ann > 0;
            let aliases: Vec<(String, bool)> = self.scope.iter().filter(|b| (b.usable || (b.fwd_ann && in_ann)) && b.alias.as_ref() == Some(t)).map(|b| (b.name.clone(), !b.usable)).collect();
            if !aliases.is_empty() && self.rng.chance(3, 5) {
                self.feat("type-alias");
                let (n, fwd) = self.rng.pick(&aliases[..]).clone();
                if fwd { self.feat("dep-annotation-mentions-later-definition"); }
                if matches!(t, T::TVar(_)) { self.feat("dep-alias-of-type-parameter"); }
                if matches!(t, T::Type) { self.feat("dep-universe-alias"); }
                return var(&n);
            }
            // a type family in scope, applied to an argument that selects this type
            if self.dep {
                let fams: Vec<(String, Fam, bool, bool)> = self.scope.iter()
                    .filter(|b| b.usable || (b.fwd_ann && in_ann))
                    .filter_map(|b| b.family.as_ref().map(|f| (b, f)))
                    .flat_map(|(b, f)| f.branches().into_iter().filter(|(_, bt)| *bt == t).map(|(w, _)| (b.name.clone(), f.clone(), w, !b.usable)).collect::<Vec<_>>())
                    .collect();
                if !fams.is_empty() && self.rng.chance(1, 2) {
                    let (n, f, want, fwd) = self.rng.pick(&fams[..]).clone();
                    if let Some(w) = f.arg_for(want, self.rng) {
                        if fwd { self.feat("dep-annotation-mentions-later-definition"); }
                        return self.fam_app(&n, &f, w);
                    }
                }
            }
        }
        let base = match t {
            T::Int => E::TyInt,
            T::Bool => E::TyBool,
            T::Type => E::TyType,
            T::TVar(a) => var(a),
            T::Fun(a, b) => {
                let dom = self.ty_e(a);
                if self.obfuscate && self.rng.chance(1, 8) {
                    // a dependent function type whose variable is not used
                    self.feat("dependent-pi");
                    let x = self.fresh_name();
                    self.scope.push(Bind { usable: false, ..Bind::plain(&x, (**a).clone()) });
                    let cod = self.ty_e(b);
                    self.scope.pop();
                    E::Pi { var: Some(x), implicit: false, dom: Box::new(dom), cod: Box::new(cod) }
                } else {
                    arrow(dom, self.ty_e(b))
                }
            }
            T::All(a, b) => {
                // rename the bound variable: the stored name may clash with the scope here
                let a2 = self.fresh_tyvar();
                let mut m = HashMap::new();
                m.insert(a.clone(), T::TVar(a2.clone()));
                let b2 = b.subst(&m);
                self.scope.push(Bind { usable: false, ..Bind::plain(&a2, T::Type) });
                let cod = self.ty_e(&b2);
                self.scope.pop();
                E::Pi { var: Some(a2), implicit: false, dom: Box::new(E::TyType), cod: Box::new(cod) }
            }
        };
        if !self.obfuscate || !self.rng.chance(1, 10) { return base; }
        match self.rng.below(3) {
            0 => {
                self.feat("type-level-if");
                let other = ty_plain(&self.gen_type(1));
                if self.rng.chance(1, 2) { ite(self.closed_bool(true), base, other) } else { ite(self.closed_bool(false), other, base) }
            }
            1 => {
                self.feat("type-id-app");
                let v = self.fresh_tyvar();
                app(lam(&v, Some(E::TyType), var(&v)), base)
            }
            _ => {
                self.feat("type-let");
                let v = self.fresh_tyvar();
                let ann = if self.cfg.allow_holes && self.rng.chance(1, 2) { None } else { Some(E::TyType) };
                paren(E::Let(vec![(v.clone(), ann, base)], Box::new(var(&v))))
            }
        }
    }

    // ---- leaves ----

    fn int_literal(&mut self) -> E {
        let r = self.rng.below(20);
        if self.cfg.big_literals && r < 3 {
            self.feat("big-literal");
            let digits = self.rng.range(20, 60) as usize;
            let mut s = String::new();
            s.push(char::from(b'1' + self.rng.below(9) as u8));
            for _ in 1..digits { s.push(char::from(b'0' + self.rng.below(10) as u8)); }
            let n = E::Lit(s.parse().unwrap());
            return if self.rng.chance(1, 4) { E::Neg(Box::new(n)) } else { n };
        }
        match r {
            3 | 4 => { self.feat("negative-literal"); lit(-self.rng.range(1, 12)) }
            5 => lit(0),
            6 => lit(self.rng.range(10, 1000)),
            _ => lit(self.rng.range(0, 9)),
        }
    }

    // A closed expression whose value is a natural number <= max.
    fn small_nat(&mut self, max: i64) -> E {
        let k = self.rng.range(0, max);
        match self.rng.below(8) {
            0 if k > 0 => { let a = self.rng.range(0, k); bin(0, lit(a), lit(k - a)) }
            1 => ite(self.closed_bool(true), lit(k), lit(self.rng.range(0, max))),
            _ => lit(k),
        }
    }

    fn vars_of(&self, goal: &T) -> Vec<String> {
        self.scope.iter().filter(|b| b.usable && !b.forward && b.alias.is_none() && b.guarded.is_none() && &b.ty == goal).map(|b| b.name.clone()).collect()
    }

    // The smallest expression of the goal type.
    fn leaf(&mut self, goal: &T, depth: usize) -> E {
        let vs = self.vars_of(goal);
        if !vs.is_empty() && (self.rng.chance(1, 2) || matches!(goal, T::TVar(_))) {
            return var(self.rng.pick::<String>(&vs[..]));
        }
        match goal {
            T::Int => self.int_literal(),
            T::Bool => if self.rng.chance(1, 2) { E::True } else { E::False },
            T::Type => { let t = self.gen_type(1); self.ty_e(&t) }
            T::TVar(_) => match self.inhabit(goal, depth.max(3)) {
                Some(e) => e,
                None => {
                    self.feat("BUG-no-inhabitant");
                    lit(0)
                }
            },
            T::Fun(..) | T::All(..) => self.gen_lambda(goal, 0),
        }
    }

    // A small expression of an abstract type (a type variable): a variable of that type, or a
    // monomorphic function in scope applied to such expressions. Proper search, so that it finds
    // an inhabitant whenever one exists within the depth.
    fn inhabit(&mut self, goal: &T, depth: usize) -> Option<E> {
        let vs = self.vars_of(goal);
        if !vs.is_empty() { return Some(var(self.rng.pick::<String>(&vs[..]))); }
        if depth == 0 { return None; }
        let mut cands: Vec<(usize, usize)> = vec![];
        for (i, b) in self.scope.iter().enumerate() {
            if !b.usable || b.forward || b.alias.is_some() || b.guarded.is_some() || !b.ty.is_fun() || b.ty.has_all() { continue; }
            let (ps, rs) = spine(&b.ty);
            for k in 1..=ps.len() { if &rs[k] == goal { cands.push((i, k)); } }
        }
        let start = self.rng.below(cands.len().max(1));
        for c in 0..cands.len() {
            let (i, k) = cands[(start + c) % cands.len()];
            let (ps, _) = spine(&self.scope[i].ty);
            let mut e = var(&self.scope[i].name);
            let mut ok = true;
            for p in &ps[..k] {
                let Param::Val(t) = p else { ok = false; break };
                let arg = if let T::TVar(_) = t { self.inhabit(t, depth - 1) } else { Some(self.leaf(t, depth - 1)) };
                match arg { Some(a) => e = app(e, a), None => { ok = false; break } }
            }
            if ok { return Some(e); }
        }
        None
    }

    // ---- productions ----

    // A lambda for a function goal; all parameters up to a random arity are taken at once.
    fn gen_lambda(&mut self, goal: &T, budget: usize) -> E {
        match goal {
            T::Fun(a, b) => {
                let x = self.fresh_name();
                let ann = self.param_ann(a);
                if a.is_fun() { self.feat("higher-order"); }
                self.scope.push(Bind::plain(&x, (**a).clone()));
                // dependent mode, inside a polymorphic function: a local alias of a type parameter
                let tvs = if self.dep && !b.is_fun() && !b.has_all() && **b != T::Type && self.dep_made < 5 && self.let_depth < 3 { self.tyvars_in_scope() } else { vec![] };
                let aliased = if !tvs.is_empty() && self.rng.chance(1, 2) {
                    let tv = self.rng.pick(&tvs).clone();
                    let r = self.g_tyvar_alias(b, &tv, budget.saturating_sub(1).max(4));
                    if r.is_some() { self.dep_made += 1; }
                    r
                } else { None };
                let body = match aliased {
                    Some(e) => e,
                    None => if b.is_fun() && self.rng.chance(4, 5) { self.gen_lambda(b, budget.saturating_sub(1)) } else { self.expr(b, budget.saturating_sub(1)) },
                };
                self.scope.pop();
                E::Lam { var: x, implicit: false, ann, body: Box::new(body) }
            }
            T::All(a, b) => {
                self.feat("polymorphism");
                let a2 = self.fresh_tyvar();
                let mut m = HashMap::new();
                m.insert(a.clone(), T::TVar(a2.clone()));
                let b2 = b.subst(&m);
                self.scope.push(Bind::plain(&a2, T::Type));
                let body = if b2.is_fun() { self.gen_lambda(&b2, budget.saturating_sub(1)) } else { self.expr(&b2, budget.saturating_sub(1)) };
                self.scope.pop();
                let ann = if self.cfg.allow_holes && self.rng.chance(1, 4) { self.feat("hole"); None } else { Some(Box::new(E::TyType)) };
                E::Lam { var: a2, implicit: false, ann, body: Box::new(body) }
            }
            _ => self.expr(goal, budget),
        }
    }

    // The annotation of a lambda parameter: present unless holes are allowed and the type is a
    // base type (gram cannot infer a function type for a parameter that is applied in the body).
    fn param_ann(&mut self, a: &T) -> Option<Box<E>> {
        if self.cfg.allow_holes && a.is_ground_base() && self.rng.chance(1, 4) {
            self.feat("hole");
            return if self.rng.chance(1, 3) { Some(Box::new(E::Hole)) } else { None };
        }
        self.in_ann += 1;
        let e = self.ty_e(a);
        self.in_ann -= 1;
        Some(Box::new(e))
    }

    fn expr(&mut self, goal: &T, budget: usize) -> E {
        let no_let = std::mem::replace(&mut self.no_let, false);
        if budget <= 1 { return self.leaf(goal, 2); }
        if !no_let && self.rng.chance(1, 30) {
            self.feat("explicit-parens");
            return paren(self.expr(goal, budget - 1));
        }
        if self.dep && budget >= 4 && self.dep_made < 5 && self.in_ann == 0 && self.rng.chance(1, 6) {
            if let Some(e) = self.dep_gadget(goal, budget, !no_let && self.let_depth < 3) { return e; }
        }
        for _ in 0..4 {
            // weights: specific, if, call, var, applied lambda, group
            let group_ok = !no_let && budget >= 6 && (self.cfg.allow_nested_groups || self.let_depth == 0) && self.let_depth < 3;
            let w = [6, if budget >= 4 { 2 } else { 0 }, 6, 2, if budget >= 4 { 1 } else { 0 }, if group_ok { 2 } else { 0 }];
            let mut r = self.rng.below(w.iter().sum());
            let mut p = 0;
            while r >= w[p] { r -= w[p]; p += 1; }
            let got = match p {
                0 => self.gen_specific(goal, budget),
                1 => {
                    let c = self.expr(&T::Bool, budget / 3);
                    let a = self.expr(goal, budget / 3);
                    let b = self.expr(goal, budget / 3);
                    Some(ite(c, a, b))
                }
                2 => self.gen_call(goal, budget),
                3 => {
                    let vs = self.vars_of(goal);
                    if vs.is_empty() { None } else { Some(var(self.rng.pick::<String>(&vs[..]))) }
                }
                4 => Some(self.gen_applied_lambda(goal, budget)),
                _ => Some(self.gen_group(goal, budget)),
            };
            if let Some(e) = got { return e; }
        }
        self.leaf(goal, 2)
    }

    fn gen_specific(&mut self, goal: &T, budget: usize) -> Option<E> {
        let half = (budget - 1) / 2;
        Some(match goal {
            T::Int => {
                let r = self.rng.below(12);
                match r {
                    0..=2 => bin(0, self.expr(&T::Int, half), self.expr(&T::Int, half)),
                    3..=5 => bin(1, self.expr(&T::Int, half), self.expr(&T::Int, half)),
                    6..=8 => bin(2, self.expr(&T::Int, half), self.expr(&T::Int, half)),
                    9 | 10 if self.cfg.allow_div => {
                        self.feat("division");
                        let a = self.expr(&T::Int, half);
                        // the divisor is biased towards non-zero literals, zero is not excluded
                        let b = if self.rng.chance(7, 10) {
                            let k = self.rng.range(1, 9);
                            if self.rng.chance(1, 5) { lit(-k) } else { lit(k) }
                        } else {
                            self.expr(&T::Int, half)
                        };
                        bin(3, a, b)
                    }
                    9 | 10 => self.int_literal(),
                    _ => E::Neg(Box::new(self.expr(&T::Int, budget - 1))),
                }
            }
            T::Bool => {
                let op = 4 + self.rng.below(5) as u8;
                bin(op, self.expr(&T::Int, half), self.expr(&T::Int, half))
            }
            T::Type => { let t = self.gen_type(2); self.ty_e(&t) }
            T::TVar(_) => return None,
            T::Fun(..) | T::All(..) => self.gen_lambda(goal, budget),
        })
    }

    fn gen_applied_lambda(&mut self, goal: &T, budget: usize) -> E {
        let a = if self.rng.chance(1, 5) { self.feat("higher-order"); self.gen_type(1) } else { self.ground_base() };
        let a = if let T::Fun(..) = a { a } else if self.rng.chance(1, 6) { self.feat("higher-order"); T::fun(T::Int, self.ground_base()) } else { a };
        let arg = self.expr(&a, budget / 2);
        let x = self.fresh_name();
        let ann = self.param_ann(&a);
        self.scope.push(Bind::plain(&x, a));
        let body = self.expr(goal, budget / 2);
        self.scope.pop();
        self.feat("applied-lambda");
        app(E::Lam { var: x, implicit: false, ann, body: Box::new(body) }, arg)
    }

    // An application of a function in scope whose result (after k arguments) is the goal.
    fn gen_call(&mut self, goal: &T, budget: usize) -> Option<E> {
        // A function goal over abstract types is only met by a lambda: a partial application
        // would need arguments of abstract types before the parameters that provide them exist.
        if goal.is_fun() && goal.has_tvar() { return None; }
        let mut cands: Vec<(usize, usize, HashMap<String, T>)> = vec![];
        for (i, b) in self.scope.iter().enumerate() {
            if !b.usable || b.alias.is_some() || !b.ty.is_fun() { continue; }
            if b.guarded.is_some() && self.in_guarded > 0 { continue; }
            let (ps, rs) = spine(&b.ty);
            for k in 1..=ps.len() {
                let vars: Vec<String> = ps[..k].iter().filter_map(|p| if let Param::Ty(a) = p { Some(a.clone()) } else { None }).collect();
                let mut m = HashMap::new();
                if match_ty(&rs[k], goal, &vars, &mut m) {
                    let w = if b.ty.has_all() || b.forward { 3 } else { 1 };
                    for _ in 0..w { cands.push((i, k, m.clone())); }
                }
            }
        }
        if cands.is_empty() { return None; }
        let (i, k, m) = cands[self.rng.below(cands.len())].clone();
        Some(self.build_call(i, k, m, budget))
    }

    // A call of one specific function, if its result can be the goal (prefers full application).
    fn force_call(&mut self, name: &str, goal: &T, budget: usize) -> Option<E> {
        let i = self.scope.iter().position(|b| b.name == name)?;
        let (ps, rs) = spine(&self.scope[i].ty);
        for k in (1..=ps.len()).rev() {
            let vars: Vec<String> = ps[..k].iter().filter_map(|p| if let Param::Ty(a) = p { Some(a.clone()) } else { None }).collect();
            let mut m = HashMap::new();
            if match_ty(&rs[k], goal, &vars, &mut m) { return Some(self.build_call(i, k, m, budget)); }
        }
        None
    }

    fn build_call(&mut self, i: usize, k: usize, mut m: HashMap<String, T>, budget: usize) -> E {
        let b = self.scope[i].clone();
        let (ps, _) = spine(&b.ty);
        if b.ty.has_all() { self.feat("polymorphism"); }
        if b.forward { self.feat("forward-ref"); }
        if k < ps.len() { self.feat("partial-application"); }
        // type parameters not determined by the goal are instantiated at random
        for p in &ps[..k] {
            if let Param::Ty(a) = p {
                if !m.contains_key(a) { let t = self.ground_base(); m.insert(a.clone(), t); }
            }
        }
        let per = budget.saturating_sub(1) / k;
        let mut e = var(&b.name);
        let mut first_val = true;
        for (j, p) in ps[..k].iter().enumerate() {
            let arg = match p {
                Param::Ty(a) => {
                    // `_` when a later value argument has a type mentioning the variable
                    let inferable = ps[j + 1..k].iter().any(|q| matches!(q, Param::Val(t) if t == &T::TVar(a.clone())));
                    if self.cfg.allow_holes && inferable && self.rng.chance(1, 2) {
                        self.feat("hole");
                        E::Hole
                    } else {
                        let t = m[a].clone();
                        self.ty_e(&t)
                    }
                }
                Param::Val(t) => {
                    let t2 = t.subst(&m);
                    if t2.is_fun() { self.feat("higher-order"); }
                    let guarded_arg = first_val && b.guarded.is_some();
                    first_val = false;
                    if guarded_arg {
                        self.small_nat(b.guarded.unwrap())
                    } else {
                        self.expr(&t2, per)
                    }
                }
            };
            e = app(e, arg);
        }
        e
    }

    // ---- groups ----

    fn func_type(&mut self) -> T {
        let n = 1 + self.rng.below(3);
        let mut ps = vec![];
        for _ in 0..n {
            ps.push(if self.rng.chance(1, 4) { T::fun(self.ground_base(), self.ground_base()) } else { self.ground_base() });
        }
        let res = if self.rng.chance(1, 8) { T::fun(self.ground_base(), self.ground_base()) } else { self.ground_base() };
        T::funs(&ps, res)
    }

    fn rec_type(&mut self) -> T {
        let n = self.rng.below(3);
        let mut ps = vec![T::Int];
        for _ in 0..n { ps.push(self.ground_base()); }
        let res = if self.rng.chance(3, 4) { T::Int } else { T::Bool };
        T::funs(&ps, res)
    }

    fn poly_type(&mut self) -> T {
        let (a, b, c) = (self.fresh_tyvar(), self.fresh_tyvar(), self.fresh_tyvar());
        let (ta, tb, tc) = (T::TVar(a.clone()), T::TVar(b.clone()), T::TVar(c.clone()));
        match self.rng.below(6) {
            0 | 1 => T::all(&a, T::fun(ta.clone(), ta)),                                                    // id
            2 => T::all(&a, T::all(&b, T::funs(&[ta.clone(), tb], ta))),                                    // const
            3 => { self.feat("higher-order"); T::all(&a, T::funs(&[T::fun(ta.clone(), ta.clone()), ta.clone()], ta)) } // twice / apply
            4 => T::all(&a, T::funs(&[T::Bool, ta.clone(), ta.clone()], ta)),                               // choose
            _ => {
                self.feat("higher-order");
                T::all(&a, T::all(&b, T::all(&c, T::funs(&[T::fun(tb.clone(), tc.clone()), T::fun(ta.clone(), tb), ta], tc)))) // compose
            }
        }
    }

    fn plan_group(&mut self, budget: usize) -> Vec<Item> {
        let max_defs = if budget < 12 { 1 } else if budget < 25 { 2 } else if budget < 45 { 3 } else { 4 };
        let n_defs = 1 + self.rng.below(max_defs);
        let mut items: Vec<Item> = vec![];
        let mut names: Vec<String> = vec![];
        let name = |g: &mut Self, names: &mut Vec<String>| loop {
            let n = g.fresh_name();
            if !names.contains(&n) { names.push(n.clone()); return n; }
        };
        while items.len() < n_defs {
            let r = self.rng.below(13);
            let left = n_defs - items.len();
            let item = |kind: Kind, name: String, ty: T| Item { kind, name, ty, cluster: None, fwd_user: None, literal: false, fwd_ann: false, role: 0, fwd_consts: vec![], uses_fn: None };
            match r {
                0..=3 => {
                    // sometimes a function-typed value: what is left of an earlier function of
                    // the group after its first arguments (so a partial application fits)
                    let earlier: Vec<T> = items.iter().filter(|it| matches!(it.kind, Kind::Func | Kind::Rec { .. }) && it.cluster.is_none()).filter_map(|it| {
                        let (ps, rs) = spine(&it.ty);
                        if ps.len() >= 2 { Some(rs[1 + self.rng.below(ps.len() - 1)].clone()) } else { None }
                    }).collect();
                    let ty = if !earlier.is_empty() && self.rng.chance(1, 3) {
                        self.rng.pick(&earlier).clone()
                    } else if self.rng.chance(1, 7) {
                        T::fun(self.ground_base(), self.ground_base())
                    } else {
                        self.ground_base()
                    };
                    let n = name(self, &mut names);
                    items.push(item(Kind::Value, n, ty));
                }
                4..=6 => {
                    let ty = self.func_type();
                    let n = name(self, &mut names);
                    items.push(item(Kind::Func, n, ty));
                }
                7..=9 => {
                    let ty = self.rec_type();
                    let n = name(self, &mut names);
                    let calls = if self.rng.chance(1, 4) { 2 } else { 1 };
                    items.push(item(Kind::Rec { calls }, n, ty));
                }
                10 if left >= 2 => {
                    let (t1, t2) = (self.rec_type(), self.rec_type());
                    let (n1, n2) = (name(self, &mut names), name(self, &mut names));
                    let mut i1 = item(Kind::Rec { calls: 1 }, n1.clone(), t1);
                    let mut i2 = item(Kind::Rec { calls: 1 }, n2.clone(), t2);
                    i1.cluster = Some(n2);
                    i2.cluster = Some(n1);
                    items.push(i1);
                    items.push(i2);
                }
                10 => {}
                _ => {
                    let ty = self.poly_type();
                    let n = if !self.in_scope("id") && !names.contains(&"id".to_owned()) && matches!(&ty, T::All(_, b) if matches!(**b, T::Fun(..)) && !b.has_all()) && self.rng.chance(1, 2) {
                        names.push("id".to_owned());
                        "id".to_owned()
                    } else {
                        name(self, &mut names)
                    };
                    items.push(item(Kind::Poly, n, ty));
                }
            }
        }
        // with forward references allowed, make sure there is something to refer forward to: a
        // non-function definition followed by a function definition
        if self.cfg.allow_forward_refs && self.rng.chance(2, 3) {
            let first_value = items.iter().position(|it| matches!(it.kind, Kind::Value) && it.ty.is_ground_base());
            let has_later_fn = first_value.map_or(false, |v| items[v + 1..].iter().any(|it| matches!(it.kind, Kind::Func | Kind::Rec { .. }) && it.cluster.is_none()));
            if !has_later_fn {
                if first_value.is_none() {
                    let n = name(self, &mut names);
                    let ty = self.ground_base();
                    items.insert(0, Item { kind: Kind::Value, name: n, ty, cluster: None, fwd_user: None, literal: false, fwd_ann: false, role: 0, fwd_consts: vec![], uses_fn: None });
                }
                let n = name(self, &mut names);
                let (kind, ty) = if self.rng.chance(1, 2) { (Kind::Func, self.func_type()) } else { (Kind::Rec { calls: 1 }, self.rec_type()) };
                items.push(Item { kind, name: n, ty, cluster: None, fwd_user: None, literal: false, fwd_ann: false, role: 0, fwd_consts: vec![], uses_fn: None });
            }
        }
        // a type alias for a type that the group is going to mention
        if self.rng.chance(1, 4) {
            let mut pool: Vec<T> = vec![];
            for it in &items {
                if let T::Fun(a, _) = &it.ty {
                    if !it.ty.has_all() { pool.push(it.ty.clone()); pool.push((**a).clone()); }
                }
            }
            pool.push(self.ground_base());
            let t = self.rng.pick(&pool).clone();
            let n = self.fresh_tyvar();
            items.insert(0, Item { kind: Kind::Alias(t), name: n, ty: T::Type, cluster: None, fwd_user: None, literal: false, fwd_ann: false, role: 0, fwd_consts: vec![], uses_fn: None });
        }
        if self.dep { self.plan_dep_items(&mut items, &mut names); }
        items
    }

    // Dependent mode: more aliases (of type parameters, of the universe, chains, aliases and type
    // families that come AFTER the annotations that mention them), a helper `first`, and functions
    // that refer forward to later constants of the group.
    fn plan_dep_items(&mut self, items: &mut Vec<Item>, names: &mut Vec<String>) {
        let blank = |kind: Kind, name: String, ty: T| Item { kind, name, ty, cluster: None, fwd_user: None, literal: false, fwd_ann: false, role: 0, fwd_consts: vec![], uses_fn: None };
        // (c) functions referring forward to later constants, used by still later definitions.
        // gram's definition-order rule accepts that: a non-value definition may not reach a
        // non-value definition at its own or a later position; the function is a value, and it is
        // only called after the last constant it mentions.
        if !self.cfg.allow_forward_refs && self.rng.chance(1, 2) {
            let funcs: Vec<usize> = (0..items.len()).filter(|&i| matches!(items[i].kind, Kind::Func) && items[i].cluster.is_none()).collect();
            if !funcs.is_empty() {
                let i = *self.rng.pick(&funcs);
                let mut consts: Vec<usize> = (i + 1..items.len()).filter(|&j| matches!(items[j].kind, Kind::Value) && items[j].ty == T::Int).collect();
                // make sure there is a constant after the function
                if consts.is_empty() {
                    let n = loop { let n = self.fresh_name(); if !names.contains(&n) { names.push(n.clone()); break n; } };
                    let at = i + 1 + self.rng.below(items.len() - i);
                    Self::insert_item(items, at, blank(Kind::Value, n.clone(), T::Int));
                    consts = vec![items.iter().position(|it| it.name == n).unwrap()];
                }
                while consts.len() > 2 { let k = self.rng.below(consts.len()); consts.remove(k); }
                let last = *consts.iter().max().unwrap();
                items[i].fwd_consts = consts;
                // a later non-value definition that calls the function
                if self.rng.chance(2, 3) {
                    let res = items[i].ty.result().clone();
                    let n = loop { let n = self.fresh_name(); if !names.contains(&n) { names.push(n.clone()); break n; } };
                    let at = last + 1 + self.rng.below(items.len() - last);
                    let mut it = blank(Kind::Value, n, if res.is_ground_base() { res } else { T::Int });
                    it.uses_fn = Some(i);
                    Self::insert_item(items, at, it);
                }
            }
        }
        // (d) first = a => b => a
        if self.rng.chance(1, 5) && !self.scope.iter().any(|b| b.role == ROLE_FIRST) {
            let n = if !self.in_scope("first") && !names.contains(&"first".to_owned()) { names.push("first".to_owned()); "first".to_owned() } else { loop { let n = self.fresh_name(); if !names.contains(&n) { names.push(n.clone()); break n; } } };
            let mut it = blank(Kind::Helper, n, T::funs(&[T::Int, T::Int], T::Int));
            it.role = ROLE_FIRST;
            let at = self.rng.below(items.len() + 1);
            Self::insert_item(items, at, it);
        }
        // (a) a type family over types that the group mentions
        let mut pool: Vec<T> = vec![T::Int, T::Bool];
        for it in items.iter() { if it.ty.is_ground_base() { pool.push(it.ty.clone()); } }
        let tyvars: Vec<String> = self.scope.iter().filter(|b| b.usable && b.ty == T::Type && b.alias.is_none() && b.family.is_none() && self.used_tyvars.contains(&b.name)).map(|b| b.name.clone()).collect();
        if self.rng.chance(2, 5) {
            let a = self.rng.pick(&pool).clone();
            let b = if !tyvars.is_empty() && self.rng.chance(1, 3) { T::TVar(self.rng.pick(&tyvars).clone()) } else if a == T::Int { T::Bool } else { T::Int };
            let f = self.random_fam(a, b);
            let n = self.fresh_tyvar();
            let mut it = blank(Kind::Family(f), n, T::fun(T::Int, T::Type));
            // a family is a function, hence a value: annotations before it may mention it
            let at = if self.cfg.allow_forward_refs { 0 } else { self.rng.below(items.len() + 1) };
            it.fwd_ann = at > 0;
            Self::insert_item(items, at, it);
        }
        // (b) aliases
        let n_alias = self.rng.below(3);
        for _ in 0..n_alias {
            let n = self.fresh_tyvar();
            let r = self.rng.below(6);
            let earlier: Vec<(usize, String, T)> = items.iter().enumerate().filter_map(|(i, it)| if let Kind::Alias(t) = &it.kind { Some((i, it.name.clone(), t.clone())) } else { None }).collect();
            if r == 0 && !earlier.is_empty() {
                // a chain: an alias of an earlier alias
                let (i, target, t) = self.rng.pick(&earlier).clone();
                let mut it = blank(Kind::Alias(t), n, T::Type);
                it.cluster = Some(target);
                let at = if self.cfg.allow_forward_refs { i + 1 } else { i + 1 + self.rng.below(items.len() - i) };
                Self::insert_item(items, at, it);
            } else if r == 1 && !tyvars.is_empty() {
                // an alias of a type parameter in scope (a variable: not a value, so it comes first
                // when forward references are around)
                let t = T::TVar(self.rng.pick(&tyvars).clone());
                let at = if self.cfg.allow_forward_refs { 0 } else { self.rng.below(items.len() + 1) };
                Self::insert_item(items, at, blank(Kind::Alias(t), n, T::Type));
            } else {
                // an alias whose right-hand side is a value (`int`, `bool`, `type`, a function
                // type), anywhere in the group: annotations before it may mention it
                let t = if r == 2 { T::Type } else { self.rng.pick(&pool).clone() };
                let mut it = blank(Kind::Alias(t), n, T::Type);
                it.literal = true;
                let at = self.rng.below(items.len() + 1);
                it.fwd_ann = at > 0;
                Self::insert_item(items, at, it);
            }
        }
    }

    // insert, keeping the indices stored in other items right
    fn insert_item(items: &mut Vec<Item>, at: usize, it: Item) {
        // never between the two functions of a mutually recursive pair (a non-value definition
        // there could call the first, which calls the second, which is not there yet)
        let mut at = at;
        while at > 0 && at < items.len() && matches!(items[at].kind, Kind::Rec { .. }) && items[at - 1].cluster.as_deref() == Some(items[at].name.as_str()) { at += 1; }
        for o in items.iter_mut() {
            for c in o.fwd_consts.iter_mut() { if *c >= at { *c += 1; } }
            if let Some(u) = o.uses_fn.as_mut() { if *u >= at { *u += 1; } }
        }
        items.insert(at, it);
    }

    fn random_fam(&mut self, then_t: T, else_t: T) -> Fam {
        let shape = match self.rng.below(10) { 0..=4 => 0, 5 | 6 => 1, 7 => 2, 8 => 3, _ => 4 };
        let k = self.rng.range(-2, 5);
        let (then_t, else_t) = if shape == 3 { (then_t.clone(), then_t) } else if self.rng.chance(1, 2) { (then_t, else_t) } else { (else_t, then_t) };
        Fam { shape, op: 4 + self.rng.below(5) as u8, k, k2: k + self.rng.range(1, 4), then_t, else_t }
    }

    fn gen_group(&mut self, goal: &T, budget: usize) -> E {
        self.let_depth += 1;
        if self.let_depth > 1 { self.feat("nested-group"); }
        let base = self.scope.len();
        let mut items = self.plan_group(budget);
        let has_alias = items.iter().any(|it| matches!(it.kind, Kind::Alias(_) | Kind::Family(_)));
        // all names of the group are in scope everywhere in it (no shadowing), but not usable yet
        for it in &items {
            let guarded = if let Kind::Rec { calls } = it.kind { Some(if calls > 1 { 3 } else { 4 }) } else { None };
            let alias = if let Kind::Alias(t) = &it.kind { Some(t.clone()) } else { None };
            let family = if let Kind::Family(f) = &it.kind { Some(f.clone()) } else { None };
            self.scope.push(Bind { alias, guarded, usable: false, fwd_ann: it.fwd_ann, family, role: it.role, ..Bind::plain(&it.name, it.ty.clone()) });
        }
        // forward references: a non-function definition may call a later function definition, or
        // use a later literal definition
        let mut fwd: HashMap<usize, usize> = HashMap::new(); // user -> target
        if self.cfg.allow_forward_refs {
            for i in 0..items.len() {
                if !matches!(items[i].kind, Kind::Value) || !items[i].ty.is_ground_base() || !self.rng.chance(2, 3) { continue; }
                let targets: Vec<usize> = (i + 1..items.len())
                    .filter(|&j| match items[j].kind {
                        Kind::Func | Kind::Rec { .. } => items[j].ty.result().is_ground_base() && items[j].cluster.is_none(),
                        Kind::Value => items[j].ty.is_ground_base() && !fwd.contains_key(&j),
                        _ => false,
                    })
                    .collect();
                if targets.is_empty() { continue; }
                let j = *self.rng.pick(&targets);
                fwd.insert(i, j);
                if matches!(items[j].kind, Kind::Value) { items[j].literal = true; }
                items[j].fwd_user = Some(items[j].fwd_user.map_or(i, |u| u.min(i)));
            }
        }
        let n_items = items.len();
        let per = (budget * 3 / 4) / n_items.max(1);
        let mut defs: Vec<(String, Option<E>, E)> = vec![];
        let mut deferred: Vec<(usize, usize)> = vec![];
        for i in 0..n_items {
            let it = items[i].clone();
            // a definition that is used early must not depend on anything from its user onwards
            let hidden: Vec<usize> = match it.fwd_user {
                Some(u) => (u..i).filter(|&j| self.scope[base + j].usable).collect(),
                None => vec![],
            };
            for &j in &hidden { self.scope[base + j].usable = false; }
            // Decide about the annotation first. gram cannot check an unannotated definition
            // whose type still contains an unresolved hole (`g = p => 4` is rejected), so holes
            // inside such a right-hand side are switched off, except for a few flagged cases.
            let needs_ann = matches!(it.kind, Kind::Rec { .. }) || it.fwd_user.is_some() || has_alias;
            let omit_ann = self.cfg.allow_holes && !needs_ann && self.rng.chance(2, 5);
            let saved_holes = self.cfg.allow_holes;
            if omit_ann {
                if self.rng.chance(1, 12) { self.feat("hole-in-unannotated-def"); } else { self.cfg.allow_holes = false; }
            }
            // a function may mention later constants of the group (it is called only after them)
            for &j in &it.fwd_consts { self.scope[base + j].usable = true; }
            if !it.fwd_consts.is_empty() { self.feat("dep-function-mentions-later-constant"); }
            let rhs = match &it.kind {
                Kind::Alias(t) if it.literal => { if it.fwd_ann { self.feat("dep-alias-after-its-uses"); } ty_plain(t) }
                Kind::Alias(_) if it.cluster.is_some() => { self.feat("dep-alias-chain"); var(it.cluster.as_ref().unwrap()) }
                Kind::Family(f) => self.fam_lambda(&it.name, &f.clone()),
                Kind::Helper => {
                    let (a, b) = (self.fresh_name(), self.fresh_name());
                    let b = if a == b { format!("{b}2") } else { b };
                    lam(&a, Some(E::TyInt), lam(&b, Some(E::TyInt), var(&a)))
                }
                Kind::Value if it.uses_fn.is_some() => {
                    let f = items[it.uses_fn.unwrap()].name.clone();
                    let res = items[it.uses_fn.unwrap()].ty.result().clone();
                    self.feat("dep-later-definition-calls-forward-function");
                    match self.force_call(&f, &res, per / 2) {
                        Some(c) if res == it.ty => if it.ty == T::Int && self.rng.chance(1, 2) { bin(self.rng.below(3) as u8, c, self.expr(&T::Int, per / 3)) } else { c },
                        Some(c) if res == T::Int => bin(4 + self.rng.below(5) as u8, c, self.expr(&T::Int, per / 3)),
                        Some(c) if res == T::Bool => ite(c, self.expr(&it.ty, per / 3), self.expr(&it.ty, per / 3)),
                        _ => self.expr(&it.ty, per),
                    }
                }
                Kind::Alias(t) => {
                    if matches!(t, T::TVar(_)) { self.feat("dep-alias-of-type-parameter"); }
                    let save = self.obfuscate;
                    self.obfuscate = save && self.rng.chance(1, 3);
                    let e = self.ty_e(&t.clone());
                    self.obfuscate = save;
                    e
                }
                Kind::Value if it.literal => if it.ty == T::Int { self.int_literal() } else if self.rng.chance(1, 2) { E::True } else { E::False },
                Kind::Value => match fwd.get(&i) {
                    Some(&j) => self.gen_forward_use(&it.ty, base + j, per),
                    None if it.ty.is_fun() && self.rng.chance(3, 4) => match self.gen_call(&it.ty, per) {
                        Some(e) => e,
                        None => self.expr(&it.ty, per),
                    },
                    None => self.expr(&it.ty, per),
                },
                Kind::Func if !it.fwd_consts.is_empty() => {
                    let mut f = self.gen_lambda(&it.ty, per);
                    // make sure the body mentions the constants
                    let res = it.ty.result().clone();
                    for &j in &it.fwd_consts {
                        let c = items[j].name.clone();
                        if mentions(&f, &c) { continue; }
                        let mut depth = 0;
                        { let mut q = &f; while let E::Lam { body, .. } = q { q = &**body; depth += 1; } }
                        if depth != spine(&it.ty).0.len() { continue; }
                        let mut cur = &mut f;
                        while let E::Lam { body, .. } = cur { cur = &mut **body; }
                        let old = std::mem::replace(cur, E::True);
                        *cur = match res {
                            T::Int => bin(self.rng.below(3) as u8, old, var(&c)),
                            T::Bool => ite(bin(4 + self.rng.below(5) as u8, var(&c), lit(self.rng.range(0, 9))), old, if self.rng.chance(1, 2) { E::True } else { E::False }),
                            _ => old,
                        };
                    }
                    f
                }
                Kind::Func | Kind::Poly => self.gen_lambda(&it.ty, per),
                Kind::Rec { calls } => self.gen_rec(&it, *calls, per),
            };
            for &j in &it.fwd_consts { self.scope[base + j].usable = false; }
            for &j in &hidden { self.scope[base + j].usable = true; }
            self.cfg.allow_holes = saved_holes;
            let ann = if omit_ann {
                self.feat("hole");
                if self.rng.chance(1, 4) { Some(E::Hole) } else { None }
            } else {
                self.in_ann += 1;
                let a = self.ty_e(&it.ty);
                self.in_ann -= 1;
                Some(a)
            };
            defs.push((it.name.clone(), ann, rhs));
            // a function that mentions later constants becomes usable after the last of them
            match it.fwd_consts.iter().max() {
                Some(&last) if last > i => deferred.push((i, last)),
                _ => self.scope[base + i].usable = true,
            }
            for (f, last) in deferred.clone() { if last == i { self.scope[base + f].usable = true; } }
        }
        // body
        let rest = budget / 4 + 2;
        let polys: Vec<String> = items.iter().filter(|it| matches!(it.kind, Kind::Poly)).map(|it| it.name.clone()).collect();
        let body = if !polys.is_empty() && goal.is_ground_base() && self.rng.chance(3, 4) {
            // use a polymorphic definition at two different instances
            let p = self.rng.pick(&polys).clone();
            let other = if *goal == T::Int { T::Bool } else { T::Int };
            let c1 = self.force_call(&p, &other, rest / 3);
            let c2 = self.force_call(&p, goal, rest / 3);
            match (c1, c2) {
                (Some(c1), Some(c2)) => {
                    self.feat("polymorphism-two-instances");
                    let cond = if other == T::Bool { c1 } else { bin(4 + self.rng.below(5) as u8, c1, self.expr(&T::Int, 2)) };
                    let alt = self.expr(goal, rest / 3);
                    if self.rng.chance(1, 2) { ite(cond, c2, alt) } else { ite(cond, alt, c2) }
                }
                _ => { self.no_let = true; self.expr(goal, rest) }
            }
        } else if self.dep && self.let_depth == 1 && (self.dep_made == 0 || self.rng.chance(1, 4)) && !goal.is_fun() && *goal != T::Type {
            self.dep_gadget(goal, rest + 4, false).unwrap_or_else(|| lit(0))
        } else {
            self.no_let = true;
            // prefer a body that uses the group
            let mut b = None;
            if self.rng.chance(2, 3) {
                let last = items.iter().rev().find(|it| !matches!(it.kind, Kind::Alias(_))).map(|it| it.name.clone());
                if let Some(n) = last {
                    if self.scope.iter().any(|x| x.name == n && x.ty.is_fun()) { b = self.force_call(&n, goal, rest); }
                }
            }
            self.no_let = true;
            match b { Some(b) => { self.no_let = false; b } None => self.expr(goal, rest) }
        };
        self.no_let = false;
        self.scope.truncate(base);
        self.let_depth -= 1;
        E::Let(defs, Box::new(body))
    }

    // The right-hand side of a non-function definition that uses a later definition.
    fn gen_forward_use(&mut self, ty: &T, target: usize, budget: usize) -> E {
        self.scope[target].usable = true;
        self.scope[target].forward = true;
        let name = self.scope[target].name.clone();
        let tty = self.scope[target].ty.clone();
        let res = tty.result().clone();
        self.feat("forward-ref");
        let c = if tty.is_fun() { self.force_call(&name, &res, budget / 2).unwrap_or_else(|| var(&name)) } else { var(&name) };
        self.scope[target].usable = false;
        self.scope[target].forward = false;
        let other = self.expr(&T::Int, budget / 3);
        match (ty, &res) {
            (T::Int, T::Int) => bin(self.rng.below(3) as u8, c, other),
            (T::Bool, T::Int) => bin(4 + self.rng.below(5) as u8, c, other),
            (T::Int, T::Bool) => ite(c, other, self.expr(&T::Int, budget / 3)),
            _ => c,
        }
    }

    // A (mutually) recursive function with a structurally decreasing first argument:
    //   (n : int) => (p : P) ... => if n <= 0 then BASE else STEP   with calls `f (n - 1) ...` in STEP.
    fn gen_rec(&mut self, it: &Item, calls: usize, budget: usize) -> E {
        self.feat("recursion");
        if it.cluster.is_some() { self.feat("mutual-recursion"); }
        let (ps, rs) = spine(&it.ty);
        let res = rs[ps.len()].clone();
        let base = self.scope.len();
        let mut params: Vec<(String, Option<Box<E>>)> = vec![];
        for p in &ps {
            if let Param::Val(t) = p {
                let x = self.fresh_name();
                // the parameter annotations of recursive functions are always written
                self.in_ann += 1;
                let ann = Some(Box::new(self.ty_e(t)));
                self.in_ann -= 1;
                self.scope.push(Bind::plain(&x, t.clone()));
                params.push((x, ann));
            }
        }
        let n = params[0].0.clone();
        self.in_guarded += 1;
        let cond = match self.rng.below(6) {
            0 => bin(4, var(&n), lit(1)),
            1 => bin(8, lit(0), var(&n)),
            _ => bin(5, var(&n), lit(0)),
        };
        let base_e = self.expr(&res, budget / 4);
        // the recursive calls: to the partner if there is one (and then maybe also to itself)
        let mut rec_calls = vec![];
        for c in 0..calls {
            let callee = match &it.cluster {
                Some(partner) if c == 0 => partner.clone(),
                _ => it.name.clone(),
            };
            let cty = self.scope.iter().find(|b| b.name == callee).unwrap().ty.clone();
            let (cps, _) = spine(&cty);
            let mut e = app(var(&callee), bin(1, var(&n), lit(1)));
            for p in &cps[1..] {
                if let Param::Val(t) = p { e = app(e, self.expr(t, 3)); }
            }
            // the callee's result type may differ from ours (mutual recursion): adapt
            let cres = cty.result().clone();
            let e = match (&res, &cres) {
                (T::Int, T::Bool) => ite(e, self.expr(&T::Int, 2), self.expr(&T::Int, 2)),
                (T::Bool, T::Int) => bin(4 + self.rng.below(5) as u8, e, self.expr(&T::Int, 2)),
                _ => e,
            };
            rec_calls.push(e);
        }
        let mut step = rec_calls.remove(0);
        let extra = budget / 4;
        step = match res {
            T::Int => match self.rng.below(5) {
                0 => step,
                1 => bin(2, self.expr(&T::Int, extra), step),
                2 => bin(0, step, self.expr(&T::Int, extra)),
                3 => bin(1, step, self.expr(&T::Int, extra)),
                _ => bin(0, var(&n), step),
            },
            _ => match self.rng.below(3) {
                0 => step,
                1 => ite(self.expr(&T::Bool, extra), step, self.expr(&T::Bool, 2)),
                _ => ite(step, self.expr(&T::Bool, 2), self.expr(&T::Bool, 2)),
            },
        };
        if let Some(second) = rec_calls.pop() {
            step = match res {
                T::Int => bin(self.rng.below(3) as u8, step, second),
                _ => ite(self.expr(&T::Bool, 2), step, second),
            };
        }
        self.in_guarded -= 1;
        self.scope.truncate(base);
        let mut e = ite(cond, base_e, step);
        for (x, ann) in params.into_iter().rev() {
            e = E::Lam { var: x, implicit: false, ann, body: Box::new(e) };
        }
        e
    }

    // -----------------------------------------------------------------------------------------
    // 5b. Dependently typed constructions ("dependent mode")
    // -----------------------------------------------------------------------------------------
    // Each construction is an expression of the goal type whose value is that of a payload
    // generated by `expr` (so the reference evaluator, for which every type is an opaque `Ty`,
    // needs to know nothing about them), passed through identity coercions whose types are
    // dependent: local type aliases under binders, type families applied to closed and to neutral
    // indices, Leibniz-style predicates over convertible indices, groups whose type mentions
    // their definitions. A construction can be made as a NEAR MISS: two types that have to be
    // definitionally equal for the program to be well typed are not. There is at most one per
    // program; it contains a binder called `nm_`, and the program is then expected to be rejected.

    // k distinct names that are not in scope
    fn fresh_names(&mut self, k: usize) -> Vec<String> {
        let base = self.scope.len();
        let mut out = vec![];
        for _ in 0..k {
            let n = self.fresh_name();
            self.scope.push(Bind::opaque(&n));
            out.push(n);
        }
        self.scope.truncate(base);
        out
    }

    fn ann_or_hole(&mut self, e: E) -> Option<E> {
        if self.cfg.allow_holes && self.rng.chance(1, 3) { self.feat("hole"); None } else { Some(e) }
    }

    fn fam_app(&mut self, name: &str, f: &Fam, w: i64) -> E {
        self.feat("dep-family-applied-to-closed-index");
        if f.shape != 3 && (w == f.k || (f.shape == 2 && w == f.k2)) { self.feat("dep-family-boundary-index"); }
        let arg = self.closed_int(w);
        app(var(name), arg)
    }

    // A closed expression with the integer value w.
    fn closed_int(&mut self, w: i64) -> E {
        match self.rng.below(12) {
            0 => { let a = self.rng.range(-5, 9); bin(0, lit(a), lit(w - a)) }
            1 => { let a = self.rng.range(-5, 9); bin(1, lit(w + a), lit(a)) }
            2 if w == 0 => bin(2, lit(self.rng.range(1, 9)), lit(0)),
            2 => bin(2, lit(w), lit(1)),
            3 => {
                let x = self.fresh_name();
                let ann = self.ann_or_hole(E::TyInt);
                paren(E::Let(vec![(x.clone(), ann, lit(w))], Box::new(var(&x))))
            }
            4 => { let c = self.closed_bool(true); ite(c, lit(w), lit(self.rng.range(0, 9))) }
            _ => lit(w),
        }
    }

    // The definition of a type family (see `Fam`); `name` is what it is called (for the recursive shape).
    fn fam_lambda(&mut self, name: &str, f: &Fam) -> E {
        let n = self.fresh_name();
        let base = self.scope.len();
        self.scope.push(Bind::opaque(&n));
        let save = self.obfuscate;
        self.obfuscate = false;
        let (a, b) = (self.ty_e(&f.then_t), self.ty_e(&f.else_t));
        self.obfuscate = save;
        self.feat("dep-type-family");
        let body = match f.shape {
            1 => ite(bin(f.op, lit(f.k), var(&n)), a, b),
            2 => {
                self.feat("dep-family-with-local-group");
                let lo = self.fresh_name();
                self.scope.push(Bind::opaque(&lo));
                let hi = self.fresh_name();
                let (al, ah) = (self.ann_or_hole(E::TyInt), self.ann_or_hole(E::TyInt));
                let inner = ite(bin(8, var(&n), var(&lo)), a, b.clone());
                let inner = if self.rng.chance(1, 2) { paren(inner) } else { inner };
                E::Let(vec![(lo, al, lit(f.k)), (hi.clone(), ah, lit(f.k2))], Box::new(ite(bin(4, var(&n), var(&hi)), inner, b)))
            }
            3 => {
                self.feat("dep-recursive-type-family");
                ite(bin(5, var(&n), lit(0)), a, app(var(name), bin(1, var(&n), lit(1))))
            }
            4 => {
                self.feat("dep-family-with-local-group");
                let lo = self.fresh_name();
                let al = self.ann_or_hole(E::TyInt);
                E::Let(vec![(lo.clone(), al, lit(f.k))], Box::new(ite(bin(f.op, var(&n), var(&lo)), a, b)))
            }
            _ => ite(bin(f.op, var(&n), lit(f.k)), a, b),
        };
        self.scope.truncate(base);
        lam(&n, Some(E::TyInt), body)
    }

    fn other_ground(&mut self, t: &T) -> T { if *t == T::Int { T::Bool } else { T::Int } }

    // type parameters of enclosing functions that have an inhabitant at hand
    fn tyvars_in_scope(&self) -> Vec<String> {
        self.scope.iter().filter(|b| b.usable && b.ty == T::Type && b.alias.is_none() && b.family.is_none() && self.used_tyvars.contains(&b.name)).map(|b| b.name.clone()).collect()
    }

    fn dep_gadget(&mut self, goal: &T, budget: usize, allow_let: bool) -> Option<E> {
        if goal.has_all() || goal.is_fun() || *goal == T::Type { return None; }
        let near = self.want_reject && self.reject.is_none() && self.rng.chance(2, 3);
        let mut kinds: Vec<u8> = vec![1, 1, 1, 2, 2, 2, 3, 3, 3, 4];
        if allow_let { kinds.extend([5, 5]); }
        if self.cfg.allow_holes { kinds.push(6); }
        let tvs = self.tyvars_in_scope();
        if allow_let && !tvs.is_empty() { kinds.extend([8, 8]); }
        let k = *self.rng.pick(&kinds);
        self.dep_made += 1;
        let before = self.reject.is_some();
        // no holes inside a near miss: what is inferred through a hole is subject to gram's known
        // hole-copy defect, and the verdict would not be the near miss's
        let saved_holes = self.cfg.allow_holes;
        if near { self.cfg.allow_holes = false; }
        let e = match k {
            1 => self.g_alias_coerce(goal, budget, near),
            2 => self.g_family(goal, budget, near, allow_let),
            3 => self.g_leibniz(goal, budget, near, allow_let),
            4 => self.g_neutral_if(goal, budget, near, allow_let),
            5 => self.g_eq_refl(goal, budget),
            6 => self.g_hole_late(goal, budget, near),
            _ => {
                let a = self.rng.pick(&tvs).clone();
                match self.g_tyvar_alias(goal, &a, budget) { Some(e) => e, None => self.g_alias_coerce(goal, budget, near) }
            }
        };
        self.cfg.allow_holes = saved_holes;
        if !before && self.reject.is_some() { self.feat("dep-near-miss"); }
        Some(e)
    }

    // K1. A group of 2..4 definitions under a binder of a type `t`, one of them an alias of `t`
    // that is not (necessarily) the first nor the last; the body's type mentions that alias; the
    // group as a whole is applied or passed on.
    //   ((t : type) => (y : t) => (a = int; b = t; (x : b) => x) y) A v
    // Near miss: `y` has the type that the definition before the alias stands for.
    fn g_alias_coerce(&mut self, goal: &T, budget: usize, near: bool) -> E {
        self.feat("dep-alias-group-under-binder");
        let sib = self.other_ground(goal);
        let own = near || !matches!(goal, T::TVar(_)) || self.rng.chance(1, 3);
        if near { self.reject = Some(("alias-of-outer-type-vs-sibling-definition", "nm_".to_owned())); }
        let base0 = self.scope.len();
        // when the payload itself is passed on inside `(h : t -> t) => h PAYLOAD`, h encloses it
        let h = self.fresh_name();
        if !own { self.scope.push(Bind::opaque(&h)); }
        let v = self.expr(if near { &sib } else { goal }, budget / 2);
        self.scope.truncate(base0);
        let a_e = self.ty_e(goal);
        let base = self.scope.len();
        // binders of our own: t, maybe an integer in between, y
        let (t, y, mid) = if own {
            let t = self.fresh_tyvar();
            self.scope.push(Bind::opaque(&t));
            let mid = if self.rng.chance(1, 3) { let c = self.fresh_name(); self.scope.push(Bind::plain(&c, T::Int)); Some(c) } else { None };
            let y = if near { "nm_".to_owned() } else { self.fresh_name() };
            self.scope.push(Bind::opaque(&y));
            (t, Some(y), mid)
        } else {
            let T::TVar(a) = goal else { unreachable!() };
            self.feat("dep-alias-of-type-parameter");
            (a.clone(), None, None)
        };
        // the group
        // Near miss: the definition that the alias of `t` would be confused with if the copies of
        // the group that end up in its type were lifted by too little: with j binders between
        // the group and `t`, that is the definition j + 1 places before the alias.
        let j = if mid.is_some() { 2 } else { 1 };
        let n = if near { (j + 2).max(2 + self.rng.below(3)) } else { 2 + self.rng.below(3) };
        let k = if near { j + 1 + self.rng.below(n - j - 1) } else if self.rng.chance(1, 6) { 0 } else { 1 + self.rng.below(n - 1) };
        let sib_at = if near { k - 1 - j } else { usize::MAX };
        if k > 0 && k + 1 < n { self.feat("dep-group-type-mentions-middle-definition"); }
        if k + 1 == n { self.feat("dep-group-type-mentions-last-definition"); }
        // kinds: 0 alias of t, 1 closed type, 2 integer constant, 3 universe alias
        let kinds: Vec<u8> = (0..n).map(|i| if i == k { 0 } else if i == sib_at { 1 } else { [0, 1, 1, 1, 2, 2, 3][self.rng.below(7)] }).collect();
        let names: Vec<String> = kinds.iter().map(|kd| { let x = if *kd == 2 { self.fresh_name() } else { self.fresh_tyvar() }; self.scope.push(Bind::opaque(&x)); x }).collect();
        let mut defs = vec![];
        let mut t_aliases: Vec<String> = vec![];
        let mut univ: Option<String> = None;
        for i in 0..n {
            let ty_ann = |g: &mut Self, univ: &Option<String>| match univ { Some(u) if g.rng.chance(1, 2) => { g.feat("dep-universe-alias"); var(u) } _ => E::TyType };
            let (ann, rhs) = match kinds[i] {
                0 => {
                    let rhs = if !t_aliases.is_empty() && i != k && self.rng.chance(1, 2) { self.feat("dep-alias-chain"); var(self.rng.pick::<String>(&t_aliases[..])) } else { var(&t) };
                    t_aliases.push(names[i].clone());
                    (ty_ann(self, &univ), rhs)
                }
                1 => {
                    let s = if i == sib_at { sib.clone() } else { self.gen_type(1) };
                    (ty_ann(self, &univ), ty_plain(&s))
                }
                2 => (E::TyInt, self.expr(&T::Int, 3)),
                _ => { let a = ty_ann(self, &univ); univ = Some(names[i].clone()); (a, E::TyType) }
            };
            let ann = self.ann_or_hole(ann);
            defs.push((names[i].clone(), ann, rhs));
        }
        let b = names[k].clone();
        // the body: an identity function at the alias
        let x = self.fresh_name();
        self.scope.push(Bind::opaque(&x));
        let body = if self.rng.chance(1, 4) {
            self.feat("dep-alias-used-in-nested-group");
            let w = self.fresh_name();
            let b2 = self.rng.pick::<String>(&t_aliases[..]).clone();
            lam(&x, Some(var(&b)), E::Let(vec![(w.clone(), Some(var(&b2)), var(&x))], Box::new(var(&w))))
        } else {
            lam(&x, Some(var(&b)), var(&x))
        };
        let group = E::Let(defs, Box::new(body));
        let arg = match &y { Some(y) => var(y), None => v.clone() };
        let applied = if self.rng.chance(1, 3) {
            self.feat("dep-group-passed-as-argument");
            let h = if own { self.fresh_name() } else { h };
            app(lam(&h, Some(arrow(var(&t), var(&t))), app(var(&h), arg)), group)
        } else {
            app(group, arg)
        };
        self.scope.truncate(base);
        let Some(y) = y else { return applied };
        let y_ty = if near { ty_plain(&sib) } else { var(&t) };
        let mut f = lam(&y, Some(y_ty), applied);
        if let Some(c) = &mid { f = lam(c, Some(E::TyInt), f); }
        f = lam(&t, Some(E::TyType), f);
        let mut e = app(f, a_e);
        if mid.is_some() { e = app(e, lit(self.rng.range(0, 9))); }
        app(e, v)
    }

    // K2. A type family applied to closed indices (reducing), to let-bound indices and to bound
    // variables (neutral), with a value ascribed to it.
    fn g_family(&mut self, goal: &T, budget: usize, near: bool, allow_let: bool) -> E {
        let other = self.other_ground(goal);
        let avail: Vec<(String, Fam)> = self.scope.iter().filter(|b| b.usable).filter_map(|b| b.family.as_ref().map(|f| (b.name.clone(), f.clone()))).filter(|(_, f)| f.then_t == *goal || f.else_t == *goal).collect();
        let (fname, fam, local) = if !avail.is_empty() && self.rng.chance(2, 3) {
            let (n, f) = self.rng.pick(&avail[..]).clone();
            (n, f, false)
        } else {
            let mut f = self.random_fam(goal.clone(), other);
            if f.shape == 3 && !allow_let { f.shape = 0; f.else_t = self.other_ground(goal); }
            (self.fresh_tyvar(), f, true)
        };
        // where only the forms with a bound variable are possible, a recursive family from the scope
        // is mostly replaced by a fresh non-recursive one (see below)
        let (fname, fam, local) = if fam.shape == 3 && !allow_let && !self.rng.chance(1, 5) {
            let o = self.other_ground(goal);
            let mut f = self.random_fam(goal.clone(), o.clone());
            if f.shape == 3 { f.shape = 0; f.else_t = o; }
            (self.fresh_tyvar(), f, true)
        } else { (fname, fam, local) };
        let want_then = if fam.then_t == fam.else_t { true } else { fam.then_t == *goal };
        let near = near && fam.then_t != fam.else_t && fam.arg_for(!want_then, self.rng).is_some();
        if near { self.reject = Some(("value-ascribed-to-the-other-branch-of-a-type-family", "nm_".to_owned())); }
        let w = if near { fam.arg_for(!want_then, self.rng) } else { fam.arg_for(want_then, self.rng) }.unwrap_or(fam.k);
        if fam.shape != 3 && (w == fam.k || (fam.shape == 2 && w == fam.k2)) { self.feat("dep-family-boundary-index"); }
        let base = self.scope.len();
        let named = !local || allow_let;
        let mut form = if allow_let { self.rng.below(5) } else { 2 + self.rng.below(2) };
        // A recursive family at a bound variable only now and then: every defect of the checker
        // that makes such a program loop costs the harness an abort (minutes, until the memory
        // cap is reached), and only a few aborts per run are attributed to their inputs.
        if fam.shape == 3 && form >= 2 && allow_let && !self.rng.chance(1, 5) { form = [0, 1, 4][self.rng.below(3)]; }
        // names of definitions (they enclose everything, the payload too) come first
        if local && named { self.scope.push(Bind::opaque(&fname)); }
        let xn = if near { "nm_".to_owned() } else { self.fresh_name() };
        self.scope.push(Bind::opaque(&xn));
        let kn = self.fresh_name();
        self.scope.push(Bind::opaque(&kn));
        let v = self.expr(goal, budget / 2);
        let fam_def = if local && named { Some(self.fam_lambda(&fname, &fam)) } else { None };
        // a reference to the family: its name, or a copy of its definition
        let fref = |g: &mut Self| if named { var(&fname) } else { g.fam_lambda(&fname, &fam) };
        let core = match form {
            0 | 4 => {
                // x : fam ARG = v; x            (also used under one more binder)
                self.feat("dep-family-applied-to-closed-index");
                let arg = self.closed_int(w);
                let f = fref(self);
                let body = if self.rng.chance(1, 2) { var(&xn) } else { self.feat("dep-definition-used-under-extra-binder"); let q = self.fresh_name(); app(lam(&q, Some(E::TyInt), var(&xn)), lit(self.rng.range(0, 9))) };
                E::Let(vec![(xn.clone(), Some(app(f, arg)), v)], Box::new(body))
            }
            1 => {
                // k : int = ARG; x : fam k = v; x
                self.feat("dep-family-applied-to-defined-index");
                let arg = if self.rng.chance(1, 2) { lit(w) } else { self.closed_int(w) };
                let f = fref(self);
                let ka = self.ann_or_hole(E::TyInt);
                E::Let(vec![(kn.clone(), ka, arg), (xn.clone(), Some(app(f, var(&kn))), v)], Box::new(var(&xn)))
            }
            _ => {
                // ((n : int) => (x : fam n) => x) ARG v, maybe through a second such function
                self.feat("dep-family-applied-to-bound-variable");
                if fam.shape == 3 { self.feat("dep-recursive-family-applied-to-bound-variable"); }
                let arg = self.closed_int(w);
                let n = self.fresh_name();
                self.scope.push(Bind::opaque(&n));
                let f1 = fref(self);
                let inner = if form == 3 {
                    self.feat("dep-family-neutral-through-application");
                    let m = self.fresh_name();
                    self.scope.push(Bind::opaque(&m));
                    let f2 = fref(self);
                    let z = self.fresh_name();
                    app(app(lam(&m, Some(E::TyInt), lam(&z, Some(app(f2, var(&m))), var(&z))), var(&n)), var(&xn))
                } else {
                    var(&xn)
                };
                app(app(lam(&n, Some(E::TyInt), lam(&xn, Some(app(f1, var(&n))), inner)), arg), v)
            }
        };
        let out = match fam_def {
            Some(d) => {
                let ann = { self.in_ann += 1; let a = self.ty_e(&T::fun(T::Int, T::Type)); self.in_ann -= 1; a };
                let ann = if fam.shape == 3 { Some(ann) } else { self.ann_or_hole(ann) };
                mk_let(vec![(fname, ann, d)], core)
            }
            None => core,
        };
        self.scope.truncate(base);
        out
    }

    // Two closed integer expressions for the indices of a predicate: convertible but written
    // differently, or (near miss) not convertible. Returns the value of the first.
    fn conv_pair(&mut self, near: bool) -> (E, E, i64, i64) {
        let (a, b, va, vb) = self.conv_pair_inner(near);
        (a, b, va, vb.unwrap_or(va))
    }

    // (first, second, value of the first, value of the second when it differs)
    fn conv_pair_inner(&mut self, near: bool) -> (E, E, i64, Option<i64>) {
        let w = self.rng.range(0, 6);
        let int_ann = |g: &mut Self| g.ann_or_hole(E::TyInt);
        let first = |g: &mut Self| -> E {
            let fs: Vec<String> = g.scope.iter().filter(|b| b.usable && b.role == ROLE_FIRST).map(|b| b.name.clone()).collect();
            if !fs.is_empty() && g.rng.chance(2, 3) { return var(&fs[0]); }
            let ab = g.fresh_names(2);
            lam(&ab[0], Some(E::TyInt), lam(&ab[1], Some(E::TyInt), var(&ab[0])))
        };
        let let1 = |g: &mut Self, c: i64| -> E { let x = g.fresh_name(); let a = int_ann(g); paren(E::Let(vec![(x.clone(), a, lit(c))], Box::new(var(&x)))) };
        let let2 = |g: &mut Self, c: i64, d: i64| -> E {
            let xy = g.fresh_names(2);
            let (a1, a2) = (int_ann(g), int_ann(g));
            paren(E::Let(vec![(xy[0].clone(), a1, lit(c)), (xy[1].clone(), a2, lit(d))], Box::new(var(&xy[1]))))
        };
        if near {
            match self.rng.below(5) {
                0 => { self.feat("dep-index-same-function-different-arguments"); let u = self.rng.range(0, 9); let (f1, f2) = (first(self), first(self)); (app(app(f1, lit(w)), lit(u)), app(app(f2, lit(w + 1)), lit(u)), w, Some(w + 1)) }
                1 => { let a = self.rng.range(0, 9); let w2 = w + if self.rng.chance(1, 2) { 1 } else { -1 }; (bin(0, lit(a), lit(w - a)), lit(w2), w, Some(w2)) }
                2 | 3 => { self.feat("dep-index-groups-with-common-prefix"); let d = w + 1 + self.rng.range(0, 2); (let1(self, w), let2(self, w, d), w, Some(d)) }
                _ => { let c = self.closed_bool(false); let u = w + 1 + self.rng.range(0, 3); (ite(c, lit(w), lit(u)), lit(w), u, Some(w)) }
            }
        } else {
            match self.rng.below(8) {
                0 | 1 => {
                    self.feat("dep-index-same-function-different-arguments");
                    let (u1, u2) = (self.rng.range(0, 4), self.rng.range(5, 9));
                    let (f1, f2) = (first(self), first(self));
                    (app(app(f1, lit(w)), lit(u1)), app(app(f2, lit(w)), lit(u2)), w, None)
                }
                2 => { let mut a = self.closed_int(w); if matches!(a, E::Lit(_)) { a = bin(0, lit(w), lit(0)); } (a, lit(w), w, None) }
                3 => (let1(self, w), lit(w), w, None),
                4 => { let c = self.rng.range(0, 9); (let2(self, c, w), let1(self, w), w, None) }
                5 => { let c = self.closed_bool(true); (ite(c, lit(w), lit(self.rng.range(0, 9))), lit(w), w, None) }
                6 => (bin(2, lit(self.rng.range(1, 99)), lit(0)), lit(0), 0, None),
                _ => {
                    // a recursive function that is not the last definition of its group
                    self.feat("dep-index-group-with-recursive-function");
                    let ns = self.fresh_names(4);
                    let (f, g2, n1, n2) = (ns[0].clone(), ns[1].clone(), ns[2].clone(), ns[3].clone());
                    let m = self.rng.range(0, 3);
                    let fact = [1, 1, 2, 6][m as usize];
                    let fty = || Some(arrow(E::TyInt, E::TyInt));
                    let fdef = lam(&n1, Some(E::TyInt), ite(bin(5, var(&n1), lit(0)), lit(1), bin(2, var(&n1), app(var(&f), bin(1, var(&n1), lit(1))))));
                    let gdef = lam(&n2, Some(E::TyInt), bin(0, var(&n2), lit(100)));
                    (paren(E::Let(vec![(f.clone(), fty(), fdef), (g2, fty(), gdef)], Box::new(app(var(&f), lit(m))))), lit(fact), fact, None)
                }
            }
        }
    }

    // A family (an expression of type `int -> type`) that gives the goal type at index w.
    fn fam_at(&mut self, goal: &T, w: i64) -> E {
        let avail: Vec<String> = self.scope.iter().filter(|b| b.usable && b.family.as_ref().map_or(false, |f| f.denote(w) == goal)).map(|b| b.name.clone()).collect();
        if !avail.is_empty() && self.rng.chance(1, 2) { return var(self.rng.pick::<String>(&avail[..])); }
        if self.rng.chance(1, 2) {
            let n = self.fresh_name();
            let a = self.ty_e(goal);
            return lam(&n, Some(E::TyInt), a);
        }
        let other = self.other_ground(goal);
        let op = [5u8, 6, 8][self.rng.below(3)];
        let f = Fam { shape: if self.rng.chance(1, 4) { 4 } else { 0 }, op, k: w, k2: w + 1, then_t: goal.clone(), else_t: other };
        self.feat("dep-family-boundary-index");
        self.fam_lambda("", &f)
    }

    // A family that gives type `ta` at index `va` and `tb` at index `vb` (va != vb).
    fn fam_at2(&mut self, ta: &T, va: i64, tb: &T, vb: i64) -> E {
        let f = if self.rng.chance(1, 2) {
            Fam { shape: 0, op: 6, k: vb, k2: vb + 1, then_t: tb.clone(), else_t: ta.clone() }
        } else if va < vb {
            Fam { shape: 0, op: if self.rng.chance(1, 2) { 8 } else { 7 }, k: vb, k2: vb + 1, then_t: tb.clone(), else_t: ta.clone() }
        } else {
            Fam { shape: 0, op: if self.rng.chance(1, 2) { 5 } else { 4 }, k: vb, k2: vb + 1, then_t: tb.clone(), else_t: ta.clone() }
        };
        // with > and < the boundary itself is on the other side
        let f = if f.denote(va) == ta && f.denote(vb) == tb { f } else { Fam { op: 6, ..f } };
        self.fam_lambda("", &f)
    }

    // What a value of the goal type is used for: a near miss whose coercion would let a value of
    // another type through is followed by a use that gets stuck on such a value.
    fn consume(&mut self, goal: &T, e: E) -> E {
        if self.rng.chance(1, 4) { return e; }
        match goal {
            T::Int => if self.rng.chance(1, 2) { bin(0, e, lit(0)) } else { bin(2, e, lit(1)) },
            T::Bool => ite(e, E::True, E::False),
            _ => e,
        }
    }

    // K3. Leibniz-style coercion between a predicate at two indices:
    //   ((p : int -> type) => (e : p E1) => ((c : p E2) => c) e) FAM v
    // closed indices (convertible by computation) or indices built from bound variables.
    fn g_leibniz(&mut self, goal: &T, budget: usize, near: bool, allow_let: bool) -> E {
        self.feat("dep-indexed-predicate");
        if near { self.reject = Some(("predicate-at-non-convertible-indices", "nm_".to_owned())); }
        let base = self.scope.len();
        let neutral = self.rng.chance(1, 3);
        let form = if allow_let && !neutral { self.rng.below(3) } else { 0 };
        // the name of the coercion, when it is a definition, encloses the arguments too
        let name = self.fresh_name();
        if form != 0 { self.scope.push(Bind::opaque(&name)); }
        let args_base = self.scope.len();
        // near miss: a value of ANOTHER type goes in, and would come out at the goal type
        let pay = if near { self.other_ground(goal) } else { goal.clone() };
        let v = self.expr(&pay, budget / 2);
        let pty = || arrow(E::TyInt, E::TyType);
        let p = self.fresh_name();
        self.scope.push(Bind::opaque(&p));
        let e = if near { "nm_".to_owned() } else { self.fresh_name() };
        self.scope.push(Bind::opaque(&e));
        let out = if neutral {
            // indices over bound variables
            self.feat("dep-index-over-bound-variables");
            let i = self.fresh_name();
            self.scope.push(Bind::opaque(&i));
            let j = self.fresh_name();
            self.scope.push(Bind::opaque(&j));
            let w = self.rng.range(0, 4);
            let op = if near { [0u8, 2][self.rng.below(2)] } else { self.rng.below(3) as u8 };
            let respell = !near && op == 0 && self.rng.chance(1, 2);
            let w2 = w + 1; // the second variable's value (near miss only)
            let (i1, i2, val, val2) = if respell {
                (bin(0, var(&i), paren(bin(0, lit(1), lit(1)))), bin(0, var(&i), lit(2)), w + 2, w + 2)
            } else {
                let f = |x: i64| match op { 0 => x + x, 1 => 0, _ => x * x };
                (bin(op, var(&i), var(&i)), if near { bin(op, var(&j), var(&j)) } else { bin(op, var(&i), var(&i)) }, f(w), f(w2))
            };
            let with_g = self.rng.chance(1, 2);
            let c = self.fresh_name();
            let coerce = if with_g { app(var(&c), var(&e)) } else { app(lam(&c, Some(app(var(&p), i2.clone())), var(&c)), var(&e)) };
            let mut f = if with_g { lam(&c, Some(arrow(app(var(&p), i2.clone()), app(var(&p), i2))), coerce) } else { coerce };
            f = lam(&e, Some(app(var(&p), i1)), f);
            if near { f = lam(&j, Some(E::TyInt), f); }
            f = lam(&i, Some(E::TyInt), f);
            f = lam(&p, Some(pty()), f);
            self.scope.truncate(args_base);
            let fam = if near { self.fam_at2(&pay, val, goal, val2) } else { self.fam_at(goal, val) };
            let mut r = app(app(f, fam), lit(w));
            if near { r = app(r, lit(w2)); }
            r = app(r, v);
            if with_g {
                let gt = T::fun(goal.clone(), goal.clone());
                let g = self.gen_lambda(&gt, budget / 3);
                r = app(r, g);
            }
            r
        } else {
            let (e1, e2, val, val2) = self.conv_pair(near);
            let c = self.fresh_name();
            self.scope.truncate(args_base);
            let fam = if near && val != val2 { self.fam_at2(&pay, val, goal, val2) } else { self.fam_at(goal, val) };
            if form == 0 {
                let f = lam(&p, Some(pty()), lam(&e, Some(app(var(&p), e1)), app(lam(&c, Some(app(var(&p), e2)), var(&c)), var(&e))));
                app(app(f, fam), v)
            } else {
                // coerce : ((p : int -> type) -> p E1 -> p E2) = (p : int -> type) => (e : p E1) => e; coerce FAM v
                self.feat("dep-annotated-coercion-definition");
                let ty = E::Pi { var: Some(p.clone()), implicit: false, dom: Box::new(pty()), cod: Box::new(arrow(app(var(&p), e1.clone()), app(var(&p), e2))) };
                // p is bound inside the annotation only; the lambda (a sibling) uses the same names
                let body = if form == 2 && self.cfg.allow_holes { self.feat("hole"); lam(&p, None, lam(&e, None, var(&e))) } else { lam(&p, Some(pty()), lam(&e, Some(app(var(&p), e1)), var(&e))) };
                mk_let(vec![(name.clone(), Some(ty), body)], app(app(var(&name), fam), v))
            }
        };
        self.scope.truncate(base);
        if near { self.consume(goal, out) } else { out }
    }

    // K4. Two type-level functions of a boolean, compared at a bound variable:
    //   ((b : bool) => (x : T1 b) => ((y : T2 b) => y) x) true v
    // T1 = c => if c then A else B, T2 the same with the other branch written differently
    // (near miss: a different type there).
    fn g_neutral_if(&mut self, goal: &T, budget: usize, near: bool, allow_let: bool) -> E {
        self.feat("dep-type-level-if-on-bound-variable");
        let other = self.other_ground(goal);
        if near { self.reject = Some(("type-level-if-on-bound-variable-with-different-branch", "nm_".to_owned())); }
        let base = self.scope.len();
        // the names of the two functions, when they are definitions, enclose the payload too
        let named = allow_let && self.rng.chance(1, 2);
        let (n1, n2) = (self.fresh_tyvar(), self.fresh_tyvar());
        if named { self.scope.push(Bind::opaque(&n1)); self.scope.push(Bind::opaque(&n2)); }
        // two kinds of near miss: the branches that the argument does NOT select differ (harmless
        // at run time), or the selected ones do: then a value of another type goes in and would
        // come out at the goal type
        let live_differs = near && self.rng.chance(2, 3);
        let pay = if live_differs { other.clone() } else { goal.clone() };
        let v = self.expr(&pay, budget / 2);
        let arg_base = self.scope.len();
        // the selected branch is the then-branch and the argument is true (else: else-branch, false)
        let sel = if live_differs { self.rng.chance(1, 3) } else { self.rng.chance(1, 2) };
        let b = self.fresh_name();
        self.scope.push(Bind::opaque(&b));
        let x = if near { "nm_".to_owned() } else { self.fresh_name() };
        self.scope.push(Bind::opaque(&x));
        let y = self.fresh_name();
        self.scope.push(Bind::opaque(&y));
        let mk = |g: &mut Self, live: E, dead: E| -> E {
            let c = g.fresh_name();
            lam(&c, Some(E::TyBool), if sel { ite(var(&c), live, dead) } else { ite(var(&c), dead, live) })
        };
        let save = self.obfuscate;
        self.obfuscate = false;
        // the unselected branch: the other type; when the selected ones differ, the goal type (a
        // checker that looked at the unselected branches only would let the value through AT the goal type)
        let dead = if live_differs { goal.clone() } else { other.clone() };
        let (a1, a2, o1) = (self.ty_e(&pay), self.ty_e(goal), ty_plain(&dead));
        self.obfuscate = save;
        let o2 = if live_differs {
            ty_plain(&dead)
        } else if near {
            if self.rng.chance(1, 2) { a1.clone() } else { arrow(ty_plain(&other), ty_plain(&other)) }
        } else {
            match self.rng.below(3) {
                0 => { let c = self.closed_bool(true); ite(c, ty_plain(&other), a1.clone()) }
                1 => { let q = self.fresh_tyvar(); app(lam(&q, Some(E::TyType), var(&q)), ty_plain(&other)) }
                _ => ty_plain(&other),
            }
        };
        let (t1, t2) = (mk(self, a1, o1), mk(self, a2, o2));
        let (r1, r2) = if named { (var(&n1), var(&n2)) } else { (t1.clone(), t2.clone()) };
        let f = lam(&b, Some(E::TyBool), lam(&x, Some(app(r1, var(&b))), app(lam(&y, Some(app(r2, var(&b))), var(&y)), var(&x))));
        self.scope.truncate(arg_base);
        let arg = self.closed_bool(sel);
        let core = app(app(f, arg), v);
        let out = if named {
            let fty = || arrow(E::TyBool, E::TyType);
            let (an1, an2) = (self.ann_or_hole(fty()), self.ann_or_hole(fty()));
            mk_let(vec![(n1, an1, t1), (n2, an2, t2)], core)
        } else {
            core
        };
        self.scope.truncate(base);
        if live_differs { self.consume(goal, out) } else { out }
    }

    // K5. Propositional equality by a predicate, and a function whose body is a group of
    // definitions over its parameters, with a type that mentions one of them:
    //   eq = (a : type) => (x : a) => (y : a) => (p : a -> type) -> p x -> p y
    //   refl : ((a : type) -> (x : a) -> eq a x x) = (a : type) => (x : a) => (p : a -> type) => (h : p x) => h
    //   f : ((a : type) -> (x : a) -> eq a x x) = (a : type) => (x : a) => (y = x; u = 1; refl a y)
    //   f int 3 ((z : int) => A) v
    fn g_eq_refl(&mut self, goal: &T, budget: usize) -> E {
        self.feat("dep-equality-by-predicate");
        let base = self.scope.len();
        let pick = |g: &mut Self, want: &str| if !g.in_scope(want) { want.to_owned() } else { g.fresh_name() };
        let eq = pick(self, "eq");
        self.scope.push(Bind::opaque(&eq));
        let refl = pick(self, "refl");
        self.scope.push(Bind::opaque(&refl));
        let f = self.fresh_name();
        self.scope.push(Bind::opaque(&f));
        let defs_base = self.scope.len();
        let v = self.expr(goal, budget / 2);
        let ty = |v: &str| var(v);
        let pi = |v: &str, d: E, c: E| E::Pi { var: Some(v.to_owned()), implicit: false, dom: Box::new(d), cod: Box::new(c) };
        // eq
        // the binders of the three definitions are siblings: the same names serve in each
        let a = self.fresh_tyvar();
        let ns = self.fresh_names(4);
        let (x, y, p, h) = (ns[0].clone(), ns[1].clone(), ns[2].clone(), ns[3].clone());
        let eq_def = lam(&a, Some(E::TyType), lam(&x, Some(ty(&a)), lam(&y, Some(ty(&a)), pi(&p, arrow(ty(&a), E::TyType), arrow(app(var(&p), var(&x)), app(var(&p), var(&y)))))));
        let eq_ann = pi(&a, E::TyType, arrow(var(&a), arrow(var(&a), E::TyType)));
        let eq_ann = self.ann_or_hole(eq_ann);
        // refl and f have the same type
        let refl_ty = |a: &str, x: &str| pi(a, E::TyType, pi(x, var(a), app(app(app(var(&eq), var(a)), var(x)), var(x))));
        let (a2, x2, p2) = (a.clone(), x.clone(), p.clone());
        let refl_def = lam(&a2, Some(E::TyType), lam(&x2, Some(ty(&a2)), lam(&p2, Some(arrow(ty(&a2), E::TyType)), lam(&h, Some(app(var(&p2), var(&x2))), var(&h)))));
        // f: a group over the parameters
        let (a3, x3) = (a.clone(), x.clone());
        self.scope.push(Bind::opaque(&a3));
        self.scope.push(Bind::opaque(&x3));
        let n = 2 + self.rng.below(3);
        let k = self.rng.below(n);
        if k > 0 && k + 1 < n { self.feat("dep-group-type-mentions-middle-definition"); }
        if k + 1 == n { self.feat("dep-group-type-mentions-last-definition"); }
        self.feat("dep-alias-group-under-binder");
        let mut defs = vec![];
        let mut yname = String::new();
        for i in 0..n {
            let kind = if i == k { 0 } else { 1 + self.rng.below(3) };
            let nm = if kind == 2 || kind == 3 { self.fresh_tyvar() } else { self.fresh_name() };
            self.scope.push(Bind::opaque(&nm));
            let (ann, rhs) = match kind {
                0 => { yname = nm.clone(); (ty(&a3), var(&x3)) }
                1 => (E::TyInt, lit(self.rng.range(0, 9))),
                2 => { self.feat("dep-alias-of-type-parameter"); (E::TyType, ty(&a3)) }
                _ => (E::TyType, ty_plain(&self.gen_type(1))),
            };
            let ann = self.ann_or_hole(ann);
            defs.push((nm, ann, rhs));
        }
        let f_def = lam(&a3, Some(E::TyType), lam(&x3, Some(ty(&a3)), E::Let(defs, Box::new(app(app(var(&refl), var(&a3)), var(&yname))))));
        self.scope.truncate(defs_base);
        // use: f I w ((z : I) => A) v
        let (ity, w) = if self.rng.chance(2, 3) { (E::TyInt, lit(self.rng.range(0, 9))) } else { (E::TyBool, if self.rng.chance(1, 2) { E::True } else { E::False }) };
        let z = self.fresh_name();
        let a_e = self.ty_e(goal);
        let zann = if self.cfg.allow_holes && self.rng.chance(1, 3) { self.feat("hole"); None } else { Some(ity.clone()) };
        let used = app(app(app(app(var(&f), ity), w), lam(&z, zann, a_e)), v);
        let (t1, t2) = (refl_ty(&a, &x), refl_ty(&a, &x));
        self.scope.truncate(base);
        mk_let(vec![(eq, eq_ann, eq_def), (refl, Some(t1), refl_def), (f, Some(t2), f_def)], used)
    }

    // K6. A parameter without annotation whose type is settled late, below a local function that
    // closes over it under a binder of its own:
    //   ((a : type) => (x : _) => (g = (b : type) => x; y : a = x; g bool)) A v
    // Near miss: the result is required to have the type that `g` is applied to.
    fn g_hole_late(&mut self, goal: &T, budget: usize, near: bool) -> E {
        self.feat("dep-hole-settled-below-local-function");
        self.feat("hole");
        let other = self.other_ground(goal);
        if near { self.reject = Some(("result-of-a-function-closing-over-a-late-hole", "nm_".to_owned())); }
        let v = self.expr(if near { &other } else { goal }, budget / 2);
        let base = self.scope.len();
        let a = self.fresh_tyvar();
        self.scope.push(Bind::opaque(&a));
        let x = self.fresh_name();
        self.scope.push(Bind::opaque(&x));
        let g = self.fresh_name();
        self.scope.push(Bind::opaque(&g));
        let y = self.fresh_name();
        self.scope.push(Bind::opaque(&y));
        let b = self.fresh_tyvar();
        let applied_to = if near { goal.clone() } else { self.gen_type(1) };
        let body = E::Let(
            vec![(g.clone(), None, lam(&b, Some(E::TyType), var(&x))), (y, Some(var(&a)), var(&x))],
            Box::new(app(var(&g), ty_plain(&applied_to))),
        );
        let xann = if self.rng.chance(1, 2) { Some(E::Hole) } else { None };
        let f = lam(&a, Some(E::TyType), E::Lam { var: x, implicit: false, ann: xann.map(Box::new), body: Box::new(body) });
        self.scope.truncate(base);
        let a_e = ty_plain(if near { &other } else { goal });
        let core = app(app(f, a_e), v);
        if near {
            let used = self.consume(goal, var("nm_"));
            app(lam("nm_", Some(ty_plain(goal)), used), core)
        } else {
            core
        }
    }

    // K8. Inside a polymorphic function: a local alias of the type parameter, a definition
    // annotated with the alias, and a body that may mix values of both spellings:
    //   (a : type) => (x : a) => (b : type = a; y : b = x; if c then x else y)
    fn g_tyvar_alias(&mut self, goal: &T, a: &str, budget: usize) -> Option<E> {
        let ta = T::TVar(a.to_owned());
        let base = self.scope.len();
        let b = self.fresh_tyvar();
        let y = self.fresh_name();
        let univ = if self.rng.chance(1, 4) { Some(self.fresh_tyvar()) } else { None };
        self.scope.push(Bind::opaque(&y));
        let rhs = self.inhabit(&ta, 2);
        self.scope.truncate(base);
        let rhs = rhs?;
        self.feat("dep-alias-of-type-parameter");
        self.feat("dep-definition-annotated-with-alias-of-parameter");
        let mut defs = vec![];
        if let Some(u) = &univ {
            self.feat("dep-universe-alias");
            let ua = self.ann_or_hole(E::TyType);
            defs.push((u.clone(), ua, E::TyType));
            self.scope.push(Bind { alias: Some(T::Type), ..Bind::plain(u, T::Type) });
        }
        let bann = self.ann_or_hole(match &univ { Some(u) => var(u), None => E::TyType });
        defs.push((b.clone(), bann, var(a)));
        defs.push((y.clone(), Some(var(&b)), rhs));
        self.scope.push(Bind { alias: Some(ta.clone()), ..Bind::plain(&b, T::Type) });
        self.scope.push(Bind::plain(&y, ta.clone()));
        self.let_depth += 1;
        self.no_let = true;
        let body = if *goal == ta && self.rng.chance(1, 2) {
            let vs = self.vars_of(&ta);
            let other = var(self.rng.pick::<String>(&vs[..]));
            let c = self.expr(&T::Bool, 3);
            if self.rng.chance(1, 2) { ite(c, other, var(&y)) } else { ite(c, var(&y), other) }
        } else {
            self.expr(goal, budget / 2)
        };
        self.no_let = false;
        self.let_depth -= 1;
        self.scope.truncate(base);
        Some(mk_let(defs, body))
    }
}

// Programs whose reference evaluation visits more nodes than this are generated again.
pub const MAX_REFERENCE_COST: usize = 6_000;

pub fn default_cfg() -> GenCfg {
    GenCfg { size: 40, allow_holes: false, allow_forward_refs: false, allow_nested_groups: true, allow_div: true, big_literals: true, dependent: 0 }
}

// One program, reproducible from the state of `rng`.
pub fn gen_program(rng: &mut Rng, cfg: &GenCfg) -> Prog {
    let mut last = None;
    for _attempt in 0..30 {
        let mut sub = rng.fork();
        let mut g = Gen {
            rng: &mut sub,
            cfg: cfg.clone(),
            scope: vec![],
            feats: BTreeSet::new(),
            in_guarded: 0,
            let_depth: 0,
            no_let: false,
            used_tyvars: BTreeSet::new(),
            obfuscate: true,
            dep: false,
            in_ann: 0,
            want_reject: false,
            reject: None,
            dep_made: 0,
        };
        g.obfuscate = g.rng.chance(2, 3);
        if cfg.dependent > 0 {
            g.dep = g.rng.below(100) < cfg.dependent as usize;
            g.want_reject = g.dep && g.rng.chance(1, 5);
        }
        let goal = match g.rng.below(20) {
            0..=10 => T::Int,
            11..=16 => T::Bool,
            17 => T::Type,
            18 => g.func_type(),
            _ => if g.rng.chance(1, 2) { g.poly_type() } else { g.func_type() },
        };
        // dependent mode: ground programs mostly (the constructions are made at ground types and
        // at the type parameters of polymorphic functions)
        let goal = if g.dep && !goal.is_ground_base() && g.rng.chance(2, 3) { g.ground_base() } else { goal };
        let size = cfg.size.max(2);
        let e = if g.dep && goal.is_ground_base() && (size < 6 || g.rng.chance(1, 5)) {
            g.dep_gadget(&goal, size.max(6), true).unwrap()
        } else if g.rng.chance(5, 6) && size >= 6 {
            g.gen_group(&goal, size)
        } else {
            g.expr(&goal, size)
        };
        let (expected, cost) = reference_eval_cost(&e, 400_000);
        let ty_src = render_plain(&ty_plain(&goal));
        let mut features: Vec<&'static str> = g.feats.iter().copied().collect();
        if has_hole(&e) && !features.contains(&"hole") { features.push("hole"); }
        // the near miss counts only if it made it into the program
        let mut names = BTreeSet::new();
        all_names(&e, &mut names);
        let expect_reject = g.reject.as_ref().filter(|(_, marker)| names.contains(marker)).map(|(k, _)| *k);
        if expect_reject.is_none() { features.retain(|f| *f != "dep-near-miss"); }
        if g.dep && features.iter().any(|f| f.starts_with("dep-")) { features.push("dependent-mode"); }
        let p = Prog { fully_annotated: !has_hole(&e), e, ty_src, expected, features, expect_reject };
        // the generator is meant to produce terminating, non-stuck programs: retry otherwise
        // and to stay cheap: evaluation is meant to take a few thousand steps at most
        if cost <= MAX_REFERENCE_COST && (p.expect_reject.is_some() && !matches!(p.expected, Expected::Diverges) || !matches!(p.expected, Expected::Diverges | Expected::Unknown)) { return p; }
        last = Some(p);
    }
    last.unwrap()
}

// ---------------------------------------------------------------------------------------------
// 6. Meaning-preserving rewrites
// ---------------------------------------------------------------------------------------------

fn fresh_for(p: &E, taken: &[String], rng: &mut Rng) -> String {
    let mut names = BTreeSet::new();
    all_names(p, &mut names);
    for _ in 0..60 {
        let n = *rng.pick(&NAME_POOL);
        if !names.contains(n) && !taken.iter().any(|t| t == n) { return n.to_owned(); }
    }
    let mut i = 0;
    loop {
        let n = format!("w{i}");
        if !names.contains(&n) && !taken.contains(&n) { return n; }
        i += 1;
    }
}

fn replace_at(p: &E, path: &[usize], new: E) -> E {
    let mut q = p.clone();
    *at_mut(&mut q, path) = new;
    q
}

// Paths of right-hand sides of definitions (through parentheses): whether such a node is a
// syntactic value decides if the definition is available to the whole group, so rewrites that
// change the shape of a node leave these alone.
fn protected_paths(p: &E, all: &[Site]) -> BTreeSet<Path> {
    let mut out = BTreeSet::new();
    for s in all {
        if s.role == Role::DefRhs {
            let mut path = s.path.clone();
            out.insert(path.clone());
            while let E::Paren(_) = at(p, &path) {
                path.push(0);
                out.insert(path.clone());
            }
        }
    }
    out
}

// The ground type of a node when it is evident from its form or from its position:
// Some(true) = int, Some(false) = bool.
fn evident_ground_type(node: &E, role: Role) -> Option<bool> {
    match strip(node) {
        E::Lit(_) | E::Neg(_) | E::Bin(0..=3, ..) => return Some(true),
        E::True | E::False | E::Bin(4..=8, ..) => return Some(false),
        _ => {}
    }
    match role {
        Role::BinL(_) | Role::BinR(_) | Role::NegArg => Some(true),
        Role::IfCond => Some(false),
        _ => None,
    }
}

fn closed_true(rng: &mut Rng) -> E {
    match rng.below(4) {
        0 => E::True,
        1 => bin(4, lit(rng.range(0, 4)), lit(rng.range(5, 9))),
        2 => { let k = rng.range(0, 9); bin(6, lit(k), lit(k)) }
        _ => bin(8, lit(rng.range(5, 9)), lit(rng.range(0, 5))),
    }
}

// Each kind of rewrite applied once, at a random applicable site (kinds without a site are
// left out).
pub fn rewrites(p: &E, rng: &mut Rng) -> Vec<(&'static str, E)> { rewrites_opt(p, rng, false) }

// `keep_types`: leave type-level positions (annotations, function types) and open subexpressions
// (which may become an index by a dependent application) alone. Needed for programs with a
// RECURSIVE type family: `B n` and `B (u = 1; n)` for a bound variable n are convertible, but
// gram's conversion check unfolds B on both sides for ever (see NOTES.md, finding F1).
pub fn rewrites_opt(p: &E, rng: &mut Rng, keep_types: bool) -> Vec<(&'static str, E)> {
    let all = sites(p);
    let prot = protected_paths(p, &all);
    let mut out: Vec<(&'static str, E)> = vec![];

    // rename: one binder and all its uses, to a name that occurs nowhere in the program
    {
        let mut binders: Vec<(Path, usize)> = vec![]; // (node, definition index for groups)
        for s in &all {
            match at(p, &s.path) {
                E::Lam { var, .. } if var != "_" => binders.push((s.path.clone(), 0)),
                E::Pi { var: Some(v), .. } if v != "_" => binders.push((s.path.clone(), 0)),
                E::Let(defs, _) => for i in 0..defs.len() { binders.push((s.path.clone(), i)); },
                _ => {}
            }
        }
        if !binders.is_empty() {
            let (path, i) = binders[rng.below(binders.len())].clone();
            let new = fresh_for(p, &[], rng);
            let mut q = p.clone();
            match at_mut(&mut q, &path) {
                E::Lam { var, body, .. } => {
                    let old = std::mem::replace(var, new.clone());
                    rename_uses(body, &old, &new);
                }
                E::Pi { var: Some(v), cod, .. } => {
                    let old = std::mem::replace(v, new.clone());
                    rename_uses(cod, &old, &new);
                }
                node @ E::Let(..) => {
                    let old = if let E::Let(defs, _) = node { std::mem::replace(&mut defs[i].0, new.clone()) } else { unreachable!() };
                    rename_uses(node, &old, &new);
                }
                _ => unreachable!(),
            }
            out.push(("rename", q));
        }
    }

    // parens: redundant parentheses around any node
    {
        let s = &all[rng.below(all.len())];
        let node = at(p, &s.path).clone();
        out.push(("parens", replace_at(p, &s.path, paren(node))));
    }

    // unused-def: a new definition that nothing refers to
    {
        let cands: Vec<&Site> = all.iter().filter(|s| s.role != Role::LetBody && !prot.contains(&s.path) && !(keep_types && (s.in_type || !is_closed(at(p, &s.path))))).collect();
        if !cands.is_empty() {
            let s = cands[rng.below(cands.len())];
            let u = fresh_for(p, &[], rng);
            let z = fresh_for(p, &[u.clone()], rng);
            let (ann, rhs) = match rng.below(6) {
                0 => (E::TyInt, lit(rng.range(0, 99))),
                1 => (E::TyInt, bin(rng.below(3) as u8, lit(rng.range(0, 9)), lit(rng.range(0, 9)))),
                2 => (E::TyBool, bin(4 + rng.below(5) as u8, lit(rng.range(0, 9)), lit(rng.range(0, 9)))),
                3 => (arrow(E::TyInt, E::TyInt), lam(&z, Some(E::TyInt), bin(0, var(&z), lit(1)))),
                4 => (
                    E::Pi { var: Some(z.clone()), implicit: true, dom: Box::new(E::TyInt), cod: Box::new(E::TyInt) },
                    E::Lam { var: z.clone(), implicit: true, ann: Some(Box::new(E::TyInt)), body: Box::new(var(&z)) },
                ),
                _ => (E::TyType, arrow(E::TyInt, E::TyBool)),
            };
            let def = (u, Some(ann), rhs);
            let mut q = p.clone();
            let node = at_mut(&mut q, &s.path);
            if let E::Let(defs, _) = node {
                let k = rng.below(defs.len() + 1);
                defs.insert(k, def);
            } else {
                let inner = std::mem::replace(node, E::True);
                *node = E::Let(vec![def], Box::new(inner));
            }
            out.push(("unused-def", q));
        }
    }

    // name-subexpr: hoist a closed, total subexpression of ground type into a new definition at
    // the top of the program
    {
        let cands: Vec<&Site> = all
            .iter()
            .filter(|s| !s.in_type && !prot.contains(&s.path) && s.role != Role::Root)
            .filter(|s| {
                let n = at(p, &s.path);
                !matches!(strip(n), E::Var(_) | E::Hole) && size(n) <= 40 && is_closed(n)
            })
            .collect();
        // try a few candidates until one evaluates to a ground value
        for _ in 0..4 {
            if cands.is_empty() { break; }
            let s = cands[rng.below(cands.len())];
            let node = at(p, &s.path).clone();
            let ann = match reference_eval(&node, 50_000) {
                Expected::Int(_) => E::TyInt,
                Expected::Bool(_) => E::TyBool,
                _ => continue,
            };
            let v = fresh_for(p, &[], rng);
            let q = replace_at(p, &s.path, var(&v));
            out.push(("name-subexpr", mk_let(vec![(v, Some(ann), node)], q)));
            break;
        }
    }

    // identity-wrap: ((z : T) => z) e for a subexpression of evident ground type
    {
        let cands: Vec<(&Site, bool)> = all
            .iter()
            .filter(|s| !s.in_type && !prot.contains(&s.path) && !(keep_types && !is_closed(at(p, &s.path))))
            .filter_map(|s| evident_ground_type(at(p, &s.path), s.role).map(|t| (s, t)))
            .collect();
        if !cands.is_empty() {
            let (s, is_int) = cands[rng.below(cands.len())];
            let z = fresh_for(p, &[], rng);
            let t = if is_int { E::TyInt } else { E::TyBool };
            let node = at(p, &s.path).clone();
            out.push(("identity-wrap", replace_at(p, &s.path, app(lam(&z, Some(t), var(&z)), node))));
        }
    }

    // if-true: if <true> then e else e'
    {
        let cands: Vec<&Site> = all.iter().filter(|s| !prot.contains(&s.path) && s.role != Role::LetBody || s.role == Role::LetBody && !matches!(at(p, &s.path), E::Let(..))).filter(|s| !prot.contains(&s.path) && !(keep_types && (s.in_type || !is_closed(at(p, &s.path))))).collect();
        if !cands.is_empty() {
            let s = cands[rng.below(cands.len())];
            let node = at(p, &s.path).clone();
            let other = match if s.in_type { None } else { evident_ground_type(&node, s.role) } {
                Some(true) if rng.chance(1, 2) => lit(rng.range(0, 99)),
                Some(false) if rng.chance(1, 2) => if rng.chance(1, 2) { E::True } else { E::False },
                _ => node.clone(),
            };
            let new = if rng.chance(2, 3) {
                ite(closed_true(rng), node, other)
            } else {
                ite(bin(7, lit(rng.range(0, 4)), lit(rng.range(5, 9))), other, node)
            };
            out.push(("if-true", replace_at(p, &s.path, new)));
        }
    }

    // reorder-fns: swap two adjacent function definitions that do not mention each other
    {
        let mut cands: Vec<(Path, usize)> = vec![];
        for s in &all {
            if let E::Let(defs, _) = at(p, &s.path) {
                for i in 0..defs.len().saturating_sub(1) {
                    let (a, b) = (&defs[i], &defs[i + 1]);
                    let lam_a = matches!(strip(&a.2), E::Lam { .. });
                    let lam_b = matches!(strip(&b.2), E::Lam { .. });
                    let indep = !mentions(&a.2, &b.0) && !mentions(&b.2, &a.0)
                        && !a.1.as_ref().map_or(false, |t| mentions(t, &b.0))
                        && !b.1.as_ref().map_or(false, |t| mentions(t, &a.0));
                    if lam_a && lam_b && indep { cands.push((s.path.clone(), i)); }
                }
            }
        }
        if !cands.is_empty() {
            let (path, i) = cands[rng.below(cands.len())].clone();
            let mut q = p.clone();
            if let E::Let(defs, _) = at_mut(&mut q, &path) { defs.swap(i, i + 1); }
            out.push(("reorder-fns", q));
        }
    }
    out
}

// Rewrites aimed at definition groups, wherever they are nested: up to `max` of
//   unused-def-in-group   a new unused definition at ANY position of ANY group of the program
//   unused-call-in-group  `u = f 0 ..`, an unused call of a function of the group, at its end
//   name-subexpr-in-group a subexpression in strict position of a non-value definition (or of the
//                         body) gets a name: a new definition of the same group just before
// The last two are kept only when the reference evaluator gives the rewritten program the
// value of the original (a call may diverge, divide by zero, or come too early).
pub fn rewrites_groups(p: &E, rng: &mut Rng, max: usize, keep_types: bool) -> Vec<(&'static str, E)> {
    let all = sites(p);
    let groups: Vec<&Site> = all.iter().filter(|s| matches!(at(p, &s.path), E::Let(..)) && !(keep_types && s.in_type)).collect();
    let mut out: Vec<(&'static str, E)> = vec![];
    if groups.is_empty() { return out; }
    let expected = std::cell::OnceCell::new();
    let same_value = |q: &E| { let want = expected.get_or_init(|| reference_eval(p, 400_000)); reference_eval(q, 400_000) == *want };
    let ground = |a: &E| matches!(strip(a), E::TyInt | E::TyBool);
    for _ in 0..max * 3 {
        if out.len() >= max { break; }
        let s = groups[rng.below(groups.len())];
        let E::Let(defs, _) = at(p, &s.path) else { continue };
        match rng.below(4) {
            0 | 1 => {
                let u = fresh_for(p, &[], rng);
                let z = fresh_for(p, &[u.clone()], rng);
                let (ann, rhs) = match rng.below(5) {
                    0 => (E::TyInt, lit(rng.range(0, 99))),
                    1 => (E::TyInt, bin(rng.below(3) as u8, lit(rng.range(0, 9)), lit(rng.range(0, 9)))),
                    2 => (E::TyBool, bin(4 + rng.below(5) as u8, lit(rng.range(0, 9)), lit(rng.range(0, 9)))),
                    3 => (arrow(E::TyInt, E::TyInt), lam(&z, Some(E::TyInt), bin(0, var(&z), lit(1)))),
                    _ => (E::TyType, arrow(E::TyInt, E::TyBool)),
                };
                let k = rng.below(defs.len() + 1);
                let mut q = p.clone();
                if let E::Let(ds, _) = at_mut(&mut q, &s.path) { ds.insert(k, (u, Some(ann), rhs)); }
                out.push(("unused-def-in-group", q));
            }
            2 => {
                // a function of the group whose annotation gives ground parameter and result types
                let fs: Vec<(&String, Vec<bool>, bool)> = defs.iter().filter_map(|(n, a, d)| {
                    if n == "_" { return None; }
                    let (Some(a), E::Lam { .. }) = (a.as_ref(), strip(d)) else { return None };
                    let mut ps = vec![];
                    let mut cur = strip(a);
                    while let E::Pi { var: None, dom, cod, .. } = cur {
                        if !ground(dom) { return None; }
                        ps.push(matches!(strip(dom), E::TyInt));
                        cur = strip(cod);
                    }
                    if ps.is_empty() || !ground(cur) { return None; }
                    Some((n, ps, matches!(cur, E::TyInt)))
                }).collect();
                if fs.is_empty() { continue; }
                let (f, ps, res_int) = fs[rng.below(fs.len())].clone();
                let mut call = var(f);
                for is_int in ps { call = app(call, if is_int { lit(rng.range(0, 4)) } else if rng.chance(1, 2) { E::True } else { E::False }); }
                let u = fresh_for(p, &[], rng);
                let ann = if rng.chance(2, 3) { Some(if res_int { E::TyInt } else { E::TyBool }) } else { None };
                let mut q = p.clone();
                if let E::Let(ds, _) = at_mut(&mut q, &s.path) { ds.push((u, ann, call)); }
                if same_value(&q) { out.push(("unused-call-in-group", q)); }
            }
            _ => {
                // strict positions below this group
                fn strict(e: &E, path: &mut Path, out: &mut Vec<Path>) {
                    if matches!(e, E::App(..) | E::Bin(..) | E::Neg(_) | E::If(..)) && !path.is_empty() { out.push(path.clone()); }
                    let rs = roles(e);
                    for (i, k) in kids(e).into_iter().enumerate() {
                        if matches!(rs[i], Role::AppFun | Role::AppArg | Role::BinL(_) | Role::BinR(_) | Role::NegArg | Role::IfCond | Role::ParenIn) {
                            path.push(i);
                            strict(k, path, out);
                            path.pop();
                        }
                    }
                }
                // (definition index or None for the body, path of the node relative to the group)
                let mut cands: Vec<(Option<usize>, Path)> = vec![];
                let rs = roles(at(p, &s.path));
                let mut di = 0;
                for (i, k) in kids(at(p, &s.path)).into_iter().enumerate() {
                    let which = match rs[i] {
                        Role::DefRhs => { di += 1; if is_syntactic_value(k) { continue; } Some(di - 1) }
                        Role::LetBody => { if matches!(strip(k), E::Let(..)) { continue; } None }
                        _ => continue,
                    };
                    let mut found = vec![];
                    strict(k, &mut vec![i], &mut found);
                    // the whole right-hand side / body is not a candidate: only proper parts
                    for f in found { if f.len() > 1 { cands.push((which, f)); } }
                }
                if cands.is_empty() { continue; }
                let (which, rel) = cands[rng.below(cands.len())].clone();
                let mut full = s.path.clone();
                full.extend(rel);
                let node = at(p, &full).clone();
                if size(&node) > 40 || (keep_types && !is_closed(&node)) { continue; }
                // only at an evident ground type: gram cannot always infer the type of an
                // unannotated definition (when it mentions later members of the group)
                let Some(role) = all.iter().find(|x| x.path == full).map(|x| x.role) else { continue };
                let Some(is_int) = evident_ground_type(&node, role) else { continue };
                let ann = if rng.chance(1, 2) { Some(if is_int { E::TyInt } else { E::TyBool }) } else { None };
                let w = fresh_for(p, &[], rng);
                let mut q = replace_at(p, &full, var(&w));
                if let E::Let(ds, _) = at_mut(&mut q, &s.path) {
                    let k = which.unwrap_or(ds.len());
                    ds.insert(k, (w, ann, node));
                }
                if same_value(&q) { out.push(("name-subexpr-in-group", q)); }
            }
        }
    }
    out
}

// ---------------------------------------------------------------------------------------------
// 7. Ill-typing / ill-scoping perturbations
// ---------------------------------------------------------------------------------------------

// ONE single-point perturbation that is meant to make the program ill-typed or ill-scoped.
pub fn perturb(p: &E, rng: &mut Rng) -> Option<(&'static str, E)> {
    let all = sites(p);
    let start = rng.below(6);
    for t in 0..6 {
        match (start + t) % 6 {
            // a subterm replaced by one of the other ground type
            0 => {
                let cands: Vec<(&Site, bool)> = all.iter().filter(|s| !s.in_type).filter_map(|s| evident_ground_type(at(p, &s.path), s.role).map(|t| (s, t))).collect();
                if cands.is_empty() { continue; }
                let (s, is_int) = cands[rng.below(cands.len())];
                let new = if is_int { if rng.chance(1, 2) { E::True } else { E::False } } else { lit(rng.range(0, 9)) };
                return Some(("wrong-type-subterm", replace_at(p, &s.path, new)));
            }
            // applicand and argument swapped
            1 => {
                let cands: Vec<&Site> = all.iter().filter(|s| !s.in_type && matches!(at(p, &s.path), E::App(..))).collect();
                if cands.is_empty() { continue; }
                let s = cands[rng.below(cands.len())];
                if let E::App(f, a) = at(p, &s.path) {
                    return Some(("swap-app", replace_at(p, &s.path, E::App(a.clone(), f.clone()))));
                }
            }
            // arithmetic operator <-> comparison
            2 => {
                let cands: Vec<&Site> = all.iter().filter(|s| !s.in_type && matches!(at(p, &s.path), E::Bin(..))).collect();
                if cands.is_empty() { continue; }
                let s = cands[rng.below(cands.len())];
                if let E::Bin(op, a, b) = at(p, &s.path) {
                    let op2 = if *op < 4 { 4 + rng.below(5) as u8 } else { rng.below(3) as u8 };
                    return Some(("op-class", replace_at(p, &s.path, E::Bin(op2, a.clone(), b.clone()))));
                }
            }
            // an annotation altered
            3 => {
                let cands: Vec<&Site> = all.iter().filter(|s| matches!(s.role, Role::LamAnn | Role::DefAnn) && !matches!(strip(at(p, &s.path)), E::Hole)).collect();
                if cands.is_empty() { continue; }
                let s = cands[rng.below(cands.len())];
                let old = at(p, &s.path);
                fn has_pi(e: &E) -> bool { matches!(e, E::Pi { .. }) || kids(e).iter().any(|k| has_pi(k)) }
                let new = if has_pi(old) || matches!(strip(old), E::TyType) {
                    if rng.chance(1, 2) { E::TyInt } else { E::TyBool }
                } else {
                    arrow(E::TyInt, E::TyBool)
                };
                return Some(("annotation", replace_at(p, &s.path, new)));
            }
            // a name made unbound
            4 => {
                let cands: Vec<&Site> = all.iter().filter(|s| matches!(at(p, &s.path), E::Var(_))).collect();
                if cands.is_empty() { continue; }
                let s = cands[rng.below(cands.len())];
                let n = fresh_for(p, &[], rng);
                return Some(("unbound", replace_at(p, &s.path, var(&n))));
            }
            // a binder renamed to a name already in scope
            _ => {
                let mut cands: Vec<(&Site, usize)> = vec![];
                for s in &all {
                    match at(p, &s.path) {
                        E::Lam { var, .. } if var != "_" && !s.scope.is_empty() => cands.push((s, 0)),
                        E::Let(defs, _) if !s.scope.is_empty() || defs.len() > 1 => for i in 0..defs.len() { cands.push((s, i)); },
                        _ => {}
                    }
                }
                if cands.is_empty() { continue; }
                let (s, i) = cands[rng.below(cands.len())];
                let mut q = p.clone();
                match at_mut(&mut q, &s.path) {
                    E::Lam { var, body, .. } => {
                        let new = rng.pick(&s.scope).clone();
                        let old = std::mem::replace(var, new.clone());
                        rename_uses(body, &old, &new);
                    }
                    node @ E::Let(..) => {
                        let mut pool = s.scope.clone();
                        if let E::Let(defs, _) = &*node {
                            for (j, d) in defs.iter().enumerate() { if j != i { pool.push(d.0.clone()); } }
                        }
                        let new = rng.pick(&pool).clone();
                        let old = if let E::Let(defs, _) = node { std::mem::replace(&mut defs[i].0, new.clone()) } else { unreachable!() };
                        // uses keep pointing at the old name's meaning where the new name was
                        // already bound; that is fine, the point is the duplicate binder
                        rename_uses(node, &old, &new);
                    }
                    _ => unreachable!(),
                }
                return Some(("shadow", q));
            }
        }
    }
    None
}

// ---------------------------------------------------------------------------------------------
// 8. Type faults at positions where the expected type is known (for the diagnostic-range oracle)
// ---------------------------------------------------------------------------------------------

// A well-typed program with ONE subexpression, at a position whose expected type (int or bool)
// is evident, replaced by a freshly generated closed expression of another type.
pub struct TypedPerturb {
    pub e: E,
    pub path: Path,             // where the new subexpression is
    pub position: &'static str, // argument | operand | negation-operand | condition | definition
    pub expected_int: bool,     // the type the position requires
    pub expected_type: bool,    // the position requires a TYPE (domain, codomain, annotation): `expected_int` is then meaningless
    pub got: &'static str,      // int | bool | function | type
    pub form: &'static str,     // syntactic form of the new subexpression
    // the new subexpression was made as a chain (product, sum) whose FIRST operand is a
    // parenthesised chain: `(1 + 2) - 3` (gram reports such ranges from inside the parenthesis)
    pub paren_left_chain: bool,
}

// For every argument of an application whose function has a known ground parameter type there:
// path of the argument -> is the parameter an int (else a bool).
fn arg_expectations(p: &E) -> HashMap<Path, bool> {
    // the parameter types a name is known to take, from its annotation or its lambdas
    fn params_of_type(t: &E) -> Vec<Option<bool>> {
        let mut out = vec![];
        let mut cur = strip(t);
        while let E::Pi { dom, cod, .. } = cur {
            out.push(match strip(dom) { E::TyInt => Some(true), E::TyBool => Some(false), _ => None });
            cur = strip(cod);
        }
        out
    }
    fn params_of_lambda(e: &E) -> Vec<Option<bool>> {
        let mut out = vec![];
        let mut cur = strip(e);
        while let E::Lam { ann, body, .. } = cur {
            out.push(match ann.as_deref().map(strip) { Some(E::TyInt) => Some(true), Some(E::TyBool) => Some(false), _ => None });
            cur = strip(body);
        }
        out
    }
    fn go(e: &E, path: &mut Path, env: &mut Vec<(String, Vec<Option<bool>>)>, out: &mut HashMap<Path, bool>) {
        // an application spine, seen from its outermost node
        if let E::App(..) = e {
            let mut args: Vec<Path> = vec![];
            let mut cur = e;
            let mut cur_path = path.clone();
            while let E::App(f, _) = cur {
                let mut ap = cur_path.clone();
                ap.push(1);
                args.push(ap);
                cur_path.push(0);
                cur = f;
            }
            args.reverse();
            let params = match strip(cur) {
                E::Var(x) => env.iter().rev().find(|b| &b.0 == x).map(|b| b.1.clone()).unwrap_or_default(),
                l @ E::Lam { .. } => params_of_lambda(l),
                _ => vec![],
            };
            // a parenthesised head hides nothing here: `strip` only removes explicit parentheses
            for (k, ap) in args.iter().enumerate() {
                if let Some(Some(is_int)) = params.get(k) { out.insert(ap.clone(), *is_int); }
            }
        }
        let n0 = env.len();
        match e {
            E::Let(defs, _) => for (x, a, d) in defs {
                let ps = match a { Some(a) if !matches!(strip(a), E::Hole) => params_of_type(a), _ => params_of_lambda(d) };
                env.push((x.clone(), ps));
            },
            _ => {}
        }
        for (i, k) in kids(e).into_iter().enumerate() {
            let n1 = env.len();
            match e {
                E::Lam { var, ann, .. } if i == usize::from(ann.is_some()) => env.push((var.clone(), ann.as_deref().map(params_of_type).unwrap_or_default())),
                E::Pi { var: Some(v), dom, .. } if i == 1 => env.push((v.clone(), params_of_type(dom))),
                _ => {}
            }
            path.push(i);
            go(k, path, env, out);
            path.pop();
            env.truncate(n1);
        }
        env.truncate(n0);
    }
    let mut out = HashMap::new();
    go(p, &mut vec![], &mut vec![], &mut out);
    out
}

// A closed expression that is NOT of the expected type: (expression, its type, its form).
fn fresh_of_other_type(expected_int: bool, p: &E, rng: &mut Rng) -> (E, &'static str, &'static str, bool) {
    let names: Vec<String> = { let a = fresh_for(p, &[], rng); let b = fresh_for(p, &[a.clone()], rng); vec![a, b] };
    let (x, z) = (&names[0], &names[1]);
    let small = |rng: &mut Rng| lit(rng.range(0, 9));
    fn int_expr(rng: &mut Rng, x: &str, z: &str, depth: usize) -> (E, &'static str, bool) {
        let sub = |rng: &mut Rng| if depth == 0 { lit(rng.range(0, 9)) } else { int_expr(rng, x, z, depth - 1).0 };
        match rng.below(16) {
            0 => (lit(rng.range(0, 99)), "literal", false),
            14 | 15 => {
                // a chain of three or four operands of one class, no parentheses: `8 / 2 / 2`, `12 * 3 / 2`, `1 - 2 + 3 - 4`
                let mul = rng.chance(1, 2);
                let op = |rng: &mut Rng| if mul { 2 + rng.below(2) as u8 } else { rng.below(2) as u8 };
                let mut e = bin(op(rng), lit(rng.range(1, 99)), lit(rng.range(1, 9)));
                for _ in 0..(1 + rng.below(2)) { e = bin(op(rng), e, lit(rng.range(1, 9))); }
                (e, "chain-of-three-or-more", false)
            }
            1 | 2 | 3 => (E::Neg(Box::new(sub(rng))), "negation", false),
            4 => (E::Neg(Box::new(paren(bin(rng.below(3) as u8, lit(rng.range(0, 9)), lit(rng.range(0, 9)))))), "negation", false),
            5 => (bin(rng.below(2) as u8, sub(rng), sub(rng)), "sum", false),
            6 => (bin(2, sub(rng), lit(rng.range(1, 9))), "product", false),
            7 => (app(lam(z, Some(E::TyInt), bin(0, var(z), lit(1))), sub(rng)), "application", false),
            8 => (ite(if rng.chance(1, 2) { E::True } else { bin(4, lit(1), lit(2)) }, sub(rng), lit(rng.range(0, 9))), "conditional", false),
            9 => (paren(E::Let(vec![(x.to_owned(), Some(E::TyInt), lit(rng.range(0, 9)))], Box::new(bin(0, var(x), lit(1))))), "group", false),
            10 => (paren(lit(rng.range(0, 9))), "parenthesised-literal", false),
            11 => (paren(bin(rng.below(3) as u8, lit(rng.range(0, 9)), lit(rng.range(1, 9)))), "parenthesised-sum", false),
            12 => {
                // (a + b) - c, (a * b) * c: the first operand is a parenthesised chain of the same class
                let (o1, o2) = if rng.chance(1, 2) { (rng.below(2) as u8, rng.below(2) as u8) } else { (2, 2) };
                (bin(o2, paren(bin(o1, lit(rng.range(0, 9)), lit(rng.range(1, 9)))), lit(rng.range(1, 9))), "chain-with-parenthesised-first-operand", true)
            }
            _ => (bin(rng.below(2) as u8, lit(rng.range(0, 9)), paren(bin(rng.below(2) as u8, lit(rng.range(0, 9)), lit(rng.range(0, 9))))), "chain-with-parenthesised-last-operand", false),
        }
    }
    let r = rng.below(10);
    if r < 6 {
        if expected_int {
            // a boolean
            let (e, form) = match rng.below(8) {
                0 => (if rng.chance(1, 2) { E::True } else { E::False }, "literal"),
                1 | 2 => (bin(4 + rng.below(5) as u8, small(rng), small(rng)), "comparison"),
                3 => (ite(bin(5, lit(1), lit(2)), E::True, bin(6, small(rng), small(rng))), "conditional"),
                4 => (app(lam(z, Some(E::TyInt), bin(7, var(z), lit(0))), small(rng)), "application"),
                5 => (paren(E::Let(vec![(x.clone(), Some(E::TyInt), small(rng))], Box::new(bin(4, var(x), lit(5))))), "group"),
                6 => (paren(E::True), "parenthesised-literal"),
                _ => (paren(bin(4 + rng.below(5) as u8, small(rng), small(rng))), "parenthesised-comparison"),
            };
            (e, "bool", form, false)
        } else {
            let (e, form, plc) = int_expr(rng, x, z, 1);
            (e, "int", form, plc)
        }
    } else if r < 8 {
        let (e, form) = match rng.below(3) {
            0 => (lam(z, Some(E::TyInt), var(z)), "lambda"),
            1 => (paren(lam(z, Some(E::TyBool), var(z))), "parenthesised-lambda"),
            _ => (lam(z, Some(E::TyInt), lam(x, Some(E::TyInt), bin(0, var(z), var(x)))), "lambda"),
        };
        (e, "function", form, false)
    } else {
        let (e, form) = match rng.below(3) {
            0 => (E::TyInt, "type-constant"),
            1 => (arrow(E::TyInt, E::TyBool), "function-type"),
            _ => (paren(E::TyBool), "parenthesised-type-constant"),
        };
        (e, "type", form, false)
    }
}

pub fn perturb_typed(p: &E, rng: &mut Rng) -> Option<TypedPerturb> {
    let all = sites(p);
    let args = arg_expectations(p);
    // (site, position, expected is int)
    let mut cands: Vec<(&Site, &'static str, bool)> = vec![];
    for s in &all {
        if s.path.is_empty() { continue; }
        // positions that require a type, wherever they are (also inside annotations)
        match s.role {
            Role::PiDom => cands.push((s, "type:domain-of-function-type", true)),
            Role::PiCod => cands.push((s, "type:codomain-of-function-type", true)),
            Role::LamAnn => cands.push((s, "type:parameter-annotation", true)),
            Role::DefAnn => cands.push((s, "type:definition-annotation", true)),
            _ => {}
        }
        if s.in_type { continue; }
        match s.role {
            Role::BinL(_) | Role::BinR(_) => cands.push((s, "operand", true)),
            Role::NegArg => cands.push((s, "negation-operand", true)),
            Role::IfCond => cands.push((s, "condition", false)),
            Role::AppArg => if let Some(is_int) = args.get(&s.path) { cands.push((s, "argument", *is_int)); },
            Role::DefRhs => {
                // the annotation is the child just before
                let (parent, idx) = (at(p, &s.path[..s.path.len() - 1]), *s.path.last().unwrap());
                if idx > 0 && roles(parent)[idx - 1] == Role::DefAnn {
                    match strip(kids(parent)[idx - 1]) { E::TyInt => cands.push((s, "definition", true)), E::TyBool => cands.push((s, "definition", false)), _ => {} }
                }
            }
            _ => {}
        }
    }
    if cands.is_empty() { return None; }
    // the positions other than operands are rarer: pick the kind of position first
    let kinds: Vec<&'static str> = { let mut k: Vec<&'static str> = cands.iter().map(|c| c.1).collect(); k.sort(); k.dedup(); k };
    let kind = *rng.pick(&kinds);
    let of_kind: Vec<&(&Site, &'static str, bool)> = cands.iter().filter(|c| c.1 == kind).collect();
    let (s, position, expected_int) = **rng.pick(&of_kind);
    let expected_type = position.starts_with("type:");
    let (new, got, form, paren_left_chain) = if expected_type {
        // anything that is not a type: an integer, a boolean or a function
        let mut r = fresh_of_other_type(rng.chance(1, 2), p, rng);
        let mut tries = 0;
        while r.1 == "type" && tries < 20 { r = fresh_of_other_type(rng.chance(1, 2), p, rng); tries += 1; }
        if r.1 == "type" { return None; }
        r
    } else { fresh_of_other_type(expected_int, p, rng) };
    Some(TypedPerturb { e: replace_at(p, &s.path, new), path: s.path.clone(), position, expected_int, expected_type, got, form, paren_left_chain })
}

// Which of the two spans gram's convention points at for a node of this shape: a chain node
// (application, product/quotient, sum/difference) is reported from its first to its last operand,
// without the parentheses around it; anything else with all the parentheses directly around it.
pub fn reported_span_is_core(node: &E) -> bool { chain_class(strip(node)) != 0 }
