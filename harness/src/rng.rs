// splitmix64: every random choice of the harness derives from one state seeded by VERIF_SEED.
#[derive(Clone)]
pub struct Rng(pub u64);

impl Rng {
    pub fn new(seed: u64) -> Self {
        Rng(seed.wrapping_mul(0x9E37_79B9_7F4A_7C15) ^ 0xD1B5_4A32_D192_ED03)
    }
    pub fn next(&mut self) -> u64 {
        self.0 = self.0.wrapping_add(0x9E37_79B9_7F4A_7C15);
        let mut z = self.0;
        z = (z ^ (z >> 30)).wrapping_mul(0xBF58_476D_1CE4_E5B9);
        z = (z ^ (z >> 27)).wrapping_mul(0x94D0_49BB_1331_11EB);
        z ^ (z >> 31)
    }
    pub fn below(&mut self, n: usize) -> usize {
        if n == 0 { 0 } else { (self.next() % (n as u64)) as usize }
    }
    pub fn range(&mut self, lo: i64, hi: i64) -> i64 {
        lo + (self.next() % ((hi - lo + 1) as u64)) as i64
    }
    pub fn chance(&mut self, num: usize, den: usize) -> bool {
        self.below(den) < num
    }
    pub fn pick<'a, T>(&mut self, xs: &'a [T]) -> &'a T {
        &xs[self.below(xs.len())]
    }
    pub fn fork(&mut self) -> Rng {
        Rng(self.next())
    }
}
