// Store-layer serialisation: terms with cells printed by id, the store dumped by id, and the
// canonical output form (cells numbered by first occurrence, contents printed inline at first
// occurrence). The Lean side (`Driver/Main.lean: canonTm`) implements the same canonical form
// independently.
use crate::ser::{Cell, Ser};
use crate::term::{Term, Variant};
use std::collections::HashMap;
use std::rc::Rc;

pub struct StoreSer<'a> {
    pub ids: HashMap<usize, usize>,
    pub cells: Vec<Cell<'a>>,
}

impl<'a> StoreSer<'a> {
    pub fn new() -> Self { StoreSer { ids: HashMap::new(), cells: vec![] } }

    fn id(&mut self, cell: &Cell<'a>) -> usize {
        let addr = Rc::as_ptr(cell) as usize;
        if let Some(i) = self.ids.get(&addr) { return *i; }
        let i = self.cells.len();
        self.ids.insert(addr, i);
        self.cells.push(cell.clone());
        i
    }

    // term with `(h id shift)` for every cell, resolved or not
    pub fn term(&mut self, names: &mut Ser, t: &Term<'a>) -> String {
        let mut out = String::new();
        self.go(names, t, &mut out, false, &mut HashMap::new(), &mut 0);
        out
    }

    // `(S c0 c1 ...)`: contents of every cell discovered so far (discovering more on the way)
    pub fn store(&mut self, names: &mut Ser) -> String {
        let mut out = String::from("(S");
        let mut k = 0;
        while k < self.cells.len() {
            let content = { self.cells[k].borrow().clone() };
            out.push(' ');
            match content {
                None => out.push('U'),
                Some(sub) => { let s = self.term(names, &sub); out.push_str(&s); }
            }
            k += 1;
        }
        out.push(')');
        out
    }

    // canonical output form; `canon` state is shared across the terms of one answer
    pub fn canon(names: &mut Ser, t: &Term<'a>, map: &mut HashMap<usize, usize>, next: &mut usize) -> String {
        let mut me = StoreSer::new();
        let mut out = String::new();
        me.go(names, t, &mut out, true, map, next);
        out
    }

    fn go(&mut self, names: &mut Ser, t: &Term<'a>, out: &mut String, canon: bool, map: &mut HashMap<usize, usize>, next: &mut usize) {
        use Variant::*;
        macro_rules! rec { ($x:expr) => { self.go(names, $x, out, canon, map, next) }; }
        macro_rules! bin { ($op:expr, $a:expr, $b:expr) => {{ out.push_str("(O "); out.push_str($op); out.push(' '); rec!($a); out.push(' '); rec!($b); out.push(')'); }}; }
        match &t.variant {
            Unifier(cell, shift) => {
                if canon {
                    let addr = Rc::as_ptr(cell) as usize;
                    let content = { cell.borrow().clone() };
                    if let Some(k) = map.get(&addr) {
                        out.push_str(&format!("({} {} {})", if content.is_some() { "r" } else { "h" }, k, shift));
                    } else {
                        let k = *next;
                        *next += 1;
                        map.insert(addr, k);
                        match content {
                            Some(sub) => {
                                out.push_str(&format!("(r {k} {shift} "));
                                self.go(names, &sub, out, canon, map, next);
                                out.push(')');
                            }
                            None => out.push_str(&format!("(h {k} {shift})")),
                        }
                    }
                } else {
                    let id = self.id(cell);
                    out.push_str(&format!("(h {id} {shift})"));
                }
            }
            Type => out.push('T'),
            Integer => out.push('I'),
            Boolean => out.push('B'),
            True => out.push('t'),
            False => out.push('f'),
            IntegerLiteral(n) => out.push_str(&format!("(n {n})")),
            Variable(x, i) => { let x = names.name(x); out.push_str(&format!("(v {x} {i})")); }
            Lambda(x, imp, d, b) => {
                let x = names.name(x);
                out.push_str(&format!("(L {x} {} ", u8::from(*imp)));
                rec!(d); out.push(' '); rec!(b); out.push(')');
            }
            Pi(x, imp, d, b) => {
                let x = names.name(x);
                out.push_str(&format!("(P {x} {} ", u8::from(*imp)));
                rec!(d); out.push(' '); rec!(b); out.push(')');
            }
            Application(f, a) => { out.push_str("(A "); rec!(f); out.push(' '); rec!(a); out.push(')'); }
            Let(defs, body) => {
                out.push_str("(G ");
                for (x, ann, def) in defs {
                    let x = names.name(x);
                    out.push_str(&format!("(D {x} "));
                    rec!(ann); out.push(' '); rec!(def); out.push_str(") ");
                }
                rec!(body);
                out.push(')');
            }
            Negation(a) => { out.push_str("(N "); rec!(a); out.push(')'); }
            Sum(a, b) => bin!("+", a, b),
            Difference(a, b) => bin!("-", a, b),
            Product(a, b) => bin!("*", a, b),
            Quotient(a, b) => bin!("/", a, b),
            LessThan(a, b) => bin!("<", a, b),
            LessThanOrEqualTo(a, b) => bin!("<=", a, b),
            EqualTo(a, b) => bin!("==", a, b),
            GreaterThan(a, b) => bin!(">", a, b),
            GreaterThanOrEqualTo(a, b) => bin!(">=", a, b),
            If(c, a, b) => { out.push_str("(F "); rec!(c); out.push(' '); rec!(a); out.push(' '); rec!(b); out.push(')'); }
        }
    }
}

pub type TCtx<'a> = Vec<(Rc<Term<'a>>, usize)>;
pub type DCtx<'a> = Vec<Option<(Rc<Term<'a>>, usize)>>;

// contexts are printed innermost first (the Lean model keeps the innermost entry at the head)
pub fn tctx_str<'a>(ss: &mut StoreSer<'a>, names: &mut Ser, c: &TCtx<'a>) -> String {
    let mut out = String::from("(TC");
    for (t, off) in c.iter().rev() {
        out.push_str(&format!(" (E {} {})", ss.term(names, t), off));
    }
    out.push(')');
    out
}
pub fn dctx_str<'a>(ss: &mut StoreSer<'a>, names: &mut Ser, c: &DCtx<'a>) -> String {
    let mut out = String::from("(DC");
    for e in c.iter().rev() {
        match e {
            None => out.push_str(" N"),
            Some((t, off)) => out.push_str(&format!(" (E {} {})", ss.term(names, t), off)),
        }
    }
    out.push(')');
    out
}

// a fingerprint of the contexts (canonical, with store) to decide "left exactly as they were"
pub fn ctx_fingerprint<'a>(names: &mut Ser, t: &TCtx<'a>, d: &DCtx<'a>) -> String {
    let mut map = HashMap::new();
    let mut next = 0;
    let mut out = String::new();
    for (x, off) in t { out.push_str(&StoreSer::canon(names, x, &mut map, &mut next)); out.push_str(&format!("@{off};")); }
    out.push('|');
    for e in d {
        match e { None => out.push_str("N;"), Some((x, off)) => { out.push_str(&StoreSer::canon(names, x, &mut map, &mut next)); out.push_str(&format!("@{off};")); } }
    }
    out
}
