// C08's specification, executable: an independent named-scope resolver on the generator's tree,
// and the corresponding canonical rendering (with de Bruijn indices) of gram's parse output.
use crate::prog::{self, E};
use crate::term::{Term, Variant};

#[derive(Debug, PartialEq)]
pub enum ScopeError { Unbound(String), Rebound(String) }

// stack: binders in scope, innermost last; `None` = an anonymous slot (`_` binder)
pub fn db_e(e: &E, stack: &mut Vec<Option<String>>) -> Result<String, ScopeError> {
    let op = |a: &Option<Box<E>>, st: &mut Vec<Option<String>>| -> Result<String, ScopeError> {
        match a { Some(a) => db_e(a, st), None => Ok("?0".to_owned()) }
    };
    Ok(match e {
        E::Lit(n) => n.to_string(),
        E::True => "true".into(), E::False => "false".into(),
        E::TyInt => "int".into(), E::TyBool => "bool".into(), E::TyType => "type".into(),
        E::Hole => "?0".into(),
        E::Var(x) => {
            if x == "_" { "?0".into() } else {
                match stack.iter().rposition(|b| b.as_deref() == Some(x.as_str())) {
                    Some(p) => format!("#{}", stack.len() - 1 - p),
                    None => return Err(ScopeError::Unbound(x.clone())),
                }
            }
        }
        E::Lam { var, implicit, ann, body } => {
            let a = op(ann, stack)?;
            let b = bind(var, stack, |st| db_e(body, st))?;
            format!("(lam{} {a} {b})", if *implicit { "!" } else { "" })
        }
        E::Pi { var, implicit, dom, cod } => {
            let d = db_e(dom, stack)?;
            let name = var.clone().unwrap_or_else(|| "_".to_owned());
            let c = bind(&name, stack, |st| db_e(cod, st))?;
            format!("(pi{} {d} {c})", if *implicit { "!" } else { "" })
        }
        E::App(a, b) => format!("(app {} {})", db_e(a, stack)?, db_e(b, stack)?),
        E::Let(..) => {
            // nested lets (through parentheses too) form one group
            let mut defs: Vec<&(String, Option<E>, E)> = vec![];
            let mut cur = e;
            while let E::Let(ds, body) = prog::strip(cur) { for d in ds { defs.push(d); } cur = body; }
            let n = defs.len();
            let base = stack.len();
            let mut err = None;
            for (x, _, _) in &defs {
                if x == "_" { stack.push(None); } else {
                    if stack.iter().any(|b| b.as_deref() == Some(x.as_str())) && err.is_none() { err = Some(ScopeError::Rebound(x.clone())); }
                    stack.push(Some(x.clone()));
                }
            }
            let mut parts = vec![];
            let mut res = Ok(());
            if let Some(e) = err { res = Err(e); }
            if res.is_ok() {
                for (i, (_, a, d)) in defs.iter().enumerate() {
                    let a = match a { Some(a) => db_e(a, stack), None => Ok(format!("?{}", n - i)) };
                    let d = db_e(d, stack);
                    match (a, d) { (Ok(a), Ok(d)) => parts.push(format!("[{a} {d}]")), (Err(e), _) | (_, Err(e)) => { res = Err(e); break; } }
                }
            }
            let body = if res.is_ok() { db_e(cur, stack) } else { Ok(String::new()) };
            stack.truncate(base);
            res?;
            format!("(let {} {})", parts.join(" "), body?)
        }
        E::Neg(a) => format!("(neg {})", db_e(a, stack)?),
        E::Bin(op, a, b) => format!("({} {} {})", prog::OPS[*op as usize % 9], db_e(a, stack)?, db_e(b, stack)?),
        E::If(c, a, b) => format!("(if {} {} {})", db_e(c, stack)?, db_e(a, stack)?, db_e(b, stack)?),
        E::Paren(x) => db_e(x, stack)?,
    })
}

fn bind(var: &str, stack: &mut Vec<Option<String>>, f: impl FnOnce(&mut Vec<Option<String>>) -> Result<String, ScopeError>) -> Result<String, ScopeError> {
    if var == "_" { stack.push(None); } else {
        if stack.iter().any(|b| b.as_deref() == Some(var)) { return Err(ScopeError::Rebound(var.to_owned())); }
        stack.push(Some(var.to_owned()));
    }
    let r = f(stack);
    stack.pop();
    r
}

// gram's parse output in the same canonical form (indices and hole shifts, no names)
// the same with hole shifts erased (an omitted annotation and an explicit `_` are the same hole to a reader)
pub fn db_term_noshift(t: &Term) -> String {
    let s = db_term(t);
    let mut out = String::new();
    let mut chars = s.chars().peekable();
    while let Some(c) = chars.next() {
        out.push(c);
        if c == '?' { while chars.peek().map_or(false, |d| d.is_ascii_digit()) { chars.next(); } }
    }
    out
}

pub fn db_term(t: &Term) -> String {
    use Variant::*;
    let b2 = |n: &str, a: &Term, b: &Term| format!("({n} {} {})", db_term(a), db_term(b));
    match &t.variant {
        Unifier(r, s) => match r.borrow().clone() { Some(x) => format!("(solved {})", db_term(&x)), None => format!("?{s}") },
        Type => "type".into(),
        Variable(_, i) => format!("#{i}"),
        Lambda(_, i, d, b) => format!("(lam{} {} {})", if *i { "!" } else { "" }, db_term(d), db_term(b)),
        Pi(_, i, d, b) => format!("(pi{} {} {})", if *i { "!" } else { "" }, db_term(d), db_term(b)),
        Application(a, b) => b2("app", a, b),
        Let(defs, body) => {
            let ds: Vec<String> = defs.iter().map(|(_, a, d)| format!("[{} {}]", db_term(a), db_term(d))).collect();
            format!("(let {} {})", ds.join(" "), db_term(body))
        }
        Integer => "int".into(),
        IntegerLiteral(n) => n.to_string(),
        Negation(a) => format!("(neg {})", db_term(a)),
        Sum(a, b) => b2("+", a, b), Difference(a, b) => b2("-", a, b), Product(a, b) => b2("*", a, b), Quotient(a, b) => b2("/", a, b),
        LessThan(a, b) => b2("<", a, b), LessThanOrEqualTo(a, b) => b2("<=", a, b), EqualTo(a, b) => b2("==", a, b),
        GreaterThan(a, b) => b2(">", a, b), GreaterThanOrEqualTo(a, b) => b2(">=", a, b),
        Boolean => "bool".into(), True => "true".into(), False => "false".into(),
        If(c, a, b) => format!("(if {} {} {})", db_term(c), db_term(a), db_term(b)),
    }
}
