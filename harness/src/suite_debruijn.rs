// Suite `debruijn` (C11): correspondence ops `sshift`/`open`/`fv` and the algebraic laws of C11
// evaluated on the implementation.
use crate::de_bruijn::{open, signed_shift, unsigned_shift};
use crate::gen_term::{enumerate, TermGen};
use crate::mk;
use crate::named;
use crate::out::{guarded, Out};
use crate::rng::Rng;
use crate::ser::{HoleMode, Ser};
use crate::term::{free_variables, Term};
use std::collections::{BTreeSet, HashSet};

pub fn fv(t: &Term, c: usize) -> BTreeSet<usize> {
    let mut s = HashSet::new();
    free_variables(t, c, &mut s);
    s.into_iter().collect()
}

pub fn set_str(s: &BTreeSet<usize>) -> String {
    format!("[{}]", s.iter().map(|x| x.to_string()).collect::<Vec<_>>().join(" "))
}

fn is_hole_free(t: &Term) -> bool {
    let mut ser = Ser::new();
    !ser.term(t, HoleMode::ZonkErase).contains("(h ")
}

pub fn check_term<'a>(out: &mut Out, ser: &mut Ser, t: &Term<'a>, u: &Term<'a>, c: usize, amt: isize, i: usize, s: usize) {
    let m = HoleMode::ZonkErase;
    ser.reset_holes();
    let ts = ser.term(t, HoleMode::ZonkIds);
    let us = ser.term(u, HoleMode::ZonkIds);

    // --- correspondence ops -------------------------------------------------------------------
    let r = guarded(|| signed_shift(t, c, amt));
    let rs = match &r {
        Ok(Some(x)) => ser.term(x, m),
        Ok(None) => "none".to_owned(),
        Err(_) => "panic".to_owned(),
    };
    out.case(&format!("sshift {c} {amt} {ts}"), &rs);
    out.stat(if matches!(r, Ok(Some(_))) { "sshift:some" } else { "sshift:none" });

    let o = guarded(|| open(t, i, u, s));
    let os = match &o {
        Ok(x) => ser.term(x, m),
        Err(_) => "panic".to_owned(),
    };
    out.case(&format!("open {i} {s} {ts} {us}"), &os);

    let f = guarded(|| fv(t, c));
    let fs = match &f { Ok(x) => set_str(x), Err(_) => "panic".to_owned() };
    out.case(&format!("fv {c} {ts}"), &fs);

    // --- the laws of C11, on the implementation (hole-free terms only) -------------------------
    if !is_hole_free(t) || !is_hole_free(u) {
        out.stat("laws:skipped-holes");
        return;
    }
    out.stat("laws:checked");
    let input = format!("t={ts} u={us} c={c} amt={amt} i={i} s={s}");
    let law = guarded(|| -> Vec<String> {
        let mut bad = vec![];
        let mut e = Ser::new();
        let p = |e: &mut Ser, x: &Term| e.term(x, HoleMode::ZonkErase);
        let tt = p(&mut e, t);
        // shift by zero is the identity
        match signed_shift(t, c, 0) {
            Some(x) => if p(&mut e, &x) != tt { bad.push("shift-zero-not-identity".into()); },
            None => bad.push("shift-zero-failed".into()),
        }
        let a = amt.unsigned_abs();
        let b = s;
        // shifts compose additively
        let up = unsigned_shift(t, c, a);
        if p(&mut e, &unsigned_shift(&up, c, b)) != p(&mut e, &unsigned_shift(t, c, a + b)) {
            bad.push("shift-not-additive".into());
        }
        // a downward shift undoes an upward one
        match signed_shift(&up, c, -(a as isize)) {
            Some(x) => if p(&mut e, &x) != tt { bad.push("down-does-not-undo-up".into()); },
            None => bad.push("down-after-up-failed".into()),
        }
        // a downward shift fails exactly when a variable would become unbound
        let free = fv(t, c);
        let would_unbind = free.iter().any(|j| *j < a);
        let down = signed_shift(t, c, -(a as isize));
        if down.is_none() != would_unbind {
            bad.push(format!("down-shift-failure-mismatch(expected_fail={would_unbind})"));
        }
        // free variables of a shifted term
        let fv0 = fv(t, 0);
        let expect: BTreeSet<usize> = fv0.iter().map(|j| if *j >= c { j + a } else { *j }).collect();
        if fv(&up, 0) != expect {
            bad.push("fv-of-shift-mismatch".into());
        }
        // opening
        let opened = open(t, i, u, s);
        let fu = fv(u, 0);
        let mut expect: BTreeSet<usize> = BTreeSet::new();
        for j in &fv0 {
            if *j < i { expect.insert(*j); } else if *j > i { expect.insert(j - 1); }
        }
        if fv0.contains(&i) {
            for k in &fu { expect.insert(k + s); }
        }
        if fv(&opened, 0) != expect {
            bad.push("fv-of-open-mismatch".into());
        }
        // opening a term in which the variable does not occur merely lowers the indices above it
        if !fv0.contains(&i) {
            match signed_shift(t, i, -1) {
                Some(x) => if p(&mut e, &x) != p(&mut e, &opened) { bad.push("open-nonoccurring-not-lowering".into()); },
                None => bad.push("lowering-failed-though-variable-absent".into()),
            }
        }
        // open after shift cancels
        let lifted = unsigned_shift(t, i, 1);
        if p(&mut e, &open(&lifted, i, u, s)) != tt {
            bad.push("open-of-lifted-not-identity".into());
        }
        // agreement with capture-avoiding substitution on named terms
        let n = fv0.iter().max().map_or(0, |m| m + 1).max(i + 1);
        let nu = fu.iter().max().map_or(0, |m| m + 1 + s);
        let width = n.max(nu + 1) + 1;
        // result context r_0 .. r_{width-1} (index k <-> r_k); innermost last in the vector
        let rctx: Vec<String> = (0..width).rev().map(|k| format!("r{k}")).collect();
        // t's context: index j<i -> r_j, i -> subst, j>i -> r_{j-1}
        let mut tctx: Vec<String> = vec![];
        for j in (0..=width).rev() {
            tctx.push(if j < i { format!("r{j}") } else if j == i { "$subst".to_owned() } else { format!("r{}", j - 1) });
        }
        // u's context: index k -> r_{k+s}
        let mut uctx: Vec<String> = vec![];
        for k in (0..width).rev() { uctx.push(format!("r{}", k + s)); }
        let mut fresh = named::Fresh(0);
        if let (Some(nt), Some(nu)) = (named::to_named(t, &mut tctx, &mut fresh), named::to_named(u, &mut uctx, &mut fresh)) {
            let substituted = named::subst(&nt, "$subst", &nu);
            let mut rc = rctx.clone();
            // extend so that every r_{k+s} is resolvable
            let mut ext: Vec<String> = (width..width + s + 1).rev().map(|k| format!("r{k}")).collect();
            ext.append(&mut rc);
            let mut rc = ext;
            match named::from_named(&substituted, &mut rc) {
                Some(back) => {
                    let mut en = Ser::new();
                    en.erase_names = true;
                    if en.term(&back, HoleMode::ZonkErase) != en.term(&opened, HoleMode::ZonkErase) {
                        bad.push("open-disagrees-with-named-substitution".into());
                    }
                }
                None => bad.push("named-roundtrip-failed".into()),
            }
        }
        bad
    });
    match law {
        Ok(bad) => for b in bad { out.hit("C11", &b, &input, ""); },
        Err(msg) => out.hit("C11", "panic", &input, &msg),
    }
}

pub fn run(out: &mut Out, tier: &str, seed: u64) {
    let mut ser = Ser::new();
    let mut rng = Rng::new(seed ^ 0xC11);
    // exhaustive part
    let max_size = if tier == "thorough" { 5 } else { 4 };
    let by = enumerate(max_size);
    let inserts: Vec<Term> = vec![mk::var("y", 0), mk::lit(5), mk::var("a", 2), mk::lam("x", false, mk::ty(), mk::app(mk::var("x", 0), mk::var("b", 1)))];
    let mut n_terms = 0u64;
    for size in 1..=max_size {
        for t in &by[size] {
            n_terms += 1;
            // parameters: full grid for small terms, a rotating selection for the largest size
            let full = size < max_size || by[size].len() < 4000;
            if full {
                for c in 0..3usize {
                    for amt in -2..=2isize {
                        let i = (c + (amt + 2) as usize) % 4;
                        let s = (amt + 2) as usize % 3;
                        let u = &inserts[(c + amt.unsigned_abs()) % inserts.len()];
                        check_term(out, &mut ser, t, u, c, amt, i, s);
                    }
                }
            } else {
                let k = rng.below(15);
                let c = k / 5;
                let amt = (k % 5) as isize - 2;
                let i = rng.below(4);
                let s = rng.below(3);
                let u = &inserts[rng.below(inserts.len())];
                check_term(out, &mut ser, t, u, c, amt, i, s);
            }
        }
    }
    out.stat_add("exhaustive-terms", n_terms);
    // random part: larger terms, groups up to 4 definitions, holes allowed in half of them
    let n_random = if tier == "thorough" { 60000 } else { 6000 };
    for k in 0..n_random {
        let g = TermGen { holes: k % 2 == 1, max_var: 3, big_lits: true, closed: false };
        let budget = 2 + rng.below(if k % 10 == 0 { 80 } else { 25 });
        let t = g.make(&mut rng, budget, 0);
        let bu = 1 + rng.below(8); let u = g.make(&mut rng, bu, 0);
        let c = rng.below(5);
        let amt = rng.range(-4, 4) as isize;
        let i = rng.below(6);
        let s = rng.below(4);
        check_term(out, &mut ser, &t, &u, c, amt, i, s);
    }
    out.stat_add("random-terms", n_random as u64);
}
