// Suite `eval` (C02): correspondence ops `step`/`isvalue`/`trace` on raw terms, and an
// independent big-step reference for closed arithmetic/conditional terms.
use crate::evaluator::{evaluate, is_value, step};
use crate::gen_term::TermGen;
use crate::mk;
use crate::out::{guarded, Out};
use crate::rng::Rng;
use crate::ser::{HoleMode, Ser};
use crate::term::{Term, Variant};
use num_bigint::{BigInt, Sign};

pub const FUEL: usize = 400;

// What the reference semantics prescribes for closed arithmetic / comparison / conditional terms.
#[derive(Clone, Debug, PartialEq)]
pub enum V { Int(BigInt), Bool(bool), Stuck }

fn tdiv(a: &BigInt, b: &BigInt) -> Option<BigInt> {
    if b.sign() == Sign::NoSign { return None; }
    let q = a.magnitude() / b.magnitude();
    let neg = (a.sign() == Sign::Minus) != (b.sign() == Sign::Minus);
    let q = BigInt::from(q);
    Some(if neg { -q } else { q })
}

pub fn reference(t: &Term) -> Option<V> {
    use Variant::*;
    let int2 = |a: &Term, b: &Term| -> Option<Option<(BigInt, BigInt)>> {
        // left to right; a stuck left operand means the right one is never evaluated
        match reference(a)? {
            V::Int(x) => match reference(b)? {
                V::Int(y) => Some(Some((x, y))),
                _ => Some(None),
            },
            _ => Some(None),
        }
    };
    Some(match &t.variant {
        IntegerLiteral(n) => V::Int(n.clone()),
        True => V::Bool(true),
        False => V::Bool(false),
        Negation(a) => match reference(a)? { V::Int(x) => V::Int(-x), _ => V::Stuck },
        Sum(a, b) => int2(a, b)?.map_or(V::Stuck, |(x, y)| V::Int(x + y)),
        Difference(a, b) => int2(a, b)?.map_or(V::Stuck, |(x, y)| V::Int(x - y)),
        Product(a, b) => int2(a, b)?.map_or(V::Stuck, |(x, y)| V::Int(x * y)),
        Quotient(a, b) => int2(a, b)?.map_or(V::Stuck, |(x, y)| tdiv(&x, &y).map_or(V::Stuck, V::Int)),
        LessThan(a, b) => int2(a, b)?.map_or(V::Stuck, |(x, y)| V::Bool(x < y)),
        LessThanOrEqualTo(a, b) => int2(a, b)?.map_or(V::Stuck, |(x, y)| V::Bool(x <= y)),
        EqualTo(a, b) => int2(a, b)?.map_or(V::Stuck, |(x, y)| V::Bool(x == y)),
        GreaterThan(a, b) => int2(a, b)?.map_or(V::Stuck, |(x, y)| V::Bool(x > y)),
        GreaterThanOrEqualTo(a, b) => int2(a, b)?.map_or(V::Stuck, |(x, y)| V::Bool(x >= y)),
        If(c, a, b) => match reference(c)? {
            V::Bool(true) => reference(a)?,
            V::Bool(false) => reference(b)?,
            _ => V::Stuck,
        },
        _ => return None,
    })
}

pub fn trace_impl<'a>(ser: &mut Ser, t: &Term<'a>, fuel: usize, mode: HoleMode) -> String {
    // every intermediate term of at most `fuel` steps
    let r = guarded(|| {
        let mut out = vec![];
        let mut cur = t.clone();
        let mut n = 0;
        loop {
            out.push(cur.clone());
            if n == fuel { break; }
            match step(&cur) {
                Some(next) => { cur = next; n += 1; }
                None => break,
            }
        }
        out
    });
    match r {
        Ok(ts) => ts.iter().map(|x| ser.term(x, mode)).collect::<Vec<_>>().join(" ; "),
        Err(_) => "panic".to_owned(),
    }
}

pub fn check_term<'a>(out: &mut Out, ser: &mut Ser, t: &Term<'a>, fuel: usize) {
    ser.reset_holes();
    let ts = ser.term(t, HoleMode::ZonkIds);
    let s = guarded(|| step(t));
    let ss = match &s {
        Ok(Some(x)) => ser.term(x, HoleMode::ZonkErase),
        Ok(None) => "none".to_owned(),
        Err(_) => "panic".to_owned(),
    };
    out.case(&format!("step {ts}"), &ss);
    out.case(&format!("isvalue {ts}"), if is_value(t) { "1" } else { "0" });
    let tr = trace_impl(ser, t, fuel, HoleMode::ZonkErase);
    out.stat_add("trace-steps", tr.matches(" ; ").count() as u64);
    out.case(&format!("trace {fuel} {ts}"), &tr);

    if let Some(expected) = reference(t) {
        out.stat("reference:checked");
        let got = guarded(|| evaluate(t));
        let ok = match (&expected, &got) {
            (V::Int(n), Ok(Ok(v))) => matches!(&v.variant, Variant::IntegerLiteral(m) if m == n),
            (V::Bool(b), Ok(Ok(v))) => matches!((&v.variant, b), (Variant::True, true) | (Variant::False, false)),
            (V::Stuck, Ok(Err(_))) => true,
            _ => false,
        };
        if !ok {
            let shown = match &got { Ok(Ok(v)) => v.to_string(), Ok(Err(_)) => "stuck".into(), Err(m) => format!("panic: {m}") };
            out.hit("C02", "value-differs-from-reference-semantics", &ts, &format!("expected {expected:?}, implementation gave {shown}"));
        }
    }
}

fn arith_leaves<'a>() -> Vec<Term<'a>> {
    let mut v = vec![];
    for n in [-7i64, -2, -1, 0, 1, 2, 7] { v.push(mk::lit(n)); }
    let two64: BigInt = BigInt::from(1u8) << 64;
    let ten40: BigInt = "10000000000000000000000000000000000000000".parse().unwrap();
    v.push(mk::big(two64.clone()));
    v.push(mk::big(-two64));
    v.push(mk::big(ten40.clone()));
    v.push(mk::big(-ten40));
    // machine-word boundaries (an implementation that takes a native fast path must fall back exactly here)
    let two63: BigInt = BigInt::from(1u8) << 63;
    let two31: BigInt = BigInt::from(1u8) << 31;
    v.push(mk::big(two63.clone()));
    v.push(mk::big(-two63.clone()));
    v.push(mk::big(two63.clone() - 1));
    v.push(mk::big(-two63 - 1));
    v.push(mk::big(two31.clone()));
    v.push(mk::big(-two31));
    v.push(mk::tt());
    v.push(mk::ff());
    v
}

pub fn recursion_samples<'a>() -> Vec<Term<'a>> {
    // factorial n, through a recursive group
    let fact = |n: i64| mk::letg(
        vec![("factorial", mk::pi("_", false, mk::int(), mk::int()),
            mk::lam("x", false, mk::int(),
                mk::ite(mk::bin(6, mk::var("x", 0), mk::lit(0)), mk::lit(1),
                    mk::bin(2, mk::var("x", 0), mk::app(mk::var("factorial", 1), mk::bin(1, mk::var("x", 0), mk::lit(1)))))))],
        mk::app(mk::var("factorial", 0), mk::lit(n)));
    // mutual recursion: even / odd
    let evenodd = |n: i64| mk::letg(
        vec![
            ("even", mk::pi("_", false, mk::int(), mk::boolean()),
                mk::lam("n", false, mk::int(), mk::ite(mk::bin(6, mk::var("n", 0), mk::lit(0)), mk::tt(),
                    mk::app(mk::var("odd", 1), mk::bin(1, mk::var("n", 0), mk::lit(1)))))),
            ("odd", mk::pi("_", false, mk::int(), mk::boolean()),
                mk::lam("n", false, mk::int(), mk::ite(mk::bin(6, mk::var("n", 0), mk::lit(0)), mk::ff(),
                    mk::app(mk::var("even", 2), mk::bin(1, mk::var("n", 0), mk::lit(1)))))),
        ],
        mk::app(mk::var("even", 1), mk::lit(n)));
    // definitions evaluated in order, a later non-value definition using an earlier one
    let ordered = mk::letg(
        vec![
            ("a", mk::int(), mk::bin(0, mk::lit(1), mk::lit(2))),
            ("b", mk::int(), mk::bin(2, mk::var("a", 1), mk::lit(5))),
            ("c", mk::int(), mk::bin(1, mk::var("b", 1), mk::var("a", 2))),
        ],
        mk::bin(0, mk::var("c", 0), mk::var("a", 2)));
    // higher-order
    let twice = mk::app(mk::app(
        mk::lam("f", false, mk::pi("_", false, mk::int(), mk::int()), mk::lam("x", false, mk::int(), mk::app(mk::var("f", 1), mk::app(mk::var("f", 1), mk::var("x", 0))))),
        mk::lam("y", false, mk::int(), mk::bin(2, mk::var("y", 0), mk::lit(3)))), mk::lit(7));
    vec![fact(0), fact(1), fact(5), fact(12), evenodd(0), evenodd(5), evenodd(8), ordered, twice]
}

pub fn run(out: &mut Out, tier: &str, seed: u64) {
    let mut ser = Ser::new();
    let mut rng = Rng::new(seed ^ 0xC02);
    // all closed arithmetic / comparison / conditional terms up to a size bound
    let leaves = arith_leaves();
    let mut level1: Vec<Term> = leaves.clone();
    for t in &leaves { level1.push(mk::neg(t.clone())); }
    for t in &level1 { check_term(out, &mut ser, t, FUEL); }
    let mut level2: Vec<Term> = vec![];
    for a in &leaves { for b in &leaves { for op in 0..9 { level2.push(mk::bin(op, a.clone(), b.clone())); } } }
    for t in &level2 { check_term(out, &mut ser, t, FUEL); }
    out.stat_add("exhaustive-arith-depth2", (level1.len() + level2.len()) as u64);
    // depth 3: a sample in quick, far more in thorough
    let n3 = if tier == "thorough" { 200000 } else { 12000 };
    for _ in 0..n3 {
        let pick = |rng: &mut Rng, l2: &Vec<Term<'static>>, l1: &Vec<Term<'static>>| -> Term<'static> {
            if rng.chance(2, 3) { l2[rng.below(l2.len())].clone() } else { l1[rng.below(l1.len())].clone() }
        };
        let t = match rng.below(4) {
            0 => mk::ite(pick(&mut rng, &level2, &level1), pick(&mut rng, &level2, &level1), pick(&mut rng, &level2, &level1)),
            1 => mk::neg(pick(&mut rng, &level2, &level1)),
            _ => mk::bin(rng.below(9), pick(&mut rng, &level2, &level1), pick(&mut rng, &level2, &level1)),
        };
        check_term(out, &mut ser, &t, FUEL);
    }
    for t in recursion_samples() { check_term(out, &mut ser, &t, 3000); }
    // random raw terms (mostly ill-typed: every arm of `step`, including the stuck ones)
    let n_random = if tier == "thorough" { 100000 } else { 8000 };
    for k in 0..n_random {
        let g = TermGen { holes: k % 4 == 3, max_var: 1, big_lits: true, closed: false };
        let t = { let b = 2 + rng.below(30); g.make(&mut rng, b, 0) };
        check_term(out, &mut ser, &t, 200);
    }
    out.stat_add("random-terms", n_random as u64);
}
