// Mode `replayops`: `harness replayops <opsfile> <outfile>`.
// Reads op lines of the line protocol (the `.ops` file of any suite), deserialises every line back
// into the implementation's data structures (terms, unifier cells with the sharing the `(S ...)`
// store describes, contexts, token vectors, source texts), runs the operation on the real
// implementation the way the generating suite did, and writes the implementation's answer in the
// format of the suite's `.impl` file, one line per op. Unknown or malformed lines answer `bad-op`.
//
// Names: op lines carry interned numeric ids, not the strings. Id 0 is `_` (every suite whose
// implementation code looks at names pre-registers `_` as id 0; the suites that do not, `debruijn`
// and `eval`, only run name-blind code); any other id `k` becomes the identifier `x<k>`. Answers map
// the strings back to the ids. `print` lines carry their own name table (code points).
use crate::de_bruijn::{open, signed_shift};
use crate::equality::syntactically_equal;
use crate::error::{listing, SourceRange};
use crate::evaluator::{is_value, step};
use crate::mk;
use crate::normalizer::normalize_weak_head;
use crate::out::guarded;
use crate::parser::parse;
use crate::parser::verif_hooks::CACHE_STATS;
use crate::error::verif_hooks::LISTING_RANGES;
use crate::pipeline::{check_term, run_eval, Final};
use crate::ser::{Cell, HoleMode, Ser};
use crate::ser_store::{ctx_fingerprint, DCtx, StoreSer, TCtx};
use crate::suite_debruijn::{fv, set_str};
use crate::suite_eval::trace_impl;
use crate::suite_lexer::tok_answer;
use crate::suite_parser::{ranged, reset_hooks};
use crate::term::{Term, Variant};
use crate::token::{TerminatorType, Token, Variant as TV};
use crate::tokenizer::tokenize;
use crate::unifier::unify;
use num_bigint::BigInt;
use std::cell::RefCell;
use std::collections::HashMap;
use std::io::{BufRead, BufWriter, Write};
use std::rc::Rc;

// ---- S-expressions (same lexical rules as `Driver/Sexp.lean`: atoms end at ' ', '(' and ')') --------
pub enum Sx<'s> {
    Atom(&'s str),
    List(Vec<Sx<'s>>),
}

fn parse_items<'s>(s: &'s str, pos: &mut usize, top: bool) -> Option<Vec<Sx<'s>>> {
    let b = s.as_bytes();
    let mut items = vec![];
    loop {
        while *pos < b.len() && b[*pos] == b' ' { *pos += 1; }
        if *pos >= b.len() { return if top { Some(items) } else { None }; }
        match b[*pos] {
            b')' => { if top { return None; } *pos += 1; return Some(items); }
            b'(' => { *pos += 1; items.push(Sx::List(parse_items(s, pos, false)?)); }
            _ => {
                let st = *pos;
                while *pos < b.len() && !matches!(b[*pos], b' ' | b'(' | b')') { *pos += 1; }
                items.push(Sx::Atom(&s[st..*pos]));
            }
        }
    }
}

pub fn parse_line(s: &str) -> Option<Vec<Sx<'_>>> {
    let mut pos = 0;
    parse_items(s, &mut pos, true)
}

fn atom<'s>(x: &Sx<'s>) -> Option<&'s str> { match x { Sx::Atom(a) => Some(a), _ => None } }
fn list<'a, 's>(x: &'a Sx<'s>) -> Option<&'a [Sx<'s>]> { match x { Sx::List(v) => Some(&v[..]), _ => None } }
// decimal natural number, digits only (as `String.toNat?`)
fn nat(x: &Sx) -> Option<usize> {
    let a = atom(x)?;
    if a.is_empty() || !a.bytes().all(|c| c.is_ascii_digit()) { return None; }
    a.parse().ok()
}
fn int(x: &Sx) -> Option<isize> {
    let a = atom(x)?;
    let d = a.strip_prefix('-').unwrap_or(a);
    if d.is_empty() || !d.bytes().all(|c| c.is_ascii_digit()) { return None; }
    a.parse().ok()
}
fn bigint(x: &Sx) -> Option<BigInt> {
    let a = atom(x)?;
    let d = a.strip_prefix('-').unwrap_or(a);
    if d.is_empty() || !d.bytes().all(|c| c.is_ascii_digit()) { return None; }
    a.parse().ok()
}
fn nats(x: &Sx) -> Option<Vec<usize>> { list(x)?.iter().map(nat).collect() }
fn text_of_cps(x: &Sx) -> Option<String> {
    list(x)?.iter().map(|c| nat(c).and_then(|n| u32::try_from(n).ok()).and_then(char::from_u32)).collect()
}

// ---- names -------------------------------------------------------------------------------------------
const MAX_ID: usize = 50_000_000;

// strings handed to the implementation live as long as the process; every distinct string is
// allocated once
struct Interner(HashMap<String, &'static str>);
impl Interner {
    fn get(&mut self, s: &str) -> &'static str {
        if let Some(x) = self.0.get(s) { return x; }
        let leaked: &'static str = Box::leak(s.to_owned().into_boxed_str());
        self.0.insert(s.to_owned(), leaked);
        leaked
    }
}

// where the strings of name ids come from
enum NameSrc<'t> {
    // invented, and registered in the serialiser so that answers print the same ids
    Global,
    // the table of a `print` line; ids outside the table have the empty name (as in `PrintOps.lean`)
    Table(&'t HashMap<usize, &'static str>),
}

pub struct Replay {
    ser: Ser,
    by_id: Vec<Option<&'static str>>,
    intern: Interner,
    // oracle hits found while replaying (property, kind, op line, detail): written next to the answers as `<suite>.hits`
    pub hits: Vec<(String, String, String, String)>,
    cur_line: String,
}

// the unifier cells of one op line, by id; ids not described by a store are fresh empty cells
struct Cells(Vec<Cell<'static>>);
impl Cells {
    fn get(&mut self, id: usize) -> Option<Cell<'static>> {
        if id > MAX_ID { return None; }
        while self.0.len() <= id { self.0.push(Rc::new(RefCell::new(None))); }
        Some(self.0[id].clone())
    }
}

const TAGS: usize = 29;

impl Replay {
    pub fn new() -> Self {
        let mut r = Replay { ser: Ser::new(), by_id: vec![], intern: Interner(HashMap::new()), hits: vec![], cur_line: String::new() };
        r.global_name(0);
        r
    }

    fn global_name(&mut self, id: usize) -> Option<&'static str> {
        if id > MAX_ID { return None; }
        if let Some(Some(s)) = self.by_id.get(id) { return Some(s); }
        let s = if id == 0 { self.intern.get("_") } else { self.intern.get(&format!("x{id}")) };
        if self.by_id.len() <= id { self.by_id.resize(id + 1, None); }
        self.by_id[id] = Some(s);
        self.ser.names.insert(s.to_owned(), id);
        // a name first met in an answer gets the next id, as in the suites
        while self.ser.name_list.len() <= id { self.ser.name_list.push(String::new()); }
        self.ser.name_list[id] = s.to_owned();
        Some(s)
    }

    fn name(&mut self, src: &NameSrc, x: &Sx) -> Option<&'static str> {
        let id = nat(x)?;
        match src {
            NameSrc::Global => self.global_name(id),
            NameSrc::Table(t) => Some(t.get(&id).copied().unwrap_or("")),
        }
    }

    // ---- terms, stores, contexts ---------------------------------------------------------------------
    fn term(&mut self, src: &NameSrc, cells: &mut Cells, x: &Sx) -> Option<Term<'static>> {
        match x {
            Sx::Atom(a) => Some(match *a {
                "T" => mk::ty(), "I" => mk::int(), "B" => mk::boolean(), "t" => mk::tt(), "f" => mk::ff(),
                _ => return None,
            }),
            Sx::List(v) => {
                let head = atom(v.first()?)?;
                match (head, v.len()) {
                    ("h", 3) => Some(mk::t(Variant::Unifier(cells.get(nat(&v[1])?)?, nat(&v[2])?))),
                    ("n", 2) => Some(mk::big(bigint(&v[1])?)),
                    ("v", 3) => Some(mk::var(self.name(src, &v[1])?, nat(&v[2])?)),
                    ("L", 5) | ("P", 5) => {
                        let x = self.name(src, &v[1])?;
                        let imp = match atom(&v[2])? { "0" => false, "1" => true, _ => return None };
                        let d = self.term(src, cells, &v[3])?;
                        let b = self.term(src, cells, &v[4])?;
                        Some(if head == "L" { mk::lam(x, imp, d, b) } else { mk::pi(x, imp, d, b) })
                    }
                    ("A", 3) => Some(mk::app(self.term(src, cells, &v[1])?, self.term(src, cells, &v[2])?)),
                    ("G", n) if n >= 2 => {
                        let mut defs = vec![];
                        for d in &v[1..n - 1] {
                            let d = list(d)?;
                            if d.len() != 4 || atom(&d[0])? != "D" { return None; }
                            defs.push((self.name(src, &d[1])?, self.term(src, cells, &d[2])?, self.term(src, cells, &d[3])?));
                        }
                        let body = self.term(src, cells, &v[n - 1])?;
                        Some(mk::letg(defs, body))
                    }
                    ("N", 2) => Some(mk::neg(self.term(src, cells, &v[1])?)),
                    ("O", 4) => {
                        let op = mk::OPS.iter().position(|o| *o == atom(&v[1]).unwrap_or(""))?;
                        Some(mk::bin(op, self.term(src, cells, &v[2])?, self.term(src, cells, &v[3])?))
                    }
                    ("F", 4) => Some(mk::ite(self.term(src, cells, &v[1])?, self.term(src, cells, &v[2])?, self.term(src, cells, &v[3])?)),
                    _ => None,
                }
            }
        }
    }

    // `(S c0 c1 ...)`: cell k holds `ck` (`U` = empty); contents may mention any cell, also later ones
    fn store(&mut self, src: &NameSrc, cells: &mut Cells, x: &Sx) -> Option<()> {
        let v = list(x)?;
        if atom(v.first()?)? != "S" { return None; }
        let n = v.len() - 1;
        if n > 0 { cells.get(n - 1)?; }
        let mut contents = Vec::with_capacity(n);
        for c in &v[1..] {
            contents.push(match c { Sx::Atom("U") => None, t => Some(self.term(src, cells, t)?) });
        }
        for (k, c) in contents.into_iter().enumerate() { *cells.0[k].borrow_mut() = c; }
        Some(())
    }

    // contexts are printed innermost first; the implementation keeps the innermost entry last
    fn tctx(&mut self, cells: &mut Cells, x: &Sx) -> Option<TCtx<'static>> {
        let v = list(x)?;
        if atom(v.first()?)? != "TC" { return None; }
        let mut out: TCtx<'static> = vec![];
        for e in v[1..].iter().rev() {
            let e = list(e)?;
            if e.len() != 3 || atom(&e[0])? != "E" { return None; }
            out.push((Rc::new(self.term(&NameSrc::Global, cells, &e[1])?), nat(&e[2])?));
        }
        Some(out)
    }
    fn dctx(&mut self, cells: &mut Cells, x: &Sx) -> Option<DCtx<'static>> {
        let v = list(x)?;
        if atom(v.first()?)? != "DC" { return None; }
        let mut out: DCtx<'static> = vec![];
        for e in v[1..].iter().rev() {
            match e {
                Sx::Atom("N") => out.push(None),
                Sx::List(e) if e.len() == 3 && atom(&e[0]) == Some("E") => {
                    out.push(Some((Rc::new(self.term(&NameSrc::Global, cells, &e[1])?), nat(&e[2])?)));
                }
                _ => return None,
            }
        }
        Some(out)
    }

    // ---- tokens --------------------------------------------------------------------------------------
    fn tokens(&mut self, x: &Sx) -> Option<Vec<Token<'static>>> {
        let mut out = vec![];
        for t in list(x)? {
            let t = list(t)?;
            if t.len() != 3 && t.len() != 4 { return None; }
            let (tag, start, end) = (nat(&t[0])?, nat(&t[1])?, nat(&t[2])?);
            let variant = match (tag, t.len()) {
                (9, 4) => TV::Identifier(self.name(&NameSrc::Global, &t[3])?),
                (12, 4) => TV::IntegerLiteral(bigint(&t[3])?),
                (9 | 12, _) | (_, 4) => return None,
                (k, _) if k < TAGS => plain_token(k)?,
                _ => return None,
            };
            out.push(Token { source_range: SourceRange { start, end }, variant });
        }
        Some(out)
    }

    // ---- the ops -------------------------------------------------------------------------------------
    pub fn run_line(&mut self, line: &str) -> String {
        let Some(xs) = parse_line(line) else { return "bad-op".to_owned(); };
        self.cur_line = line.to_owned();
        self.run_op(&xs).unwrap_or_else(|| "bad-op".to_owned())
    }

    fn run_op(&mut self, xs: &[Sx]) -> Option<String> {
        let g = NameSrc::Global;
        let mut cells = Cells(vec![]);
        let cells = &mut cells;
        let erase = HoleMode::ZonkErase;
        let op = atom(xs.first()?)?;
        Some(match (op, xs.len()) {
            // -- suite debruijn
            ("sshift", 4) => {
                let (c, amt) = (nat(&xs[1])?, int(&xs[2])?);
                let t = self.term(&g, cells, &xs[3])?;
                match guarded(|| signed_shift(&t, c, amt)) {
                    Ok(Some(x)) => self.ser.term(&x, erase),
                    Ok(None) => "none".to_owned(),
                    Err(_) => "panic".to_owned(),
                }
            }
            ("open", 5) => {
                let (i, s) = (nat(&xs[1])?, nat(&xs[2])?);
                let t = self.term(&g, cells, &xs[3])?;
                let u = self.term(&g, cells, &xs[4])?;
                match guarded(|| open(&t, i, &u, s)) { Ok(x) => self.ser.term(&x, erase), Err(_) => "panic".to_owned() }
            }
            ("fv", 3) => {
                let c = nat(&xs[1])?;
                let t = self.term(&g, cells, &xs[2])?;
                match guarded(|| fv(&t, c)) { Ok(x) => set_str(&x), Err(_) => "panic".to_owned() }
            }
            // -- suite eval
            ("step", 2) => {
                let t = self.term(&g, cells, &xs[1])?;
                match guarded(|| step(&t)) {
                    Ok(Some(x)) => self.ser.term(&x, erase),
                    Ok(None) => "none".to_owned(),
                    Err(_) => "panic".to_owned(),
                }
            }
            ("isvalue", 2) => {
                let t = self.term(&g, cells, &xs[1])?;
                match guarded(|| is_value(&t)) { Ok(true) => "1".to_owned(), Ok(false) => "0".to_owned(), Err(_) => "panic".to_owned() }
            }
            ("trace", 3) => {
                let fuel = nat(&xs[1])?;
                let t = self.term(&g, cells, &xs[2])?;
                trace_impl(&mut self.ser, &t, fuel, erase)
            }
            // -- evaluation of a zonked elaboration (suites programs, pipeline); `eval` is the variant of
            //    the driver that also shows the term reached when the fuel runs out
            ("evalz" | "eval", 3) => {
                let cap = nat(&xs[1])?;
                let t = self.term(&g, cells, &xs[2])?;
                match run_eval(&t, cap) {
                    Err(_) => "panic".to_owned(),
                    Ok((Final::Cap, v, _)) => if op == "eval" { format!("fuel {}", self.ser.term(&v, erase)) } else { "fuel".to_owned() },
                    Ok((Final::Value, v, _)) => format!("value {}", self.ser.term(&v, erase)),
                    Ok((Final::Stuck(r), v, _)) => format!("stuck {} {}", r, self.ser.term(&v, erase)),
                }
            }
            // -- the suites' record that the implementation accepted `e` at type `ty` (or produced the
            //    value `v` of type `ty`): the `.impl` side of the line is the constant `ok`; the verdict is the
            //    model's. Nothing to execute; the line is only checked for well-formedness.
            ("oracle", n) if n >= 4 => {
                nat(&xs[1])?;
                self.term(&g, cells, &xs[2])?;
                self.term(&g, cells, &xs[3])?;
                "ok".to_owned()
            }
            // -- suite lexer
            ("tok", 4) => {
                let text = text_of_cps(&xs[1])?;
                nats(&xs[2])?;
                nats(&xs[3])?;
                let (r, ranges) = crate::suite_lexer::tokenize_recorded(&text);
                tok_answer(&text, &r, &ranges)
            }
            // -- store layer (suites unify, programs, pipeline)
            ("unify", 5) => {
                self.store(&g, cells, &xs[1])?;
                let mut dctx = self.dctx(cells, &xs[2])?;
                let a = self.term(&g, cells, &xs[3])?;
                let b = self.term(&g, cells, &xs[4])?;
                let names = &mut self.ser;
                let before = ctx_fingerprint(names, &vec![], &dctx);
                let r = guarded(|| unify(&a, &b, &mut dctx));
                let same = before == ctx_fingerprint(names, &vec![], &dctx);
                let ctx = if same { "ctx=same".to_owned() } else { format!("ctx=changed(0,{})", dctx.len()) };
                match r {
                    Err(_) => "panic".to_owned(),
                    Ok(res) => {
                        let mut map = HashMap::new();
                        let mut next = 0;
                        let ca = StoreSer::canon(names, &a, &mut map, &mut next);
                        let cb = StoreSer::canon(names, &b, &mut map, &mut next);
                        let answer = format!("{res} | {ca} | {cb} | {ctx}");
                        if res {
                            // C12, on the implementation itself: after a success the recorded solutions make the sides
                            // unify again, and no cell reaches itself through its solution
                            let hc0 = crate::de_bruijn::verif_hooks::OPEN_UNRESOLVED.with(|c| c.get());
                            let again = guarded(|| unify(&a, &b, &mut dctx));
                            let copied = crate::de_bruijn::verif_hooks::OPEN_UNRESOLVED.with(|c| c.get()) - hc0;
                            if !matches!(again, Ok(true)) && copied == 0 {
                                self.hits.push(("C12".into(), "solutions-do-not-make-terms-equal".into(), self.cur_line.clone(), format!("recorded operation: second unification gave {again:?}")));
                            }
                            for (k, cell) in cells.0.iter().enumerate() {
                                let content = { cell.borrow().clone() };
                                if let Some(sol) = content {
                                    if cell_reaches(&sol, cell, &mut std::collections::HashSet::new()) {
                                        self.hits.push(("C12".into(), "hole-solved-by-term-containing-itself".into(), self.cur_line.clone(), format!("recorded operation: cell {k}")));
                                    }
                                }
                            }
                        }
                        answer
                    }
                }
            }
            ("whnf", 4) => {
                self.store(&g, cells, &xs[1])?;
                let mut dctx = self.dctx(cells, &xs[2])?;
                let t = self.term(&g, cells, &xs[3])?;
                let names = &mut self.ser;
                let before = ctx_fingerprint(names, &vec![], &dctx);
                let w = guarded(|| normalize_weak_head(&t, &mut dctx));
                let same = before == ctx_fingerprint(names, &vec![], &dctx);
                match &w {
                    Ok(x) => {
                        let mut m = HashMap::new();
                        let mut nx = 0;
                        format!("{} | {}", StoreSer::canon(names, x, &mut m, &mut nx), if same { "ctx=same".to_owned() } else { format!("ctx=changed(0,{})", dctx.len()) })
                    }
                    Err(_) => "panic".to_owned(),
                }
            }
            ("syneq", 4) => {
                self.store(&g, cells, &xs[1])?;
                let a = self.term(&g, cells, &xs[2])?;
                let b = self.term(&g, cells, &xs[3])?;
                match guarded(|| syntactically_equal(&a, &b)) { Ok(r) => format!("{r}"), Err(_) => "panic".to_owned() }
            }
            ("infer", 5) => {
                self.store(&g, cells, &xs[1])?;
                let mut tctx = self.tctx(cells, &xs[2])?;
                let mut dctx = self.dctx(cells, &xs[3])?;
                let t = self.term(&g, cells, &xs[4])?;
                // no source text: the rebuilt term has no source ranges, so no listing is ever rendered
                check_term(&mut self.ser, "", &t, &mut tctx, &mut dctx).answer
            }
            // -- suite parser
            ("parse", 3) => {
                let ctx: Vec<&'static str> = list(&xs[1])?.iter().map(|n| self.name(&g, n)).collect::<Option<_>>()?;
                let toks = self.tokens(&xs[2])?;
                let src = synthetic_source(&toks)?;
                reset_hooks();
                let r = guarded(|| parse(None, &src, &toks[..], &ctx));
                let ranges: Vec<(usize, usize)> = LISTING_RANGES.with(|v| v.borrow().clone());
                match &r {
                    Err(_) => "panic".to_owned(),
                    Ok(Ok(t)) => format!("ok {}", ranged(&mut self.ser, t, &mut HashMap::new())),
                    Ok(Err(es)) => format!("err {} {}", es.len(), ranges.iter().map(|(a, b)| format!("({a} {b})")).collect::<Vec<_>>().join(" ")),
                }
            }
            ("parsestats", 2) => {
                // the counters are those of the memoised descent, which does not look at the scope
                let toks = self.tokens(&xs[1])?;
                let src = synthetic_source(&toks)?;
                reset_hooks();
                let _ = guarded(|| parse(None, &src, &toks[..], &[]).is_ok());
                let stats: [(usize, usize); 36] = CACHE_STATS.with(|s| *s.borrow());
                stats.iter().map(|(h, m)| format!("{h}:{m}")).collect::<Vec<_>>().join(" ")
            }
            // -- suite listing
            ("listing", 5) => {
                let text = text_of_cps(&xs[1])?;
                nats(&xs[2])?;
                let (start, end) = (nat(&xs[3])?, nat(&xs[4])?);
                let r = guarded(|| listing(&text, SourceRange { start, end }));
                LISTING_RANGES.with(|v| v.borrow_mut().clear());
                crate::suite_listing::answer(&r)
            }
            // -- suite print
            ("print", 4) => {
                let mut table: HashMap<usize, &'static str> = HashMap::new();
                for e in list(&xs[1])? {
                    let e = list(e)?;
                    let id = nat(e.first()?)?;
                    let s: String = e[1..].iter().map(|c| nat(c).and_then(|n| u32::try_from(n).ok()).and_then(char::from_u32)).collect::<Option<_>>()?;
                    table.insert(id, self.intern.get(&s));
                }
                let src = NameSrc::Table(&table);
                self.store(&src, cells, &xs[2])?;
                let t = self.term(&src, cells, &xs[3])?;
                match guarded(|| t.to_string()) {
                    Ok(s) => format!("ok{}", crate::suite_print::code_points(&s)),
                    Err(_) => "panic".to_owned(),
                }
            }
            _ => return None,
        })
    }
}

fn plain_token(tag: usize) -> Option<TV<'static>> {
    use TV::*;
    Some(match tag {
        0 => Asterisk, 1 => Boolean, 2 => Colon, 3 => DoubleEquals, 4 => Else, 5 => Equals, 6 => False,
        7 => GreaterThan, 8 => GreaterThanOrEqualTo, 10 => If, 11 => Integer, 13 => LeftCurly, 14 => LeftParen,
        15 => LessThan, 16 => LessThanOrEqualTo, 17 => Minus, 18 => Plus, 19 => RightCurly, 20 => RightParen,
        21 => Slash, 22 => Terminator(TerminatorType::LineBreak), 23 => Terminator(TerminatorType::Semicolon),
        24 => Then, 25 => ThickArrow, 26 => ThinArrow, 27 => True, 28 => Type,
        _ => return None,
    })
}

// The parser reads the source text only to render the excerpts of its diagnostics (whose ranges,
// not texts, are the answer). A `parse` line does not carry the text; any text in which every token
// range is in bounds will do: blanks, with the bytes of the tokens filled in.
fn synthetic_source(toks: &[Token]) -> Option<String> {
    let len = toks.iter().map(|t| t.source_range.end.max(t.source_range.start)).max().unwrap_or(0);
    if len > (1 << 28) { return None; }
    let mut b = vec![b' '; len];
    for t in toks {
        let fill = if matches!(t.variant, TV::Terminator(TerminatorType::LineBreak)) { b'\n' } else { b'a' };
        for k in t.source_range.start..t.source_range.end { b[k] = fill; }
    }
    String::from_utf8(b).ok()
}

// does `target` occur in `t`, directly or through solved cells?
fn cell_reaches<'a>(t: &Term<'a>, target: &Cell<'a>, seen: &mut std::collections::HashSet<usize>) -> bool {
    use Variant::*;
    match &t.variant {
        Unifier(c, _) => {
            if Rc::ptr_eq(c, target) { return true; }
            if !seen.insert(Rc::as_ptr(c) as usize) { return false; }
            let content = { c.borrow().clone() };
            content.map_or(false, |s| cell_reaches(&s, target, seen))
        }
        Lambda(_, _, a, b) | Pi(_, _, a, b) | Application(a, b) | Sum(a, b) | Difference(a, b) | Product(a, b) | Quotient(a, b)
        | LessThan(a, b) | LessThanOrEqualTo(a, b) | EqualTo(a, b) | GreaterThan(a, b) | GreaterThanOrEqualTo(a, b) => cell_reaches(a, target, seen) || cell_reaches(b, target, seen),
        Let(defs, body) => defs.iter().any(|(_, a, d)| cell_reaches(a, target, seen) || cell_reaches(d, target, seen)) || cell_reaches(body, target, seen),
        Negation(a) => cell_reaches(a, target, seen),
        If(a, b, c) => cell_reaches(a, target, seen) || cell_reaches(b, target, seen) || cell_reaches(c, target, seen),
        _ => false,
    }
}

pub fn run(ops_path: &str, out_path: &str) -> std::io::Result<()> {
    let input = std::io::BufReader::new(std::fs::File::open(ops_path)?);
    let mut out = BufWriter::new(std::fs::File::create(out_path)?);
    let mut replay = Replay::new();
    for line in input.split(b'\n') {
        let line = line?;
        let answer = match std::str::from_utf8(&line) {
            Ok(l) => replay.run_line(l.strip_suffix('\r').unwrap_or(l)),
            Err(_) => "bad-op".to_owned(),
        };
        writeln!(out, "{answer}")?;
    }
    out.flush()?;
    // oracle hits, in the format of `Out::hit`, next to the answers (`x.impl` -> `x.hits`)
    if let Some(stem) = out_path.strip_suffix(".impl") {
        let mut h = std::fs::OpenOptions::new().create(true).append(true).open(format!("{stem}.hits"))?;
        let clean = |s: &str| s.replace('\t', " ").replace('\n', "\\n");
        for (p, k, i, d) in &replay.hits { writeln!(h, "{}\t{}\t{}\t{}", p, k, clean(i), clean(d))?; }
    }
    Ok(())
}
