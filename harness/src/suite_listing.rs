// Suite `listing` (C15, listing part of C14): correspondence op `listing` (the rendered source
// excerpt of a diagnostic, uncoloured mode) and the "excerpt shows the right lines, numbers and
// marks" predicate of C15 evaluated on the implementation's output.
use crate::error::{listing, SourceRange};
use crate::out::{guarded, Out};
use crate::rng::Rng;
use std::collections::BTreeSet;

fn escape(text: &str) -> String {
    text.chars()
        .map(|c| match c {
            '\n' => "\\n".to_owned(),
            '\t' => "\\t".to_owned(),
            '\r' => "\\r".to_owned(),
            '\u{a0}' => "\\u{a0}".to_owned(),
            '\u{2028}' => "\\u{2028}".to_owned(),
            c => c.to_string(),
        })
        .collect()
}

pub fn op_line(text: &str, start: usize, end: usize) -> String {
    let cps: Vec<String> = text.chars().map(|c| (c as u32).to_string()).collect();
    let ws: BTreeSet<u32> = text.chars().filter(|c| c.is_whitespace()).map(|c| c as u32).collect();
    let ws: Vec<String> = ws.iter().map(|c| c.to_string()).collect();
    format!("listing ({}) ({}) {} {}", cps.join(" "), ws.join(" "), start, end)
}

pub fn answer(r: &Result<String, String>) -> String {
    match r {
        Ok(s) => {
            let mut a = "ok".to_owned();
            for c in s.chars() {
                a.push(' ');
                a.push_str(&(c as u32).to_string());
            }
            a
        }
        Err(_) => "panic".to_owned(),
    }
}

// ---- independent reference for C15 ----------------------------------------------------------------
// What an excerpt for the byte range [start, end) must show, computed from the text alone: the lines
// from the one holding the first character of the range to the one holding its last character, each
// with its 1-based number, its text without trailing whitespace, and the character columns inside the
// range (without the indentation of continuation lines and without trailing whitespace).
struct Expect {
    number: usize,
    text: String,
    cols: BTreeSet<usize>,
}

fn expected(text: &str, start: usize, end: usize) -> Vec<Expect> {
    // the lines as vectors of (byte offset, character), line feeds excluded
    let mut lines: Vec<Vec<(usize, char)>> = vec![vec![]];
    let mut first = None; // index of the line holding the first character of the range
    let mut last = None; // index of the line holding the last character of the range
    for (off, c) in text.char_indices() {
        if off >= start && off < end {
            if first.is_none() {
                first = Some(lines.len() - 1);
            }
            last = Some(lines.len() - 1);
        }
        if c == '\n' {
            lines.push(vec![]);
        } else {
            lines.last_mut().unwrap().push((off, c));
        }
    }
    let (Some(first), Some(last)) = (first, last) else { return vec![] };
    let mut result = vec![];
    for k in first..=last {
        let chars = &lines[k];
        let trailing = chars.iter().rev().take_while(|(_, c)| c.is_whitespace()).count();
        let leading = chars.iter().take_while(|(_, c)| c.is_whitespace()).count();
        let kept = chars.len() - trailing;
        let mut cols = BTreeSet::new();
        for (col, (off, _)) in chars.iter().enumerate() {
            let inside = *off >= start && *off < end;
            let indentation = k != first && col < leading;
            if inside && !indentation && col < kept {
                cols.insert(col);
            }
        }
        result.push(Expect {
            number: k + 1,
            text: chars[..kept].iter().map(|(_, c)| *c).collect(),
            cols,
        });
    }
    result
}

struct Shown {
    number: Option<usize>,
    text: String,
    cols: BTreeSet<isize>,
}

// Rows come in pairs: `<right-aligned number> │ <line text>` and the marker row.
fn parse_rendered(rendered: &str) -> Result<Vec<Shown>, String> {
    if rendered.is_empty() {
        return Ok(vec![]);
    }
    let rows: Vec<&str> = rendered.split('\n').collect();
    if rows.len() % 2 != 0 {
        return Err(format!("{} rows, expected pairs", rows.len()));
    }
    let mut shown = vec![];
    for pair in rows.chunks(2) {
        let a: Vec<char> = pair[0].chars().collect();
        let Some(p) = a.iter().position(|c| *c == '\u{2502}') else {
            return Err(format!("no gutter separator in row `{}`", pair[0]));
        };
        if a.get(p + 1) != Some(&' ') {
            return Err(format!("no space after the gutter separator in row `{}`", pair[0]));
        }
        let text_col = p + 2;
        let number: String = a[..p].iter().collect();
        let cols = pair[1]
            .chars()
            .enumerate()
            .filter(|(_, c)| *c == '\u{203e}')
            .map(|(i, _)| i as isize - text_col as isize)
            .collect();
        shown.push(Shown {
            number: number.trim().parse().ok(),
            text: a[text_col..].iter().collect(),
            cols,
        });
    }
    Ok(shown)
}

fn check_c15(out: &mut Out, text: &str, start: usize, end: usize, rendered: &str) {
    let input = format!("{} @{}..{}", escape(text), start, end);
    let exp = expected(text, start, end);
    let shown = match parse_rendered(rendered) {
        Ok(s) => s,
        Err(why) => {
            out.hit("C15", "malformed-excerpt", &input, &why);
            return;
        }
    };
    let exp_numbers: Vec<Option<usize>> = exp.iter().map(|e| Some(e.number)).collect();
    let got_numbers: Vec<Option<usize>> = shown.iter().map(|s| s.number).collect();
    let exp_texts: Vec<&str> = exp.iter().map(|e| e.text.as_str()).collect();
    let got_texts: Vec<&str> = shown.iter().map(|s| s.text.as_str()).collect();
    if exp_numbers != got_numbers || exp_texts != got_texts {
        let (kind, detail) = if exp_texts == got_texts {
            ("wrong-line-number", format!("expected numbers {exp_numbers:?}, shown {got_numbers:?}"))
        } else if exp_numbers == got_numbers {
            ("line-text-differs", format!("expected {exp_texts:?}, shown {got_texts:?}"))
        } else {
            ("wrong-lines-shown", format!("expected lines {exp_numbers:?} {exp_texts:?}, shown {got_numbers:?} {got_texts:?}"))
        };
        out.hit("C15", kind, &input, &detail);
        return;
    }
    for (e, s) in exp.iter().zip(shown.iter()) {
        let want: BTreeSet<isize> = e.cols.iter().map(|c| *c as isize).collect();
        if want != s.cols {
            out.hit("C15", "wrong-columns-marked", &input, &format!("line {}: expected columns {:?}, marked {:?}", e.number, want, s.cols));
            return;
        }
    }
}

// One case: the correspondence line, and for token spans the C15 predicate.
fn check_case(out: &mut Out, text: &str, start: usize, end: usize, token_span: bool) {
    let r = guarded(|| listing(text, SourceRange { start, end }));
    crate::error::verif_hooks::LISTING_RANGES.with(|v| v.borrow_mut().clear());
    out.case(&op_line(text, start, end), &answer(&r));
    match &r {
        Ok(s) => {
            out.stat(if s.is_empty() { "listing:empty" } else { "listing:shown" });
            if token_span {
                out.stat("c15:checked");
                let n = s.split('\n').count() / 2;
                out.stat(if n > 1 { "c15:multi-line" } else { "c15:single-line" });
                check_c15(out, text, start, end, s);
            }
        }
        Err(msg) => {
            out.stat("listing:panic");
            if token_span {
                out.hit("C14", "listing-panic", &format!("{} @{}..{}", escape(text), start, end), msg);
            }
        }
    }
}

// maximal runs of non-whitespace characters, as byte ranges
fn tokens(text: &str) -> Vec<(usize, usize)> {
    let mut toks = vec![];
    let mut cur: Option<usize> = None;
    for (off, c) in text.char_indices() {
        if c.is_whitespace() {
            if let Some(a) = cur.take() {
                toks.push((a, off));
            }
        } else if cur.is_none() {
            cur = Some(off);
        }
    }
    if let Some(a) = cur {
        toks.push((a, text.len()));
    }
    toks
}

fn is_token_span(toks: &[(usize, usize)], start: usize, end: usize) -> bool {
    start < end && toks.iter().any(|t| t.0 == start) && toks.iter().any(|t| t.1 == end)
}

const WORDS: [&str; 22] = [
    "x", "y", "foo", "bar_baz", "f", "if", "then", "else", "type", "int", "true", "é", "λx", "名前", "𝐀b",
    "naïve", "0", "42", "18446744073709551616", "x1", "_", "$",
];
const OPS: [&str; 16] = ["=", "+", "-", "*", "/", "->", "=>", "==", "<=", ":", "(", ")", "{", "}", ";", "#"];

fn gen_line(rng: &mut Rng, crlf: bool) -> String {
    let mut s = String::new();
    match rng.below(16) {
        0 | 1 => {} // empty line
        2 => s.push_str(*rng.pick(&[" ", "  ", "\t", "\u{a0}", " \u{2028}"])), // blank line
        _ => {
            match rng.below(10) {
                0..=3 => {}
                4..=7 => s.push_str(&" ".repeat(1 + rng.below(6))),
                8 => s.push('\t'),
                _ => s.push_str(*rng.pick(&["\u{a0}", " \u{a0}", "\u{2028} ", "\t "])),
            }
            let n = 1 + rng.below(5);
            for k in 0..n {
                if k > 0 {
                    match rng.below(12) {
                        0..=6 => s.push(' '),
                        7 => s.push_str("  "),
                        8 => s.push('\t'),
                        9 => s.push('\u{a0}'),
                        10 => s.push('\u{2028}'),
                        _ => {}
                    }
                }
                if rng.chance(2, 5) { s.push_str(*rng.pick(&OPS)); } else { s.push_str(*rng.pick(&WORDS)); }
            }
            if rng.chance(1, 4) {
                s.push_str(*rng.pick(&[" ", "  ", "   ", "\t", " \t", "\u{a0}", "\u{2028}"]));
            }
        }
    }
    if crlf || rng.chance(1, 24) {
        s.push('\r');
    }
    s
}

// a program text; returns the text and the number of leading filler lines
fn gen_text(rng: &mut Rng) -> (String, usize) {
    let lead = match rng.below(40) {
        0..=2 => 7 + rng.below(5),    // the gutter widens inside or just before the excerpt
        3 | 4 => 9 + rng.below(20),
        5 => 97 + rng.below(6),
        6 => 99 + rng.below(40),
        _ => 0,
    };
    let crlf = rng.chance(1, 5);
    let mut lines = vec![];
    for _ in 0..lead {
        let mut l = (*rng.pick(&["", "a = 1", "# é", "  b", "c"])).to_owned();
        if crlf { l.push('\r'); }
        lines.push(l);
    }
    let n = 1 + rng.below(12);
    for _ in 0..n {
        lines.push(gen_line(rng, crlf));
    }
    let mut text = lines.join("\n");
    if rng.chance(1, 2) {
        text.push('\n');
    }
    (text, lead)
}

fn random_cases(out: &mut Out, rng: &mut Rng, budget: u64) {
    let stop_at = out.cases + budget;
    while out.cases < stop_at {
        let (text, lead) = gen_text(rng);
        let toks = tokens(&text);
        // tokens of the generated (non-filler) part, when there is a filler
        let body_from = if lead == 0 { 0 } else {
            let body_start = text.match_indices('\n').nth(lead.saturating_sub(2)).map_or(0, |(i, _)| i);
            toks.iter().position(|t| t.0 >= body_start).unwrap_or(0)
        };
        if lead >= 9 { out.stat("text:gutter-2"); }
        if lead >= 99 { out.stat("text:gutter-3"); }
        let per_text = 3 + rng.below(4);
        for _ in 0..per_text {
            match rng.below(10) {
                0..=6 if !toks.is_empty() => {
                    // a span of whole tokens
                    let i = if rng.chance(4, 5) { body_from + rng.below(toks.len() - body_from) } else { rng.below(toks.len()) };
                    let reach = match rng.below(6) { 0 | 1 => 0, 2 | 3 => rng.below(4), 4 => rng.below(12), _ => rng.below(toks.len()) };
                    let j = (i + reach).min(toks.len() - 1);
                    out.stat("range:token-span");
                    check_case(out, &text, toks[i].0, toks[j].1, true);
                }
                7 if !toks.is_empty() => {
                    // an empty range at a token start
                    let i = rng.below(toks.len());
                    out.stat("range:empty-at-token");
                    check_case(out, &text, toks[i].0, toks[i].0, false);
                }
                8 => {
                    out.stat("range:empty-at-end");
                    check_case(out, &text, text.len(), text.len(), false);
                }
                _ => {
                    // any range on character boundaries
                    let mut bounds: Vec<usize> = text.char_indices().map(|(i, _)| i).collect();
                    bounds.push(text.len());
                    let a = rng.below(bounds.len());
                    let reach = if rng.chance(1, 2) { 8 } else { 400 };
                    let b = a + rng.below((bounds.len() - a).min(reach));
                    out.stat("range:arbitrary");
                    let span = is_token_span(&toks, bounds[a], bounds[b]);
                    check_case(out, &text, bounds[a], bounds[b], span);
                }
            }
        }
    }
}

const ALPHABET: [char; 5] = ['a', ' ', '\n', 'é', '\t'];

pub fn run(out: &mut Out, tier: &str, seed: u64) {
    let mut rng = Rng::new(seed ^ 0xC15);
    // all texts up to a length bound over a small alphabet, with every range on character boundaries
    let max_len = if tier == "thorough" { 5 } else { 4 };
    for len in 0..=max_len {
        let mut idx = vec![0usize; len];
        loop {
            let text: String = idx.iter().map(|i| ALPHABET[*i]).collect();
            let toks = tokens(&text);
            let mut bounds: Vec<usize> = text.char_indices().map(|(i, _)| i).collect();
            bounds.push(text.len());
            for (k, a) in bounds.iter().enumerate() {
                for b in &bounds[k..] {
                    out.stat("range:exhaustive");
                    check_case(out, &text, *a, *b, is_token_span(&toks, *a, *b));
                }
            }
            let mut k = 0;
            while k < len { idx[k] += 1; if idx[k] < ALPHABET.len() { break; } idx[k] = 0; k += 1; }
            if k == len { break; }
        }
    }
    // random multi-line programs
    let total: u64 = if tier == "thorough" { 300_000 } else { 20_000 };
    let budget = total.saturating_sub(out.cases);
    random_cases(out, &mut rng, budget);
}
