// Constructors for raw `term::Term`s (no source ranges).
use crate::term::{Term, Variant};
use num_bigint::BigInt;
use std::cell::RefCell;
use std::rc::Rc;

pub fn t<'a>(variant: Variant<'a>) -> Term<'a> {
    Term { source_range: None, variant }
}
pub fn ty<'a>() -> Term<'a> { t(Variant::Type) }
pub fn int<'a>() -> Term<'a> { t(Variant::Integer) }
pub fn boolean<'a>() -> Term<'a> { t(Variant::Boolean) }
pub fn tt<'a>() -> Term<'a> { t(Variant::True) }
pub fn ff<'a>() -> Term<'a> { t(Variant::False) }
pub fn lit<'a>(n: i64) -> Term<'a> { t(Variant::IntegerLiteral(BigInt::from(n))) }
pub fn big<'a>(n: BigInt) -> Term<'a> { t(Variant::IntegerLiteral(n)) }
pub fn var<'a>(x: &'a str, i: usize) -> Term<'a> { t(Variant::Variable(x, i)) }
pub fn lam<'a>(x: &'a str, imp: bool, d: Term<'a>, b: Term<'a>) -> Term<'a> {
    t(Variant::Lambda(x, imp, Rc::new(d), Rc::new(b)))
}
pub fn pi<'a>(x: &'a str, imp: bool, d: Term<'a>, b: Term<'a>) -> Term<'a> {
    t(Variant::Pi(x, imp, Rc::new(d), Rc::new(b)))
}
pub fn app<'a>(f: Term<'a>, a: Term<'a>) -> Term<'a> {
    t(Variant::Application(Rc::new(f), Rc::new(a)))
}
pub fn letg<'a>(defs: Vec<(&'a str, Term<'a>, Term<'a>)>, body: Term<'a>) -> Term<'a> {
    t(Variant::Let(
        defs.into_iter().map(|(x, a, d)| (x, Rc::new(a), Rc::new(d))).collect(),
        Rc::new(body),
    ))
}
pub fn neg<'a>(a: Term<'a>) -> Term<'a> { t(Variant::Negation(Rc::new(a))) }
pub fn ite<'a>(c: Term<'a>, a: Term<'a>, b: Term<'a>) -> Term<'a> {
    t(Variant::If(Rc::new(c), Rc::new(a), Rc::new(b)))
}
pub fn hole<'a>(shift: usize) -> Term<'a> {
    t(Variant::Unifier(Rc::new(RefCell::new(None)), shift))
}
pub const OPS: [&str; 9] = ["+", "-", "*", "/", "<", "<=", "==", ">", ">="];
pub fn bin<'a>(op: usize, a: Term<'a>, b: Term<'a>) -> Term<'a> {
    let (a, b) = (Rc::new(a), Rc::new(b));
    t(match op {
        0 => Variant::Sum(a, b),
        1 => Variant::Difference(a, b),
        2 => Variant::Product(a, b),
        3 => Variant::Quotient(a, b),
        4 => Variant::LessThan(a, b),
        5 => Variant::LessThanOrEqualTo(a, b),
        6 => Variant::EqualTo(a, b),
        7 => Variant::GreaterThan(a, b),
        _ => Variant::GreaterThanOrEqualTo(a, b),
    })
}
