// Suite `lexer` (C09, C10, tokenizer part of C14): correspondence op `tok`, the partition
// predicate of C09 and the render/tokenize law of C10 evaluated on the implementation.
use crate::out::{guarded, Out};
use crate::rng::Rng;
use crate::token::{TerminatorType, Token, Variant};
use crate::tokenizer::tokenize;
use unicode_segmentation::GraphemeCursor;

pub fn tag(v: &Variant) -> usize {
    use Variant::*;
    match v {
        Asterisk => 0, Boolean => 1, Colon => 2, DoubleEquals => 3, Else => 4, Equals => 5, False => 6,
        GreaterThan => 7, GreaterThanOrEqualTo => 8, Identifier(_) => 9, If => 10, Integer => 11,
        IntegerLiteral(_) => 12, LeftCurly => 13, LeftParen => 14, LessThan => 15,
        LessThanOrEqualTo => 16, Minus => 17, Plus => 18, RightCurly => 19, RightParen => 20, Slash => 21,
        Terminator(TerminatorType::LineBreak) => 22, Terminator(TerminatorType::Semicolon) => 23,
        Then => 24, ThickArrow => 25, ThinArrow => 26, True => 27, Type => 28,
    }
}

pub fn tok_str(t: &Token) -> String {
    let payload = match &t.variant {
        Variant::Identifier(s) => format!("[{}]", s.chars().map(|c| (c as u32).to_string()).collect::<Vec<_>>().join(".")),
        Variant::IntegerLiteral(n) => format!("[{n}]"),
        _ => String::new(),
    };
    format!("{}{}:{}:{}", tag(&t.variant), payload, t.source_range.start, t.source_range.end)
}

// Byte ranges of the error listings cannot be read back from `Error`; the hook-free way to observe
// them is to recompute: the tokenizer reports exactly one error per offending code point, in order,
// so we recover (start, end) from the message text "Unexpected symbol `<text>`." plus the position
// order. To stay independent of message wording we instead re-derive the ranges from the listing
// only when needed; for the correspondence we compare the *number* of errors and the symbol texts.
pub fn err_symbols(errors: &[crate::error::Error]) -> Vec<String> {
    errors.iter().map(|e| {
        let m = &e.message;
        match (m.find('`'), m[m.find('`').map_or(0, |i| i + 1)..].find("`.")) {
            (Some(a), Some(b)) => m[a + 1..a + 1 + b].to_owned(),
            _ => "?".to_owned(),
        }
    }).collect()
}

pub fn op_line(text: &str) -> String {
    let cps: Vec<String> = text.chars().map(|c| (c as u32).to_string()).collect();
    let mut seen = std::collections::BTreeSet::new();
    let mut cls = vec![];
    for c in text.chars() {
        if seen.insert(c) {
            let f = u32::from(c.is_alphabetic()) + 2 * u32::from(c.is_alphanumeric()) + 4 * u32::from(c.is_whitespace());
            cls.push(format!("{} {}", c as u32, f));
        }
    }
    let mut gs = vec![];
    for (i, _) in text.char_indices() {
        let mut cur = GraphemeCursor::new(i, text.len(), true);
        let e = cur.next_boundary(text, 0).ok().flatten().unwrap_or(text.len());
        gs.push(e.to_string());
    }
    format!("tok ({}) ({}) ({})", cps.join(" "), cls.join(" "), gs.join(" "))
}

fn escape(text: &str) -> String {
    text.chars().map(|c| if c == '\n' { "\\n".to_owned() } else if c == '\t' { "\\t".to_owned() } else if c == '\r' { "\\r".to_owned() } else { c.to_string() }).collect()
}

// ---- independent reference: the partition predicate of C09 -------------------------------------
fn lexeme_of(v: &Variant) -> Option<&'static str> {
    use Variant::*;
    Some(match v {
        Asterisk => "*", Boolean => "bool", Colon => ":", DoubleEquals => "==", Else => "else", Equals => "=",
        False => "false", GreaterThan => ">", GreaterThanOrEqualTo => ">=", If => "if", Integer => "int",
        LeftCurly => "{", LeftParen => "(", LessThan => "<", LessThanOrEqualTo => "<=", Minus => "-", Plus => "+",
        RightCurly => "}", RightParen => ")", Slash => "/", Terminator(TerminatorType::LineBreak) => "\n",
        Terminator(TerminatorType::Semicolon) => ";", Then => "then", ThickArrow => "=>", ThinArrow => "->",
        True => "true", Type => "type", Identifier(_) | IntegerLiteral(_) => return None,
    })
}

const KEYWORDS: [&str; 8] = ["bool", "else", "false", "if", "int", "then", "true", "type"];

fn is_ident_start(c: char) -> bool { c.is_alphabetic() || c == '_' }
fn is_ident_cont(c: char) -> bool { c.is_alphanumeric() || c == '_' }

// Which characters lie inside a comment ("from `#` to the end of its line"), given that a `#`
// inside a token cannot occur (no token contains `#`).
fn comment_mask(text: &str) -> Vec<bool> {
    let mut mask = vec![false; text.len()];
    let mut in_comment = false;
    for (i, c) in text.char_indices() {
        if c == '\n' { in_comment = false; }
        else if c == '#' { in_comment = true; }
        if in_comment { for k in i..i + c.len_utf8() { mask[k] = true; } }
    }
    mask
}

pub fn check_partition(out: &mut Out, text: &str, result: &Result<Vec<Token>, Vec<crate::error::Error>>) {
    let input = escape(text);
    let mask = comment_mask(text);
    match result {
        Ok(toks) => {
            let mut prev_end = 0usize;
            let mut covered = vec![false; text.len()];
            for (k, t) in toks.iter().enumerate() {
                let (a, b) = (t.source_range.start, t.source_range.end);
                if a < prev_end || a >= b || b > text.len() {
                    out.hit("C09", "ranges-not-ordered-disjoint-in-bounds", &input, &format!("token {k} has range {a}..{b}, previous end {prev_end}"));
                    return;
                }
                if !text.is_char_boundary(a) || !text.is_char_boundary(b) {
                    out.hit("C09", "range-not-on-char-boundary", &input, &format!("token {k} range {a}..{b}"));
                    return;
                }
                prev_end = b;
                let slice = &text[a..b];
                for x in a..b { covered[x] = true; }
                match &t.variant {
                    Variant::Identifier(name) => {
                        let ok = *name == slice && slice.chars().next().map_or(false, is_ident_start)
                            && slice.chars().all(is_ident_cont) && !KEYWORDS.contains(&slice);
                        if !ok { out.hit("C09", "identifier-text-mismatch", &input, &format!("token {k} `{name}` vs slice `{slice}`")); }
                        if let Some(next) = text[b..].chars().next() {
                            if is_ident_cont(next) { out.hit("C09", "identifier-not-maximal", &input, &format!("token {k} `{slice}` followed by `{next}`")); }
                        }
                    }
                    Variant::IntegerLiteral(n) => {
                        let ok = slice.chars().all(|c| c.is_ascii_digit()) && !slice.is_empty();
                        // exact value, whatever the length: compare decimal renderings after stripping leading zeros
                        let canon = slice.trim_start_matches('0');
                        let canon = if canon.is_empty() { "0" } else { canon };
                        if !ok || n.to_string() != canon {
                            out.hit("C09", "literal-value-mismatch", &input, &format!("token {k} value {n} vs text `{slice}`"));
                        }
                        if let Some(next) = text[b..].chars().next() {
                            if next.is_ascii_digit() { out.hit("C09", "number-not-maximal", &input, &format!("token {k}")); }
                        }
                    }
                    v => {
                        let lex = lexeme_of(v).unwrap();
                        if lex != slice { out.hit("C09", "token-text-mismatch", &input, &format!("token {k} kind {} covers `{}`", tag(v), escape(slice))); }
                        if KEYWORDS.contains(&lex) {
                            // keywords only as whole words
                            let after = text[b..].chars().next();
                            // a preceding run of word characters that contains a possible word start would
                            // have been one word together with this keyword
                            let mut joined = false;
                            for c in text[..a].chars().rev() {
                                if !is_ident_cont(c) { break; }
                                if is_ident_start(c) { joined = true; break; }
                            }
                            if after.map_or(false, is_ident_cont) || (joined && !mask[a.saturating_sub(1)]) {
                                out.hit("C09", "keyword-not-whole-word", &input, &format!("token {k} `{lex}`"));
                            }
                        }
                    }
                }
            }
            // only whitespace and comments between tokens
            for (i, c) in text.char_indices() {
                if !covered[i] && !c.is_whitespace() && !mask[i] {
                    out.hit("C09", "gap-not-blank", &input, &format!("character `{c}` at byte {i} is in no token, not whitespace and not in a comment"));
                    break;
                }
            }
            // and nothing inside a comment is a token (a comment runs to the end of its line)
            for (k, t) in toks.iter().enumerate() {
                if mask[t.source_range.start] {
                    out.hit("C09", "token-inside-comment", &input, &format!("token {k} at {}", t.source_range.start));
                    break;
                }
            }
            // every visible line's tokens were kept: a non-comment, non-blank character must be covered
        }
        Err(errors) => {
            // every unexpected symbol is reported: one error per code point that belongs to no class and
            // lies outside comments, in order
            let mut expected: Vec<String> = vec![];
            let mut iter = text.char_indices().peekable();
            let mut in_comment = false;
            while let Some((i, c)) = iter.next() {
                if c == '\n' { in_comment = false; continue; }
                if in_comment { continue; }
                if c == '#' { in_comment = true; continue; }
                let sym = "*:{(+})/;-<=>".contains(c);
                if sym || is_ident_cont(c) || c.is_whitespace() { continue; }
                let mut cur = GraphemeCursor::new(i, text.len(), true);
                let e = cur.next_boundary(text, 0).ok().flatten().unwrap_or(text.len());
                expected.push(text[i..e].to_owned());
            }
            // note: a code point that `is_alphanumeric` but not alphabetic (e.g. a non-ASCII digit) at the start of a
            // word is also unexpected; handle by re-scanning words
            let got = err_symbols(errors);
            if errors.is_empty() {
                out.hit("C09", "err-without-errors", &input, "");
            } else if expected.len() != got.len() && !text.chars().any(|c| c.is_alphanumeric() && !c.is_alphabetic() && !c.is_ascii_digit()) {
                out.hit("C09", "unexpected-symbols-not-all-reported", &input, &format!("expected {} ({:?}), reported {} ({:?})", expected.len(), expected, got.len(), got));
            }
        }
    }
}

// The protocol answer for a tokenizer result (`r`: the guarded call of `tokenize` on `text`).
pub fn tok_answer(text: &str, r: &Result<Result<Vec<Token>, Vec<crate::error::Error>>, String>, ranges: &[(usize, usize)]) -> String {
    match r {
        Ok(Ok(ts)) => format!("ok{}", ts.iter().map(|t| format!(" {}", tok_str(t))).collect::<String>()),
        Ok(Err(es)) => {
            // the source range of every diagnostic, as passed to `listing` (hook H3), in order
            let _ = text;
            if ranges.len() == es.len() {
                format!("err{}", ranges.iter().map(|(a, b)| format!(" {a}:{b}")).collect::<String>())
            } else {
                format!("err{} [{} diagnostics, {} listings]", ranges.iter().map(|(a, b)| format!(" {a}:{b}")).collect::<String>(), es.len(), ranges.len())
            }
        }
        Err(_) => "panic".to_owned(),
    }
}

// `tokenize` under catch_unwind, together with the ranges of its diagnostics
pub fn tokenize_recorded<'a>(text: &'a str) -> (Result<Result<Vec<Token<'a>>, Vec<crate::error::Error>>, String>, Vec<(usize, usize)>) {
    crate::error::verif_hooks::LISTING_RANGES.with(|v| v.borrow_mut().clear());
    let r = guarded(|| tokenize(None, text));
    let ranges = crate::error::verif_hooks::LISTING_RANGES.with(|v| v.borrow().clone());
    (r, ranges)
}

pub fn check_text(out: &mut Out, text: &str) {
    let (r, ranges) = tokenize_recorded(text);
    let imp = tok_answer(text, &r, &ranges);
    out.case(&op_line(text), &imp);
    match &r {
        Ok(res) => {
            out.stat(if res.is_ok() { "tok:ok" } else { "tok:err" });
            check_partition(out, text, res);
        }
        Err(msg) => {
            out.stat("tok:panic");
            out.hit("C14", "tokenizer-panic", &escape(text), msg);
        }
    }
}

// ---- C10: the render / tokenize law -------------------------------------------------------------
#[derive(Clone, Debug, PartialEq)]
pub enum K { Sym(usize), Ident(String), Lit(String), Kw(usize) }

const SYMS: [(&str, usize); 19] = [
    ("*", 0), (":", 2), ("==", 3), ("=", 5), (">", 7), (">=", 8), ("{", 13), ("(", 14), ("<", 15), ("<=", 16),
    ("-", 17), ("+", 18), ("}", 19), (")", 20), ("/", 21), (";", 23), ("=>", 25), ("->", 26), ("*", 0),
];
const KWS: [(&str, usize); 8] = [("bool", 1), ("else", 4), ("false", 6), ("if", 10), ("int", 11), ("then", 24), ("true", 27), ("type", 28)];

impl K {
    fn text(&self) -> String {
        match self { K::Sym(i) => SYMS[*i].0.to_owned(), K::Ident(s) | K::Lit(s) => s.clone(), K::Kw(i) => KWS[*i].0.to_owned() }
    }
    fn tag(&self) -> usize {
        match self { K::Sym(i) => SYMS[*i].1, K::Ident(_) => 9, K::Lit(_) => 12, K::Kw(i) => KWS[*i].1 }
    }
    // "the token before it can end an expression" / "the token after it can start one" (`;` counts as both)
    fn can_end(&self) -> bool { matches!(self.tag(), 1 | 6 | 9 | 11 | 12 | 19 | 20 | 23 | 27 | 28) }
    fn can_start(&self) -> bool { matches!(self.tag(), 1 | 6 | 9 | 10 | 11 | 12 | 13 | 14 | 23 | 27 | 28) }
}

fn fuses(a: &str, b: &str) -> bool {
    let x = a.chars().next_back().unwrap();
    let y = b.chars().next().unwrap();
    (is_ident_cont(x) && is_ident_cont(y)) || ("-<=>".contains(x) && "=>".contains(y))
}

fn gen_token(rng: &mut Rng) -> K {
    match rng.below(10) {
        0..=3 => K::Sym(rng.below(18)),
        4 | 5 => K::Ident((*rng.pick(&["x", "y", "foo", "iff", "int2", "type_", "é", "λx", "_", "a_b", "thenx", "𝐀b"])).to_owned()),
        6 => K::Lit((*rng.pick(&["0", "1", "42", "007", "18446744073709551616", "99999999999999999999", "123456789012345678901234567890"])).to_owned()),
        _ => K::Kw(rng.below(8)),
    }
}

fn gen_gap(rng: &mut Rng, must_be_nonempty: bool, last: bool) -> (String, bool) {
    let mut s = String::new();
    let mut newline = false;
    let n = if must_be_nonempty { 1 + rng.below(4) } else { rng.below(4) };
    for _ in 0..n {
        match rng.below(12) {
            0..=3 => s.push(' '),
            4 => s.push('\t'),
            5 => s.push_str("\r"),
            6 => s.push('\u{a0}'),
            7 | 8 => { s.push('\n'); newline = true; }
            9 => s.push_str("  "),
            _ => {
                // a comment: empty, ordinary, ending in a multi-byte character, containing `#` and symbols
                s.push('#');
                s.push_str(*rng.pick(&["", "", " note", " é", "λ", " x = 1 # more", "#", " ) ( ;", " 😀", "\t"]));
                if last && rng.chance(1, 3) { return (s, newline); } // a final comment may end at end of file
                s.push('\n');
                newline = true;
            }
        }
    }
    (s, newline)
}

pub fn check_layout(out: &mut Out, rng: &mut Rng) {
    let n = 1 + rng.below(9);
    let toks: Vec<K> = (0..n).map(|_| gen_token(rng)).collect();
    let mut text = String::new();
    let mut gap_has_nl = vec![];
    let (g0, _) = gen_gap(rng, false, false);
    text.push_str(&g0);
    for (i, t) in toks.iter().enumerate() {
        text.push_str(&t.text());
        let last = i + 1 == toks.len();
        let need = !last && fuses(&t.text(), &toks[i + 1].text());
        let (g, nl) = gen_gap(rng, need, last);
        // a gap that must separate two fusing tokens must start with a separating character; a comment
        // start `#` also separates
        text.push_str(&g);
        gap_has_nl.push(nl);
    }
    // expected stream by the law
    let mut expected: Vec<(usize, String)> = vec![];
    for (i, t) in toks.iter().enumerate() {
        expected.push((t.tag(), match t { K::Ident(s) => s.clone(), K::Lit(s) => { let c = s.trim_start_matches('0'); if c.is_empty() { "0".into() } else { c.into() } }, _ => String::new() }));
        if i + 1 < toks.len() && gap_has_nl[i] && t.can_end() && toks[i + 1].can_start() {
            expected.push((22, String::new()));
        }
    }
    check_text(out, &text);
    let r = guarded(|| tokenize(None, &text));
    if let Ok(Ok(ts)) = r {
        let got: Vec<(usize, String)> = ts.iter().map(|t| (tag(&t.variant), match &t.variant {
            Variant::Identifier(s) => (*s).to_owned(), Variant::IntegerLiteral(n) => n.to_string(), _ => String::new() })).collect();
        out.stat("layout:checked");
        if gap_has_nl.iter().any(|b| *b) { out.stat("layout:with-newline"); }
        if text.contains('#') { out.stat("layout:with-comment"); }
        if got != expected {
            out.hit("C10", "layout-changes-token-stream", &escape(&text), &format!("expected kinds {:?}, tokenizer gave {:?}", expected, got));
        }
    } else if let Ok(Err(_)) = r {
        out.hit("C10", "layout-text-rejected", &escape(&text), "text built only from tokens, blanks and comments was rejected");
    }
}

// one representative per behaviour class of the tokenizer; `²` and `٣` are alphanumeric but neither alphabetic nor
// ASCII digits (they may continue a word but not start one, and are not part of a number)
pub const ALPHABET: [&str; 26] = [
    "a", "f", "i", "1", "0", "_", "*", ":", "(", ")", "-", ">", "=", "<", ";", "#", "\n", " ", "\t", "\r",
    "\u{a0}", "é", "$", "\u{301}", "²", "٣",
];

pub fn run(out: &mut Out, tier: &str, seed: u64) {
    let mut rng = Rng::new(seed ^ 0xC09);
    // all strings up to a length bound over the class-representative alphabet
    let max_len = if tier == "thorough" { 4 } else { 3 };
    let mut count = 0u64;
    for len in 0..=max_len {
        let mut idx = vec![0usize; len];
        loop {
            let s: String = idx.iter().map(|i| ALPHABET[*i]).collect();
            check_text(out, &s);
            count += 1;
            let mut k = 0;
            while k < len { idx[k] += 1; if idx[k] < ALPHABET.len() { break; } idx[k] = 0; k += 1; }
            if k == len { break; }
        }
    }
    out.stat_add("exhaustive-strings", count);
    // a layout-focused alphabet, longer strings
    let lay: [&str; 10] = ["a", "1", "+", "(", ")", ";", "#", "\n", " ", "é"];
    let lmax = if tier == "thorough" { 6 } else { 5 };
    for len in 4..=lmax {
        let total = lay.len().pow(len as u32);
        let take = if tier == "thorough" { total } else { total.min(60000) };
        for j in 0..take {
            let mut x = if take == total { j } else { rng.below(total) };
            let mut s = String::new();
            for _ in 0..len { s.push_str(lay[x % lay.len()]); x /= lay.len(); }
            check_text(out, &s);
        }
    }
    // random longer Unicode texts built from fragments
    let frags: [&str; 44] = ["x", "foo", "if", "then", "else", "type", "int", "bool", "true", "false", "iff", "int2", "λ", "é", "𝐀",
        "42", "0", "18446744073709551616", " ", "  ", "\n", "\t", "\r\n", "# c\n", "#\n", "# é\n", "+", "-", "->", "=>", "==", "=", "<=", ">=",
        "(", ")", "{", "}", "$", "👩\u{200d}💻", "²", "x²", "½", "１"];
    let n_random = if tier == "thorough" { 200000 } else { 20000 };
    for _ in 0..n_random {
        let big = rng.chance(1, 10); let n = 1 + rng.below(if big { 120 } else { 14 });
        let mut s = String::new();
        for _ in 0..n { s.push_str(frags[rng.below(frags.len())]); }
        check_text(out, &s);
    }
    // the render/tokenize law (C10)
    let n_layout = if tier == "thorough" { 200000 } else { 20000 };
    for _ in 0..n_layout { check_layout(out, &mut rng); }
}
