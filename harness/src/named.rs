// An independent named-term implementation of substitution, used as the oracle for C11
// ("shifting and opening agree with capture-avoiding substitution on named terms").
// Every binder receives a globally fresh name, so naive substitution cannot capture.
use crate::term::{Term, Variant};
use num_bigint::BigInt;
use std::rc::Rc;

#[derive(Clone, Debug, PartialEq)]
pub enum N {
    Leaf(u8), // 0 type 1 int 2 bool 3 true 4 false
    Lit(BigInt),
    Var(String),
    Lam(String, bool, Box<N>, Box<N>),
    Pi(String, bool, Box<N>, Box<N>),
    App(Box<N>, Box<N>),
    Let(Vec<(String, N, N)>, Box<N>),
    Neg(Box<N>),
    Bin(u8, Box<N>, Box<N>),
    If(Box<N>, Box<N>, Box<N>),
}

pub struct Fresh(pub usize);
impl Fresh {
    fn next(&mut self) -> String {
        self.0 += 1;
        format!("$b{}", self.0)
    }
}

// ctx: names of the enclosing binders, innermost last. Returns None on holes / unbound indices.
pub fn to_named(t: &Term, ctx: &mut Vec<String>, fresh: &mut Fresh) -> Option<N> {
    use Variant::*;
    let bin = |op: u8, a: &Term, b: &Term, ctx: &mut Vec<String>, fresh: &mut Fresh| -> Option<N> {
        Some(N::Bin(op, Box::new(to_named(a, ctx, fresh)?), Box::new(to_named(b, ctx, fresh)?)))
    };
    Some(match &t.variant {
        Unifier(_, _) => return None,
        Type => N::Leaf(0),
        Integer => N::Leaf(1),
        Boolean => N::Leaf(2),
        True => N::Leaf(3),
        False => N::Leaf(4),
        IntegerLiteral(n) => N::Lit(n.clone()),
        Variable(_, i) => {
            if *i >= ctx.len() { return None; }
            N::Var(ctx[ctx.len() - 1 - i].clone())
        }
        Lambda(_, imp, d, b) => {
            let d = to_named(d, ctx, fresh)?;
            let x = fresh.next();
            ctx.push(x.clone());
            let b = to_named(b, ctx, fresh);
            ctx.pop();
            N::Lam(x, *imp, Box::new(d), Box::new(b?))
        }
        Pi(_, imp, d, b) => {
            let d = to_named(d, ctx, fresh)?;
            let x = fresh.next();
            ctx.push(x.clone());
            let b = to_named(b, ctx, fresh);
            ctx.pop();
            N::Pi(x, *imp, Box::new(d), Box::new(b?))
        }
        Application(f, a) => N::App(Box::new(to_named(f, ctx, fresh)?), Box::new(to_named(a, ctx, fresh)?)),
        Let(defs, body) => {
            let names: Vec<String> = defs.iter().map(|_| fresh.next()).collect();
            for x in &names { ctx.push(x.clone()); }
            let mut out = vec![];
            let mut ok = true;
            for (k, (_, ann, def)) in defs.iter().enumerate() {
                match (to_named(ann, ctx, fresh), to_named(def, ctx, fresh)) {
                    (Some(a), Some(d)) => out.push((names[k].clone(), a, d)),
                    _ => { ok = false; break; }
                }
            }
            let b = if ok { to_named(body, ctx, fresh) } else { None };
            for _ in &names { ctx.pop(); }
            N::Let(out, Box::new(b?))
        }
        Negation(a) => N::Neg(Box::new(to_named(a, ctx, fresh)?)),
        Sum(a, b) => bin(0, a, b, ctx, fresh)?,
        Difference(a, b) => bin(1, a, b, ctx, fresh)?,
        Product(a, b) => bin(2, a, b, ctx, fresh)?,
        Quotient(a, b) => bin(3, a, b, ctx, fresh)?,
        LessThan(a, b) => bin(4, a, b, ctx, fresh)?,
        LessThanOrEqualTo(a, b) => bin(5, a, b, ctx, fresh)?,
        EqualTo(a, b) => bin(6, a, b, ctx, fresh)?,
        GreaterThan(a, b) => bin(7, a, b, ctx, fresh)?,
        GreaterThanOrEqualTo(a, b) => bin(8, a, b, ctx, fresh)?,
        If(c, a, b) => N::If(
            Box::new(to_named(c, ctx, fresh)?),
            Box::new(to_named(a, ctx, fresh)?),
            Box::new(to_named(b, ctx, fresh)?),
        ),
    })
}

// Naive substitution [x := u] (sound because binder names are globally fresh).
pub fn subst(t: &N, x: &str, u: &N) -> N {
    let s = |t: &N| Box::new(subst(t, x, u));
    match t {
        N::Leaf(_) | N::Lit(_) => t.clone(),
        N::Var(y) => if y == x { u.clone() } else { t.clone() },
        N::Lam(y, i, d, b) => N::Lam(y.clone(), *i, s(d), s(b)),
        N::Pi(y, i, d, b) => N::Pi(y.clone(), *i, s(d), s(b)),
        N::App(f, a) => N::App(s(f), s(a)),
        N::Let(ds, b) => N::Let(
            ds.iter().map(|(y, a, d)| (y.clone(), subst(a, x, u), subst(d, x, u))).collect(),
            s(b),
        ),
        N::Neg(a) => N::Neg(s(a)),
        N::Bin(o, a, b) => N::Bin(*o, s(a), s(b)),
        N::If(c, a, b) => N::If(s(c), s(a), s(b)),
    }
}

// Back to de Bruijn, names erased to "_" (compare with names erased on the other side as well).
pub fn from_named<'a>(t: &N, ctx: &mut Vec<String>) -> Option<Term<'a>> {
    use Variant::*;
    let mk = |v| Term { source_range: None, variant: v };
    Some(match t {
        N::Leaf(0) => mk(Type),
        N::Leaf(1) => mk(Integer),
        N::Leaf(2) => mk(Boolean),
        N::Leaf(3) => mk(True),
        N::Leaf(_) => mk(False),
        N::Lit(n) => mk(IntegerLiteral(n.clone())),
        N::Var(x) => {
            let pos = ctx.iter().rposition(|y| y == x)?;
            mk(Variable("_", ctx.len() - 1 - pos))
        }
        N::Lam(x, i, d, b) => {
            let d = from_named(d, ctx)?;
            ctx.push(x.clone());
            let b = from_named(b, ctx);
            ctx.pop();
            mk(Lambda("_", *i, Rc::new(d), Rc::new(b?)))
        }
        N::Pi(x, i, d, b) => {
            let d = from_named(d, ctx)?;
            ctx.push(x.clone());
            let b = from_named(b, ctx);
            ctx.pop();
            mk(Pi("_", *i, Rc::new(d), Rc::new(b?)))
        }
        N::App(f, a) => mk(Application(Rc::new(from_named(f, ctx)?), Rc::new(from_named(a, ctx)?))),
        N::Let(ds, b) => {
            for (x, _, _) in ds { ctx.push(x.clone()); }
            let mut out = vec![];
            let mut ok = true;
            for (_, a, d) in ds {
                match (from_named(a, ctx), from_named(d, ctx)) {
                    (Some(a), Some(d)) => out.push(("_", Rc::new(a), Rc::new(d))),
                    _ => { ok = false; break; }
                }
            }
            let b = if ok { from_named(b, ctx) } else { None };
            for _ in ds { ctx.pop(); }
            mk(Let(out, Rc::new(b?)))
        }
        N::Neg(a) => mk(Negation(Rc::new(from_named(a, ctx)?))),
        N::Bin(o, a, b) => {
            let a = Rc::new(from_named(a, ctx)?);
            let b = Rc::new(from_named(b, ctx)?);
            mk(match o {
                0 => Sum(a, b), 1 => Difference(a, b), 2 => Product(a, b), 3 => Quotient(a, b),
                4 => LessThan(a, b), 5 => LessThanOrEqualTo(a, b), 6 => EqualTo(a, b),
                7 => GreaterThan(a, b), _ => GreaterThanOrEqualTo(a, b),
            })
        }
        N::If(c, a, b) => mk(If(
            Rc::new(from_named(c, ctx)?),
            Rc::new(from_named(a, ctx)?),
            Rc::new(from_named(b, ctx)?),
        )),
    })
}
