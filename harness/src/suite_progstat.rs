// Suite `progstat`: distribution and self-validation of the G-prog generator (src/prog.rs).
// Every generated program is rendered, run through the REAL pipeline (tokenize, parse,
// type_check, step) and compared with what the generator expects; so are its meaning-preserving
// rewrites. Perturbed (ill-typed) variants are only counted. Nothing is written with `out.case`.
//
// Environment knobs for debugging: GPROG_N (number of programs), GPROG_DUMP (print the first k
// programs with their outcome), GPROG_CFG (force configuration number 0..5).
use crate::evaluator::{is_value, step};
use crate::out::{guarded, Out};
use crate::parser::parse;
use crate::prog::{self, Expected, GenCfg, Prog, Style, E};
use crate::rng::Rng;
use crate::term::{Term, Variant};
use crate::tokenizer::tokenize;
use crate::type_checker::type_check;
use num_bigint::BigInt;

pub const MAX_STEPS: usize = 20_000;

// What the real implementation did with one source text.
#[derive(Clone, Debug, PartialEq)]
pub enum Outcome {
    TokenizeError(String),
    ParseError(String),
    TypeError(String),
    Panic(&'static str, String), // (stage, message)
    Int(BigInt),
    Bool(bool),
    Function,
    Type,
    Stuck(String),
    OutOfSteps,
}

impl Outcome {
    pub fn accepted(&self) -> bool {
        !matches!(self, Outcome::TokenizeError(_) | Outcome::ParseError(_) | Outcome::TypeError(_) | Outcome::Panic(..))
    }
    fn short(&self) -> String {
        let s = match self {
            Outcome::TokenizeError(m) => format!("tokenize error: {m}"),
            Outcome::ParseError(m) => format!("parse error: {m}"),
            Outcome::TypeError(m) => format!("type error: {m}"),
            Outcome::Panic(st, m) => format!("panic in {st}: {m}"),
            Outcome::Int(n) => format!("int {n}"),
            Outcome::Bool(b) => format!("bool {b}"),
            Outcome::Function => "function".to_owned(),
            Outcome::Type => "type".to_owned(),
            Outcome::Stuck(t) => format!("stuck at {t}"),
            Outcome::OutOfSteps => "out of steps".to_owned(),
        };
        let s = s.replace('\n', " | ");
        if s.chars().count() > 400 { s.chars().take(400).collect::<String>() + "..." } else { s }
    }
}

pub fn first_error(errs: &[crate::error::Error]) -> String {
    errs.first().map_or_else(String::new, |e| e.message.clone())
}

// Canonical, fully bracketed form of gram's parse tree (names, not indices).
pub fn canon_term(t: &Term) -> String {
    use Variant::*;
    let b2 = |n: &str, a: &Term, b: &Term| format!("({n} {} {})", canon_term(a), canon_term(b));
    match &t.variant {
        Unifier(r, _) => match r.borrow().clone() { Some(x) => canon_term(&x), None => "_".to_owned() },
        Type => "type".to_owned(),
        Variable(x, _) => (*x).to_owned(),
        Lambda(x, i, d, b) => format!("(lam{} {x} {} {})", if *i { "!" } else { "" }, canon_term(d), canon_term(b)),
        Pi(x, i, d, b) => format!("(pi{} {x} {} {})", if *i { "!" } else { "" }, canon_term(d), canon_term(b)),
        Application(a, b) => b2("app", a, b),
        Let(defs, body) => {
            let ds: Vec<String> = defs.iter().map(|(x, a, d)| format!("[{x} {} {}]", canon_term(a), canon_term(d))).collect();
            format!("(let {} {})", ds.join(" "), canon_term(body))
        }
        Integer => "int".to_owned(),
        IntegerLiteral(n) => n.to_string(),
        Negation(a) => format!("(neg {})", canon_term(a)),
        Sum(a, b) => b2("+", a, b),
        Difference(a, b) => b2("-", a, b),
        Product(a, b) => b2("*", a, b),
        Quotient(a, b) => b2("/", a, b),
        LessThan(a, b) => b2("<", a, b),
        LessThanOrEqualTo(a, b) => b2("<=", a, b),
        EqualTo(a, b) => b2("==", a, b),
        GreaterThan(a, b) => b2(">", a, b),
        GreaterThanOrEqualTo(a, b) => b2(">=", a, b),
        Boolean => "bool".to_owned(),
        True => "true".to_owned(),
        False => "false".to_owned(),
        If(c, a, b) => format!("(if {} {} {})", canon_term(c), canon_term(a), canon_term(b)),
    }
}

// The same canonical form for the generator's tree.
pub fn canon_e(e: &E) -> String {
    let opt = |a: &Option<Box<E>>| a.as_ref().map_or("_".to_owned(), |a| canon_e(a));
    match e {
        E::Lit(n) => n.to_string(),
        E::True => "true".to_owned(),
        E::False => "false".to_owned(),
        E::TyInt => "int".to_owned(),
        E::TyBool => "bool".to_owned(),
        E::TyType => "type".to_owned(),
        E::Hole => "_".to_owned(),
        E::Var(x) => x.clone(),
        E::Lam { var, implicit, ann, body } => format!("(lam{} {var} {} {})", if *implicit { "!" } else { "" }, opt(ann), canon_e(body)),
        E::Pi { var, implicit, dom, cod } => {
            format!("(pi{} {} {} {})", if *implicit { "!" } else { "" }, var.as_deref().unwrap_or("_"), canon_e(dom), canon_e(cod))
        }
        E::App(a, b) => format!("(app {} {})", canon_e(a), canon_e(b)),
        E::Let(..) => {
            let mut ds = vec![];
            let mut cur = e;
            while let E::Let(defs, body) = prog::strip(cur) {
                for (x, a, d) in defs {
                    ds.push(format!("[{x} {} {}]", a.as_ref().map_or("_".to_owned(), canon_e), canon_e(d)));
                }
                cur = body;
            }
            format!("(let {} {})", ds.join(" "), canon_e(cur))
        }
        E::Neg(a) => format!("(neg {})", canon_e(a)),
        E::Bin(op, a, b) => format!("({} {} {})", prog::OPS[*op as usize % 9], canon_e(a), canon_e(b)),
        E::If(c, a, b) => format!("(if {} {} {})", canon_e(c), canon_e(a), canon_e(b)),
        E::Paren(x) => canon_e(x),
    }
}

pub struct Run {
    pub outcome: Outcome,
    pub tree_matches: Option<bool>, // None when parsing failed
    pub steps: usize,
}

// Run the real pipeline on one source text. `tree` = the generator's tree to compare the parse with.
pub fn run_pipeline(src: &str, tree: Option<&E>) -> Run {
    let mut tree_matches = None;
    let mut steps = 0usize;
    let tokens = match guarded(|| tokenize(None, src)) {
        Err(m) => return Run { outcome: Outcome::Panic("tokenize", m), tree_matches, steps },
        Ok(Err(e)) => return Run { outcome: Outcome::TokenizeError(first_error(&e)), tree_matches, steps },
        Ok(Ok(t)) => t,
    };
    let term = match guarded(|| parse(None, src, &tokens[..], &[])) {
        Err(m) => return Run { outcome: Outcome::Panic("parse", m), tree_matches, steps },
        Ok(Err(e)) => return Run { outcome: Outcome::ParseError(first_error(&e)), tree_matches, steps },
        Ok(Ok(t)) => t,
    };
    if let Some(e) = tree {
        tree_matches = Some(canon_term(&term) == canon_e(e));
    }
    let elaborated = match guarded(|| type_check(None, src, &term, &mut vec![], &mut vec![])) {
        Err(m) => return Run { outcome: Outcome::Panic("type_check", m), tree_matches, steps },
        Ok(Err(e)) => return Run { outcome: Outcome::TypeError(first_error(&e)), tree_matches, steps },
        Ok(Ok((t, _))) => t,
    };
    let r = guarded(|| {
        let mut cur = elaborated.clone();
        let mut n = 0usize;
        loop {
            match step(&cur) {
                Some(next) => {
                    cur = next;
                    n += 1;
                    if n >= MAX_STEPS { return (None, n); }
                }
                None => return (Some(cur), n),
            }
        }
    });
    let outcome = match r {
        Err(m) => Outcome::Panic("evaluate", m),
        Ok((None, n)) => { steps = n; Outcome::OutOfSteps }
        Ok((Some(v), n)) => {
            steps = n;
            match &v.variant {
                Variant::IntegerLiteral(k) => Outcome::Int(k.clone()),
                Variant::True => Outcome::Bool(true),
                Variant::False => Outcome::Bool(false),
                Variant::Lambda(..) => Outcome::Function,
                Variant::Type | Variant::Integer | Variant::Boolean | Variant::Pi(..) => Outcome::Type,
                _ => {
                    let s = v.to_string();
                    Outcome::Stuck(if s.chars().count() > 200 { s.chars().take(200).collect::<String>() + "..." } else { s })
                }
            }
        }
    };
    Run { outcome, tree_matches, steps }
}

// Does the implementation's outcome agree with the expectation?
#[derive(Clone, Copy, Debug, PartialEq)]
pub enum Verdict { Match, Mismatch, Stuck, OutOfSteps, Rejected, NoExpectation }

pub fn judge(expected: &Expected, got: &Outcome) -> Verdict {
    if !got.accepted() { return Verdict::Rejected; }
    match (expected, got) {
        (Expected::Diverges | Expected::Unknown, _) => Verdict::NoExpectation,
        (_, Outcome::OutOfSteps) => Verdict::OutOfSteps,
        (Expected::Int(a), Outcome::Int(b)) if a == b => Verdict::Match,
        (Expected::Bool(a), Outcome::Bool(b)) if a == b => Verdict::Match,
        (Expected::Function, Outcome::Function) | (Expected::Type, Outcome::Type) | (Expected::DivZero, Outcome::Stuck(_)) => Verdict::Match,
        (_, Outcome::Stuck(_)) => Verdict::Stuck,
        _ => Verdict::Mismatch,
    }
}

// percent of the generated programs that mix in dependently typed constructions (prog.rs section 5b)
pub const DEPENDENT_SHARE: u8 = 35;

// debugging knob: GPROG_DEP overrides the share
fn dep_share() -> u8 { std::env::var("GPROG_DEP").ok().and_then(|s| s.parse().ok()).unwrap_or(DEPENDENT_SHARE) }

pub fn cfg_mix(k: usize, rng: &mut Rng) -> GenCfg {
    let size = [8, 15, 25, 40, 60, 90][rng.below(6)];
    match k {
        // fully annotated, everything that gram is expected to handle
        0 | 1 => GenCfg { size, allow_holes: false, allow_forward_refs: false, allow_nested_groups: true, allow_div: true, big_literals: true, dependent: dep_share() },
        // no division: the value is always a literal
        2 => GenCfg { size, allow_holes: false, allow_forward_refs: false, allow_nested_groups: rng.chance(1, 2), allow_div: false, big_literals: rng.chance(1, 2), dependent: dep_share() },
        // holes
        3 | 4 => GenCfg { size, allow_holes: true, allow_forward_refs: false, allow_nested_groups: true, allow_div: rng.chance(1, 2), big_literals: true, dependent: dep_share() },
        // forward references (known to get stuck in gram)
        _ => GenCfg { size, allow_holes: rng.chance(1, 3), allow_forward_refs: true, allow_nested_groups: true, allow_div: false, big_literals: false, dependent: dep_share() },
    }
}

pub fn style_mix(rng: &mut Rng) -> Style {
    Style { newlines: rng.chance(1, 2), redundant_parens: [0, 0, 5, 15][rng.below(4)], comments: rng.chance(1, 3) }
}

fn size_bucket(n: usize) -> &'static str {
    match n {
        0..=5 => "001-005",
        6..=10 => "006-010",
        11..=20 => "011-020",
        21..=40 => "021-040",
        41..=80 => "041-080",
        81..=160 => "081-160",
        _ => "161+",
    }
}

struct Printer { left: usize }
impl Printer {
    fn show(&mut self, what: &str, src: &str, p: &Prog, got: &Outcome) {
        if self.left == 0 { return; }
        self.left -= 1;
        eprintln!("=== {what}\n--- expected {:?} : {}  features {:?}\n--- got {}\n{}\n", p.expected, p.ty_src, p.features, got.short(), src);
    }
}

pub fn run(out: &mut Out, tier: &str, seed: u64) {
    let n: usize = std::env::var("GPROG_N").ok().and_then(|s| s.parse().ok()).unwrap_or(if tier == "thorough" { 30_000 } else { 3_000 });
    let dump: usize = std::env::var("GPROG_DUMP").ok().and_then(|s| s.parse().ok()).unwrap_or(0);
    let force_cfg: Option<usize> = std::env::var("GPROG_CFG").ok().and_then(|s| s.parse().ok());
    let mut rejects = Printer { left: 20 };
    let mut mismatches = Printer { left: 20 };
    let mut rw_print = Printer { left: 20 };
    let mut tree_print = Printer { left: 10 };
    let mut excused = Printer { left: 20 };
    let verbose = std::env::var("GPROG_VERBOSE").is_ok();
    let trace = std::env::var("GPROG_TRACE").is_ok();

    for i in 0..n {
        // everything about program i derives from (seed, i)
        let mut rng = Rng::new(seed.wrapping_mul(0x1000_0000_01B3).wrapping_add(i as u64));
        let k = force_cfg.unwrap_or_else(|| rng.below(6));
        let cfg = cfg_mix(k, &mut rng);
        if trace { eprintln!("#trace program {i} generating"); }
        let p = prog::gen_program(&mut rng, &cfg);
        if trace { eprintln!("#trace program {i}: {}", prog::render_plain(&p.e)); }
        let style = style_mix(&mut rng);
        let rendered = prog::render_ex(&p.e, &style, &mut rng);
        let src = rendered.text.as_str();
        let run = run_pipeline(src, Some(&p.e));
        let verdict = judge(&p.expected, &run.outcome);

        out.stat("programs");
        out.stat(&format!("cfg:{k}"));
        out.stat(&format!("size:{}", size_bucket(prog::size(&p.e))));
        out.stat(&format!("expected:{}", match &p.expected {
            Expected::Int(_) => "int", Expected::Bool(_) => "bool", Expected::Function => "function", Expected::Type => "type",
            Expected::DivZero => "divzero", Expected::Diverges => "diverges", Expected::Unknown => "unknown",
        }));
        if p.fully_annotated { out.stat("fully-annotated"); }
        for f in &p.features { out.stat(&format!("feature:{f}")); }
        out.stat_add("steps-total", run.steps as u64);
        out.stat(&format!("steps:{}", match run.steps { 0..=9 => "0000-0009", 10..=99 => "0010-0099", 100..=999 => "0100-0999", 1000..=4999 => "1000-4999", _ => "5000+" }));
        if rendered.reassoc_defect_sites > 0 { out.stat("text-has-known-reassoc-defect-shape"); }

        let fwd = p.features.contains(&"forward-ref");
        let holes = !p.fully_annotated;
        let reassoc = rendered.reassoc_defect_sites > 0;
        match run.tree_matches {
            Some(true) => {
                out.stat("parse-tree:same");
                if reassoc {
                    out.stat("parse-tree:same-despite-defect-shape");
                    if verbose { excused.show("defect shape but same tree", src, &p, &run.outcome); }
                }
            }
            Some(false) if reassoc => out.stat("parse-tree:differs(known-reassoc-defect)"),
            Some(false) => {
                out.stat("parse-tree:DIFFERS");
                tree_print.show("parse tree differs from the generated tree", src, &p, &run.outcome);
            }
            None => {}
        }
        match &run.outcome {
            Outcome::TokenizeError(_) => out.stat("rejected:tokenize"),
            Outcome::ParseError(_) => out.stat("rejected:parse"),
            Outcome::TypeError(_) => out.stat("rejected:type_check"),
            Outcome::Panic(st, _) => out.stat(&format!("panic:{st}")),
            _ => out.stat("accepted"),
        }
        let excuse = if reassoc { Some("known-reassoc-defect") } else if fwd { Some("known-forward-ref") } else if holes { Some("holes") } else { None };
        if p.features.contains(&"dependent-mode") { out.stat("dependent-mode"); if p.fully_annotated { out.stat("dependent-mode:fully-annotated"); } }
        // a program with a deliberate near miss has to be rejected by the type checker
        if let Some(why) = p.expect_reject {
            out.stat("near-miss:programs");
            out.stat(&format!("near-miss:{why}"));
            match &run.outcome {
                Outcome::TypeError(_) => out.stat("near-miss:rejected-by-type-checker(as expected)"),
                Outcome::ParseError(_) if fwd => out.stat("near-miss:rejected-by-parser(known-forward-ref)"),
                o => {
                    out.stat(&format!("near-miss:NOT-REJECTED-BY-TYPE-CHECKER:{why}"));
                    mismatches.show(&format!("near miss ({why}) not rejected by the type checker"), src, &p, o);
                    out.hit("progstat", "near-miss-not-rejected", src, &format!("{why}: got {}", o.short()));
                }
            }
            continue;
        }
        match verdict {
            Verdict::Match => out.stat("value:matches"),
            Verdict::NoExpectation => out.stat("value:no-expectation"),
            Verdict::Rejected => {
                match excuse {
                    Some(x) => {
                        out.stat(&format!("rejected-with-excuse:{x}"));
                        if verbose && x != "known-reassoc-defect" { excused.show("excused program rejected", src, &p, &run.outcome); }
                    }
                    None => {
                        out.stat("rejected:UNEXPECTED(fully-annotated)");
                        rejects.show("fully annotated program rejected", src, &p, &run.outcome);
                    }
                }
            }
            Verdict::Mismatch | Verdict::Stuck | Verdict::OutOfSteps => {
                let kind = match verdict { Verdict::Mismatch => "mismatch", Verdict::Stuck => "stuck", _ => "out-of-steps" };
                match excuse {
                    Some(x) if x != "holes" || verdict == Verdict::Stuck => out.stat(&format!("value:{kind}({x})")),
                    _ => {
                        out.stat(&format!("value:{}", kind.to_uppercase()));
                        mismatches.show(&format!("value {kind}"), src, &p, &run.outcome);
                        out.hit("progstat", &format!("value-{kind}"), src, &format!("expected {:?}, got {}", p.expected, run.outcome.short()));
                    }
                }
            }
        }
        if i < dump {
            eprintln!("##### program {i} cfg {k} {:?}\n{}\n##### expected {:?} : {} got {} ({} steps)\n", p.features, src, p.expected, p.ty_src, run.outcome.short(), run.steps);
        }

        // Rewrites: must be accepted with the same value whenever the original was handled right.
        let base_ok = verdict == Verdict::Match && run.tree_matches == Some(true);
        if base_ok {
            let plain = Style { newlines: style.newlines, redundant_parens: 0, comments: false };
            let keep_types = p.features.contains(&"dep-recursive-type-family");
            let mut rws = prog::rewrites_opt(&p.e, &mut rng, keep_types);
            rws.extend(prog::rewrites_groups(&p.e, &mut rng, 3, keep_types));
            for (kind, e2) in rws {
                let r2 = prog::render_ex(&e2, &plain, &mut rng);
                if trace { eprintln!("#trace rewrite {kind}: {}", r2.text); }
                let run2 = run_pipeline(&r2.text, Some(&e2));
                // the rewritten program has its own expectation, which must equal the original's
                let exp2 = prog::reference_eval(&e2, 400_000);
                out.stat(&format!("rewrite:{kind}:tried"));
                if exp2 != p.expected {
                    out.stat(&format!("rewrite:{kind}:REFERENCE-CHANGED"));
                    rw_print.show(&format!("rewrite {kind} changed the reference value to {exp2:?}; original:\n{src}\nrewritten:"), &r2.text, &p, &run2.outcome);
                    continue;
                }
                let v2 = judge(&p.expected, &run2.outcome);
                if v2 == Verdict::Match {
                    out.stat(&format!("rewrite:{kind}:same-value"));
                } else if r2.reassoc_defect_sites > 0 {
                    out.stat(&format!("rewrite:{kind}:differs(known-reassoc-defect)"));
                } else if fwd {
                    // the rewrite may move a forward reference to where it is evaluated
                    out.stat(&format!("rewrite:{kind}:differs(known-forward-ref)"));
                } else if holes {
                    // holes are fragile in gram: a rewrite can change what inference manages
                    out.stat(&format!("rewrite:{kind}:differs(holes)"));
                    if verbose { excused.show(&format!("rewrite {kind} of a program with holes not preserved; original:\n{src}\nrewritten:"), &r2.text, &p, &run2.outcome); }
                } else {
                    out.stat(&format!("rewrite:{kind}:{}", match v2 { Verdict::Rejected => "REJECTED", Verdict::Stuck => "STUCK", Verdict::OutOfSteps => "OUT-OF-STEPS", _ => "MISMATCH" }));
                    rw_print.show(&format!("rewrite {kind} not preserved; original:\n{src}\nrewritten:"), &r2.text, &p, &run2.outcome);
                    out.hit("progstat", &format!("rewrite-{kind}"), &r2.text, &format!("original {src} => {:?}; rewritten gave {}", p.expected, run2.outcome.short()));
                }
            }
        }

        // One ill-typed / ill-scoped perturbation: only counted. (Not for programs with a recursive
        // type family: an ill-typed variant can take away its base case, and gram's checker, which
        // goes on after the first diagnostic, then normalises for ever.)
        if p.features.contains(&"dep-recursive-type-family") { out.stat("perturb:skipped(recursive-type-family)"); continue; }
        if let Some((kind, e3)) = prog::perturb(&p.e, &mut rng) {
            let text = prog::render_plain(&e3);
            if trace { eprintln!("#trace perturb {kind}: {text}"); }
            let run3 = run_pipeline(&text, None);
            out.stat(&format!("perturb:{kind}:tried"));
            out.stat(&format!("perturb:{kind}:{}", match &run3.outcome {
                Outcome::TokenizeError(_) | Outcome::ParseError(_) => "rejected-by-parser",
                Outcome::TypeError(_) => "rejected-by-type-checker",
                Outcome::Panic(..) => "panic",
                Outcome::Stuck(_) => "accepted-then-stuck",
                Outcome::OutOfSteps => "accepted-out-of-steps",
                _ => "accepted-and-evaluated",
            }));
        }
    }
}
