// Running source text through the real pipeline, and the observations the suites make on it.
use crate::evaluator::{is_value, step};
use crate::out::guarded;
use crate::parser::parse;
use crate::ser::{HoleMode, Ser};
use crate::ser_store::{ctx_fingerprint, dctx_str, tctx_str, DCtx, StoreSer, TCtx};
use crate::term::{Term, Variant};
use crate::token::Token;
use crate::tokenizer::tokenize;
use crate::type_checker::type_check;
use std::collections::HashMap;

pub const EVAL_CAP: usize = 20000;

// hook H2 (feature verif-hooks in /repo): how often `open` met an unresolved unifier so far
pub fn holecopy_events() -> usize {
    crate::de_bruijn::verif_hooks::OPEN_UNRESOLVED.with(|c| c.get())
}

// hook H4: `signed_shift` by a non-zero amount left an unresolved unifier below the cutoff untouched
pub fn holedepth_events() -> usize {
    crate::de_bruijn::verif_hooks::SHIFT_BELOW_CUTOFF.with(|c| c.get())
}

pub enum Stage<'a> {
    TokErr(usize),
    ParseErr(usize),
    Parsed(Term<'a>),
    Panic(&'static str, String),
}

// Tokens must outlive the term; the caller owns them.
pub fn front<'a>(src: &'a str, tokens: &'a mut Vec<Token<'a>>) -> Stage<'a> {
    match guarded(|| tokenize(None, src)) {
        Err(m) => return Stage::Panic("tokenize", m),
        Ok(Err(es)) => return Stage::TokErr(es.len()),
        Ok(Ok(ts)) => *tokens = ts,
    }
    let toks: &'a [Token<'a>] = &tokens[..];
    match guarded(|| parse(None, src, toks, &[])) {
        Err(m) => Stage::Panic("parse", m),
        Ok(Err(es)) => Stage::ParseErr(es.len()),
        Ok(Ok(t)) => Stage::Parsed(t),
    }
}

#[derive(Debug, Clone, PartialEq)]
pub enum Final { Value, Stuck(&'static str), Cap }

// Why a term that neither steps nor is a value is stuck (mirrors C01's classification; written
// independently of the Lean `stuckReason`).
pub fn stuck_reason(t: &Term) -> &'static str {
    use Variant::*;
    let lit = |x: &Term| matches!(x.variant, IntegerLiteral(_));
    match &t.variant {
        Unifier(c, _) => if c.borrow().is_some() { "steps" } else { "hole" },
        Variable(_, _) => "variable",
        Application(f, a) => {
            if step(f).is_some() { return "steps"; }
            if !is_value(f) { return stuck_reason(f); }
            if step(a).is_some() { return "steps"; }
            if !is_value(a) { return stuck_reason(a); }
            if matches!(f.variant, Lambda(..)) { "steps" } else { "not-function" }
        }
        Let(defs, _) => match defs.first() {
            None => "steps",
            Some((_, _, d)) => {
                if step(d).is_some() { "steps" } else if !is_value(d) { stuck_reason(d) } else { "steps" }
            }
        },
        Negation(a) => {
            if step(a).is_some() { return "steps"; }
            if !is_value(a) { return stuck_reason(a); }
            if lit(a) { "steps" } else { "arith-kind" }
        }
        Sum(a, b) | Difference(a, b) | Product(a, b) | LessThan(a, b) | LessThanOrEqualTo(a, b)
        | EqualTo(a, b) | GreaterThan(a, b) | GreaterThanOrEqualTo(a, b) => {
            if step(a).is_some() { return "steps"; }
            if !is_value(a) { return stuck_reason(a); }
            if step(b).is_some() { return "steps"; }
            if !is_value(b) { return stuck_reason(b); }
            if lit(a) && lit(b) { "steps" } else { "arith-kind" }
        }
        Quotient(a, b) => {
            if step(a).is_some() { return "steps"; }
            if !is_value(a) { return stuck_reason(a); }
            if step(b).is_some() { return "steps"; }
            if !is_value(b) { return stuck_reason(b); }
            match (&a.variant, &b.variant) {
                (IntegerLiteral(_), IntegerLiteral(y)) => if *y == num_bigint::BigInt::from(0) { "div-zero" } else { "steps" },
                _ => "arith-kind",
            }
        }
        If(c, _, _) => {
            if step(c).is_some() { return "steps"; }
            if !is_value(c) { return stuck_reason(c); }
            if matches!(c.variant, True | False) { "steps" } else { "branch-kind" }
        }
        _ => "value",
    }
}

pub fn run_eval<'a>(t: &Term<'a>, cap: usize) -> Result<(Final, Term<'a>, usize), String> {
    guarded(|| {
        let mut cur = t.clone();
        let mut n = 0usize;
        let t0 = std::time::Instant::now();
        loop {
            if n >= cap { return (Final::Cap, cur, n); }
            // wall-clock guard (terms that grow at every step make single steps slow): reported as a
            // time-out (step count usize::MAX), which the comparison with the model skips
            if n % 16 == 15 && t0.elapsed().as_secs() >= 8 { return (Final::Cap, cur, usize::MAX); }
            match step(&cur) {
                Some(next) => { cur = next; n += 1; }
                None => break,
            }
        }
        if is_value(&cur) { (Final::Value, cur, n) } else { let r = stuck_reason(&cur); (Final::Stuck(r), cur, n) }
    })
}

pub struct Checked<'a> {
    pub op: String,            // the `infer` op line
    pub answer: String,        // the implementation's answer in the protocol
    pub accepted: Option<(Term<'a>, Term<'a>)>,
    pub nerrs: usize,
    pub ctx_restored: bool,
    pub panic: Option<String>,
}

// type_check under the given contexts; builds the op line and the canonical answer
pub fn check_term<'a>(names: &mut Ser, src: &'a str, term: &Term<'a>, tctx: &mut TCtx<'a>, dctx: &mut DCtx<'a>) -> Checked<'a> {
    let mut ss = StoreSer::new();
    let ts = ss.term(names, term);
    let tc = tctx_str(&mut ss, names, tctx);
    let dc = dctx_str(&mut ss, names, dctx);
    let st = ss.store(names);
    let op = format!("infer {st} {tc} {dc} {ts}");
    let before = ctx_fingerprint(names, tctx, dctx);
    let r = guarded(|| type_check(None, src, term, tctx, dctx));
    let after = ctx_fingerprint(names, tctx, dctx);
    let restored = before == after;
    let ctx = if restored { "ctx=same".to_owned() } else { format!("ctx=changed({},{})", tctx.len(), dctx.len()) };
    match r {
        Err(m) => Checked { op, answer: format!("panic"), accepted: None, nerrs: 0, ctx_restored: restored, panic: Some(m) },
        Ok(Err(es)) => Checked { op, answer: format!("err {} | {}", es.len(), ctx), accepted: None, nerrs: es.len(), ctx_restored: restored, panic: None },
        Ok(Ok((e, ty))) => {
            let mut map = HashMap::new();
            let mut next = 0;
            let es = StoreSer::canon(names, &e, &mut map, &mut next);
            let tys = StoreSer::canon(names, &ty, &mut map, &mut next);
            Checked { op, answer: format!("ok | {es} | {tys} | {ctx}"), accepted: Some((e, ty)), nerrs: 0, ctx_restored: restored, panic: None }
        }
    }
}

// does the term (after zonking) still contain an unresolved hole?
pub fn has_unresolved(names_free: &Term) -> bool {
    let mut s = Ser::new();
    s.term(names_free, HoleMode::ZonkErase).contains("(h _")
}

// D2's pattern: in some group a non-value definition k reaches (directly or through value definitions)
// a *value* definition at a position > k.
pub fn has_forward_value_ref(t: &Term) -> bool {
    use Variant::*;
    fn fv_defs(t: &Term, n: usize) -> Vec<usize> {
        let mut s = std::collections::HashSet::new();
        crate::term::free_variables(t, 0, &mut s);
        s.into_iter().filter(|v| *v < n).map(|v| n - 1 - v).collect()
    }
    let here = match &t.variant {
        Let(defs, _) => {
            let n = defs.len();
            let mut found = false;
            for k in 0..n {
                if is_value(&defs[k].2) { continue; }
                let mut seen = vec![false; n];
                let mut stack = fv_defs(&defs[k].2, n);
                while let Some(j) = stack.pop() {
                    if seen[j] { continue; }
                    seen[j] = true;
                    if is_value(&defs[j].2) {
                        if j > k { found = true; }
                        stack.extend(fv_defs(&defs[j].2, n));
                    }
                }
            }
            found
        }
        _ => false,
    };
    if here { return true; }
    match &t.variant {
        Unifier(c, _) => c.borrow().as_ref().map_or(false, has_forward_value_ref),
        Lambda(_, _, a, b) | Pi(_, _, a, b) | Application(a, b) | Sum(a, b) | Difference(a, b) | Product(a, b)
        | Quotient(a, b) | LessThan(a, b) | LessThanOrEqualTo(a, b) | EqualTo(a, b) | GreaterThan(a, b)
        | GreaterThanOrEqualTo(a, b) => has_forward_value_ref(a) || has_forward_value_ref(b),
        Let(defs, body) => defs.iter().any(|(_, a, d)| has_forward_value_ref(a) || has_forward_value_ref(d)) || has_forward_value_ref(body),
        Negation(a) => has_forward_value_ref(a),
        If(a, b, c) => has_forward_value_ref(a) || has_forward_value_ref(b) || has_forward_value_ref(c),
        _ => false,
    }
}
