// An Earley recogniser for /repo/grammar.y (read at run time), used as the independent oracle
// "is this token sequence a sentence of the published grammar?" (C07). It also counts derivations
// up to 2 (ambiguity check) by a separate dynamic programme on small inputs.
use std::collections::{HashMap, HashSet};

pub struct Grammar {
    pub terminals: Vec<String>,
    pub rules: Vec<(String, Vec<String>)>, // (lhs, rhs)
    pub start: String,
}

pub fn load(path: &str) -> Result<Grammar, String> {
    let src = std::fs::read_to_string(path).map_err(|e| e.to_string())?;
    // strip /* */ comments
    let mut s = String::new();
    let mut rest = src.as_str();
    while let Some(i) = rest.find("/*") {
        s.push_str(&rest[..i]);
        match rest[i..].find("*/") { Some(j) => rest = &rest[i + j + 2..], None => { rest = ""; break; } }
    }
    s.push_str(rest);
    let mut terminals = vec![];
    for line in s.lines() {
        if let Some(t) = line.trim().strip_prefix("%token") { terminals.push(t.trim().to_owned()); }
    }
    let body = s.split("%%").nth(1).ok_or("no %% section")?;
    // split into rules at `name:` heads at line starts
    let mut rules = vec![];
    let mut start = None;
    let mut cur: Option<(String, String)> = None;
    for line in body.lines() {
        let t = line.trim_end();
        let is_head = !t.is_empty() && !t.starts_with(' ') && !t.starts_with('\t') && t.contains(':');
        if is_head {
            if let Some((l, r)) = cur.take() { push_rule(&mut rules, &l, &r); }
            let (l, r) = t.split_once(':').unwrap();
            if start.is_none() { start = Some(l.trim().to_owned()); }
            cur = Some((l.trim().to_owned(), r.to_owned()));
        } else if let Some((_, r)) = cur.as_mut() {
            r.push(' ');
            r.push_str(t);
        }
    }
    if let Some((l, r)) = cur.take() { push_rule(&mut rules, &l, &r); }
    Ok(Grammar { terminals, rules, start: start.ok_or("no rules")? })
}

fn push_rule(rules: &mut Vec<(String, Vec<String>)>, lhs: &str, rhs: &str) {
    let rhs = rhs.trim().trim_end_matches(';');
    for alt in rhs.split('|') {
        let syms: Vec<String> = alt.split_whitespace().filter(|x| *x != "%empty").map(|x| x.to_owned()).collect();
        rules.push((lhs.to_owned(), syms));
    }
}

impl Grammar {
    // tokens are terminal names
    pub fn recognises(&self, toks: &[&str]) -> bool {
        let n = toks.len();
        let is_term: HashSet<&str> = self.terminals.iter().map(|s| s.as_str()).collect();
        // item: (rule index, dot, origin)
        let mut sets: Vec<Vec<(usize, usize, usize)>> = vec![vec![]; n + 1];
        let mut seen: Vec<HashSet<(usize, usize, usize)>> = vec![HashSet::new(); n + 1];
        let by_lhs: HashMap<&str, Vec<usize>> = {
            let mut m: HashMap<&str, Vec<usize>> = HashMap::new();
            for (k, (l, _)) in self.rules.iter().enumerate() { m.entry(l.as_str()).or_default().push(k); }
            m
        };
        for &k in by_lhs.get(self.start.as_str()).unwrap_or(&vec![]) {
            if seen[0].insert((k, 0, 0)) { sets[0].push((k, 0, 0)); }
        }
        for i in 0..=n {
            let mut j = 0;
            while j < sets[i].len() {
                let (k, dot, org) = sets[i][j];
                j += 1;
                let rhs = &self.rules[k].1;
                if dot < rhs.len() {
                    let sym = rhs[dot].as_str();
                    if is_term.contains(sym) {
                        if i < n && toks[i] == sym && seen[i + 1].insert((k, dot + 1, org)) { sets[i + 1].push((k, dot + 1, org)); }
                    } else {
                        for &r in by_lhs.get(sym).unwrap_or(&vec![]) {
                            if seen[i].insert((r, 0, i)) { sets[i].push((r, 0, i)); }
                        }
                        // nullable completion (let_annotation: %empty)
                        if self.rules.iter().any(|(l, r)| l == sym && r.is_empty()) && seen[i].insert((k, dot + 1, org)) { sets[i].push((k, dot + 1, org)); }
                    }
                } else {
                    let lhs = self.rules[k].0.as_str();
                    let parents: Vec<(usize, usize, usize)> = sets[org].iter().copied().filter(|(pk, pd, _)| { let r = &self.rules[*pk].1; *pd < r.len() && r[*pd] == lhs }).collect();
                    for (pk, pd, po) in parents {
                        if seen[i].insert((pk, pd + 1, po)) { sets[i].push((pk, pd + 1, po)); }
                    }
                }
            }
        }
        sets[n].iter().any(|(k, dot, org)| *org == 0 && self.rules[*k].0 == self.start && *dot == self.rules[*k].1.len())
    }

    // number of derivation trees of toks[i..j] from `sym`, capped at 2
    pub fn count_derivations(&self, toks: &[&str]) -> usize {
        let is_term: HashSet<&str> = self.terminals.iter().map(|s| s.as_str()).collect();
        let mut memo: HashMap<(String, usize, usize), usize> = HashMap::new();
        fn seq(g: &Grammar, is_term: &HashSet<&str>, memo: &mut HashMap<(String, usize, usize), usize>, toks: &[&str], syms: &[String], i: usize, j: usize, depth: usize) -> usize {
            if syms.is_empty() { return usize::from(i == j); }
            let mut total = 0usize;
            let head = &syms[0];
            for m in i..=j {
                let a = sym(g, is_term, memo, toks, head, i, m, depth);
                if a == 0 { continue; }
                let b = seq(g, is_term, memo, toks, &syms[1..], m, j, depth);
                total = (total + a * b).min(2);
                if total >= 2 { break; }
            }
            total
        }
        fn sym(g: &Grammar, is_term: &HashSet<&str>, memo: &mut HashMap<(String, usize, usize), usize>, toks: &[&str], s: &String, i: usize, j: usize, depth: usize) -> usize {
            if is_term.contains(s.as_str()) { return usize::from(j == i + 1 && toks[i] == s.as_str()); }
            if depth > 200 { return 0; }
            let key = (s.clone(), i, j);
            if let Some(v) = memo.get(&key) { return *v; }
            memo.insert(key.clone(), 0); // cycles through unit rules at the same span contribute nothing new
            let mut total = 0usize;
            for (l, rhs) in &g.rules {
                if l != s { continue; }
                total = (total + seq(g, is_term, memo, toks, rhs, i, j, depth + 1)).min(2);
            }
            memo.insert(key, total);
            total
        }
        sym(self, &is_term, &mut memo, toks, &self.start.clone(), 0, toks.len(), 0)
    }
}

pub const TERMINAL_OF_TAG: [&str; 29] = [
    "ASTERISK", "BOOLEAN", "COLON", "DOUBLE_EQUALS", "ELSE", "EQUALS", "FALSE", "GREATER_THAN", "GREATER_THAN_OR_EQUAL",
    "IDENTIFIER", "IF", "INTEGER", "INTEGER_LITERAL", "LEFT_CURLY", "LEFT_PAREN", "LESS_THAN", "LESS_THAN_OR_EQUAL", "MINUS",
    "PLUS", "RIGHT_CURLY", "RIGHT_PAREN", "SLASH", "TERMINATOR", "TERMINATOR", "THEN", "THICK_ARROW", "THIN_ARROW", "TRUE", "TYPE",
];
