// Suite `unify` (C12, C06, C18): correspondence ops `unify` / `whnf` / `syneq` under definitions
// contexts with offsets; `G-unify`: holes punched at arbitrary positions and binder depths into
// terms, pattern unified with instance; occurs-check and scope-escape configurations.
use crate::de_bruijn::signed_shift;
use crate::equality::syntactically_equal;
use crate::gen_term::TermGen;
use crate::mk;
use crate::normalizer::normalize_weak_head;
use crate::out::{guarded, Out};
use crate::pipeline::{front, holecopy_events, Stage};
use crate::prog;
use crate::rng::Rng;
use crate::ser::Ser;
use crate::ser_store::{ctx_fingerprint, dctx_str, DCtx, StoreSer};
use crate::suite_progstat::cfg_mix;
use crate::term::{free_variables, Term, Variant};
use crate::unifier::unify;
use std::cell::RefCell;
use std::collections::{HashMap, HashSet};
use std::rc::Rc;

type Cell<'a> = Rc<RefCell<Option<Term<'a>>>>;

// Replace random subterms by fresh holes. Returns the pattern and, per hole, (cell, depth, shift).
fn punch<'a>(t: &Term<'a>, depth: usize, rng: &mut Rng, prob: usize, holes: &mut Vec<(Cell<'a>, usize, usize)>) -> Term<'a> {
    use Variant::*;
    if rng.chance(prob, 100) {
        // a shift that makes the hole solvable by this subterm, most of the time
        let mut fv = HashSet::new();
        free_variables(t, 0, &mut fv);
        let max_ok = fv.iter().min().copied().unwrap_or(depth).min(depth);
        let shift = if rng.chance(4, 5) { rng.below(max_ok + 1) } else { rng.below(depth + 1) };
        let cell: Cell<'a> = Rc::new(RefCell::new(None));
        holes.push((cell.clone(), depth, shift));
        return Term { source_range: None, variant: Unifier(cell, shift) };
    }
    let r = |x: &Rc<Term<'a>>, d: usize, rng: &mut Rng, holes: &mut Vec<(Cell<'a>, usize, usize)>| Rc::new(punch(x, d, rng, prob, holes));
    let v = match &t.variant {
        Lambda(x, i, a, b) => Lambda(x, *i, r(a, depth, rng, holes), r(b, depth + 1, rng, holes)),
        Pi(x, i, a, b) => Pi(x, *i, r(a, depth, rng, holes), r(b, depth + 1, rng, holes)),
        Application(a, b) => Application(r(a, depth, rng, holes), r(b, depth, rng, holes)),
        Let(defs, body) => {
            let n = defs.len();
            Let(defs.iter().map(|(x, a, d)| (*x, r(a, depth + n, rng, holes), r(d, depth + n, rng, holes))).collect(), r(body, depth + n, rng, holes))
        }
        Negation(a) => Negation(r(a, depth, rng, holes)),
        Sum(a, b) => Sum(r(a, depth, rng, holes), r(b, depth, rng, holes)),
        Difference(a, b) => Difference(r(a, depth, rng, holes), r(b, depth, rng, holes)),
        Product(a, b) => Product(r(a, depth, rng, holes), r(b, depth, rng, holes)),
        Quotient(a, b) => Quotient(r(a, depth, rng, holes), r(b, depth, rng, holes)),
        LessThan(a, b) => LessThan(r(a, depth, rng, holes), r(b, depth, rng, holes)),
        LessThanOrEqualTo(a, b) => LessThanOrEqualTo(r(a, depth, rng, holes), r(b, depth, rng, holes)),
        EqualTo(a, b) => EqualTo(r(a, depth, rng, holes), r(b, depth, rng, holes)),
        GreaterThan(a, b) => GreaterThan(r(a, depth, rng, holes), r(b, depth, rng, holes)),
        GreaterThanOrEqualTo(a, b) => GreaterThanOrEqualTo(r(a, depth, rng, holes), r(b, depth, rng, holes)),
        If(a, b, c) => If(r(a, depth, rng, holes), r(b, depth, rng, holes), r(c, depth, rng, holes)),
        other => other.clone(),
    };
    Term { source_range: None, variant: v }
}

// a near-miss of `t`: one small structural change (for pairs that are almost, but not, equal)
// A closed wrapper around `s` that reduces to `s` (identity applied, `if true`, `if false`, constant function
// applied to `s` and a throw-away argument): `s` is a reduct of the result.
fn wrap<'a>(s: &Term<'a>, rng: &mut Rng, junk: i64) -> Term<'a> {
    match rng.below(4) {
        0 => mk::app(mk::lam("w", false, mk::ty(), mk::var("w", 0)), s.clone()),
        1 => mk::ite(mk::tt(), s.clone(), mk::lit(junk)),
        2 => mk::ite(mk::ff(), mk::lit(junk), s.clone()),
        _ => konst(s, junk),
    }
}
fn konst<'a>(s: &Term<'a>, junk: i64) -> Term<'a> {
    mk::app(mk::app(mk::lam("p", false, mk::ty(), mk::lam("q", false, mk::ty(), mk::var("p", 1))), s.clone()), mk::lit(junk))
}
// `t` with one subterm (not inside a definition group) replaced by a wrapper around it
fn expand<'a>(t: &Term<'a>, rng: &mut Rng) -> Term<'a> {
    use Variant::*;
    let r = |x: &Rc<Term<'a>>, rng: &mut Rng| Rc::new(expand(x, rng));
    if rng.chance(1, 3) { let j = rng.range(0, 9); return wrap(t, rng, j); }
    let v = match &t.variant {
        Lambda(x, i, a, b) => Lambda(x, *i, a.clone(), r(b, rng)),
        Pi(x, i, a, b) => if rng.chance(1, 2) { Pi(x, *i, r(a, rng), b.clone()) } else { Pi(x, *i, a.clone(), r(b, rng)) },
        Application(a, b) => Application(a.clone(), r(b, rng)),
        Negation(a) => Negation(r(a, rng)),
        Sum(a, b) => if rng.chance(1, 2) { Sum(r(a, rng), b.clone()) } else { Sum(a.clone(), r(b, rng)) },
        Product(a, b) => if rng.chance(1, 2) { Product(r(a, rng), b.clone()) } else { Product(a.clone(), r(b, rng)) },
        LessThan(a, b) => LessThan(a.clone(), r(b, rng)),
        EqualTo(a, b) => EqualTo(r(a, rng), b.clone()),
        If(c, a, b) => match rng.below(3) { 0 => If(r(c, rng), a.clone(), b.clone()), 1 => If(c.clone(), r(a, rng), b.clone()), _ => If(c.clone(), a.clone(), r(b, rng)) },
        _ => { let j = rng.range(0, 9); return wrap(t, rng, j); }
    };
    Term { source_range: None, variant: v }
}

fn mutate<'a>(t: &Term<'a>, rng: &mut Rng) -> Term<'a> {
    use Variant::*;
    let r = |x: &Rc<Term<'a>>, rng: &mut Rng| Rc::new(mutate(x, rng));
    let here = rng.chance(1, 3);
    let v = match &t.variant {
        Let(defs, body) if here => {
            // drop the last definition, or append one, keeping the body
            let mut d = defs.clone();
            if !d.is_empty() && rng.chance(1, 2) { d.pop(); } else { d.push(("m", Rc::new(mk::int()), Rc::new(mk::lit(rng.range(0, 9))))); }
            Let(d, body.clone())
        }
        IntegerLiteral(n) if here => IntegerLiteral(n + 1),
        Variable(x, i) if here => Variable(x, i + 1),
        Lambda(x, i, a, b) if here => Lambda(x, !*i, a.clone(), b.clone()),
        Pi(x, i, a, b) if here => Pi(x, !*i, a.clone(), b.clone()),
        Sum(a, b) if here => Sum(b.clone(), a.clone()),
        Difference(a, b) if here => Difference(b.clone(), a.clone()),
        LessThan(a, b) if here => LessThan(b.clone(), a.clone()),
        If(c, a, b) if here => If(c.clone(), b.clone(), a.clone()),
        Application(a, _) if here => Application(a.clone(), Rc::new(mk::lit(7))),
        Lambda(x, i, a, b) => if rng.chance(1, 2) { Lambda(x, *i, r(a, rng), b.clone()) } else { Lambda(x, *i, a.clone(), r(b, rng)) },
        Pi(x, i, a, b) => if rng.chance(1, 2) { Pi(x, *i, r(a, rng), b.clone()) } else { Pi(x, *i, a.clone(), r(b, rng)) },
        Application(a, b) => if rng.chance(1, 2) { Application(r(a, rng), b.clone()) } else { Application(a.clone(), r(b, rng)) },
        Let(defs, body) => {
            if defs.is_empty() || rng.chance(1, 2) { Let(defs.clone(), r(body, rng)) } else {
                let k = rng.below(defs.len());
                let mut d = defs.clone();
                d[k] = (d[k].0, d[k].1.clone(), r(&d[k].2, rng));
                Let(d, body.clone())
            }
        }
        Negation(a) => Negation(r(a, rng)),
        Sum(a, b) => Sum(r(a, rng), b.clone()),
        Difference(a, b) => Difference(a.clone(), r(b, rng)),
        Product(a, b) => Product(r(a, rng), b.clone()),
        Quotient(a, b) => Quotient(a.clone(), r(b, rng)),
        LessThan(a, b) => LessThan(r(a, rng), b.clone()),
        LessThanOrEqualTo(a, b) => LessThanOrEqualTo(a.clone(), r(b, rng)),
        EqualTo(a, b) => EqualTo(r(a, rng), b.clone()),
        GreaterThan(a, b) => GreaterThan(a.clone(), r(b, rng)),
        GreaterThanOrEqualTo(a, b) => GreaterThanOrEqualTo(r(a, rng), b.clone()),
        If(c, a, b) => If(c.clone(), r(a, rng), b.clone()),
        True => False,
        False => True,
        Type => Integer,
        Integer => Boolean,
        Boolean => Type,
        other => other.clone(),
    };
    Term { source_range: None, variant: v }
}

// does `cell` reach itself through solutions?
fn reaches<'a>(t: &Term<'a>, target: &Cell<'a>, seen: &mut HashSet<usize>) -> bool {
    use Variant::*;
    match &t.variant {
        Unifier(c, _) => {
            if Rc::ptr_eq(c, target) { return true; }
            if !seen.insert(Rc::as_ptr(c) as usize) { return false; }
            let content = { c.borrow().clone() };
            content.map_or(false, |s| reaches(&s, target, seen))
        }
        Lambda(_, _, a, b) | Pi(_, _, a, b) | Application(a, b) | Sum(a, b) | Difference(a, b) | Product(a, b) | Quotient(a, b)
        | LessThan(a, b) | LessThanOrEqualTo(a, b) | EqualTo(a, b) | GreaterThan(a, b) | GreaterThanOrEqualTo(a, b) => reaches(a, target, seen) || reaches(b, target, seen),
        Let(defs, body) => defs.iter().any(|(_, a, d)| reaches(a, target, seen) || reaches(d, target, seen)) || reaches(body, target, seen),
        Negation(a) => reaches(a, target, seen),
        If(a, b, c) => reaches(a, target, seen) || reaches(b, target, seen) || reaches(c, target, seen),
        _ => false,
    }
}

fn gen_dctx<'a>(rng: &mut Rng, len: usize) -> DCtx<'a> {
    // built outermost first; position p (0 = innermost) of entry k is len-1-k
    let g = TermGen { holes: false, max_var: 2, big_lits: false, closed: true };
    let mut v: DCtx<'a> = vec![];
    for k in 0..len {
        let p = len - 1 - k;
        if rng.chance(1, 2) { v.push(None); continue; }
        let off = match rng.below(4) { 0 => 0, 1 => 1.min(p + 1), 2 => p + 1, _ => rng.below(p + 2) };
        // free variables of the definition must be >= off so that it only mentions outer entries
        let bsz = 1 + rng.below(6); let raw = safe(&g.make(rng, bsz, len - 1 - p));
        let d = crate::de_bruijn::unsigned_shift(&raw, 0, off);
        v.push(Some((Rc::new(d), off)));
    }
    v
}

pub fn unify_case<'a>(out: &mut Out, names: &mut Ser, a: &Term<'a>, b: &Term<'a>, dctx: &mut DCtx<'a>, label: &str,
                      holes: &[(Cell<'a>, usize, usize)], expect_success: Option<bool>) -> Option<bool> {
    let mut ss = StoreSer::new();
    let (sa, sb) = (ss.term(names, a), ss.term(names, b));
    let dc = dctx_str(&mut ss, names, dctx);
    let st = ss.store(names);
    let op = format!("unify {st} {dc} {sa} {sb}");
    let before = ctx_fingerprint(names, &vec![], dctx);
    let hc0 = holecopy_events();
    let r = guarded(|| unify(a, b, dctx));
    let hc = holecopy_events() - hc0;
    let same = before == ctx_fingerprint(names, &vec![], dctx);
    let ctx = if same { "ctx=same".to_owned() } else { format!("ctx=changed(0,{})", dctx.len()) };
    let answer = match &r {
        Err(_) => "panic".to_owned(),
        Ok(res) => {
            let mut map = HashMap::new();
            let mut next = 0;
            let ca = StoreSer::canon(names, a, &mut map, &mut next);
            let cb = StoreSer::canon(names, b, &mut map, &mut next);
            format!("{res} | {ca} | {cb} | {ctx}")
        }
    };
    out.case(&op, &answer);
    out.stat(&format!("unify:{label}:{}", match &r { Ok(true) => "true", Ok(false) => "false", Err(_) => "panic" }));
    if !same && r.is_ok() { out.hit("C18", "unify-does-not-restore-context", &op, &answer); }
    let Ok(res) = r else { return None; };
    if let Some(e) = expect_success {
        if e != res && hc == 0 { out.hit("C12", if e { "unify-failed-on-instance" } else { "unify-succeeded-on-forbidden-configuration" }, &op, &format!("{label} holecopy-events={hc}")); }
    }
    if res {
        // C12: the recorded solutions make the terms equal, are well scoped and acyclic
        for (k, (cell, depth, shift)) in holes.iter().enumerate() {
            let content = { cell.borrow().clone() };
            match content {
                None => { if hc == 0 && label == "punched" { out.stat("unify:hole-left-unsolved"); } }
                Some(sol) => {
                    let mut fv = HashSet::new();
                    free_variables(&sol, 0, &mut fv);
                    let scope = dctx.len() + depth - shift.min(&(dctx.len() + depth)).clone();
                    let _ = scope;
                    // the solution lives `shift` binders above the hole, i.e. at depth (ctx + depth - shift)
                    let home = (dctx.len() + depth).saturating_sub(*shift);
                    // only meaningful when both sides are themselves well scoped in the context
                    let mut fa = HashSet::new();
                    free_variables(a, 0, &mut fa);
                    free_variables(b, 0, &mut fa);
                    let well_scoped = fa.iter().all(|v| *v < dctx.len());
                    if well_scoped && fv.iter().any(|v| *v >= home) {
                        out.hit("C12", "solution-not-in-scope-of-its-hole", &op, &format!("hole {k} at depth {depth} shift {shift}: solution {sol} mentions a variable >= {home} holecopy-events={hc}"));
                    }
                    if reaches(&sol, cell, &mut HashSet::new()) {
                        out.hit("C12", "hole-solved-by-term-containing-itself", &op, &format!("hole {k} holecopy-events={hc}"));
                    }
                }
            }
        }
        match guarded(|| unify(a, b, dctx)) {
            Ok(true) => {}
            other => out.hit("C12", "solutions-do-not-make-terms-equal", &op, &format!("second unification gave {other:?} holecopy-events={hc}")),
        }
    }
    Some(res)
}

pub fn run(out: &mut Out, tier: &str, seed: u64) {
    let mut names = Ser::new();
    names.name("_");
    let mut rng = Rng::new(seed ^ 0xC12);
    let n = if tier == "thorough" { 40000 } else { 4000 };
    // 1. raw terms: unrelated pairs, self pairs, punched patterns, under random definitions contexts
    for k in 0..n {
        // one generator state per case, so that skipping a case (see `Out::begin`) does not shift the others
        let mut rng = Rng::new(seed ^ 0xC12 ^ (k as u64 + 1).wrapping_mul(0x9E37_79B9_7F4A_7C15));
        if !out.begin(&format!("unify-suite raw case {k} (tier {tier}, seed {seed})")) { out.stat("skipped-known-abort"); continue; }
        let g = TermGen { holes: false, max_var: 0, big_lits: k % 7 == 0, closed: k % 11 != 0 };
        let len = rng.below(4);
        let mut dctx = gen_dctx(&mut rng, len);
        // terms closed relative to the context: variables < len ... generate with scope = len
        let g2 = TermGen { holes: false, max_var: 0, big_lits: false, closed: false };
        let _ = &g2;
        let budget = 2 + rng.below(14);
        let t = safe(&g.make(&mut rng, budget, len));
        match k % 7 {
            5 => {
                // a hole-free term against a term it is a reduct of, in both orders
                let e = expand(&t, &mut rng);
                let (a, b) = if rng.chance(1, 2) { (e, t.clone()) } else { (t.clone(), e) };
                if unify_case(out, &mut names, &a, &b, &mut dctx, "reduct", &[], None) == Some(false) {
                    let mut ss = StoreSer::new();
                    let (sa, sb) = (ss.term(&mut names, &a), ss.term(&mut names, &b));
                    let dc = dctx_str(&mut ss, &mut names, &dctx);
                    for q in ["C06", "C12"] { out.hit(q, "hole-free-term-not-equal-to-its-reduct", &format!("unify (S) {dc} {sa} {sb}"), "one side is the other with one subterm wrapped in a closed redex that reduces to it"); }
                }
            }
            6 => {
                // the same function applied to the same first argument and different throw-away arguments
                let (a, b) = (konst(&t, 2), konst(&t, 3));
                if unify_case(out, &mut names, &a, &b, &mut dctx, "same-normal-form", &[], None) == Some(false) {
                    let mut ss = StoreSer::new();
                    let (sa, sb) = (ss.term(&mut names, &a), ss.term(&mut names, &b));
                    let dc = dctx_str(&mut ss, &mut names, &dctx);
                    out.hit("C06", "hole-free-terms-with-the-same-normal-form-judged-different", &format!("unify (S) {dc} {sa} {sb}"), "both sides are `(p => q => p) t j` with different j");
                }
            }
            4 => { let u = mutate(&t, &mut rng); let _ = unify_case(out, &mut names, &t, &u, &mut dctx, "near-miss", &[], None); let (mut ss2, _) = (StoreSer::new(), 0); let a2 = ss2.term(&mut names, &t); let b2 = ss2.term(&mut names, &u); let st2 = ss2.store(&mut names); out.case(&format!("syneq {st2} {a2} {b2}"), &format!("{}", syntactically_equal(&t, &u))); }
            0 => { let b2 = 2 + rng.below(10); let u = safe(&g.make(&mut rng, b2, len)); let _ = unify_case(out, &mut names, &t, &u, &mut dctx, "unrelated", &[], None); }
            1 => { let _ = unify_case(out, &mut names, &t, &t, &mut dctx, "self", &[], Some(true)); }
            _ => {
                let mut holes = vec![];
                let p = punch(&t, 0, &mut rng, 20, &mut holes);
                let (a, b) = if rng.chance(1, 2) { (p, t.clone()) } else { (t.clone(), p) };
                let _ = unify_case(out, &mut names, &a, &b, &mut dctx, "punched", &holes, None);
            }
        }
        // whnf / syneq ops on the same material
        if k % 3 == 0 {
            let mut ss = StoreSer::new();
            let st_t = ss.term(&mut names, &t);
            let dc = dctx_str(&mut ss, &mut names, &dctx);
            let st = ss.store(&mut names);
            let before = ctx_fingerprint(&mut names, &vec![], &dctx);
            let w = guarded(|| normalize_weak_head(&t, &mut dctx));
            let same = before == ctx_fingerprint(&mut names, &vec![], &dctx);
            let ans = match &w {
                Ok(x) => { let mut m = HashMap::new(); let mut nx = 0; format!("{} | {}", StoreSer::canon(&mut names, x, &mut m, &mut nx), if same { "ctx=same".to_owned() } else { format!("ctx=changed(0,{})", dctx.len()) }) }
                Err(_) => "panic".to_owned(),
            };
            out.case(&format!("whnf {st} {dc} {st_t}"), &ans);
            if !same && w.is_ok() { out.hit("C18", "normalize-does-not-restore-context", &st_t, &ans); }
            if let Ok(x) = &w { if matches!(x.variant, Variant::Let(..)) { out.hit("C12", "whnf-returned-a-let", &st_t, ""); } }
        }
    }
    // 2. occurs-check and scope-escape configurations
    for k in 0..(n / 10) {
        let cell: Cell = Rc::new(RefCell::new(None));
        let h = |s: usize| Term { source_range: None, variant: Variant::Unifier(cell.clone(), s) };
        let mut dctx: DCtx = vec![None; rng.below(3)];
        let (a, b, exp) = match k % 5 {
            0 => (h(0), mk::pi("_", false, h(0), mk::int()), false),                        // X = X -> int
            1 => (h(0), mk::app(mk::var("f", 0), h(0)), false),
            2 => (mk::lam("x", false, mk::int(), h(1)), mk::lam("x", false, mk::int(), mk::var("x", 0)), false), // escape
            3 => {
                // through a chain of solved holes: Y := X, then X = f Y
                let c2: Cell = Rc::new(RefCell::new(Some(h(0))));
                let y = Term { source_range: None, variant: Variant::Unifier(c2, 0) };
                (h(0), mk::app(mk::var("f", 0), y), false)
            }
            _ => (mk::lam("x", false, mk::int(), h(0)), mk::lam("x", false, mk::int(), mk::var("x", 0)), true),
        };
        if k % 5 == 1 || k % 5 == 3 { dctx.push(None); }
        let what = ["X = X -> int", "X = f X", "(x => X[1]) = (x => x)", "Y := X, X = f Y", "(x => X) = (x => x)"][k % 5];
        if !out.begin(&format!("unify: occurs-check / scope-escape configuration `{what}` under {} context entries", dctx.len())) { continue; }
        let holes = vec![(cell.clone(), if k % 5 == 2 || k % 5 == 4 { 1 } else { 0 }, if k % 5 == 2 { 1 } else { 0 })];
        let _ = unify_case(out, &mut names, &a, &b, &mut dctx, "config", &holes, Some(exp));
    }
    // 2b. alias chains: a cell solved by a (shifted) unresolved hole, seen through another shift, against the target
    // hole at every shift -- the shifts along a chain of cells must add up (syntactic shortcut and unification)
    for s in 0..3usize {
        for t in 0..3usize {
            for u in 0..5usize {
                for wrap in 0..2 {
                    let target: Cell = Rc::new(RefCell::new(None));
                    let hb = |k: usize| Term { source_range: None, variant: Variant::Unifier(target.clone(), k) };
                    let alias: Cell = Rc::new(RefCell::new(Some(hb(t))));
                    let ha = Term { source_range: None, variant: Variant::Unifier(alias.clone(), s) };
                    let (a, b) = if wrap == 0 { (ha, hb(u)) } else {
                        (mk::app(mk::var("f", s + t + 2), ha), mk::app(mk::var("f", s + t + 2), hb(u)))
                    };
                    let mut dctx: DCtx = vec![None; s + t + 3];
                    if !out.begin(&format!("unify: alias chain, shifts {s}+{t} against {u}, wrap {wrap}")) { continue; }
                    let mut ss = StoreSer::new();
                    let (sa, sb) = (ss.term(&mut names, &a), ss.term(&mut names, &b));
                    let st = ss.store(&mut names);
                    out.case(&format!("syneq {st} {sa} {sb}"), &format!("{}", syntactically_equal(&a, &b)));
                    if syntactically_equal(&a, &b) != (s + t == u) {
                        out.hit("C12", "syntactic-shortcut-ignores-shifts-along-a-chain-of-cells", &format!("syneq {st} {sa} {sb}"),
                                &format!("cell A := ?B shifted by {t}; ?A shifted by {s} compared with ?B shifted by {u}: equal iff {s}+{t} = {u}"));
                    }
                    let _ = unify_case(out, &mut names, &a, &b, &mut dctx, "alias-chain", &[], None);
                }
            }
        }
    }
    // 2c. holes of different depths against each other, and solved holes under binders:
    //  (i)  X^s against a term that contains an UNSOLVED hole Y^t with t < s: X's solution would have to mention Y,
    //       which lives in a deeper scope than X — unification must fail (and certainly must not answer true while
    //       recording nothing: then the two sides are simply different);
    //  (ii) X^1 against `x => C^1` where the SOLVED cell C holds a variable: seen from under the binder the variable
    //       is one higher; lowering it to X's scope works iff it does not become the bound `x`.
    for s in 1..4usize {
        for t in 0..s {
            for wrap in 0..3 {
                let x: Cell = Rc::new(RefCell::new(None));
                let y: Cell = Rc::new(RefCell::new(None));
                let hx = Term { source_range: None, variant: Variant::Unifier(x.clone(), s) };
                let hy = Term { source_range: None, variant: Variant::Unifier(y.clone(), t) };
                let rhs = match wrap { 0 => mk::app(mk::var("f", s + 1), hy), 1 => mk::pi("_", false, hy, mk::int()), _ => Term { source_range: None, variant: Variant::Negation(Rc::new(hy)) } };
                let (a, b) = if (s + t + wrap) % 2 == 0 { (hx, rhs) } else { (rhs, hx) };
                let mut dctx: DCtx = vec![None; s + 2];
                if !out.begin(&format!("unify: hole of shift {s} against a term with an unsolved hole of shift {t}, wrap {wrap}")) { continue; }
                let holes = vec![(x.clone(), 0, s), (y.clone(), if wrap == 1 { 0 } else { 0 }, t)];
                let r = unify_case(out, &mut names, &a, &b, &mut dctx, "cross-shift", &holes, Some(false));
                if r == Some(true) && !syntactically_equal(&a, &b) {
                    let mut ss = StoreSer::new();
                    let (sa, sb) = (ss.term(&mut names, &a), ss.term(&mut names, &b));
                    let st = ss.store(&mut names);
                    out.hit("C12", "unify-answered-true-but-the-sides-differ", &format!("unify {st} (DC) {sa} {sb}"),
                            &format!("no reduction is involved: after a successful unification the two sides must be syntactically equal (hole of shift {s}, inner unsolved hole of shift {t})"));
                }
            }
        }
    }
    for j in 0..3usize {
        for extra in 0..2usize {
            let x: Cell = Rc::new(RefCell::new(None));
            let c: Cell = Rc::new(RefCell::new(Some(mk::var("v", j))));
            let hx = Term { source_range: None, variant: Variant::Unifier(x.clone(), 1) };
            let hc = Term { source_range: None, variant: Variant::Unifier(c.clone(), 1 + extra) };
            // under `extra` further binders inside the lambda body
            let mut body = hc;
            for _ in 0..extra { body = mk::lam("w", false, mk::int(), body); }
            let b = mk::lam("x", false, mk::int(), body);
            let mut dctx: DCtx = vec![None; 4];
            if !out.begin(&format!("unify: hole of shift 1 against a lambda whose body is a solved hole (solution variable {j}), {extra} inner binders")) { continue; }
            // C's solution lives outside the lambda (and outside the `extra` inner binders): variable j there is variable
            // j + 1 + extra at the occurrence; lowered by 1 to X's scope it is j + extra (>= the binders crossed) iff j >= 1
            let holes = vec![(x.clone(), 0, 1)];
            let _ = unify_case(out, &mut names, &hx, &b, &mut dctx, "solved-under-binder", &holes, Some(j >= 1));
            let _ = unify_case(out, &mut names, &b, &hx, &mut dctx, "solved-under-binder", &holes, None);
        }
    }
    // 3. G-prog programs as instances: holes punched into parser-produced terms
    let np = if tier == "thorough" { 6000 } else { 600 };
    for i in 0..np {
        let mut sub = rng.fork();
        let cfg = cfg_mix(i % 3, &mut sub);
        let p = prog::gen_program(&mut sub, &cfg);
        let src = prog::render_plain(&p.e);
        let mut tokens = vec![];
        if let Stage::Parsed(t) = front(&src, &mut tokens) {
            if !out.begin(&src) { continue; }
            let mut holes = vec![];
            let pat = punch(&t, 0, &mut sub, 8, &mut holes);
            let mut dctx: DCtx = vec![];
            let _ = unify_case(out, &mut names, &pat, &t, &mut dctx, "program", &holes, None);
        }
    }
}

// remove the constructs that can make a raw (untyped) term diverge under normalisation: an applied
// lambda keeps only a body without applications
fn safe<'a>(t: &Term<'a>) -> Term<'a> {
    use Variant::*;
    fn no_app<'a>(t: &Term<'a>) -> Term<'a> {
        match &t.variant {
            Application(_, b) => no_app(b),
            Let(defs, body) => {
                let n = defs.len();
                let lift = |x: &Rc<Term<'a>>| Rc::new(crate::de_bruijn::unsigned_shift(&no_app(x), 0, n));
                Term { source_range: None, variant: Let(defs.iter().map(|(x, a, d)| (*x, lift(a), lift(d))).collect(), Rc::new(no_app(body))) }
            }
            _ => map(t, &no_app),
        }
    }
    fn map<'a>(t: &Term<'a>, f: &dyn Fn(&Term<'a>) -> Term<'a>) -> Term<'a> {
        let r = |x: &Rc<Term<'a>>| Rc::new(f(x));
        let v = match &t.variant {
            Lambda(x, i, a, b) => Lambda(x, *i, r(a), r(b)),
            Pi(x, i, a, b) => Pi(x, *i, r(a), r(b)),
            Application(a, b) => Application(r(a), r(b)),
            Let(defs, body) => Let(defs.iter().map(|(x, a, d)| (*x, r(a), r(d))).collect(), r(body)),
            Negation(a) => Negation(r(a)),
            Sum(a, b) => Sum(r(a), r(b)), Difference(a, b) => Difference(r(a), r(b)), Product(a, b) => Product(r(a), r(b)),
            Quotient(a, b) => Quotient(r(a), r(b)), LessThan(a, b) => LessThan(r(a), r(b)), LessThanOrEqualTo(a, b) => LessThanOrEqualTo(r(a), r(b)),
            EqualTo(a, b) => EqualTo(r(a), r(b)), GreaterThan(a, b) => GreaterThan(r(a), r(b)), GreaterThanOrEqualTo(a, b) => GreaterThanOrEqualTo(r(a), r(b)),
            If(a, b, c) => If(r(a), r(b), r(c)),
            other => other.clone(),
        };
        Term { source_range: None, variant: v }
    }
    match &t.variant {
        // function position: if it is (or may become) a lambda, strip applications from it
        Application(f, a) => {
            let f2 = no_app(f);
            Term { source_range: None, variant: Application(Rc::new(f2), Rc::new(no_app(a))) }
        }
        // groups: definitions may be recursive through the group; keep them application-free
        Let(defs, body) => {
            // no definition mentions the group itself (lift its variables past the group)
            let n = defs.len();
            let lift = |x: &Rc<Term<'a>>| Rc::new(crate::de_bruijn::unsigned_shift(&no_app(x), 0, n));
            Term { source_range: None, variant: Let(defs.iter().map(|(x, a, d)| (*x, lift(a), lift(d))).collect(), Rc::new(no_app(body))) }
        }
        _ => map(t, &|x| safe(x)),
    }
}
