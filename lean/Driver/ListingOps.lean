import GramModel.Listing
import Driver.Sexp

/-! Line-protocol op of the listing model:
`listing (CP CP ...) (WS_CP ...) START END` — the text as code points, the code points of the text
that are whitespace for Rust's `char::is_whitespace`, the byte range.  Answer: `ok CP CP ...`
(the rendered excerpt) or `panic`. -/

private def natsOfSxL : Sx → Option (List Nat)
  | .list xs => xs.mapM (fun x => match x with | .atom a => a.toNat? | _ => none)
  | _ => none

def runListingOp (xs : List Sx) : String :=
  match xs with
  | [.atom "listing", cps, wss, .atom a, .atom b] =>
    match natsOfSxL cps, natsOfSxL wss, a.toNat?, b.toNat? with
    | some cps, some wss, some start, some stop =>
      let text := cps.map Char.ofNat
      let ws : Char → Bool := fun c => wss.contains c.toNat
      match Listing.listing ws text start stop with
      | .ok out => "ok" ++ String.join (out.map (fun c => " " ++ toString c.toNat))
      | .panic => "panic"
    | _, _, _, _ => "bad-op"
  | _ => "bad-op"
