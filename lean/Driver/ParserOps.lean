import GramModel
import Driver.Sexp

/-! Line-protocol ops of the parser model (`parse`, `parsestats`). -/

def runParserOp (_xs : List Sx) : String := "bad-op"
