import GramModel
import GramModel.Parser
import Driver.Sexp

/-! Line-protocol ops of the parser model (`parse`, `parsestats`): decoding of tokens, encoding of
the answer (resolved term with ranges and renumbered holes, or the error ranges). -/

open PModel

def pkindOfTag (tag : Nat) (payload : Option Nat) : Option PKind :=
  match tag, payload with
  | 0, none => some .asterisk | 1, none => some .boolean | 2, none => some .colon
  | 3, none => some .doubleEquals | 4, none => some .else_ | 5, none => some .equals
  | 6, none => some .false_ | 7, none => some .greaterThan | 8, none => some .greaterThanOrEqualTo
  | 9, some x => some (.identifier x) | 10, none => some .if_ | 11, none => some .integer
  | 12, some n => some (.integerLiteral n) | 13, none => some .leftCurly
  | 14, none => some .leftParen | 15, none => some .lessThan | 16, none => some .lessThanOrEqualTo
  | 17, none => some .minus | 18, none => some .plus | 19, none => some .rightCurly
  | 20, none => some .rightParen | 21, none => some .slash
  | 22, none => some (.terminator .lineBreak) | 23, none => some (.terminator .semicolon)
  | 24, none => some .then_ | 25, none => some .thickArrow | 26, none => some .thinArrow
  | 27, none => some .true_ | 28, none => some .type_
  | _, _ => none

def ptokOfSx : Sx → Option PTok
  | .list [.atom tag, .atom s, .atom e] => do
      let k ← pkindOfTag (← tag.toNat?) none
      some ⟨k, ⟨← s.toNat?, ← e.toNat?⟩⟩
  | .list [.atom tag, .atom s, .atom e, .atom p] => do
      let k ← pkindOfTag (← tag.toNat?) (some (← p.toNat?))
      some ⟨k, ⟨← s.toNat?, ← e.toNat?⟩⟩
  | _ => none

def ptoksOfSx : Sx → Option (Array PTok)
  | .list xs => (xs.mapM ptokOfSx).map List.toArray
  | _ => none

def namesOfSx : Sx → Option (List Nat)
  | .list xs => xs.mapM (fun x => match x with | .atom a => a.toNat? | _ => none)
  | _ => none

/-- Printer state: the renumbering of hole ids by first occurrence. -/
abbrev HoleMap := List (Nat × Nat)

def holeNumber (m : HoleMap) (id : Nat) : Nat × HoleMap :=
  match m.lookup id with
  | some k => (k, m)
  | none => (m.length, (id, m.length) :: m)

def rangeToString : Option SourceRange → String
  | some r => s!"{r.start} {r.stop}"
  | none => "- -"

mutual
partial def rtmToString (t : RTm) (m : HoleMap) : String × HoleMap :=
  let (node, m) : String × HoleMap :=
    match t.variant with
    | .hole id s => let (k, m) := holeNumber m id; (s!"(h {k} {s})", m)
    | .type => ("T", m) | .int => ("I", m) | .bool => ("B", m) | .tt => ("t", m) | .ff => ("f", m)
    | .lit n => (s!"(n {n})", m)
    | .var x i => (s!"(v {x} {i})", m)
    | .lam x imp d b =>
      let (ds, m) := rtmToString d m
      let (bs, m) := rtmToString b m
      (s!"(L {x} {if imp then 1 else 0} {ds} {bs})", m)
    | .pi x imp d b =>
      let (ds, m) := rtmToString d m
      let (bs, m) := rtmToString b m
      (s!"(P {x} {if imp then 1 else 0} {ds} {bs})", m)
    | .app f a =>
      let (fs, m) := rtmToString f m
      let (as, m) := rtmToString a m
      (s!"(A {fs} {as})", m)
    | .letg defs b =>
      let (ds, m) := rdefsToString defs m
      let (bs, m) := rtmToString b m
      (s!"(G {ds}{bs})", m)
    | .neg a =>
      let (as, m) := rtmToString a m
      (s!"(N {as})", m)
    | .bin o a b =>
      let (as, m) := rtmToString a m
      let (bs, m) := rtmToString b m
      (s!"(O {opToString o} {as} {bs})", m)
    | .ite c a b =>
      let (cs, m) := rtmToString c m
      let (as, m) := rtmToString a m
      let (bs, m) := rtmToString b m
      (s!"(F {cs} {as} {bs})", m)
  (s!"(@ {rangeToString t.range} {node})", m)
partial def rdefsToString (ds : RDefs) (m : HoleMap) : String × HoleMap :=
  match ds with
  | .nil => ("", m)
  | .cons x a d r =>
    let (as, m) := rtmToString a m
    let (dstr, m) := rtmToString d m
    let (rs, m) := rdefsToString r m
    (s!"(D {x} {as} {dstr}) {rs}", m)
end

def outcomeToString : ParseOutcome → String
  | .ok t => "ok " ++ (rtmToString t []).1
  | .errors es =>
    let ranges := es.flatten
    s!"err {es.length} " ++ " ".intercalate (ranges.map (fun r => s!"({r.start} {r.stop})"))
  | .panic => "panic"
  | .outOfFuel => "out-of-fuel"

def statsToString (hits misses : Array Nat) : String :=
  " ".intercalate ((List.range NT.count).map (fun i => s!"{hits[i]!}:{misses[i]!}"))

def runParserOp (xs : List Sx) : String :=
  match xs with
  | [.atom "parse", ctx, toks] =>
    match namesOfSx ctx, ptoksOfSx toks with
    | some ctx, some toks => outcomeToString (parseModel toks ctx)
    | _, _ => "bad-op"
  | [.atom "parsestats", toks] =>
    match ptoksOfSx toks with
    | some toks =>
      match parseStats toks with
      | some (h, m) => statsToString h m
      | none => "out-of-fuel"
    | none => "bad-op"
  | _ => "bad-op"
