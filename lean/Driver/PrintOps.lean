import GramModel
import GramModel.Print
import Driver.Sexp

/-! Line-protocol op of the printer model (`print`).

`print (NAMES) (S c0 c1 ...) TERM` where `NAMES = ((id cp cp ...) ...)` gives every name id its code
points, `(S ...)` is the store (`U` = empty cell) and `TERM` has `(h id shift)` cells.
Answer: `ok cp cp ...` (the printed text as decimal code points), or `out-of-fuel`. -/

namespace PrintOps

def cellOfSx : Sx → Option (Option Tm)
  | .atom "U" => some none
  | t => (tmOfSx t).map some

def storeOfSx : Sx → Option (List (Option Tm))
  | .list (.atom "S" :: cs) => cs.mapM cellOfSx
  | _ => none

def nameOfSx : Sx → Option (Nat × List Char)
  | .list (.atom id :: cps) => do
      let id ← id.toNat?
      let cs ← cps.mapM (fun c => match c with
        | .atom a => a.toNat?.map Char.ofNat
        | _ => none)
      some (id, cs)
  | _ => none

def namesOfSx : Sx → Option (List (Nat × List Char))
  | .list ns => ns.mapM nameOfSx
  | _ => none

def lookupName (tbl : Array (List Char)) (x : Name) : List Char := tbl.getD x []

def mkTable (ns : List (Nat × List Char)) : Array (List Char) :=
  let size := ns.foldl (fun m (i, _) => max m (i + 1)) 0
  ns.foldl (fun a (i, cs) => a.setIfInBounds i cs) (Array.replicate size [])

def showCps (cs : List Char) : String :=
  cs.foldl (fun acc c => acc ++ " " ++ toString c.toNat) "ok"

end PrintOps

def runPrintOp (xs : List Sx) : String :=
  match xs with
  | [.atom "print", ns, st, t] =>
    match PrintOps.namesOfSx ns, PrintOps.storeOfSx st, tmOfSx t with
    | some ns, some store, some t =>
      let tbl := PrintOps.mkTable ns
      match printS (PrintOps.lookupName tbl) store 1000000 t with
      | some cs => PrintOps.showCps cs
      | none => "out-of-fuel"
    | _, _, _ => "bad-op"
  | _ => "bad-op"
