import GramModel.Syntax

/-! Line-protocol (de)serialisation of terms.  Written independently of the Rust serialiser in
`harness/src/ser.rs`; both are exercised against each other by the `echo` op at start-up. -/

inductive Sx
  | atom (s : String)
  | list (xs : List Sx)
deriving Inhabited

namespace Sx

partial def parseList (cs : List Char) (acc : List Sx) : Option (List Sx × List Char) :=
  match cs with
  | [] => some (acc.reverse, [])
  | ' ' :: r => parseList r acc
  | ')' :: r => some (acc.reverse, ')' :: r)
  | '(' :: r =>
    match parseList r [] with
    | some (xs, ')' :: r') => parseList r' (Sx.list xs :: acc)
    | _ => none
  | c :: r =>
    let rec go (cs : List Char) (a : List Char) : List Char × List Char :=
      match cs with
      | [] => (a.reverse, [])
      | ' ' :: r => (a.reverse, ' ' :: r)
      | '(' :: r => (a.reverse, '(' :: r)
      | ')' :: r => (a.reverse, ')' :: r)
      | c :: r => go r (c :: a)
    let (tok, rest) := go r [c]
    parseList rest (Sx.atom (String.ofList tok) :: acc)

def parseLine (s : String) : Option (List Sx) :=
  match parseList s.toList [] with
  | some (xs, []) => some xs
  | _ => none

end Sx

def opOfString : String → Option BinOp
  | "+" => some .sum | "-" => some .diff | "*" => some .prod | "/" => some .quot
  | "<" => some .lt | "<=" => some .le | "==" => some .eq | ">" => some .gt | ">=" => some .ge
  | _ => none

def opToString : BinOp → String
  | .sum => "+" | .diff => "-" | .prod => "*" | .quot => "/"
  | .lt => "<" | .le => "<=" | .eq => "==" | .gt => ">" | .ge => ">="

mutual
partial def tmOfSx : Sx → Option Tm
  | .atom "T" => some .type
  | .atom "I" => some .int
  | .atom "B" => some .bool
  | .atom "t" => some .tt
  | .atom "f" => some .ff
  | .list [.atom "h", .atom i, .atom s] => do some (.hole (← i.toNat?) (← s.toNat?))
  | .list [.atom "n", .atom n] => do some (.lit (← n.toInt?))
  | .list [.atom "v", .atom x, .atom i] => do some (.var (← x.toNat?) (← i.toNat?))
  | .list [.atom "L", .atom x, .atom im, d, b] => do
      some (.lam (← x.toNat?) (im == "1") (← tmOfSx d) (← tmOfSx b))
  | .list [.atom "P", .atom x, .atom im, d, b] => do
      some (.pi (← x.toNat?) (im == "1") (← tmOfSx d) (← tmOfSx b))
  | .list [.atom "A", f, a] => do some (.app (← tmOfSx f) (← tmOfSx a))
  | .list (.atom "G" :: rest) => do
      match rest.reverse with
      | body :: dsr => some (.letg (← defsOfSx dsr.reverse) (← tmOfSx body))
      | [] => none
  | .list [.atom "N", a] => do some (.neg (← tmOfSx a))
  | .list [.atom "O", .atom o, a, b] => do some (.bin (← opOfString o) (← tmOfSx a) (← tmOfSx b))
  | .list [.atom "F", c, t, e] => do some (.ite (← tmOfSx c) (← tmOfSx t) (← tmOfSx e))
  | _ => none
partial def defsOfSx : List Sx → Option Defs
  | [] => some .nil
  | .list [.atom "D", .atom x, a, d] :: r => do
      some (.cons (← x.toNat?) (← tmOfSx a) (← tmOfSx d) (← defsOfSx r))
  | _ => none
end

mutual
partial def tmToStringX (erase : Bool) : Tm → String
  | .type => "T" | .int => "I" | .bool => "B" | .tt => "t" | .ff => "f"
  | .hole i s => if erase then s!"(h _ {s})" else s!"(h {i} {s})"
  | .lit n => s!"(n {n})"
  | .var x i => s!"(v {x} {i})"
  | .lam x im d b => s!"(L {x} {if im then 1 else 0} {tmToStringX erase d} {tmToStringX erase b})"
  | .pi x im d b => s!"(P {x} {if im then 1 else 0} {tmToStringX erase d} {tmToStringX erase b})"
  | .app f a => s!"(A {tmToStringX erase f} {tmToStringX erase a})"
  | .letg ds b => s!"(G {defsToStringX erase ds}{tmToStringX erase b})"
  | .neg a => s!"(N {tmToStringX erase a})"
  | .bin o a b => s!"(O {opToString o} {tmToStringX erase a} {tmToStringX erase b})"
  | .ite c t e => s!"(F {tmToStringX erase c} {tmToStringX erase t} {tmToStringX erase e})"
partial def defsToStringX (erase : Bool) : Defs → String
  | .nil => ""
  | .cons x a d r => s!"(D {x} {tmToStringX erase a} {tmToStringX erase d}) {defsToStringX erase r}"
end

/-- Pure-layer output: cell identity is not observable there, ids are printed as `_`. -/
def tmToString (t : Tm) : String := tmToStringX true t
/-- Store-layer output: ids are printed. -/
def tmToStringI (t : Tm) : String := tmToStringX false t
