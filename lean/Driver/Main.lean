import GramModel
import Driver.Sexp

/-! Line-protocol driver: one op per input line, one result per output line. -/

def natList (xs : List Nat) : String :=
  "[" ++ " ".intercalate (xs.map toString) ++ "]"

def sortDedup (xs : List Nat) : List Nat :=
  let sorted := (xs.toArray.qsort (· < ·)).toList
  sorted.eraseDups

def stuckName : StuckReason → String
  | .variable => "variable" | .notFunction => "not-function" | .arithKind => "arith-kind"
  | .branchKind => "branch-kind" | .hole => "hole" | .divZero => "div-zero"


def natsOfSx : Sx → Option (List Nat)
  | .list xs => xs.mapM (fun x => match x with | .atom a => a.toNat? | _ => none)
  | _ => none

/-- classification table sent by the harness: flat list `cp flags cp flags ...`
(flags: 1 alphabetic, 2 alphanumeric, 4 whitespace), grapheme ends: one per character. -/
def mkCharClass (table : List Nat) (gends : List Nat) (text : List Char) : CharClass :=
  let rec pairs : List Nat → List (Nat × Nat)
    | a :: b :: r => (a, b) :: pairs r
    | _ => []
  let tbl := pairs table
  let flag (c : Char) : Nat := match tbl.find? (fun p => p.1 == c.toNat) with
    | some p => p.2 | none => 0
  -- byte offset of each character
  let offs := (text.foldl (fun (acc : List Nat × Nat) c => (acc.2 :: acc.1, acc.2 + c.utf8Size)) ([], 0)).1.reverse
  let gmap := offs.zip gends
  { isAlpha := fun c => flag c % 2 == 1
    isAlnum := fun c => (flag c / 2) % 2 == 1
    isWs := fun c => (flag c / 4) % 2 == 1
    graphemeEnd := fun pos => match gmap.find? (fun p => p.1 == pos) with
      | some p => p.2 | none => pos + 1 }

def tokToString (t : Tok) : String :=
  let payload := match t.kind with
    | .identifier w => "[" ++ ".".intercalate (w.map (fun (c : Char) => toString c.toNat)) ++ "]"
    | .integerLiteral n => "[" ++ toString n ++ "]"
    | _ => ""
  s!"{t.kind.tag}{payload}:{t.start}:{t.stop}"

def lexToString : LexResult → String
  | .ok ts => "ok" ++ String.join (ts.map (fun t => " " ++ tokToString t))
  | .err rs => "err" ++ String.join (rs.map (fun r => s!" {r.1}:{r.2}"))
  | .panic => "panic"

def runOp (xs : List Sx) : String :=
  match xs with
  | [.atom "echo", t] =>
    match tmOfSx t with
    | some t => tmToStringI t
    | none => "bad-term"
  | [.atom "sshift", .atom c, .atom amt, t] =>
    match c.toNat?, amt.toInt?, tmOfSx t with
    | some c, some amt, some t =>
      match sshift c amt t with
      | some r => tmToString r
      | none => "none"
    | _, _, _ => "bad-op"
  | [.atom "open", .atom i, .atom s, t, u] =>
    match i.toNat?, s.toNat?, tmOfSx t, tmOfSx u with
    | some i, some s, some t, some u => tmToString (openT t i u s)
    | _, _, _, _ => "bad-op"
  | [.atom "fv", .atom c, t] =>
    match c.toNat?, tmOfSx t with
    | some c, some t => natList (sortDedup (freeVars t c))
    | _, _ => "bad-op"
  | [.atom "isvalue", t] =>
    match tmOfSx t with
    | some t => if isValue t then "1" else "0"
    | none => "bad-op"
  | [.atom "step", t] =>
    match tmOfSx t with
    | some t => match step t with
      | some r => tmToString r
      | none => "none"
    | none => "bad-op"
  | [.atom "eval", .atom fuel, t] =>
    match fuel.toNat?, tmOfSx t with
    | some n, some t =>
      let r := evalFuel n t
      if isValue r then "value " ++ tmToString r
      else match step r with
        | some _ => "fuel " ++ tmToString r
        | none =>
          let why := match stuckReason r with
            | some w => stuckName w
            | none => "unclassified"
          "stuck " ++ why ++ " " ++ tmToString r
    | _, _ => "bad-op"
  | [.atom "trace", .atom fuel, t] =>
    match fuel.toNat?, tmOfSx t with
    | some n, some t => " ; ".intercalate ((evalTrace n t).map tmToString)
    | _, _ => "bad-op"
  | [.atom "tok", cps, cls, gs] =>
    match natsOfSx cps, natsOfSx cls, natsOfSx gs with
    | some cps, some cls, some gs =>
      let text := cps.map Char.ofNat
      lexToString (tokenize (mkCharClass cls gs text) text)
    | _, _, _ => "bad-op"
  | _ => "bad-op"

partial def loop (h : IO.FS.Stream) (out : IO.FS.Stream) : IO Unit := do
  let line ← h.getLine
  if line.isEmpty then return ()
  let line := String.ofList (line.toList.filter (fun c => c != (Char.ofNat 10) && c != (Char.ofNat 13)))
  let res := match Sx.parseLine line with
    | some xs => runOp xs
    | none => "bad-line"
  out.putStrLn res
  loop h out

def main : IO Unit := do
  let stdin ← IO.getStdin
  let stdout ← IO.getStdout
  loop stdin stdout
