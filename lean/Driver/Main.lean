import GramModel
import Driver.Sexp
import Driver.ParserOps
import Driver.ListingOps
import Driver.PrintOps

/-! Line-protocol driver: one op per input line, one result per output line. -/

def natList (xs : List Nat) : String :=
  "[" ++ " ".intercalate (xs.map toString) ++ "]"

def sortDedup (xs : List Nat) : List Nat :=
  let sorted := (xs.toArray.qsort (· < ·)).toList
  sorted.eraseDups

def stuckName : StuckReason → String
  | .variable => "variable" | .notFunction => "not-function" | .arithKind => "arith-kind"
  | .branchKind => "branch-kind" | .hole => "hole" | .divZero => "div-zero"


def natsOfSx : Sx → Option (List Nat)
  | .list xs => xs.mapM (fun x => match x with | .atom a => a.toNat? | _ => none)
  | _ => none

/-- classification table sent by the harness: flat list `cp flags cp flags ...`
(flags: 1 alphabetic, 2 alphanumeric, 4 whitespace), grapheme ends: one per character. -/
def mkCharClass (table : List Nat) (gends : List Nat) (text : List Char) : CharClass :=
  let rec pairs : List Nat → List (Nat × Nat)
    | a :: b :: r => (a, b) :: pairs r
    | _ => []
  let tbl := pairs table
  let flag (c : Char) : Nat := match tbl.find? (fun p => p.1 == c.toNat) with
    | some p => p.2 | none => 0
  -- byte offset of each character
  let offs := (text.foldl (fun (acc : List Nat × Nat) c => (acc.2 :: acc.1, acc.2 + c.utf8Size)) ([], 0)).1.reverse
  let gmap := offs.zip gends
  { isAlpha := fun c => flag c % 2 == 1
    isAlnum := fun c => (flag c / 2) % 2 == 1
    isWs := fun c => (flag c / 4) % 2 == 1
    graphemeEnd := fun pos => match gmap.find? (fun p => p.1 == pos) with
      | some p => p.2 | none => pos + 1 }

def tokToString (t : Tok) : String :=
  let payload := match t.kind with
    | .identifier w => "[" ++ ".".intercalate (w.map (fun (c : Char) => toString c.toNat)) ++ "]"
    | .integerLiteral n => "[" ++ toString n ++ "]"
    | _ => ""
  s!"{t.kind.tag}{payload}:{t.start}:{t.stop}"

def lexToString : LexResult → String
  | .ok ts => "ok" ++ String.join (ts.map (fun t => " " ++ tokToString t))
  | .err rs => "err" ++ String.join (rs.map (fun r => s!" {r.1}:{r.2}"))
  | .panic => "panic"


/-! store-layer protocol -/

def cellOfSx : Sx → Option (Option Tm)
  | .atom "U" => some none
  | t => (tmOfSx t).map some

def storeOfSx : Sx → Option (List (Option Tm))
  | .list (.atom "S" :: cs) => cs.mapM cellOfSx
  | _ => none

def tctxOfSx : Sx → Option (List (Tm × Nat))
  | .list (.atom "TC" :: es) => es.mapM (fun e => match e with
      | .list [.atom "E", t, .atom off] => do some ((← tmOfSx t), (← off.toNat?))
      | _ => none)
  | _ => none

def dctxOfSx : Sx → Option (List (Option (Tm × Nat)))
  | .list (.atom "DC" :: es) => es.mapM (fun e => match e with
      | .atom "N" => some none
      | .list [.atom "E", t, .atom off] => do some (some ((← tmOfSx t), (← off.toNat?)))
      | _ => none)
  | _ => none

/-- canonical printing of a term together with everything reachable in the store: cells are
numbered by first occurrence; a resolved cell prints its contents the first time it is met. -/
structure Canon where
  map : List (Nat × Nat) := []   -- id ↦ canonical number
  next : Nat := 0

mutual
partial def canonTm (store : List (Option Tm)) (t : Tm) (c : Canon) : String × Canon :=
  match t with
  | .hole id s =>
    match c.map.find? (fun p => p.1 == id) with
    | some p =>
      let resolved := match store[id]? with | some (some _) => true | _ => false
      (if resolved then s!"(r {p.2} {s})" else s!"(h {p.2} {s})", c)
    | none =>
      let k := c.next
      let c := { map := (id, k) :: c.map, next := k + 1 }
      match store[id]? with
      | some (some sub) =>
        let (str, c) := canonTm store sub c
        (s!"(r {k} {s} {str})", c)
      | _ => (s!"(h {k} {s})", c)
  | .type => ("T", c) | .int => ("I", c) | .bool => ("B", c) | .tt => ("t", c) | .ff => ("f", c)
  | .lit n => (s!"(n {n})", c)
  | .var x i => (s!"(v {x} {i})", c)
  | .lam x im d b =>
    let (ds, c) := canonTm store d c
    let (bs, c) := canonTm store b c
    (s!"(L {x} {if im then 1 else 0} {ds} {bs})", c)
  | .pi x im d b =>
    let (ds, c) := canonTm store d c
    let (bs, c) := canonTm store b c
    (s!"(P {x} {if im then 1 else 0} {ds} {bs})", c)
  | .app f a =>
    let (fs, c) := canonTm store f c
    let (as, c) := canonTm store a c
    (s!"(A {fs} {as})", c)
  | .letg ds b =>
    let (dss, c) := canonDefs store ds c
    let (bs, c) := canonTm store b c
    (s!"(G {dss}{bs})", c)
  | .neg a =>
    let (as, c) := canonTm store a c
    (s!"(N {as})", c)
  | .bin o a b =>
    let (as, c) := canonTm store a c
    let (bs, c) := canonTm store b c
    (s!"(O {opToString o} {as} {bs})", c)
  | .ite a b d =>
    let (as, c) := canonTm store a c
    let (bs, c) := canonTm store b c
    let (ds, c) := canonTm store d c
    (s!"(F {as} {bs} {ds})", c)
partial def canonDefs (store : List (Option Tm)) (ds : Defs) (c : Canon) : String × Canon :=
  match ds with
  | .nil => ("", c)
  | .cons x a d r =>
    let (as, c) := canonTm store a c
    let (dstr, c) := canonTm store d c
    let (rs, c) := canonDefs store r c
    (s!"(D {x} {as} {dstr}) {rs}", c)
end

def ctxSame (s0 s1 : St) : String :=
  let t := s0.tctx == s1.tctx
  let d := s0.dctx == s1.dctx
  if t && d then "ctx=same" else s!"ctx=changed({s1.tctx.length},{s1.dctx.length})"

def runStore (fuel : Nat) (xs : List Sx) : String :=
  match xs with
  | [.atom "infer", st, tc, dc, t] =>
    match storeOfSx st, tctxOfSx tc, dctxOfSx dc, tmOfSx t with
    | some store, some tctx, some dctx, some t =>
      let s0 : St := { store := store, tctx := tctx, dctx := dctx }
      match inferS fuel t s0 with
      | .ok (e, ty) s1 =>
        let (es, c) := canonTm s1.store e {}
        let (ts, _) := canonTm s1.store ty c
        if s1.nerrs == 0 then s!"ok | {es} | {ts} | {ctxSame s0 s1}"
        else s!"err {s1.nerrs} | {ctxSame s0 s1}"
      | .fuel => "out-of-fuel"
      | .panic _ => "panic"
    | _, _, _, _ => "bad-op"
  | [.atom "unify", st, dc, a, b] =>
    match storeOfSx st, dctxOfSx dc, tmOfSx a, tmOfSx b with
    | some store, some dctx, some a, some b =>
      let s0 : St := { store := store, dctx := dctx }
      match unifyS fuel a b s0 with
      | .ok r s1 =>
        let (as, c) := canonTm s1.store a {}
        let (bs, _) := canonTm s1.store b c
        s!"{r} | {as} | {bs} | {ctxSame s0 s1}"
      | .fuel => "out-of-fuel"
      | .panic _ => "panic"
    | _, _, _, _ => "bad-op"
  | [.atom "whnf", st, dc, a] =>
    match storeOfSx st, dctxOfSx dc, tmOfSx a with
    | some store, some dctx, some a =>
      let s0 : St := { store := store, dctx := dctx }
      match whnfS fuel a s0 with
      | .ok r s1 => s!"{(canonTm s1.store r {}).1} | {ctxSame s0 s1}"
      | .fuel => "out-of-fuel"
      | .panic _ => "panic"
    | _, _, _ => "bad-op"
  | [.atom "syneq", st, a, b] =>
    match storeOfSx st, tmOfSx a, tmOfSx b with
    | some store, some a, some b =>
      match synEqS fuel a b { store := store } with
      | .ok r _ => s!"{r}"
      | .fuel => "out-of-fuel"
      | .panic _ => "panic"
    | _, _, _ => "bad-op"
  | _ => "bad-op"

def runOp (xs : List Sx) : String :=
  match xs with
  | [.atom "echo", t] =>
    match tmOfSx t with
    | some t => tmToStringI t
    | none => "bad-term"
  | [.atom "sshift", .atom c, .atom amt, t] =>
    match c.toNat?, amt.toInt?, tmOfSx t with
    | some c, some amt, some t =>
      match sshift c amt t with
      | some r => tmToString r
      | none => "none"
    | _, _, _ => "bad-op"
  | [.atom "open", .atom i, .atom s, t, u] =>
    match i.toNat?, s.toNat?, tmOfSx t, tmOfSx u with
    | some i, some s, some t, some u => tmToString (openT t i u s)
    | _, _, _, _ => "bad-op"
  | [.atom "fv", .atom c, t] =>
    match c.toNat?, tmOfSx t with
    | some c, some t => natList (sortDedup (freeVars t c))
    | _, _ => "bad-op"
  | [.atom "isvalue", t] =>
    match tmOfSx t with
    | some t => if isValue t then "1" else "0"
    | none => "bad-op"
  | [.atom "step", t] =>
    match tmOfSx t with
    | some t => match step t with
      | some r => tmToString r
      | none => "none"
    | none => "bad-op"
  | [.atom "eval", .atom fuel, t] =>
    match fuel.toNat?, tmOfSx t with
    | some n, some t =>
      let r := evalFuel n t
      if isValue r then "value " ++ tmToString r
      else match step r with
        | some _ => "fuel " ++ tmToString r
        | none =>
          let why := match stuckReason r with
            | some w => stuckName w
            | none => "unclassified"
          "stuck " ++ why ++ " " ++ tmToString r
    | _, _ => "bad-op"
  | [.atom "evalz", .atom fuel, t] =>
    match fuel.toNat?, tmOfSx t with
    | some n, some t =>
      let r := evalFuel n t
      if isValue r then "value " ++ tmToString r
      else match step r with
        | some _ => "fuel"
        | none =>
          let why := match stuckReason r with
            | some w => stuckName w
            | none => "unclassified"
          "stuck " ++ why ++ " " ++ tmToString r
    | _, _ => "bad-op"
  | [.atom "trace", .atom fuel, t] =>
    match fuel.toNat?, tmOfSx t with
    | some n, some t => " ; ".intercalate ((evalTrace n t).map tmToString)
    | _, _ => "bad-op"
  | [.atom "tok", cps, cls, gs] =>
    match natsOfSx cps, natsOfSx cls, natsOfSx gs with
    | some cps, some cls, some gs =>
      let text := cps.map Char.ofNat
      lexToString (tokenize (mkCharClass cls gs text) text)
    | _, _, _ => "bad-op"
  | .atom "infer" :: _ | .atom "unify" :: _ | .atom "whnf" :: _ | .atom "syneq" :: _ =>
    runStore 6000 xs
  | .atom "oracle" :: .atom fuel :: e :: ty :: _ =>
    match fuel.toNat?, tmOfSx e, tmOfSx ty with
    | some n, some e, some ty =>
      match oracleAccepts n e ty with
      | .ok true => "ok"
      | .ok false => "type-mismatch"
      | .error .fuel => "ok"   -- the oracle ran out of fuel: no verdict (counted by the harness statistics)
      | .error err => s!"reject {repr err}"
    | _, _, _ => "bad-op"
  | .atom "parse" :: _ | .atom "parsestats" :: _ => runParserOp xs
  | .atom "listing" :: _ => runListingOp xs
  | .atom "print" :: _ => runPrintOp xs
  | _ => "bad-op"

partial def loop (h : IO.FS.Stream) (out : IO.FS.Stream) : IO Unit := do
  let line ← h.getLine
  if line.isEmpty then return ()
  let line := String.ofList (line.toList.filter (fun c => c != (Char.ofNat 10) && c != (Char.ofNat 13)))
  let res := match Sx.parseLine line with
    | some xs => runOp xs
    | none => "bad-line"
  out.putStrLn res
  loop h out

def main : IO Unit := do
  let stdin ← IO.getStdin
  let stdout ← IO.getStdout
  loop stdin stdout
