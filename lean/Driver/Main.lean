import GramModel
import Driver.Sexp

/-! Line-protocol driver: one op per input line, one result per output line. -/

def natList (xs : List Nat) : String :=
  "[" ++ " ".intercalate (xs.map toString) ++ "]"

def sortDedup (xs : List Nat) : List Nat :=
  let sorted := (xs.toArray.qsort (· < ·)).toList
  sorted.eraseDups

def stuckName : StuckReason → String
  | .variable => "variable" | .notFunction => "not-function" | .arithKind => "arith-kind"
  | .branchKind => "branch-kind" | .hole => "hole" | .divZero => "div-zero"

def runOp (xs : List Sx) : String :=
  match xs with
  | [.atom "echo", t] =>
    match tmOfSx t with
    | some t => tmToStringI t
    | none => "bad-term"
  | [.atom "sshift", .atom c, .atom amt, t] =>
    match c.toNat?, amt.toInt?, tmOfSx t with
    | some c, some amt, some t =>
      match sshift c amt t with
      | some r => tmToString r
      | none => "none"
    | _, _, _ => "bad-op"
  | [.atom "open", .atom i, .atom s, t, u] =>
    match i.toNat?, s.toNat?, tmOfSx t, tmOfSx u with
    | some i, some s, some t, some u => tmToString (openT t i u s)
    | _, _, _, _ => "bad-op"
  | [.atom "fv", .atom c, t] =>
    match c.toNat?, tmOfSx t with
    | some c, some t => natList (sortDedup (freeVars t c))
    | _, _ => "bad-op"
  | [.atom "isvalue", t] =>
    match tmOfSx t with
    | some t => if isValue t then "1" else "0"
    | none => "bad-op"
  | [.atom "step", t] =>
    match tmOfSx t with
    | some t => match step t with
      | some r => tmToString r
      | none => "none"
    | none => "bad-op"
  | [.atom "eval", .atom fuel, t] =>
    match fuel.toNat?, tmOfSx t with
    | some n, some t =>
      let r := evalFuel n t
      if isValue r then "value " ++ tmToString r
      else match step r with
        | some _ => "fuel " ++ tmToString r
        | none =>
          let why := match stuckReason r with
            | some w => stuckName w
            | none => "unclassified"
          "stuck " ++ why ++ " " ++ tmToString r
    | _, _ => "bad-op"
  | [.atom "trace", .atom fuel, t] =>
    match fuel.toNat?, tmOfSx t with
    | some n, some t => " ; ".intercalate ((evalTrace n t).map tmToString)
    | _, _ => "bad-op"
  | _ => "bad-op"

partial def loop (h : IO.FS.Stream) (out : IO.FS.Stream) : IO Unit := do
  let line ← h.getLine
  if line.isEmpty then return ()
  let line := String.ofList (line.toList.filter (fun c => c != (Char.ofNat 10) && c != (Char.ofNat 13)))
  let res := match Sx.parseLine line with
    | some xs => runOp xs
    | none => "bad-line"
  out.putStrLn res
  loop h out

def main : IO Unit := do
  let stdin ← IO.getStdin
  let stdout ← IO.getStdout
  loop stdin stdout
