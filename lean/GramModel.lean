import GramModel.Syntax
import GramModel.DeBruijn
import GramModel.Eval
import GramModel.Token
import GramModel.Generated.Tokenizer
import GramModel.Generated.Terms
import GramModel.Generated.Sites
import GramModel.Lexer
