import GramModel.Syntax
import GramModel.DeBruijn
import GramModel.Eval
