/-!
# Tokens (model of `src/token.rs`)

`TokKind` mirrors `token::Variant` (28 variants, the terminator split by `TerminatorType`).
Identifier names are the identifier's characters; integer literals carry their value.
-/

inductive TokKind
  | asterisk | boolean | colon | doubleEquals | else_ | equals | false_ | greaterThan
  | greaterThanOrEqualTo | identifier (name : List Char) | if_ | integer
  | integerLiteral (n : Nat) | leftCurly | leftParen | lessThan | lessThanOrEqualTo | minus | plus
  | rightCurly | rightParen | slash | terminatorLineBreak | terminatorSemicolon | then_
  | thickArrow | thinArrow | true_ | type_
deriving DecidableEq, Repr, Inhabited

/-- The payload-free shape of a token kind, as a number (used for finite tables). -/
def TokKind.tag : TokKind → Nat
  | .asterisk => 0 | .boolean => 1 | .colon => 2 | .doubleEquals => 3 | .else_ => 4 | .equals => 5
  | .false_ => 6 | .greaterThan => 7 | .greaterThanOrEqualTo => 8 | .identifier _ => 9 | .if_ => 10
  | .integer => 11 | .integerLiteral _ => 12 | .leftCurly => 13 | .leftParen => 14 | .lessThan => 15
  | .lessThanOrEqualTo => 16 | .minus => 17 | .plus => 18 | .rightCurly => 19 | .rightParen => 20
  | .slash => 21 | .terminatorLineBreak => 22 | .terminatorSemicolon => 23 | .then_ => 24
  | .thickArrow => 25 | .thinArrow => 26 | .true_ => 27 | .type_ => 28

/-- One representative per shape (payloads are irrelevant to every table). -/
def TokKind.all : List TokKind :=
  [.asterisk, .boolean, .colon, .doubleEquals, .else_, .equals, .false_, .greaterThan,
   .greaterThanOrEqualTo, .identifier [], .if_, .integer, .integerLiteral 0, .leftCurly, .leftParen,
   .lessThan, .lessThanOrEqualTo, .minus, .plus, .rightCurly, .rightParen, .slash,
   .terminatorLineBreak, .terminatorSemicolon, .then_, .thickArrow, .thinArrow, .true_, .type_]

structure Tok where
  kind : TokKind
  start : Nat
  stop : Nat
deriving DecidableEq, Repr, Inhabited
