/-!
# Source excerpts of diagnostics (model of `listing` in `src/error.rs`, uncoloured mode)

Text is a `List Char`; ranges are UTF-8 byte offsets (`Char.utf8Size`).  Unicode whitespace
(`char::is_whitespace`, used by `trim_end` and by `find(|c| !c.is_whitespace())`) is a parameter
`ws : Char → Bool`; the harness supplies Rust's classification per input.

Like the Rust function the model works in two phases: `rowsOf` walks the lines and records, for every
line the range touches, `(line number, trimmed line, section start, section end)`; `render` turns the
records into text.  The only partial operations of the Rust code are the string slices
`line[..s]`, `line[s..e]`, `line[e..]`, which panic when `s > e` or an offset is not a character
boundary of the (trimmed) line; `sliceAt` reproduces exactly that, and a failed slice makes the whole
result `panic`.  All functions are structurally recursive; there is no fuel.
-/

namespace Listing

/-- length in UTF-8 bytes (`str::len`) -/
def utf8Len : List Char → Nat
  | [] => 0
  | c :: cs => c.utf8Size + utf8Len cs

/-- `str::split('\n')`: always at least one piece -/
def splitLines : List Char → List (List Char)
  | [] => [[]]
  | c :: cs =>
    if c = '\n' then [] :: splitLines cs
    else match splitLines cs with
      | l :: ls => (c :: l) :: ls
      | [] => [[c]]

/-- `str::trim_end` -/
def trimEnd (ws : Char → Bool) : List Char → List Char
  | [] => []
  | c :: cs =>
    match trimEnd ws cs with
    | [] => if ws c then [] else [c]
    | r => c :: r

/-- `str::find(|c| !c.is_whitespace())` on a string whose first byte is at `pos` -/
def findNonWs (ws : Char → Bool) : List Char → Nat → Option Nat
  | [], _ => none
  | c :: cs, pos => if ws c then findNonWs ws cs (pos + c.utf8Size) else some pos

/-- One recorded line. -/
structure Row where
  num : Nat           -- 1-based line number
  line : List Char    -- the line, end-trimmed
  secStart : Nat      -- byte offsets into `line`
  secEnd : Nat
deriving Repr, DecidableEq

/-- the highlighted section of the line starting at byte `lineStart`, `t` being the trimmed line -/
def section_ (ws : Char → Bool) (start stop lineStart : Nat) (t : List Char) : Nat × Nat :=
  if start > lineStart then
    (min (start - lineStart) (utf8Len t), min (stop - lineStart) (utf8Len t))
  else
    let e := min (stop - lineStart) (utf8Len t)
    ((findNonWs ws t 0).getD e, e)

/-- The loop over the lines: `i` is the 0-based index of the head line, `pos` its first byte. -/
def collectRows (ws : Char → Bool) (start stop : Nat) : List (List Char) → Nat → Nat → List Row
  | [], _, _ => []
  | line :: rest, i, pos =>
    let pos' := pos + utf8Len line + 1
    if pos ≥ stop then []                                           -- `break`
    else if pos' ≤ start then collectRows ws start stop rest (i + 1) pos'   -- `continue`
    else
      let t := trimEnd ws line
      let se := section_ ws start stop pos t
      ⟨i + 1, t, se.1, se.2⟩ :: collectRows ws start stop rest (i + 1) pos'

def rowsOf (ws : Char → Bool) (text : List Char) (start stop : Nat) : List Row :=
  collectRows ws start stop (splitLines text) 0 0

/-- decimal rendering of a line number (`usize::to_string`) -/
def decimal (n : Nat) : List Char := Nat.toDigits 10 n

def gutterWidth (rows : List Row) : Nat :=
  rows.foldl (fun acc r => max acc (decimal r.num).length) 0

/-- `&s[..n]` together with `&s[n..]`; `none` when `n` is not a character boundary of `s`
(this includes `n > s.len()`) -/
def sliceAt : List Char → Nat → Option (List Char × List Char)
  | [], n => if n = 0 then some ([], []) else none
  | c :: cs, n =>
    if n = 0 then some ([], c :: cs)
    else if c.utf8Size ≤ n then
      match sliceAt cs (n - c.utf8Size) with
      | some (a, b) => some (c :: a, b)
      | none => none
    else none

/-- the three slices `line[..s]`, `line[s..e]`, `line[e..]`; `none` = a slice panics -/
def slices (line : List Char) (s e : Nat) : Option (List Char × List Char × List Char) :=
  match sliceAt line s with
  | none => none
  | some (pre, rest) =>
    if e < s then none
    else match sliceAt rest (e - s) with
      | none => none
      | some (mid, post) => some (pre, mid, post)

def spaces (n : Nat) : List Char := List.replicate n ' '

/-- `{line_number:>gutter_width$} │ ` -/
def gutter (gw : Nat) (num : Nat) : List Char :=
  let d := decimal num
  spaces (gw - d.length) ++ d ++ [' ', '│', ' ']

/-- the second (marker) row, without its leading newline -/
def markerRow (gw : Nat) (last : Bool) (r : Row) (pre mid : List Char) : List Char :=
  let sep : Char := if last then ' ' else '┊'
  if r.secStart = r.secEnd then spaces gw ++ [' ', sep]
  else spaces gw ++ [' ', sep, ' '] ++ spaces pre.length ++ List.replicate mid.length '‾'

def renderRow (gw : Nat) (last : Bool) (r : Row) : Option (List Char) :=
  match slices r.line r.secStart r.secEnd with
  | none => none
  | some (pre, mid, post) =>
    some (gutter gw r.num ++ pre ++ mid ++ post ++ '\n' :: markerRow gw last r pre mid)

def renderRows (gw : Nat) : List Row → Option (List (List Char))
  | [] => some []
  | r :: rs =>
    match renderRow gw rs.isEmpty r, renderRows gw rs with
    | some x, some xs => some (x :: xs)
    | _, _ => none

/-- `join("\n")` -/
def joinNl : List (List Char) → List Char
  | [] => []
  | [a] => a
  | a :: b :: r => a ++ '\n' :: joinNl (b :: r)

inductive Result
  | ok (out : List Char)
  | panic
deriving Repr, DecidableEq

def render (rows : List Row) : Result :=
  match renderRows (gutterWidth rows) rows with
  | none => .panic
  | some xs => .ok (joinNl xs)

/-- `listing(source_contents, SourceRange { start, end: stop })` -/
def listing (ws : Char → Bool) (text : List Char) (start stop : Nat) : Result :=
  render (rowsOf ws text start stop)

end Listing
