import GramModel.Oracle

/-!
# The typing rules of gram, stated declaratively (the specification C03 / C04 / C05 refer to)

`Oracle.lean` is an *algorithm* (fuel, a weak-head strategy, a syntactic shortcut).  This file states
the rules themselves as inductive relations, with no fuel and no strategy: one-step head reduction
`Red1`, convertibility `Conv` (the least equivalence and congruence containing `Red1`, where names
and parameter annotations of functions are irrelevant; groups are congruent componentwise, with
their variables opaque), and the typing judgement `HasType` (a pure
type system with `type : type`, dependent functions, mutually recursive definition groups, integers,
booleans, a conversion rule).  `Lemmas/TypingSound.lean` proves that the algorithm is sound for these
rules on hole-free terms.

Contexts are the implementation's: entry `i` of the typing context is `(ty, off)`, meaning that
variable `i` has type `ty` shifted up by `i + 1 - off`; entry `i` of the definitions context is
`none` (a parameter) or `some (d, off)` (a definition, unfolding to `d` shifted up by `i + 1 - off`).
-/

/-- One step of head reduction under a definitions context. -/
inductive Red1 (Δ : DCtxX) : Tm → Tm → Prop
  /-- β: `(x => body) a ⟶ body[a/x]` -/
  | beta (x : Name) (im : Bool) (d body a : Tm) : Red1 Δ (.app (.lam x im d body) a) (openT body 0 a 0)
  /-- δ: a variable bound by a definition unfolds to that definition -/
  | delta (x : Name) (i : Nat) (d : Tm) (off : Nat) :
      Δ[i]? = some (some (d, off)) → off ≤ i + 1 → Red1 Δ (.var x i) (ushift 0 (i + 1 - off) d)
  /-- a group unfolds its first definition (made self-contained by `unfoldDef`) into the rest -/
  | letStep (x : Name) (a d : Tm) (rest : Defs) (body : Tm) :
      Red1 Δ (.letg (.cons x a d rest) body) (.letg (letStepX x a d rest body).1 (letStepX x a d rest body).2)
  /-- an empty group is its body -/
  | letNil (body : Tm) : Red1 Δ (.letg .nil body) body
  | neg (n : Int) : Red1 Δ (.neg (.lit n)) (.lit (-n))
  /-- arithmetic and comparison of literals (`delta` is `none` exactly for division by zero) -/
  | arith (op : BinOp) (x y : Int) (r : Tm) : delta op x y = some r → Red1 Δ (.bin op (.lit x) (.lit y)) r
  | iteTrue (a b : Tm) : Red1 Δ (.ite .tt a b) a
  | iteFalse (a b : Tm) : Red1 Δ (.ite .ff a b) b

mutual
/-- Convertibility (definitional equality): the least equivalence relation that contains head
reduction, identifies terms that differ only in names and parameter annotations (`sameX`), and is a
congruence for every constructor.  Going under a binder adds a parameter (`none`) to the definitions
context. -/
inductive Conv : DCtxX → Tm → Tm → Prop
  | refl (Δ : DCtxX) (a : Tm) : Conv Δ a a
  | symm {Δ : DCtxX} {a b : Tm} : Conv Δ a b → Conv Δ b a
  | trans {Δ : DCtxX} {a b c : Tm} : Conv Δ a b → Conv Δ b c → Conv Δ a c
  | red {Δ : DCtxX} {a b : Tm} : Red1 Δ a b → Conv Δ a b
  | same {Δ : DCtxX} {a b : Tm} : sameX a b = true → Conv Δ a b
  | lam {Δ : DCtxX} (x y : Name) (im : Bool) (d1 d2 : Tm) {b1 b2 : Tm} :
      Conv (none :: Δ) b1 b2 → Conv Δ (.lam x im d1 b1) (.lam y im d2 b2)
  | pi {Δ : DCtxX} (x y : Name) (im : Bool) {d1 d2 c1 c2 : Tm} :
      Conv Δ d1 d2 → Conv (none :: Δ) c1 c2 → Conv Δ (.pi x im d1 c1) (.pi y im d2 c2)
  | app {Δ : DCtxX} {f1 f2 a1 a2 : Tm} : Conv Δ f1 f2 → Conv Δ a1 a2 → Conv Δ (.app f1 a1) (.app f2 a2)
  | neg {Δ : DCtxX} {a1 a2 : Tm} : Conv Δ a1 a2 → Conv Δ (.neg a1) (.neg a2)
  | bin {Δ : DCtxX} (op : BinOp) {a1 a2 b1 b2 : Tm} :
      Conv Δ a1 a2 → Conv Δ b1 b2 → Conv Δ (.bin op a1 b1) (.bin op a2 b2)
  | ite {Δ : DCtxX} {c1 c2 a1 a2 b1 b2 : Tm} :
      Conv Δ c1 c2 → Conv Δ a1 a2 → Conv Δ b1 b2 → Conv Δ (.ite c1 a1 b1) (.ite c2 a2 b2)
  /-- Groups are compared componentwise.  In the premises the variables of the group are *opaque*
  parameters (`none` entries), not definitions: the definitions of a group may be recursive, and two
  recursive definitions whose bodies agree only *after* unfolding one of them need not define the
  same function (`f = n => 0` and `f = n => f n` agree under `f := n => 0`), so making the left (or
  the right) group transparent here would be unsound; with opaque variables the two bodies are equal
  as functionals of the group variables, hence so are the groups. -/
  | letg {Δ : DCtxX} {ds1 ds2 : Defs} {b1 b2 : Tm} :
      ConvDefs (List.replicate ds1.len none ++ Δ) ds1 ds2 →
      Conv (List.replicate ds1.len none ++ Δ) b1 b2 → Conv Δ (.letg ds1 b1) (.letg ds2 b2)
/-- pairwise convertibility of the annotations and of the definitions of two groups of the same
length (names are irrelevant) -/
inductive ConvDefs : DCtxX → Defs → Defs → Prop
  | nil (Δ : DCtxX) : ConvDefs Δ .nil .nil
  | cons {Δ : DCtxX} (x y : Name) {a1 a2 d1 d2 : Tm} {r1 r2 : Defs} :
      Conv Δ a1 a2 → Conv Δ d1 d2 → ConvDefs Δ r1 r2 →
      ConvDefs Δ (.cons x a1 d1 r1) (.cons y a2 d2 r2)
end

/-- result type of a binary operator -/
def binResult : BinOp → Tm
  | .sum | .diff | .prod | .quot => .int
  | _ => .bool

mutual
/-- The typing judgement `Γ; Δ ⊢ t : T`. -/
inductive HasType : TCtxX → DCtxX → Tm → Tm → Prop
  | type (Γ : TCtxX) (Δ : DCtxX) : HasType Γ Δ .type .type
  | int (Γ : TCtxX) (Δ : DCtxX) : HasType Γ Δ .int .type
  | bool (Γ : TCtxX) (Δ : DCtxX) : HasType Γ Δ .bool .type
  | lit (Γ : TCtxX) (Δ : DCtxX) (n : Int) : HasType Γ Δ (.lit n) .int
  | tt (Γ : TCtxX) (Δ : DCtxX) : HasType Γ Δ .tt .bool
  | ff (Γ : TCtxX) (Δ : DCtxX) : HasType Γ Δ .ff .bool
  | var {Γ : TCtxX} (Δ : DCtxX) (x : Name) (i : Nat) (ty : Tm) (off : Nat) :
      Γ[i]? = some (ty, off) → off ≤ i + 1 → HasType Γ Δ (.var x i) (ushift 0 (i + 1 - off) ty)
  | lam {Γ : TCtxX} {Δ : DCtxX} (x : Name) (im : Bool) {d b cod : Tm} :
      HasType Γ Δ d .type → HasType ((d, 0) :: Γ) (none :: Δ) b cod →
      HasType Γ Δ (.lam x im d b) (.pi x im d cod)
  | pi {Γ : TCtxX} {Δ : DCtxX} (x : Name) (im : Bool) {d c : Tm} :
      HasType Γ Δ d .type → HasType ((d, 0) :: Γ) (none :: Δ) c .type →
      HasType Γ Δ (.pi x im d c) .type
  | app {Γ : TCtxX} {Δ : DCtxX} (x : Name) (im : Bool) {g a dom cod : Tm} :
      HasType Γ Δ g (.pi x im dom cod) → HasType Γ Δ a dom →
      HasType Γ Δ (.app g a) (openT cod 0 a 0)
  /-- a group: every annotation is a type and every definition has its annotation, all under the
  whole group (so definitions may be mutually recursive); the group's type is the body's type under
  the same group -/
  | letg {Γ : TCtxX} {Δ : DCtxX} {ds : Defs} {body bty : Tm} :
      DefsOK (pushGroupX ds 0 (Γ, Δ)).1 (pushGroupX ds 0 (Γ, Δ)).2 ds →
      HasType (pushGroupX ds 0 (Γ, Δ)).1 (pushGroupX ds 0 (Γ, Δ)).2 body bty →
      HasType Γ Δ (.letg ds body) (.letg ds bty)
  | neg {Γ : TCtxX} {Δ : DCtxX} {a : Tm} : HasType Γ Δ a .int → HasType Γ Δ (.neg a) .int
  | bin {Γ : TCtxX} {Δ : DCtxX} (op : BinOp) {a b : Tm} :
      HasType Γ Δ a .int → HasType Γ Δ b .int → HasType Γ Δ (.bin op a b) (binResult op)
  | ite {Γ : TCtxX} {Δ : DCtxX} {c a b T : Tm} :
      HasType Γ Δ c .bool → HasType Γ Δ a T → HasType Γ Δ b T → HasType Γ Δ (.ite c a b) T
  /-- conversion: a term has every type convertible with one of its types -/
  | conv {Γ : TCtxX} {Δ : DCtxX} {t T T' : Tm} : HasType Γ Δ t T → Conv Δ T T' → HasType Γ Δ t T'
/-- every definition of a group is well typed at its annotation -/
inductive DefsOK : TCtxX → DCtxX → Defs → Prop
  | nil (Γ : TCtxX) (Δ : DCtxX) : DefsOK Γ Δ .nil
  | cons {Γ : TCtxX} {Δ : DCtxX} (x : Name) {ann d : Tm} {rest : Defs} :
      HasType Γ Δ ann .type → HasType Γ Δ d ann → DefsOK Γ Δ rest → DefsOK Γ Δ (.cons x ann d rest)
end

-- sanity: the identity on `int` has type `int -> int`, and applied to a literal it has type `int`
example : HasType [] [] (.lam 1 false .int (.var 1 0)) (.pi 1 false .int .int) :=
  .lam 1 false (.int _ _) (.var _ 1 0 .int 0 rfl (by omega))
example : HasType [] [] (.app (.lam 1 false .int (.var 1 0)) (.lit 3)) .int :=
  .app 1 false (.lam 1 false (.int _ _) (.var _ 1 0 .int 0 rfl (by omega))) (.lit _ _ 3)
