import GramModel.Check
import GramModel.Oracle
import GramModel.Lemmas.Oracle

/-!
# C03 — the type checker never accepts an ill-typed program

The full statement is **false of the code** (known finding KF-holecopy): a negation witness is proved
below by kernel evaluation, and the same program is replayed on the implementation on every run.
The per-program decision — every program the real checker accepts is re-checked by the independent
checker `inferX` on its zonked elaboration — is made by the `pipeline` and `programs` suites.
-/

/-- The independent checker only accepts well-scoped terms (for hole-free terms — `inferX` types a hole
as `type` whatever its shift, which is how gram itself types a hole): every variable it meets has an
entry in the typing context. -/
def C03_oracle_scoped_holefree_stmt : Prop :=
  ∀ (fuel : Nat) (Γ : TCtxX) (Δ : DCtxX) (t T : Tm), Γ.length = Δ.length → t.holeFree = true →
    inferX fuel Γ Δ t = .ok T → wellScoped Γ.length t = true
theorem C03_oracle_scoped_holefree : C03_oracle_scoped_holefree_stmt :=
  fun fuel Γ Δ t T _ hf h => (OracleLemmas.inferX_scoped_aux fuel).1 Γ Δ t T hf h

/-- The independent checker is syntax-directed on the constants: it gives literals, booleans and
the base types exactly their type (so a constant of the wrong kind can only be accepted through a
conversion check that fails). -/
def C03_oracle_constants_stmt : Prop :=
  ∀ (f : Nat) (Γ : TCtxX) (Δ : DCtxX) (n : Int),
    inferX (f+1) Γ Δ (.lit n) = .ok .int ∧ inferX (f+1) Γ Δ .tt = .ok .bool ∧
    inferX (f+1) Γ Δ .ff = .ok .bool ∧ inferX (f+1) Γ Δ .int = .ok .type ∧
    inferX (f+1) Γ Δ .bool = .ok .type ∧ inferX (f+1) Γ Δ .type = .ok .type
theorem C03_oracle_constants : C03_oracle_constants_stmt := by
  intro f Γ Δ n; simp [inferX]

/-- Arithmetic on a boolean is rejected by the independent checker whatever the context. -/
def C03_oracle_rejects_bool_arith_stmt : Prop :=
  ∀ (f : Nat) (Γ : TCtxX) (Δ : DCtxX) (op : BinOp) (b : Tm),
    inferX (f+3) Γ Δ (.bin op .tt b) = .error .notInt
theorem C03_oracle_rejects_bool_arith : C03_oracle_rejects_bool_arith_stmt := by
  intro f Γ Δ op b
  simp [inferX, expectX, convX, sameX, whnfX]

/-! ## Negation witness (KF-holecopy): accepted by the model of gram's checker, rejected by the
independent checker -/

-- `((f : int -> _) => f 1 + 1) ((x : int) => true)`
def C03_w_holecopy : Tm :=
  .app (.lam 1 false (.pi 0 false .int (.hole 0 0)) (.bin .sum (.app (.var 1 0) (.lit 1)) (.lit 1)))
       (.lam 2 false .int .tt)

def acceptedButIllTyped (fuel : Nat) (w : Tm) (cells : Nat) : Bool :=
  match inferS fuel w { store := List.replicate cells none } with
  | .ok (e, ty) s =>
      s.nerrs == 0 &&
      (match zonk fuel s.store e, zonk fuel s.store ty with
       | some ze, some zty => (match oracleAccepts fuel ze zty with | .error .notInt => true | _ => false)
       | _, _ => false)
  | _ => false

def C03_false_holecopy_stmt : Prop := acceptedButIllTyped 40 C03_w_holecopy 1 = true
theorem C03_false_holecopy : C03_false_holecopy_stmt := by unfold C03_false_holecopy_stmt; decide
