import GramModel.Lemmas.ArmsTie
import GramModel.Check
import GramModel.Oracle
import GramModel.Lemmas.Oracle
import GramModel.Typing
import GramModel.Lemmas.Fuel
import GramModel.Lemmas.TypingSound
import GramModel.Lemmas.CheckSound

/-!
# C03 — the type checker never accepts an ill-typed program

The full statement is **false of the code** (known finding KF-holecopy): a negation witness is proved
below by kernel evaluation, and the same program is replayed on the implementation on every run.
The per-program decision — every program the real checker accepts is re-checked by the independent
checker `inferX` on its zonked elaboration — is made by the `pipeline` and `programs` suites.
-/

/-- The independent checker only accepts well-scoped terms (for hole-free terms — `inferX` types a hole
as `type` whatever its shift, which is how gram itself types a hole): every variable it meets has an
entry in the typing context. -/
def C03_oracle_scoped_holefree_stmt : Prop :=
  ∀ (fuel : Nat) (Γ : TCtxX) (Δ : DCtxX) (t T : Tm), Γ.length = Δ.length → t.holeFree = true →
    inferX fuel Γ Δ t = .ok T → wellScoped Γ.length t = true
theorem C03_oracle_scoped_holefree : C03_oracle_scoped_holefree_stmt :=
  fun fuel Γ Δ t T _ hf h => (OracleLemmas.inferX_scoped_aux fuel).1 Γ Δ t T hf h

/-- The independent checker is syntax-directed on the constants: it gives literals, booleans and
the base types exactly their type (so a constant of the wrong kind can only be accepted through a
conversion check that fails). -/
def C03_oracle_constants_stmt : Prop :=
  ∀ (f : Nat) (Γ : TCtxX) (Δ : DCtxX) (n : Int),
    inferX (f+1) Γ Δ (.lit n) = .ok .int ∧ inferX (f+1) Γ Δ .tt = .ok .bool ∧
    inferX (f+1) Γ Δ .ff = .ok .bool ∧ inferX (f+1) Γ Δ .int = .ok .type ∧
    inferX (f+1) Γ Δ .bool = .ok .type ∧ inferX (f+1) Γ Δ .type = .ok .type
theorem C03_oracle_constants : C03_oracle_constants_stmt := by
  intro f Γ Δ n; simp [inferX]

/-- Arithmetic on a boolean is rejected by the independent checker whatever the context. -/
def C03_oracle_rejects_bool_arith_stmt : Prop :=
  ∀ (f : Nat) (Γ : TCtxX) (Δ : DCtxX) (op : BinOp) (b : Tm),
    inferX (f+3) Γ Δ (.bin op .tt b) = .error .notInt
theorem C03_oracle_rejects_bool_arith : C03_oracle_rejects_bool_arith_stmt := by
  intro f Γ Δ op b
  simp [inferX, expectX, convX, sameX, whnfX]

/-! ## Negation witness (KF-holecopy): accepted by the model of gram's checker, rejected by the
independent checker -/

-- `((f : int -> _) => f 1 + 1) ((x : int) => true)`
def C03_w_holecopy : Tm :=
  .app (.lam 1 false (.pi 0 false .int (.hole 0 0)) (.bin .sum (.app (.var 1 0) (.lit 1)) (.lit 1)))
       (.lam 2 false .int .tt)

def acceptedButIllTyped (fuel : Nat) (w : Tm) (cells : Nat) : Bool :=
  match inferS fuel w { store := List.replicate cells none } with
  | .ok (e, ty) s =>
      s.nerrs == 0 &&
      (match zonk fuel s.store e, zonk fuel s.store ty with
       | some ze, some zty => (match oracleAccepts fuel ze zty with | .error .notInt => true | _ => false)
       | _, _ => false)
  | _ => false

def C03_false_holecopy_stmt : Prop := acceptedButIllTyped 40 C03_w_holecopy 1 = true
theorem C03_false_holecopy : C03_false_holecopy_stmt := by unfold C03_false_holecopy_stmt; decide

/-! ## The verdict of the independent checker does not depend on the fuel -/

/-- More fuel never changes an answer of the normalizer … -/
def C03_whnfX_fuel_mono_stmt : Prop :=
  ∀ (f : Nat) (Δ : DCtxX) (t r : Tm), whnfX f Δ t = some r → whnfX (f+1) Δ t = some r
/-- … of the conversion check … -/
def C03_convX_fuel_mono_stmt : Prop :=
  ∀ (f : Nat) (Δ : DCtxX) (a b : Tm) (r : Bool), convX f Δ a b = some r → convX (f+1) Δ a b = some r
/-- … or a typing verdict: once `inferX` has answered (accepting with a type, or rejecting for a
reason other than running out of fuel), every larger fuel gives the same answer. -/
def C03_inferX_fuel_mono_stmt : Prop :=
  ∀ (f : Nat) (Γ : TCtxX) (Δ : DCtxX) (t : Tm) (r : Except XErr Tm),
    inferX f Γ Δ t = r → r ≠ .error .fuel → inferX (f+1) Γ Δ t = r
theorem C03_whnfX_fuel_mono : C03_whnfX_fuel_mono_stmt := FuelLemmas.whnfX_mono
theorem C03_convX_fuel_mono : C03_convX_fuel_mono_stmt := FuelLemmas.convX_mono
theorem C03_inferX_fuel_mono : C03_inferX_fuel_mono_stmt := FuelLemmas.inferX_mono

/-- The same three facts for an arbitrary larger fuel (not just one more unit), and for the whole
judgement `oracleAccepts`: a verdict other than "out of fuel" is the verdict at every larger fuel. -/
def C03_fuel_le_stmt : Prop :=
  (∀ (f g : Nat) (Δ : DCtxX) (t r : Tm), f ≤ g → whnfX f Δ t = some r → whnfX g Δ t = some r) ∧
  (∀ (f g : Nat) (Δ : DCtxX) (a b : Tm) (r : Bool), f ≤ g →
    convX f Δ a b = some r → convX g Δ a b = some r) ∧
  (∀ (f g : Nat) (Γ : TCtxX) (Δ : DCtxX) (t : Tm) (r : Except XErr Tm), f ≤ g →
    inferX f Γ Δ t = r → r ≠ .error .fuel → inferX g Γ Δ t = r) ∧
  (∀ (f g : Nat) (e ty : Tm) (r : Except XErr Bool), f ≤ g →
    oracleAccepts f e ty = r → r ≠ .error .fuel → oracleAccepts g e ty = r)
theorem C03_fuel_le : C03_fuel_le_stmt := by
  refine ⟨fun f g Δ t r hfg h => FuelLemmas.whnfX_mono_le hfg h,
    fun f g Δ a b r hfg h => FuelLemmas.convX_mono_le hfg h,
    fun f g Γ Δ t r hfg h hr => FuelLemmas.inferX_mono_le hfg h hr, ?_⟩
  intro f g e ty r hfg h hr
  subst h
  unfold oracleAccepts at hr ⊢
  cases hi : inferX f [] [] e with
  | error x =>
    rw [hi] at hr
    have hx : x ≠ .fuel := fun c => hr (by rw [c])
    rw [FuelLemmas.inferX_mono_le hfg hi (fun c => hx (by injection c))]
  | ok T =>
    rw [hi] at hr
    rw [FuelLemmas.inferX_mono_le hfg hi (fun c => by cases c)]
    simp only at hr ⊢
    cases hc : convX f [] T ty with
    | none => rw [hc] at hr; exact absurd rfl hr
    | some b => rw [FuelLemmas.convX_mono_le hfg hc]


/-! ## The independent checker is sound for the declarative typing rules (`Typing.lean`) -/

/-- hole-free contexts -/
def TCtxX.holeFree (Γ : TCtxX) : Prop := ∀ e ∈ Γ, e.1.holeFree = true
def DCtxX.holeFree (Δ : DCtxX) : Prop := ∀ e ∈ Δ, ∀ d o, e = some (d, o) → d.holeFree = true

/-- The normalizer only rewrites a term into a convertible one. -/
def C03_whnf_sound_stmt : Prop :=
  ∀ (f : Nat) (Δ : DCtxX) (t r : Tm), whnfX f Δ t = some r → Conv Δ t r
theorem C03_whnf_sound : C03_whnf_sound_stmt :=
  fun _ _ _ _ h => TypingSound.whnfX_conv h

/-- A positive answer of the conversion check on hole-free terms is a derivation of convertibility
(no fuel, no strategy).  (With holes the check is deliberately lenient, so this cannot hold there.) -/
def C03_conv_sound_stmt : Prop :=
  ∀ (f : Nat) (Δ : DCtxX) (a b : Tm), a.holeFree = true → b.holeFree = true → DCtxX.holeFree Δ →
    convX f Δ a b = some true → Conv Δ a b
theorem C03_conv_sound : C03_conv_sound_stmt :=
  fun f Δ a b ha hb hD h => TypingSound.convX_sound f Δ a b ha hb hD h

/-- **Soundness of the independent checker**: on hole-free terms in hole-free contexts, the type it
computes is a type of the term under the declarative rules. -/
def C03_infer_sound_stmt : Prop :=
  ∀ (f : Nat) (Γ : TCtxX) (Δ : DCtxX) (t T : Tm), t.holeFree = true → TCtxX.holeFree Γ → DCtxX.holeFree Δ →
    inferX f Γ Δ t = .ok T → HasType Γ Δ t T
theorem C03_infer_sound : C03_infer_sound_stmt :=
  fun _ _ _ _ _ ht hΓ hD h => TypingSound.inferX_sound ht hΓ hD h

/-- The same for definition groups: an accepted hole-free group is well typed under the declarative
rules. -/
def C03_inferDefs_sound_stmt : Prop :=
  ∀ (f : Nat) (Γ : TCtxX) (Δ : DCtxX) (ds : Defs), ds.holeFree = true → TCtxX.holeFree Γ →
    DCtxX.holeFree Δ → inferDefsX f Γ Δ ds = .ok () → DefsOK Γ Δ ds
theorem C03_inferDefs_sound : C03_inferDefs_sound_stmt :=
  fun _ _ _ _ hds hΓ hD h => TypingSound.inferDefsX_sound hds hΓ hD h

/-- The whole judgement made about an accepted program: if the independent checker accepts a
hole-free elaboration at a hole-free reported type, the elaboration has the reported type under the
declarative rules. -/
def C03_oracle_sound_stmt : Prop :=
  ∀ (fuel : Nat) (e ty : Tm), e.holeFree = true → ty.holeFree = true →
    oracleAccepts fuel e ty = .ok true → HasType [] [] e ty
theorem C03_oracle_sound : C03_oracle_sound_stmt :=
  fun _ _ _ he hty h => TypingSound.oracleAccepts_sound he hty h

/-! ### The hypotheses are satisfiable and the conclusions say something -/

/-- Boolean forms of "the checker answered exactly this", so that the examples are closed by kernel
evaluation (`decide`). -/
def C03_acceptsB (x : Except XErr Bool) : Bool := match x with | .ok true => true | _ => false
theorem C03_of_acceptsB {x : Except XErr Bool} (h : C03_acceptsB x = true) : x = .ok true := by
  unfold C03_acceptsB at h; split at h <;> first | rfl | cases h
def C03_infersB (x : Except XErr Tm) (T : Tm) : Bool := match x with | .ok T' => decide (T' = T) | _ => false
theorem C03_of_infersB {x : Except XErr Tm} {T : Tm} (h : C03_infersB x T = true) : x = .ok T := by
  unfold C03_infersB at h; split at h
  · rw [of_decide_eq_true h]
  · cases h

-- `(x => x + 1) 2` normalizes to `3`, hence is convertible with it
example : Conv [] (.app (.lam 1 false .int (.bin .sum (.var 1 0) (.lit 1))) (.lit 2)) (.lit 3) :=
  C03_whnf_sound 5 [] _ _ (by decide)

-- under a definition `n : int = 2` (entry `some (lit 2, 1)`), `if n < 3 then int else bool` is
-- convertible with `(A : type) => A` applied to `int`, although neither is a normal form of the other
example : Conv [some (.lit 2, 1)]
    (.ite (.bin .lt (.var 7 0) (.lit 3)) .int .bool) (.app (.lam 1 false .type (.var 1 0)) .int) :=
  C03_conv_sound 6 _ _ _ rfl rfl (by intro e he d o heq; simp at he; subst he; cases heq; rfl)
    (by decide)

/-- `id : (A : type) -> A -> A = A => x => x;  k : int = id int 2;  id int (k + 1)` — a definition
group with a dependent function, a definition that uses it, and a body that uses both. -/
def C03_ex_group : Tm :=
  .letg
    (.cons 1 (.pi 2 false .type (.pi 3 false (.var 2 0) (.var 2 1)))
             (.lam 2 false .type (.lam 3 false (.var 2 0) (.var 3 0)))
     (.cons 4 .int (.app (.app (.var 1 1) .int) (.lit 2)) .nil))
    (.app (.app (.var 1 1) .int) (.bin .sum (.var 4 0) (.lit 1)))

-- it is accepted at type `int` by the independent checker, hence has type `int` declaratively
example : HasType [] [] C03_ex_group .int :=
  C03_oracle_sound 12 _ _ rfl rfl (C03_of_acceptsB (by decide))

-- the dependent identity alone has its dependent type
example : HasType [] [] (.lam 2 false .type (.lam 3 false (.var 2 0) (.var 3 0)))
    (.pi 2 false .type (.pi 3 false (.var 2 0) (.var 2 1))) :=
  C03_infer_sound 4 [] [] _ _ rfl (fun _ h => by cases h) (fun _ h => by cases h) (C03_of_infersB (by decide))

/-! ## gram's own checker on fully annotated programs (the statement of C03 restricted to hole-free sources) -/

/-- **C03 for hole-free source programs.**  If the model of gram's checker accepts a closed, hole-free
(fully annotated) program without reporting an error, then the zonked elaboration has the zonked reported
type under the declarative rules of `Typing.lean`.  (For programs with holes this is false — KF-holecopy,
KF-holedepth; the witnesses are above and in `Props/C14.lean`.)  The cells the checker allocates itself (two
per application) are the only holes in play. -/
def C03_checker_sound_holefree_stmt : Prop :=
  ∀ (fuel : Nat) (t e ty ze zty : Tm) (s : St), t.holeFree = true → wellScoped 0 t = true →
    inferS fuel t {} = .ok (e, ty) s → s.nerrs = 0 →
    zonk fuel s.store e = some ze → zonk fuel s.store ty = some zty →
    ze.holeFree = true → zty.holeFree = true → HasType [] [] ze zty
theorem C03_checker_sound_holefree : C03_checker_sound_holefree_stmt := by
  intro fuel t e ty ze zty s ht _ h hn hze hzty _ _
  obtain ⟨rfl, hty, j⟩ := CheckSound.checker_sound_generic
    (CheckSound.rules_HasType CheckSound.groupRuleAdmissible) ht h hn
  rw [CheckSound.zonk_holeFree ht hze, CheckSound.zonk_holeFree hty hzty]
  exact j

/-- The elaboration of a hole-free program is the program itself (nothing to fill in). -/
def C03_checker_elab_holefree_stmt : Prop :=
  ∀ (fuel : Nat) (t e ty : Tm) (s : St), t.holeFree = true →
    inferS fuel t {} = .ok (e, ty) s → e = t
theorem C03_checker_elab_holefree : C03_checker_elab_holefree_stmt :=
  fun _ _ _ _ _ _ h => inferS_elab_id h

/-! ### How `C03_checker_sound_holefree` is proved, and its by-products

`Lemmas/CheckSound.lean`: on a hole-free program every type the checker computes in an error-free run
is hole-free (the two cells of an application are solved at once with the components of the weak head
normal form of the function's type), every `unifyS` call has one of three shapes (`unify_pi_fresh`,
`unify_solved`, hole-free against hole-free — `unifyS_cv`), each of which yields a `Conv` derivation,
and the run is a derivation in any judgement closed under `CheckSound.Rules` — the rules of
`Typing.lean` with the group rule replaced by the *unfolding* rule that gram implements
(`groupTypeX ds bty`: every group variable `x` of the body's type replaced by the closed term `ds; x`).
The unfolding rule is admissible in `HasType` because `ds; bty` and `groupTypeX ds bty` are convertible
(`C03_group_type_conv`): both are `bty` under a sequence of substitutions, the normalizer's
(`letStepX`, first definition first) and gram's (`letTypeS`, last definition first), which replace
every variable by convertible terms.  That argument goes under every constructor of `bty`, including
nested groups, and therefore needs `Conv` to be a congruence for groups — the rule `Conv.letg` of
`Typing.lean` (group variables opaque in the premises).  Without that rule the statement is out of
reach: for `t = int; (z : int) => (f : (int -> type) = (n : int) => if n == 0 then t else f (n - 1);
(w : f z) => w)` the two types unfold in parallel for ever (the independent checker, which has no such
rule, answers `.error .fuel` at every fuel). -/

/-- The declarative type of a group, `ds; bty`, is convertible with the type gram computes for it. -/
def C03_group_type_conv_stmt : Prop :=
  ∀ (Δ : DCtxX) (ds : Defs) (bty : Tm), ds.holeFree = true → bty.holeFree = true →
    Conv Δ (.letg ds bty) (CheckSound.groupTypeX ds bty)
theorem C03_group_type_conv : C03_group_type_conv_stmt := CheckSound.group_type_conv

/-- On a hole-free program an error-free run reports a hole-free type (so zonking changes nothing). -/
def C03_checker_type_holefree_stmt : Prop :=
  ∀ (fuel : Nat) (t e ty : Tm) (s : St), t.holeFree = true →
    inferS fuel t {} = .ok (e, ty) s → s.nerrs = 0 → ty.holeFree = true
theorem C03_checker_type_holefree : C03_checker_type_holefree_stmt :=
  fun _ _ _ _ _ ht h hn => (CheckSound.checker_sound_generic CheckSound.rules_HasTypeU ht h hn).2.1

/-- **C03 for hole-free programs, with gram's own group rule.**  An accepted hole-free program has the
reported type in `CheckSound.HasTypeU`: the declarative system of `Typing.lean` plus the rule that a
group `ds; body` with `body : bty` may be given the unfolded type `groupTypeX ds bty`. -/
def C03_checker_sound_unfold_stmt : Prop :=
  ∀ (fuel : Nat) (t e ty ze zty : Tm) (s : St), t.holeFree = true →
    inferS fuel t {} = .ok (e, ty) s → s.nerrs = 0 →
    zonk fuel s.store e = some ze → zonk fuel s.store ty = some zty →
    CheckSound.HasTypeU [] [] ze zty
theorem C03_checker_sound_unfold : C03_checker_sound_unfold_stmt := by
  intro fuel t e ty ze zty s ht h hn hze hzty
  obtain ⟨rfl, hty, j⟩ := CheckSound.checker_sound_generic CheckSound.rules_HasTypeU ht h hn
  rw [CheckSound.zonk_holeFree ht hze, CheckSound.zonk_holeFree hty hzty]
  exact j

/-- **C03 for hole-free programs without definition groups** (dependent functions, applications,
arithmetic, conditionals): this fragment does not use the group congruence `Conv.letg`. -/
def C03_checker_sound_nolet_stmt : Prop :=
  ∀ (fuel : Nat) (t e ty ze zty : Tm) (s : St), t.holeFree = true → CheckSound.noLet t = true →
    inferS fuel t {} = .ok (e, ty) s → s.nerrs = 0 →
    zonk fuel s.store e = some ze → zonk fuel s.store ty = some zty → HasType [] [] ze zty
theorem C03_checker_sound_nolet : C03_checker_sound_nolet_stmt := by
  intro fuel t e ty ze zty s ht hnl h hn hze hzty
  obtain ⟨rfl, hty, j⟩ := CheckSound.checker_sound_generic CheckSound.rules_HasTypeNL ht h hn
  rw [CheckSound.zonk_holeFree ht hze, CheckSound.zonk_holeFree hty hzty]
  exact j hnl

/-- The only fact about `Conv` that the checker's soundness needs beyond `Typing.lean`'s rules for the
other constructors: the admissibility of the unfolding group rule. -/
def C03_checker_sound_modulo_group_stmt : Prop :=
  CheckSound.GroupRuleAdmissible → C03_checker_sound_holefree_stmt
theorem C03_checker_sound_modulo_group : C03_checker_sound_modulo_group_stmt := by
  intro hadm fuel t e ty ze zty s ht _ h hn hze hzty _ _
  obtain ⟨rfl, hty, j⟩ := CheckSound.checker_sound_generic (CheckSound.rules_HasType hadm) ht h hn
  rw [CheckSound.zonk_holeFree ht hze, CheckSound.zonk_holeFree hty hzty]
  exact j

/-! ## The operator rules of the checker are the ones `type_checker.rs` contains (regenerated on every run) -/

/-- Every binary arm of `type_checker.rs::type_check_rec` (read off the source by `extract/arms.py`) infers the left
operand and unifies ITS type with `int` (error at the left operand), infers the right operand and unifies ITS type
with `int` (error at the right operand), rebuilds the same operator with the elaborated operands in place, and
returns `int` for the four arithmetic operators and `bool` for the five comparisons — the one rule the model
`inferS` implements for all nine operators. -/
def C03_check_shape_tie_stmt : Prop := checkShapeOK = true
theorem C03_check_shape_tie : C03_check_shape_tie_stmt := by unfold C03_check_shape_tie_stmt; decide
