import GramModel.Lemmas.Lexer

/-!
# C10 — comments, spacing and line layout do not change a program's meaning

The two line-break tables used below are the ones **regenerated from `tokenizer.rs` on every run**
(`Generated.canEnd`, `Generated.canStart`); the table obligations are decided over all 29 token
shapes.
-/

/-- A comment runs from `#` to the end of its line and leaves that line ending in place. -/
def C10_comment_is_newline_stmt : Prop :=
  ∀ (c r : List Char) (pos : Nat), (∀ x ∈ c, x ≠ '\n') →
    skipComment (c ++ '\n' :: r) pos = ('\n' :: r, pos + bytesOf c)
theorem C10_comment_is_newline : C10_comment_is_newline_stmt := skipComment_line

/-- A final comment may end at the end of the file. -/
def C10_comment_at_eof_stmt : Prop :=
  ∀ (c : List Char) (pos : Nat), (∀ x ∈ c, x ≠ '\n') → skipComment c pos = ([], pos + bytesOf c)
theorem C10_comment_at_eof : C10_comment_at_eof_stmt := skipComment_eof

/-- In the scanner a comment behaves exactly like its line ending: scanning `# c ⏎ r` continues as
scanning `⏎ r` (with the position advanced), for every state. -/
def C10_scan_comment_stmt : Prop :=
  ∀ (cc : CharClass), cc.Sane → ∀ (n pos : Nat) (c r : List Char) (s : LexState),
    (∀ x ∈ c, x ≠ '\n') →
    scan cc (n+1) pos ('#' :: (c ++ '\n' :: r)) s = scan cc n (pos + 1 + bytesOf c) ('\n' :: r) s
theorem C10_scan_comment : C10_scan_comment_stmt := by
  intro cc hs n pos c r s hc
  have d1 : isDigit '#' = false := by decide
  conv => lhs; rw [scan.eq_def]
  simp [hs.hash_plain.1, hs.hash_plain.2, d1, skipComment_line c r (pos + 1) hc]

/-- Spaces and tabs between tokens are skipped without any effect on the state. -/
def C10_scan_blank_stmt : Prop :=
  ∀ (cc : CharClass), cc.Sane → ∀ (n pos : Nat) (r : List Char) (s : LexState),
    scan cc (n+1) pos (' ' :: r) s = scan cc n (pos + 1) r s ∧
    scan cc (n+1) pos ('\t' :: r) s = scan cc n (pos + 1) r s
theorem C10_scan_blank : C10_scan_blank_stmt := by
  intro cc hs n pos r s
  have d1 : isDigit ' ' = false := by decide
  have d2 : isDigit '\t' = false := by decide
  have u1 : (' ' : Char).utf8Size = 1 := rfl
  have u2 : ('\t' : Char).utf8Size = 1 := rfl
  constructor
  · conv => lhs; rw [scan.eq_def]
    simp [hs.space_ws.1, hs.space_ws.2, d1, u1]
  · conv => lhs; rw [scan.eq_def]
    simp [hs.tab_ws.1, hs.tab_ws.2, d2, u2]

/-- A line break yields a terminator exactly when the previous token can end an expression
(first table), and never twice in a row. -/
def C10_scan_newline_stmt : Prop :=
  ∀ (cc : CharClass) (n pos : Nat) (r : List Char) (s : LexState),
    (lastCanEnd s = some true →
      scan cc (n+1) pos ('\n' :: r) s = scan cc n (pos + 1) r (s.push .terminatorLineBreak pos (pos + 1))) ∧
    (lastCanEnd s = some false → scan cc (n+1) pos ('\n' :: r) s = scan cc n (pos + 1) r s)
theorem C10_scan_newline : C10_scan_newline_stmt := by
  intro cc n pos r s
  constructor <;> intro h
  · conv => lhs; rw [scan.eq_def]
    simp [h]
  · conv => lhs; rw [scan.eq_def]
    simp [h]

/-- Table obligations over the regenerated tables (all 29 shapes): both tables are total except the
deliberate panic arm; every operator and opening bracket cannot end an expression; every binary
operator and closing bracket cannot start one; `;` counts as both; a line-break terminator never
ends an expression (so two in a row are impossible); identifiers, literals and the atomic keywords
do both. -/
def C10_tables_stmt : Prop :=
  (∀ k ∈ TokKind.all, Generated.canEnd k ≠ none) ∧
  (∀ k ∈ TokKind.all, Generated.canStart k = none ↔ k = .terminatorLineBreak) ∧
  (∀ k ∈ [TokKind.asterisk, .colon, .doubleEquals, .else_, .equals, .greaterThan,
      .greaterThanOrEqualTo, .if_, .leftCurly, .leftParen, .lessThan, .lessThanOrEqualTo, .minus, .plus,
      .slash, .then_, .thickArrow, .thinArrow, .terminatorLineBreak], Generated.canEnd k = some false) ∧
  (∀ k ∈ [TokKind.boolean, .false_, .identifier [], .integer, .integerLiteral 0, .rightCurly, .rightParen,
      .terminatorSemicolon, .true_, .type_], Generated.canEnd k = some true) ∧
  (∀ k ∈ [TokKind.asterisk, .colon, .doubleEquals, .else_, .equals, .greaterThan,
      .greaterThanOrEqualTo, .lessThan, .lessThanOrEqualTo, .minus, .plus, .rightCurly, .rightParen,
      .slash, .then_, .thickArrow, .thinArrow], Generated.canStart k = some false) ∧
  (∀ k ∈ [TokKind.boolean, .false_, .identifier [], .if_, .integer, .integerLiteral 0, .leftCurly,
      .leftParen, .terminatorSemicolon, .true_, .type_], Generated.canStart k = some true)
theorem C10_tables : C10_tables_stmt := by unfold C10_tables_stmt; decide

/-- The tables do not look at payloads. -/
def C10_tables_payload_stmt : Prop :=
  ∀ (w : List Char) (n : Nat),
    Generated.canEnd (.identifier w) = Generated.canEnd (.identifier []) ∧
    Generated.canStart (.identifier w) = Generated.canStart (.identifier []) ∧
    Generated.canEnd (.integerLiteral n) = Generated.canEnd (.integerLiteral 0) ∧
    Generated.canStart (.integerLiteral n) = Generated.canStart (.integerLiteral 0)
theorem C10_tables_payload : C10_tables_payload_stmt := by intro w n; exact ⟨rfl, rfl, rfl, rfl⟩

/-- The scanner never produces two adjacent line-break terminators. -/
def C10_no_two_linebreaks_stmt : Prop :=
  ∀ (cc : CharClass) (fuel pos : Nat) (cs : List Char) (s : LexState),
    noTwoLB s.toks → noTwoLB (scan cc fuel pos cs s).toks
theorem C10_no_two_linebreaks : C10_no_two_linebreaks_stmt := by
  intro cc fuel pos cs s h
  exact scan_noTwoLB cc fuel pos cs s h

/-- The token stream neither starts nor ends with a line-break terminator. -/
def C10_no_leading_trailing_terminator_stmt : Prop :=
  ∀ (cc : CharClass) (text : List Char) (ts : List Tok), tokenize cc text = .ok ts →
    (ts.head?.map (·.kind)) ≠ some .terminatorLineBreak ∧
    (ts.getLast?.map (·.kind)) ≠ some .terminatorLineBreak
theorem C10_no_leading_trailing_terminator : C10_no_leading_trailing_terminator_stmt := by
  intro cc text ts h
  have hf := tokenize_ok h
  constructor
  · have hfirst := scan_first_not_lineBreak cc text.length 0 text { toks := [], errs := [] }
      (by intro t ht; cases ht)
    rw [← List.head?_reverse] at hfirst
    generalize (scan cc text.length 0 text { toks := [], errs := [] }).toks.reverse = l at hf hfirst
    cases l with
    | nil => simp [filterToks] at hf; subst hf; simp
    | cons a r =>
      obtain ⟨r', rfl⟩ := filterToks_head a r ts hf (hfirst a rfl)
      intro hk
      exact hfirst a rfl (by simpa using hk)
  · have hl := filterToks_last _ _ hf
    cases hg : ts.getLast? with
    | none => simp
    | some t => intro hk; exact hl t hg (by simpa using hk)

/-! ## Non-vacuity: the same program laid out in two ways gives the same kinds -/

def C10_cc : CharClass :=
  { isAlpha := fun c => ('a' ≤ c ∧ c ≤ 'z')
    isAlnum := fun c => ('a' ≤ c ∧ c ≤ 'z') || ('0' ≤ c ∧ c ≤ '9')
    isWs := fun c => c == ' ' || c == '\n' || c == '\t'
    graphemeEnd := fun p => p + 1 }
def kindsOf : LexResult → List Nat
  | .ok ts => ts.map (·.kind.tag)
  | _ => []
-- `x = 1 +⏎  2 #c⏎⏎y`  vs  `x=1+2⏎y`
example : kindsOf (tokenize C10_cc ['x',' ','=',' ','1',' ','+','\n',' ',' ','2',' ','#','c','\n','\n','y'])
        = kindsOf (tokenize C10_cc ['x','=','1','+','2','\n','y']) := by decide
