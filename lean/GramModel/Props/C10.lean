import GramModel.Lemmas.Lexer
import GramModel.Lemmas.LexerRender
import GramModel.Lemmas.TerminatorKind
import GramModel.Lemmas.ParsePrinted2

/-!
# C10 — comments, spacing and line layout do not change a program's meaning

The two line-break tables used below are the ones **regenerated from `tokenizer.rs` on every run**
(`Generated.canEnd`, `Generated.canStart`); the table obligations are decided over all 29 token
shapes.
-/

/-- A comment runs from `#` to the end of its line and leaves that line ending in place. -/
def C10_comment_is_newline_stmt : Prop :=
  ∀ (c r : List Char) (pos : Nat), (∀ x ∈ c, x ≠ '\n') →
    skipComment (c ++ '\n' :: r) pos = ('\n' :: r, pos + bytesOf c)
theorem C10_comment_is_newline : C10_comment_is_newline_stmt := skipComment_line

/-- A final comment may end at the end of the file. -/
def C10_comment_at_eof_stmt : Prop :=
  ∀ (c : List Char) (pos : Nat), (∀ x ∈ c, x ≠ '\n') → skipComment c pos = ([], pos + bytesOf c)
theorem C10_comment_at_eof : C10_comment_at_eof_stmt := skipComment_eof

/-- In the scanner a comment behaves exactly like its line ending: scanning `# c ⏎ r` continues as
scanning `⏎ r` (with the position advanced), for every state. -/
def C10_scan_comment_stmt : Prop :=
  ∀ (cc : CharClass), cc.Sane → ∀ (n pos : Nat) (c r : List Char) (s : LexState),
    (∀ x ∈ c, x ≠ '\n') →
    scan cc (n+1) pos ('#' :: (c ++ '\n' :: r)) s = scan cc n (pos + 1 + bytesOf c) ('\n' :: r) s
theorem C10_scan_comment : C10_scan_comment_stmt := by
  intro cc hs n pos c r s hc
  have d1 : isDigit '#' = false := by decide
  conv => lhs; rw [scan.eq_def]
  simp [hs.hash_plain.1, hs.hash_plain.2, d1, skipComment_line c r (pos + 1) hc]

/-- Spaces and tabs between tokens are skipped without any effect on the state. -/
def C10_scan_blank_stmt : Prop :=
  ∀ (cc : CharClass), cc.Sane → ∀ (n pos : Nat) (r : List Char) (s : LexState),
    scan cc (n+1) pos (' ' :: r) s = scan cc n (pos + 1) r s ∧
    scan cc (n+1) pos ('\t' :: r) s = scan cc n (pos + 1) r s
theorem C10_scan_blank : C10_scan_blank_stmt := by
  intro cc hs n pos r s
  have d1 : isDigit ' ' = false := by decide
  have d2 : isDigit '\t' = false := by decide
  have u1 : (' ' : Char).utf8Size = 1 := rfl
  have u2 : ('\t' : Char).utf8Size = 1 := rfl
  constructor
  · conv => lhs; rw [scan.eq_def]
    simp [hs.space_ws.1, hs.space_ws.2, d1, u1]
  · conv => lhs; rw [scan.eq_def]
    simp [hs.tab_ws.1, hs.tab_ws.2, d2, u2]

/-- A line break yields a terminator exactly when the previous token can end an expression
(first table), and never twice in a row. -/
def C10_scan_newline_stmt : Prop :=
  ∀ (cc : CharClass) (n pos : Nat) (r : List Char) (s : LexState),
    (lastCanEnd s = some true →
      scan cc (n+1) pos ('\n' :: r) s = scan cc n (pos + 1) r (s.push .terminatorLineBreak pos (pos + 1))) ∧
    (lastCanEnd s = some false → scan cc (n+1) pos ('\n' :: r) s = scan cc n (pos + 1) r s)
theorem C10_scan_newline : C10_scan_newline_stmt := by
  intro cc n pos r s
  constructor <;> intro h
  · conv => lhs; rw [scan.eq_def]
    simp [h]
  · conv => lhs; rw [scan.eq_def]
    simp [h]

/-- Table obligations over the regenerated tables (all 29 shapes): both tables are total except the
deliberate panic arm; every operator and opening bracket cannot end an expression; every binary
operator and closing bracket cannot start one; `;` counts as both; a line-break terminator never
ends an expression (so two in a row are impossible); identifiers, literals and the atomic keywords
do both. -/
def C10_tables_stmt : Prop :=
  (∀ k ∈ TokKind.all, Generated.canEnd k ≠ none) ∧
  (∀ k ∈ TokKind.all, Generated.canStart k = none ↔ k = .terminatorLineBreak) ∧
  (∀ k ∈ [TokKind.asterisk, .colon, .doubleEquals, .else_, .equals, .greaterThan,
      .greaterThanOrEqualTo, .if_, .leftCurly, .leftParen, .lessThan, .lessThanOrEqualTo, .minus, .plus,
      .slash, .then_, .thickArrow, .thinArrow, .terminatorLineBreak], Generated.canEnd k = some false) ∧
  (∀ k ∈ [TokKind.boolean, .false_, .identifier [], .integer, .integerLiteral 0, .rightCurly, .rightParen,
      .terminatorSemicolon, .true_, .type_], Generated.canEnd k = some true) ∧
  (∀ k ∈ [TokKind.asterisk, .colon, .doubleEquals, .else_, .equals, .greaterThan,
      .greaterThanOrEqualTo, .lessThan, .lessThanOrEqualTo, .minus, .plus, .rightCurly, .rightParen,
      .slash, .then_, .thickArrow, .thinArrow], Generated.canStart k = some false) ∧
  (∀ k ∈ [TokKind.boolean, .false_, .identifier [], .if_, .integer, .integerLiteral 0, .leftCurly,
      .leftParen, .terminatorSemicolon, .true_, .type_], Generated.canStart k = some true)
theorem C10_tables : C10_tables_stmt := by unfold C10_tables_stmt; decide

/-- The tables do not look at payloads. -/
def C10_tables_payload_stmt : Prop :=
  ∀ (w : List Char) (n : Nat),
    Generated.canEnd (.identifier w) = Generated.canEnd (.identifier []) ∧
    Generated.canStart (.identifier w) = Generated.canStart (.identifier []) ∧
    Generated.canEnd (.integerLiteral n) = Generated.canEnd (.integerLiteral 0) ∧
    Generated.canStart (.integerLiteral n) = Generated.canStart (.integerLiteral 0)
theorem C10_tables_payload : C10_tables_payload_stmt := by intro w n; exact ⟨rfl, rfl, rfl, rfl⟩

/-- The scanner never produces two adjacent line-break terminators. -/
def C10_no_two_linebreaks_stmt : Prop :=
  ∀ (cc : CharClass) (fuel pos : Nat) (cs : List Char) (s : LexState),
    noTwoLB s.toks → noTwoLB (scan cc fuel pos cs s).toks
theorem C10_no_two_linebreaks : C10_no_two_linebreaks_stmt := by
  intro cc fuel pos cs s h
  exact scan_noTwoLB cc fuel pos cs s h

/-- The token stream neither starts nor ends with a line-break terminator. -/
def C10_no_leading_trailing_terminator_stmt : Prop :=
  ∀ (cc : CharClass) (text : List Char) (ts : List Tok), tokenize cc text = .ok ts →
    (ts.head?.map (·.kind)) ≠ some .terminatorLineBreak ∧
    (ts.getLast?.map (·.kind)) ≠ some .terminatorLineBreak
theorem C10_no_leading_trailing_terminator : C10_no_leading_trailing_terminator_stmt := by
  intro cc text ts h
  have hf := tokenize_ok h
  constructor
  · have hfirst := scan_first_not_lineBreak cc text.length 0 text { toks := [], errs := [] }
      (by intro t ht; cases ht)
    rw [← List.head?_reverse] at hfirst
    generalize (scan cc text.length 0 text { toks := [], errs := [] }).toks.reverse = l at hf hfirst
    cases l with
    | nil => simp [filterToks] at hf; subst hf; simp
    | cons a r =>
      obtain ⟨r', rfl⟩ := filterToks_head a r ts hf (hfirst a rfl)
      intro hk
      exact hfirst a rfl (by simpa using hk)
  · have hl := filterToks_last _ _ hf
    cases hg : ts.getLast? with
    | none => simp
    | some t => intro hk; exact hl t hg (by simpa using hk)

/-! ## Non-vacuity: the same program laid out in two ways gives the same kinds -/

def C10_cc : CharClass :=
  { isAlpha := fun c => ('a' ≤ c ∧ c ≤ 'z')
    isAlnum := fun c => ('a' ≤ c ∧ c ≤ 'z') || ('0' ≤ c ∧ c ≤ '9')
    isWs := fun c => c == ' ' || c == '\n' || c == '\t'
    graphemeEnd := fun p => p + 1 }
def kindsOf : LexResult → List Nat
  | .ok ts => ts.map (·.kind.tag)
  | _ => []
-- `x = 1 +⏎  2 #c⏎⏎y`  vs  `x=1+2⏎y`
example : kindsOf (tokenize C10_cc ['x',' ','=',' ','1',' ','+','\n',' ',' ','2',' ','#','c','\n','\n','y'])
        = kindsOf (tokenize C10_cc ['x','=','1','+','2','\n','y']) := by decide

/-! ## The global render/tokenize law (unbounded)

A text is a *rendering* (`renderText g0 items eof`, `Lemmas/LexerRender.lean`): a leading gap, lexemes each
followed by a gap of blanks / comment lines / line feeds, and an optional final comment ended by the
end of the file.  `Rendering cc g0 items eof` bundles the hypotheses: every gap item is `ok`, every
lexeme `IsLexeme`, the final comment has no line feed, and adjacent lexemes with an empty gap between
them do not fuse (`SepOK`). -/

/-- **Render/tokenize law.**  For every sane classifier, every rendering tokenizes (no panic, no
error), and the kinds of its tokens depend on the layout only through "does gap `i` contain a line
break": they are `weave` of the lexeme kinds and these lexFlags, i.e. a line-break terminator stands
between lexemes `i` and `i+1` iff gap `i` has a line break, lexeme `i` can end an expression and
lexeme `i+1` can start one. -/
def C10_render_law_stmt : Prop :=
  ∀ (cc : CharClass), cc.Sane2 → ∀ (g0 : Gap) (items : List LexItem) (eof : Option (List Char)),
    Gap.ok cc g0 → ItemsOK cc items → EofOK eof → SepOK cc items →
    ∃ ts, tokenize cc (renderText g0 items eof) = .ok ts ∧
      ts.map (·.kind) = weave (items.map fun it => (it.2.1, Gap.hasNL it.2.2))
theorem C10_render_law : C10_render_law_stmt := by
  intro cc hs g0 items eof h0 h1 h2 h3
  exact render_law cc hs g0 items eof h0 h1 h2 h3

/-- Scanner-level form: before the second pass the token kinds are exactly `rawKinds`: every lexeme, and
a line-break terminator after lexeme `i` iff gap `i` has a line break and lexeme `i` can end an
expression (also after the last lexeme; never before the first). -/
def C10_render_scan_stmt : Prop :=
  ∀ (cc : CharClass), cc.Sane2 → ∀ (g0 : Gap) (items : List LexItem) (eof : Option (List Char)),
    Rendering cc g0 items eof →
    (scan0 cc (renderText g0 items eof)).panic = false ∧ (scan0 cc (renderText g0 items eof)).errs = [] ∧
    (scan0 cc (renderText g0 items eof)).toks.reverse.map (·.kind) = rawKinds (lexFlags items)
theorem C10_render_scan : C10_render_scan_stmt := by
  intro cc hs g0 items eof h
  exact scan_render cc hs g0 items eof h.1 h.2.1 h.2.2.1 h.2.2.2

/-- Layout is irrelevant: two renderings with the same lexeme kinds (in particular: of the same
lexemes) whose gaps agree on "contains a line break" give the same token kinds — whatever the
leading gaps, the blanks, the comments, the number of consecutive line breaks and the final
comments are. -/
def C10_layout_irrelevant_stmt : Prop :=
  ∀ (cc : CharClass), cc.Sane2 → ∀ (g0 g0' : Gap) (items items' : List LexItem)
    (eof eof' : Option (List Char)),
    Rendering cc g0 items eof → Rendering cc g0' items' eof' →
    items.map (·.2.1) = items'.map (·.2.1) →
    (items.map fun it => Gap.hasNL it.2.2) = (items'.map fun it => Gap.hasNL it.2.2) →
    ∃ ts ts', tokenize cc (renderText g0 items eof) = .ok ts ∧
      tokenize cc (renderText g0' items' eof') = .ok ts' ∧ ts.map (·.kind) = ts'.map (·.kind)
theorem C10_layout_irrelevant : C10_layout_irrelevant_stmt := by
  intro cc hs g0 g0' items items' eof eof' h h' hk hn
  obtain ⟨ts, h1, h2⟩ := h.law hs
  obtain ⟨ts', h1', h2'⟩ := h'.law hs
  refine ⟨ts, ts', h1, h1', ?_⟩
  rw [h2, h2', lexFlags_eq_zip, lexFlags_eq_zip, hk, hn]

/-- A line break after a lexeme that cannot end an expression (operator, opening bracket, …) is not
a separator: changing gap `i` arbitrarily does not change the kinds. -/
def C10_break_after_cannot_end_stmt : Prop :=
  ∀ (cc : CharClass), cc.Sane2 → ∀ (g0 g0' : Gap) (pre post : List LexItem) (l : List Char)
    (k : TokKind) (g g' : Gap) (eof eof' : Option (List Char)),
    Rendering cc g0 (pre ++ (l, k, g) :: post) eof → Rendering cc g0' (pre ++ (l, k, g') :: post) eof' →
    Generated.canEnd k = some false →
    ∃ ts ts', tokenize cc (renderText g0 (pre ++ (l, k, g) :: post) eof) = .ok ts ∧
      tokenize cc (renderText g0' (pre ++ (l, k, g') :: post) eof') = .ok ts' ∧
      ts.map (·.kind) = ts'.map (·.kind)
theorem C10_break_after_cannot_end : C10_break_after_cannot_end_stmt := by
  intro cc hs g0 g0' pre post l k g g' eof eof' h h' hk
  obtain ⟨ts, h1, h2⟩ := h.law hs
  obtain ⟨ts', h1', h2'⟩ := h'.law hs
  refine ⟨ts, ts', h1, h1', ?_⟩
  rw [h2, h2', lexFlags_append, lexFlags_append]
  exact weave_cannot_end _ k _ _ _ hk

/-- A line break before a lexeme that cannot start an expression (binary operator, closing bracket,
`then`, `else`, …) is not a separator either. -/
def C10_break_before_cannot_start_stmt : Prop :=
  ∀ (cc : CharClass), cc.Sane2 → ∀ (g0 g0' : Gap) (pre post : List LexItem) (l l2 : List Char)
    (k k2 : TokKind) (g g' g2 : Gap) (eof eof' : Option (List Char)),
    Rendering cc g0 (pre ++ (l, k, g) :: (l2, k2, g2) :: post) eof →
    Rendering cc g0' (pre ++ (l, k, g') :: (l2, k2, g2) :: post) eof' →
    Generated.canStart k2 = some false →
    ∃ ts ts', tokenize cc (renderText g0 (pre ++ (l, k, g) :: (l2, k2, g2) :: post) eof) = .ok ts ∧
      tokenize cc (renderText g0' (pre ++ (l, k, g') :: (l2, k2, g2) :: post) eof') = .ok ts' ∧
      ts.map (·.kind) = ts'.map (·.kind)
theorem C10_break_before_cannot_start : C10_break_before_cannot_start_stmt := by
  intro cc hs g0 g0' pre post l l2 k k2 g g' g2 eof eof' h h' hk
  obtain ⟨ts, h1, h2⟩ := h.law hs
  obtain ⟨ts', h1', h2'⟩ := h'.law hs
  refine ⟨ts, ts', h1, h1', ?_⟩
  rw [h2, h2', lexFlags_append, lexFlags_append]
  exact weave_cannot_start _ k _ _ k2 _ _ hk

/-- A line break between a lexeme that can end an expression and one that can start an expression
separates definitions: the kinds are those of the part before (`A`), one line-break terminator, and
those of the part after (`B`) — whereas the layout with gap `i` on one line gives `A ++ B`. -/
def C10_linebreak_is_separator_stmt : Prop :=
  ∀ (cc : CharClass), cc.Sane2 → ∀ (g0 g0' : Gap) (pre post : List LexItem) (l l2 : List Char)
    (k k2 : TokKind) (g gflat g2 : Gap) (eof eof' : Option (List Char)),
    Rendering cc g0 (pre ++ (l, k, g) :: (l2, k2, g2) :: post) eof →
    Rendering cc g0' (pre ++ (l, k, gflat) :: (l2, k2, g2) :: post) eof' →
    Gap.hasNL g = true → Gap.hasNL gflat = false →
    Generated.canEnd k = some true → Generated.canStart k2 = some true →
    ∃ ts ts', tokenize cc (renderText g0 (pre ++ (l, k, g) :: (l2, k2, g2) :: post) eof) = .ok ts ∧
      tokenize cc (renderText g0' (pre ++ (l, k, gflat) :: (l2, k2, g2) :: post) eof') = .ok ts' ∧
      ts.map (·.kind) = weave (lexFlags (pre ++ [(l, k, g)])) ++
        .terminatorLineBreak :: weave (lexFlags ((l2, k2, g2) :: post)) ∧
      ts'.map (·.kind) = weave (lexFlags (pre ++ [(l, k, g)])) ++ weave (lexFlags ((l2, k2, g2) :: post))
theorem C10_linebreak_is_separator : C10_linebreak_is_separator_stmt := by
  intro cc hs g0 g0' pre post l l2 k k2 g gflat g2 eof eof' h h' hg hf hk hk2
  obtain ⟨ts, h1, h2⟩ := h.law hs
  obtain ⟨ts', h1', h2'⟩ := h'.law hs
  refine ⟨ts, ts', h1, h1', ?_, ?_⟩
  · rw [h2, lexFlags_append, lexFlags_append]
    simp only [lexFlags, List.map_cons, List.map_nil]
    rw [weave_split]
    simp [sepKinds, hg, hk, hk2]
  · rw [h2', lexFlags_append, lexFlags_append]
    simp only [lexFlags, List.map_cons, List.map_nil]
    rw [weave_split, weave_last _ k (Gap.hasNL gflat) (Gap.hasNL g)]
    simp [sepKinds, hf]

/-- `weave` is compositional (the general form of the three statements above). -/
def C10_weave_split_stmt : Prop :=
  ∀ (A : List (TokKind × Bool)) (k : TokKind) (b : Bool) (k' : TokKind) (b' : Bool)
    (B : List (TokKind × Bool)),
    weave (A ++ (k, b) :: (k', b') :: B) =
      weave (A ++ [(k, b)]) ++
        (if b && Generated.canEnd k == some true && Generated.canStart k' == some true
          then [.terminatorLineBreak] else []) ++ weave ((k', b') :: B)
theorem C10_weave_split : C10_weave_split_stmt := weave_split

/-! ### Non-vacuity of the render law -/

theorem C10_cc_sane2 : C10_cc.Sane2 :=
  { hash_plain := by decide, nl_plain := by decide, space_ws := by decide, tab_ws := by decide,
    hash_cont := by decide, nl_cont := by decide }

/-- `x = 1 +⏎  2 #c⏎⏎y # end` -/
def C10_itemsA : List LexItem :=
  [(['x'], .identifier ['x'], [.blank ' ']), (['='], .equals, [.blank ' ']),
   (['1'], .integerLiteral 1, [.blank ' ']), (['+'], .plus, [.newline, .blank ' ', .blank ' ']),
   (['2'], .integerLiteral 2, [.blank ' ', .comment ['c'], .newline]),
   (['y'], .identifier ['y'], [.blank ' '])]
/-- `x=1+⏎2⏎y`: the same line-break lexFlags as A, nothing else -/
def C10_itemsB : List LexItem :=
  [(['x'], .identifier ['x'], []), (['='], .equals, []), (['1'], .integerLiteral 1, []),
   (['+'], .plus, [.newline]), (['2'], .integerLiteral 2, [.newline]), (['y'], .identifier ['y'], [])]
/-- `x=1+⏎2 y`: B with the gap between `2` and `y` on one line -/
def C10_itemsC : List LexItem :=
  [(['x'], .identifier ['x'], []), (['='], .equals, []), (['1'], .integerLiteral 1, []),
   (['+'], .plus, [.newline]), (['2'], .integerLiteral 2, [.blank ' ']), (['y'], .identifier ['y'], [])]
/-- `x=1+2⏎y`: B without the line break after `+` -/
def C10_itemsD : List LexItem :=
  [(['x'], .identifier ['x'], []), (['='], .equals, []), (['1'], .integerLiteral 1, []),
   (['+'], .plus, []), (['2'], .integerLiteral 2, [.newline]), (['y'], .identifier ['y'], [])]

theorem C10_renderingA : Rendering C10_cc [] C10_itemsA (some ['e']) :=
  Rendering.of_check (by decide) (by decide) (eofOK_some (by decide)) (by decide)
theorem C10_renderingB : Rendering C10_cc [.newline] C10_itemsB none :=
  Rendering.of_check (by decide) (by decide) eofOK_none (by decide)
theorem C10_renderingC : Rendering C10_cc [] C10_itemsC none :=
  Rendering.of_check (by decide) (by decide) eofOK_none (by decide)
theorem C10_renderingD : Rendering C10_cc [] C10_itemsD none :=
  Rendering.of_check (by decide) (by decide) eofOK_none (by decide)

example : renderText [] C10_itemsA (some ['e']) =
    ['x',' ','=',' ','1',' ','+','\n',' ',' ','2',' ','#','c','\n','\n','y',' ','#','e'] := by decide
example : renderText [.newline] C10_itemsB none = ['\n','x','=','1','+','\n','2','\n','y'] := by decide
example : renderText [] C10_itemsD none = ['x','=','1','+','2','\n','y'] := by decide

/-- both sides of the law, evaluated: the tokenizer's kinds are the woven kinds -/
example : (match tokenize C10_cc (renderText [] C10_itemsA (some ['e'])) with
      | .ok ts => some (ts.map (·.kind)) | _ => none) = some (weave (lexFlags C10_itemsA)) := by decide
example : weave (lexFlags C10_itemsA) = [.identifier ['x'], .equals, .integerLiteral 1, .plus,
    .integerLiteral 2, .terminatorLineBreak, .identifier ['y']] := by decide
-- hypotheses of `C10_layout_irrelevant` for A and B
example : C10_itemsA.map (·.2.1) = C10_itemsB.map (·.2.1) ∧
    (C10_itemsA.map fun it => Gap.hasNL it.2.2) = (C10_itemsB.map fun it => Gap.hasNL it.2.2) := by
  decide
-- hypotheses of `C10_break_after_cannot_end` (gap after `+`, B versus D), of
-- `C10_break_before_cannot_start` (gap before `=`), of `C10_linebreak_is_separator` (gap between `2`
-- and `y`, B versus C)
example : C10_itemsB = C10_itemsB.take 3 ++ (['+'], .plus, [.newline]) :: C10_itemsB.drop 4 ∧
    C10_itemsD = C10_itemsB.take 3 ++ (['+'], .plus, []) :: C10_itemsB.drop 4 ∧
    Generated.canEnd .plus = some false := by decide
example : C10_itemsA = [] ++ (['x'], .identifier ['x'], [.blank ' ']) :: (['='], .equals, [.blank ' ']) ::
    C10_itemsA.drop 2 ∧ Generated.canStart .equals = some false := by decide
example : C10_itemsB = C10_itemsB.take 4 ++ (['2'], .integerLiteral 2, [.newline]) ::
      (['y'], .identifier ['y'], []) :: [] ∧
    C10_itemsC = C10_itemsB.take 4 ++ (['2'], .integerLiteral 2, [.blank ' ']) ::
      (['y'], .identifier ['y'], []) :: [] ∧
    Gap.hasNL [GapItem.newline] = true ∧ Gap.hasNL [GapItem.blank ' '] = false ∧
    Generated.canEnd (.integerLiteral 2) = some true ∧
    Generated.canStart (.identifier ['y']) = some true := by decide

-- the corollaries instantiated at the concrete renderings (all hypotheses hold together)
example : ∃ ts ts', tokenize C10_cc (renderText [] C10_itemsA (some ['e'])) = .ok ts ∧
    tokenize C10_cc (renderText [.newline] C10_itemsB none) = .ok ts' ∧
    ts.map (·.kind) = ts'.map (·.kind) :=
  C10_layout_irrelevant C10_cc C10_cc_sane2 _ _ _ _ _ _ C10_renderingA C10_renderingB
    (by decide) (by decide)
example : ∃ ts ts', tokenize C10_cc (renderText [.newline] C10_itemsB none) = .ok ts ∧
    tokenize C10_cc (renderText [] C10_itemsD none) = .ok ts' ∧ ts.map (·.kind) = ts'.map (·.kind) :=
  C10_break_after_cannot_end C10_cc C10_cc_sane2 [.newline] [] (C10_itemsB.take 3) (C10_itemsB.drop 4)
    ['+'] .plus [.newline] [] none none C10_renderingB C10_renderingD (by decide)
example : ∃ ts ts', tokenize C10_cc (renderText [] C10_itemsA (some ['e'])) = .ok ts ∧
    tokenize C10_cc (renderText [] C10_itemsA (some ['e'])) = .ok ts' ∧
    ts.map (·.kind) = ts'.map (·.kind) :=
  C10_break_before_cannot_start C10_cc C10_cc_sane2 [] [] [] (C10_itemsA.drop 2)
    ['x'] ['='] (.identifier ['x']) .equals [.blank ' '] [.blank ' '] [.blank ' '] (some ['e'])
    (some ['e']) C10_renderingA C10_renderingA (by decide)
example : ∃ ts ts', tokenize C10_cc (renderText [.newline] C10_itemsB none) = .ok ts ∧
    tokenize C10_cc (renderText [] C10_itemsC none) = .ok ts' ∧
    ts.map (·.kind) = [.identifier ['x'], .equals, .integerLiteral 1, .plus, .integerLiteral 2] ++
      .terminatorLineBreak :: [.identifier ['y']] ∧
    ts'.map (·.kind) = [.identifier ['x'], .equals, .integerLiteral 1, .plus, .integerLiteral 2] ++
      [.identifier ['y']] :=
  C10_linebreak_is_separator C10_cc C10_cc_sane2 [.newline] [] (C10_itemsB.take 4) []
    ['2'] ['y'] (.integerLiteral 2) (.identifier ['y']) [.newline] [.blank ' '] [] none none
    C10_renderingB C10_renderingC (by decide) (by decide) (by decide) (by decide)


/-! ## Parser clause: a separating line break is interchangeable with `;`

`PModel.SameUpToTerminator toks toks'` (`Lemmas/TerminatorKind.lean`): same length and, index by index,
the same range and the same kind, except that a terminator of one kind (`;` / line break) may stand
where a terminator of the other kind stands.  The parser model reads the token array only through
primitives that cannot tell the two apart, so all 36 parsing functions are *equal as functions* on
`toks` and `toks'`.

Error *messages* are not modelled (an error is the list of ranges it lists).  In `parser.rs` the
terminator type is inspected in exactly two places, both inside message closures: `error_factory`
("Expected … at the end of this line:" for a line break, "Expected …, but encountered `;`." otherwise)
and the "This parenthesis was never closed" message of `parse_group` ("expected to be closed at the end
of this line" / "before this"); the listed ranges are the same.  So the equalities below are equalities
of results *modulo the wording of error messages*. -/

/-- The parse phase does not see the terminator kind: `runParser` returns the same result (same tree
with the same ranges, `group` flags and recorded errors, same `next`, same `confident`) **and** the same
final state (memo table, hit/miss counters) — or runs out of fuel on both. -/
def C10_terminator_kind_irrelevant_stmt : Prop :=
  ∀ (toks toks' : Array PModel.PTok), PModel.SameUpToTerminator toks toks' →
    PModel.runParser toks' = PModel.runParser toks
theorem C10_terminator_kind_irrelevant : C10_terminator_kind_irrelevant_stmt :=
  fun _ _ h => PModel.runParser_terminator_kind h

/-- The same for every memoised parsing function, every fuel, start position and start state, and for
the cache-free functions `parsePure`; already the 36 bodies agree, whatever the recursive call is. -/
def C10_terminator_kind_irrelevant_everywhere_stmt : Prop :=
  ∀ (toks toks' : Array PModel.PTok), PModel.SameUpToTerminator toks toks' →
    (∀ (rec : PModel.NT → Nat → PModel.ParseM PModel.PResult) (nt : PModel.NT) (start : Nat),
      PModel.parseBody toks' rec nt start = PModel.parseBody toks rec nt start) ∧
    (∀ (fuel : Nat) (nt : PModel.NT) (start : Nat) (st : PModel.PState),
      PModel.parseNT toks' fuel nt start st = PModel.parseNT toks fuel nt start st) ∧
    (∀ (fuel : Nat) (nt : PModel.NT) (start : Nat) (st : PModel.PState),
      PModel.parsePure toks' fuel nt start st = PModel.parsePure toks fuel nt start st)
theorem C10_terminator_kind_irrelevant_everywhere :
    C10_terminator_kind_irrelevant_everywhere_stmt := by
  intro toks toks' h
  refine ⟨fun rec nt start => (PModel.parseBody_congr h rec nt start).symm, ?_, ?_⟩
  · intro fuel nt start st; rw [PModel.parseNT_congr h fuel]
  · intro fuel nt start st; rw [PModel.parsePure_congr h fuel]

/-- The whole front end model `parse` (parser, re-association, resolution, definition-order check)
returns the same outcome; so do the cache statistics. -/
def C10_parse_terminator_irrelevant_stmt : Prop :=
  ∀ (toks toks' : Array PModel.PTok) (context : List Name), PModel.SameUpToTerminator toks toks' →
    PModel.parseModel toks' context = PModel.parseModel toks context ∧
    PModel.parseStats toks' = PModel.parseStats toks
theorem C10_parse_terminator_irrelevant : C10_parse_terminator_irrelevant_stmt :=
  fun _ _ context h =>
    ⟨PModel.parseModel_terminator_kind h context, PModel.parseStats_terminator_kind h⟩

/-- Respelling the terminators of a token array by any function of the terminator type (line break ↦
`;`, `;` ↦ line break, swap, …) changes nothing. -/
def C10_respell_terminators_stmt : Prop :=
  ∀ (f : PModel.TerminatorType → PModel.TerminatorType) (toks : Array PModel.PTok)
    (context : List Name),
    PModel.SameUpToTerminator toks (toks.map (PModel.PTok.respell f)) ∧
    PModel.runParser (toks.map (PModel.PTok.respell f)) = PModel.runParser toks ∧
    PModel.parseModel (toks.map (PModel.PTok.respell f)) context = PModel.parseModel toks context
theorem C10_respell_terminators : C10_respell_terminators_stmt :=
  fun f toks context =>
    have h := PModel.sameUpToTerminator_respell f toks
    ⟨h, PModel.runParser_terminator_kind h, PModel.parseModel_terminator_kind h context⟩

/-- `SameUpToTerminator` is exactly "equal once every terminator is spelled `;`" (hence decidable), and
an equivalence relation. -/
def C10_same_up_to_terminator_char_stmt : Prop :=
  (∀ (toks toks' : Array PModel.PTok),
    PModel.SameUpToTerminator toks toks' ↔
      toks.map PModel.PTok.canon = toks'.map PModel.PTok.canon) ∧
  (∀ toks, PModel.SameUpToTerminator toks toks) ∧
  (∀ toks toks', PModel.SameUpToTerminator toks toks' → PModel.SameUpToTerminator toks' toks) ∧
  (∀ a b c, PModel.SameUpToTerminator a b → PModel.SameUpToTerminator b c →
    PModel.SameUpToTerminator a c)
theorem C10_same_up_to_terminator_char : C10_same_up_to_terminator_char_stmt :=
  ⟨PModel.sameUpToTerminator_iff_canon, PModel.SameUpToTerminator.refl,
    fun _ _ h => h.symm, fun _ _ _ h1 h2 => h1.trans h2⟩

/-! ### With the tokenizer law: a `;` lexeme versus a line break in one gap -/

/-- Tokenizer side.  Two renderings of the same lexemes that differ in one gap between a lexeme that
can end an expression and one that can start one: a line break in the first, a `;` lexeme with no line
break around it in the second.  The token kinds are `A ++ ⏎ :: B` and `A ++ ; :: B` for the same `A`,
`B`. -/
def C10_semicolon_vs_linebreak_stmt : Prop :=
  ∀ (cc : CharClass), cc.Sane2 → ∀ (g0 g0' : Gap) (pre post : List LexItem) (l l2 : List Char)
    (k k2 : TokKind) (g g1 g3 g2 : Gap) (eof eof' : Option (List Char)),
    Rendering cc g0 (pre ++ (l, k, g) :: (l2, k2, g2) :: post) eof →
    Rendering cc g0' (pre ++ (l, k, g1) :: ([';'], .terminatorSemicolon, g3) :: (l2, k2, g2) :: post)
      eof' →
    Gap.hasNL g = true → Gap.hasNL g1 = false → Gap.hasNL g3 = false →
    Generated.canEnd k = some true → Generated.canStart k2 = some true →
    ∃ ts ts' A B, tokenize cc (renderText g0 (pre ++ (l, k, g) :: (l2, k2, g2) :: post) eof) = .ok ts ∧
      tokenize cc (renderText g0'
        (pre ++ (l, k, g1) :: ([';'], .terminatorSemicolon, g3) :: (l2, k2, g2) :: post) eof') = .ok ts' ∧
      ts.map (·.kind) = A ++ .terminatorLineBreak :: B ∧
      ts'.map (·.kind) = A ++ .terminatorSemicolon :: B
theorem C10_semicolon_vs_linebreak : C10_semicolon_vs_linebreak_stmt := by
  intro cc hs g0 g0' pre post l l2 k k2 g g1 g3 g2 eof eof' h h' hg hg1 hg3 hk hk2
  obtain ⟨ts, h1, h2⟩ := h.law hs
  obtain ⟨ts', h1', h2'⟩ := h'.law hs
  refine ⟨ts, ts', weave (lexFlags (pre ++ [(l, k, g)])), weave (lexFlags ((l2, k2, g2) :: post)),
    h1, h1', ?_, ?_⟩
  · rw [h2, lexFlags_append, lexFlags_append]
    simp only [lexFlags, List.map_cons, List.map_nil]
    rw [weave_split]
    simp [sepKinds, hg, hk, hk2]
  · rw [h2', lexFlags_append, lexFlags_append]
    simp only [lexFlags, List.map_cons, List.map_nil]
    rw [weave_split, weave_last _ k (Gap.hasNL g1) (Gap.hasNL g), weave_cons_cons]
    simp [sepKinds, hg1, hg3]

/-- A tokenizer token as a parser token (`I` interns identifier spellings). -/
def C10_toPTok (I : List Char → Name) (t : Tok) : PModel.PTok :=
  ⟨PModel.kindP I t.kind, ⟨t.start, t.stop⟩⟩

/-- End to end, up to ranges (the byte ranges of two different texts differ in general, so the two
kind streams are laid over an arbitrary common list of ranges): under the hypotheses of
`C10_semicolon_vs_linebreak` the two token streams have the same length, and as parser input they are
`SameUpToTerminator`, parse to the same result and give the same outcome of the front end. -/
def C10_semicolon_vs_linebreak_parse_stmt : Prop :=
  ∀ (cc : CharClass), cc.Sane2 → ∀ (g0 g0' : Gap) (pre post : List LexItem) (l l2 : List Char)
    (k k2 : TokKind) (g g1 g3 g2 : Gap) (eof eof' : Option (List Char)),
    Rendering cc g0 (pre ++ (l, k, g) :: (l2, k2, g2) :: post) eof →
    Rendering cc g0' (pre ++ (l, k, g1) :: ([';'], .terminatorSemicolon, g3) :: (l2, k2, g2) :: post)
      eof' →
    Gap.hasNL g = true → Gap.hasNL g1 = false → Gap.hasNL g3 = false →
    Generated.canEnd k = some true → Generated.canStart k2 = some true →
    ∃ ts ts', tokenize cc (renderText g0 (pre ++ (l, k, g) :: (l2, k2, g2) :: post) eof) = .ok ts ∧
      tokenize cc (renderText g0'
        (pre ++ (l, k, g1) :: ([';'], .terminatorSemicolon, g3) :: (l2, k2, g2) :: post) eof') = .ok ts' ∧
      ts.length = ts'.length ∧
      ∀ (I : List Char → Name) (rs : List PModel.SourceRange) (context : List Name),
        let toks := (List.zipWith PModel.PTok.mk (ts.map fun t => PModel.kindP I t.kind) rs).toArray
        let toks' := (List.zipWith PModel.PTok.mk (ts'.map fun t => PModel.kindP I t.kind) rs).toArray
        PModel.SameUpToTerminator toks toks' ∧ PModel.runParser toks' = PModel.runParser toks ∧
        PModel.parseModel toks' context = PModel.parseModel toks context
theorem C10_semicolon_vs_linebreak_parse : C10_semicolon_vs_linebreak_parse_stmt := by
  intro cc hs g0 g0' pre post l l2 k k2 g g1 g3 g2 eof eof' h h' hg hg1 hg3 hk hk2
  obtain ⟨ts, ts', A, B, h1, h1', e, e'⟩ :=
    C10_semicolon_vs_linebreak cc hs g0 g0' pre post l l2 k k2 g g1 g3 g2 eof eof' h h' hg hg1 hg3 hk hk2
  refine ⟨ts, ts', h1, h1', ?_, ?_⟩
  · have := congrArg List.length e
    have := congrArg List.length e'
    simp only [List.length_map, List.length_append, List.length_cons] at *
    omega
  · intro I rs context toks toks'
    have hk : PModel.All₂ PModel.KindSim (ts.map fun t => PModel.kindP I t.kind)
        (ts'.map fun t => PModel.kindP I t.kind) := by
      have m : ∀ l : List Tok, (l.map fun t => PModel.kindP I t.kind) = (l.map (·.kind)).map (PModel.kindP I) := by
        intro l; simp
      rw [m, m, e, e']
      simp only [List.map_append, List.map_cons]
      exact PModel.All₂.append (PModel.All₂.refl PModel.KindSim.refl _)
        (.cons (PModel.KindSim.terminators _ _) (PModel.All₂.refl PModel.KindSim.refl _))
    have hsame : PModel.SameUpToTerminator toks toks' := PModel.sameUpToTerminator_zipWith hk rs
    exact ⟨hsame, PModel.runParser_terminator_kind hsame,
      PModel.parseModel_terminator_kind hsame context⟩

/-! ### Non-vacuity of the parser clause -/

/-- `x = 1⏎x` (bytes `x`0 `=`2 `1`4 `⏎`5 `x`6). -/
def C10_toksLB : Array PModel.PTok := #[
  ⟨.identifier 1, ⟨0, 1⟩⟩, ⟨.equals, ⟨2, 3⟩⟩, ⟨.integerLiteral 1, ⟨4, 5⟩⟩,
  ⟨.terminator .lineBreak, ⟨5, 6⟩⟩, ⟨.identifier 1, ⟨6, 7⟩⟩]
/-- `x = 1;x`: the same ranges. -/
def C10_toksSC : Array PModel.PTok := #[
  ⟨.identifier 1, ⟨0, 1⟩⟩, ⟨.equals, ⟨2, 3⟩⟩, ⟨.integerLiteral 1, ⟨4, 5⟩⟩,
  ⟨.terminator .semicolon, ⟨5, 6⟩⟩, ⟨.identifier 1, ⟨6, 7⟩⟩]

example : PModel.SameUpToTerminator C10_toksLB C10_toksSC ∧ C10_toksLB ≠ C10_toksSC := by decide
example : C10_toksSC = C10_toksLB.map (PModel.PTok.respell fun _ => .semicolon) := by decide +kernel

/-- What the examples observe of a parse result: the recorded errors, `next`, `confident`, and every
node of the tree in preorder (range, `group`). -/
def C10_obs (r : PModel.PResult) :
    (List PModel.PErr × Nat × Bool) × List (PModel.SourceRange × Bool) × List PModel.SourceRange :=
  ((PModel.collectErrors r.term, r.next, r.confident), r.term.nodes, r.term.binders)

-- both spellings, evaluated by the kernel independently of the theorem: the let `0..7` with definition
-- `4..5` and body `6..7`, all 5 tokens consumed, no error
example : ∃ r st, PModel.runParser C10_toksLB = some (r, st) ∧
    C10_obs r = (([], 5, true), [(⟨0, 7⟩, false), (⟨4, 5⟩, false), (⟨6, 7⟩, false)], [⟨0, 1⟩]) :=
  PModel.runParser_eval C10_toksLB 40 C10_obs _ (by decide +kernel)
example : ∃ r st, PModel.runParser C10_toksSC = some (r, st) ∧
    C10_obs r = (([], 5, true), [(⟨0, 7⟩, false), (⟨4, 5⟩, false), (⟨6, 7⟩, false)], [⟨0, 1⟩]) :=
  PModel.runParser_eval C10_toksSC 40 C10_obs _ (by decide +kernel)
-- … and by the theorem: literally the same result and memo table
example : PModel.runParser C10_toksSC = PModel.runParser C10_toksLB :=
  C10_terminator_kind_irrelevant _ _ (by decide)

/-- `( 1⏎x` / `( 1;x`: the recovery scan of `parse_group` stops at the terminator (either kind). -/
def C10_toksLB2 : Array PModel.PTok := #[
  ⟨.leftParen, ⟨0, 1⟩⟩, ⟨.integerLiteral 1, ⟨2, 3⟩⟩, ⟨.terminator .lineBreak, ⟨3, 4⟩⟩,
  ⟨.identifier 1, ⟨4, 5⟩⟩]
def C10_toksSC2 : Array PModel.PTok := #[
  ⟨.leftParen, ⟨0, 1⟩⟩, ⟨.integerLiteral 1, ⟨2, 3⟩⟩, ⟨.terminator .semicolon, ⟨3, 4⟩⟩,
  ⟨.identifier 1, ⟨4, 5⟩⟩]
example : PModel.SameUpToTerminator C10_toksLB2 C10_toksSC2 := by decide
-- the "never closed" error lists the parenthesis `0..1` and the terminator `3..4` in both
example : ∃ r st, PModel.runParser C10_toksLB2 = some (r, st) ∧
    (PModel.collectErrors r.term, r.next, r.confident) = ([[⟨0, 1⟩, ⟨3, 4⟩]], 2, false) :=
  PModel.runParser_eval C10_toksLB2 40 (fun r => (PModel.collectErrors r.term, r.next, r.confident)) _
    (by decide +kernel)
example : ∃ r st, PModel.runParser C10_toksSC2 = some (r, st) ∧
    (PModel.collectErrors r.term, r.next, r.confident) = ([[⟨0, 1⟩, ⟨3, 4⟩]], 2, false) :=
  PModel.runParser_eval C10_toksSC2 40 (fun r => (PModel.collectErrors r.term, r.next, r.confident)) _
    (by decide +kernel)

/-- `x=1⏎x`: a line break between `1` and `x`. -/
def C10_itemsLB : List LexItem :=
  [(['x'], .identifier ['x'], []), (['='], .equals, []), (['1'], .integerLiteral 1, [.newline]),
   (['x'], .identifier ['x'], [])]
/-- `x=1;x`: a `;` lexeme there instead. -/
def C10_itemsSC : List LexItem :=
  [(['x'], .identifier ['x'], []), (['='], .equals, []), (['1'], .integerLiteral 1, []),
   ([';'], .terminatorSemicolon, []), (['x'], .identifier ['x'], [])]
theorem C10_renderingLB : Rendering C10_cc [] C10_itemsLB none :=
  Rendering.of_check (by decide) (by decide) eofOK_none (by decide)
theorem C10_renderingSC : Rendering C10_cc [] C10_itemsSC none :=
  Rendering.of_check (by decide) (by decide) eofOK_none (by decide)
example : renderText [] C10_itemsLB none = ['x','=','1','\n','x'] ∧
    renderText [] C10_itemsSC none = ['x','=','1',';','x'] := by decide
-- the hypotheses of `C10_semicolon_vs_linebreak(_parse)` hold together
example : ∃ ts ts', tokenize C10_cc (renderText [] C10_itemsLB none) = .ok ts ∧
    tokenize C10_cc (renderText [] C10_itemsSC none) = .ok ts' ∧ ts.length = ts'.length ∧
    ∀ (I : List Char → Name) (rs : List PModel.SourceRange) (context : List Name),
      let toks := (List.zipWith PModel.PTok.mk (ts.map fun t => PModel.kindP I t.kind) rs).toArray
      let toks' := (List.zipWith PModel.PTok.mk (ts'.map fun t => PModel.kindP I t.kind) rs).toArray
      PModel.SameUpToTerminator toks toks' ∧ PModel.runParser toks' = PModel.runParser toks ∧
      PModel.parseModel toks' context = PModel.parseModel toks context :=
  C10_semicolon_vs_linebreak_parse C10_cc C10_cc_sane2 [] [] (C10_itemsLB.take 2) [] ['1'] ['x']
    (.integerLiteral 1) (.identifier ['x']) [.newline] [] [] [] none none
    C10_renderingLB C10_renderingSC (by decide) (by decide) (by decide) (by decide) (by decide)
-- here the two texts even have the same byte ranges: the tokenizer's own tokens, converted, are
-- `SameUpToTerminator` (kernel-evaluated), so the front end gives the same outcome on the two texts
example : ∀ (I : List Char → Name) (context : List Name),
    match tokenize C10_cc ['x','=','1','\n','x'], tokenize C10_cc ['x','=','1',';','x'] with
    | .ok ts, .ok ts' =>
        PModel.parseModel (ts'.map (C10_toPTok I)).toArray context
          = PModel.parseModel (ts.map (C10_toPTok I)).toArray context
    | _, _ => False := by
  intro I context
  have e1 : tokenize C10_cc ['x','=','1','\n','x'] = .ok [⟨.identifier ['x'], 0, 1⟩, ⟨.equals, 1, 2⟩,
      ⟨.integerLiteral 1, 2, 3⟩, ⟨.terminatorLineBreak, 3, 4⟩, ⟨.identifier ['x'], 4, 5⟩] := by decide
  have e2 : tokenize C10_cc ['x','=','1',';','x'] = .ok [⟨.identifier ['x'], 0, 1⟩, ⟨.equals, 1, 2⟩,
      ⟨.integerLiteral 1, 2, 3⟩, ⟨.terminatorSemicolon, 3, 4⟩, ⟨.identifier ['x'], 4, 5⟩] := by decide
  rw [e1, e2]
  refine (C10_parse_terminator_irrelevant _ _ context ?_).1
  apply PModel.sameUpToTerminator_of_forall₂
  simp only [List.map_cons, List.map_nil, C10_toPTok, PModel.kindP]
  repeat first
    | exact .nil
    | refine .cons ⟨rfl, ?_⟩ ?_
    | exact PModel.KindSim.refl _
    | exact PModel.KindSim.terminators _ _
