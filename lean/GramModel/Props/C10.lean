import GramModel.Lemmas.Lexer
import GramModel.Lemmas.LexerRender

/-!
# C10 — comments, spacing and line layout do not change a program's meaning

The two line-break tables used below are the ones **regenerated from `tokenizer.rs` on every run**
(`Generated.canEnd`, `Generated.canStart`); the table obligations are decided over all 29 token
shapes.
-/

/-- A comment runs from `#` to the end of its line and leaves that line ending in place. -/
def C10_comment_is_newline_stmt : Prop :=
  ∀ (c r : List Char) (pos : Nat), (∀ x ∈ c, x ≠ '\n') →
    skipComment (c ++ '\n' :: r) pos = ('\n' :: r, pos + bytesOf c)
theorem C10_comment_is_newline : C10_comment_is_newline_stmt := skipComment_line

/-- A final comment may end at the end of the file. -/
def C10_comment_at_eof_stmt : Prop :=
  ∀ (c : List Char) (pos : Nat), (∀ x ∈ c, x ≠ '\n') → skipComment c pos = ([], pos + bytesOf c)
theorem C10_comment_at_eof : C10_comment_at_eof_stmt := skipComment_eof

/-- In the scanner a comment behaves exactly like its line ending: scanning `# c ⏎ r` continues as
scanning `⏎ r` (with the position advanced), for every state. -/
def C10_scan_comment_stmt : Prop :=
  ∀ (cc : CharClass), cc.Sane → ∀ (n pos : Nat) (c r : List Char) (s : LexState),
    (∀ x ∈ c, x ≠ '\n') →
    scan cc (n+1) pos ('#' :: (c ++ '\n' :: r)) s = scan cc n (pos + 1 + bytesOf c) ('\n' :: r) s
theorem C10_scan_comment : C10_scan_comment_stmt := by
  intro cc hs n pos c r s hc
  have d1 : isDigit '#' = false := by decide
  conv => lhs; rw [scan.eq_def]
  simp [hs.hash_plain.1, hs.hash_plain.2, d1, skipComment_line c r (pos + 1) hc]

/-- Spaces and tabs between tokens are skipped without any effect on the state. -/
def C10_scan_blank_stmt : Prop :=
  ∀ (cc : CharClass), cc.Sane → ∀ (n pos : Nat) (r : List Char) (s : LexState),
    scan cc (n+1) pos (' ' :: r) s = scan cc n (pos + 1) r s ∧
    scan cc (n+1) pos ('\t' :: r) s = scan cc n (pos + 1) r s
theorem C10_scan_blank : C10_scan_blank_stmt := by
  intro cc hs n pos r s
  have d1 : isDigit ' ' = false := by decide
  have d2 : isDigit '\t' = false := by decide
  have u1 : (' ' : Char).utf8Size = 1 := rfl
  have u2 : ('\t' : Char).utf8Size = 1 := rfl
  constructor
  · conv => lhs; rw [scan.eq_def]
    simp [hs.space_ws.1, hs.space_ws.2, d1, u1]
  · conv => lhs; rw [scan.eq_def]
    simp [hs.tab_ws.1, hs.tab_ws.2, d2, u2]

/-- A line break yields a terminator exactly when the previous token can end an expression
(first table), and never twice in a row. -/
def C10_scan_newline_stmt : Prop :=
  ∀ (cc : CharClass) (n pos : Nat) (r : List Char) (s : LexState),
    (lastCanEnd s = some true →
      scan cc (n+1) pos ('\n' :: r) s = scan cc n (pos + 1) r (s.push .terminatorLineBreak pos (pos + 1))) ∧
    (lastCanEnd s = some false → scan cc (n+1) pos ('\n' :: r) s = scan cc n (pos + 1) r s)
theorem C10_scan_newline : C10_scan_newline_stmt := by
  intro cc n pos r s
  constructor <;> intro h
  · conv => lhs; rw [scan.eq_def]
    simp [h]
  · conv => lhs; rw [scan.eq_def]
    simp [h]

/-- Table obligations over the regenerated tables (all 29 shapes): both tables are total except the
deliberate panic arm; every operator and opening bracket cannot end an expression; every binary
operator and closing bracket cannot start one; `;` counts as both; a line-break terminator never
ends an expression (so two in a row are impossible); identifiers, literals and the atomic keywords
do both. -/
def C10_tables_stmt : Prop :=
  (∀ k ∈ TokKind.all, Generated.canEnd k ≠ none) ∧
  (∀ k ∈ TokKind.all, Generated.canStart k = none ↔ k = .terminatorLineBreak) ∧
  (∀ k ∈ [TokKind.asterisk, .colon, .doubleEquals, .else_, .equals, .greaterThan,
      .greaterThanOrEqualTo, .if_, .leftCurly, .leftParen, .lessThan, .lessThanOrEqualTo, .minus, .plus,
      .slash, .then_, .thickArrow, .thinArrow, .terminatorLineBreak], Generated.canEnd k = some false) ∧
  (∀ k ∈ [TokKind.boolean, .false_, .identifier [], .integer, .integerLiteral 0, .rightCurly, .rightParen,
      .terminatorSemicolon, .true_, .type_], Generated.canEnd k = some true) ∧
  (∀ k ∈ [TokKind.asterisk, .colon, .doubleEquals, .else_, .equals, .greaterThan,
      .greaterThanOrEqualTo, .lessThan, .lessThanOrEqualTo, .minus, .plus, .rightCurly, .rightParen,
      .slash, .then_, .thickArrow, .thinArrow], Generated.canStart k = some false) ∧
  (∀ k ∈ [TokKind.boolean, .false_, .identifier [], .if_, .integer, .integerLiteral 0, .leftCurly,
      .leftParen, .terminatorSemicolon, .true_, .type_], Generated.canStart k = some true)
theorem C10_tables : C10_tables_stmt := by unfold C10_tables_stmt; decide

/-- The tables do not look at payloads. -/
def C10_tables_payload_stmt : Prop :=
  ∀ (w : List Char) (n : Nat),
    Generated.canEnd (.identifier w) = Generated.canEnd (.identifier []) ∧
    Generated.canStart (.identifier w) = Generated.canStart (.identifier []) ∧
    Generated.canEnd (.integerLiteral n) = Generated.canEnd (.integerLiteral 0) ∧
    Generated.canStart (.integerLiteral n) = Generated.canStart (.integerLiteral 0)
theorem C10_tables_payload : C10_tables_payload_stmt := by intro w n; exact ⟨rfl, rfl, rfl, rfl⟩

/-- The scanner never produces two adjacent line-break terminators. -/
def C10_no_two_linebreaks_stmt : Prop :=
  ∀ (cc : CharClass) (fuel pos : Nat) (cs : List Char) (s : LexState),
    noTwoLB s.toks → noTwoLB (scan cc fuel pos cs s).toks
theorem C10_no_two_linebreaks : C10_no_two_linebreaks_stmt := by
  intro cc fuel pos cs s h
  exact scan_noTwoLB cc fuel pos cs s h

/-- The token stream neither starts nor ends with a line-break terminator. -/
def C10_no_leading_trailing_terminator_stmt : Prop :=
  ∀ (cc : CharClass) (text : List Char) (ts : List Tok), tokenize cc text = .ok ts →
    (ts.head?.map (·.kind)) ≠ some .terminatorLineBreak ∧
    (ts.getLast?.map (·.kind)) ≠ some .terminatorLineBreak
theorem C10_no_leading_trailing_terminator : C10_no_leading_trailing_terminator_stmt := by
  intro cc text ts h
  have hf := tokenize_ok h
  constructor
  · have hfirst := scan_first_not_lineBreak cc text.length 0 text { toks := [], errs := [] }
      (by intro t ht; cases ht)
    rw [← List.head?_reverse] at hfirst
    generalize (scan cc text.length 0 text { toks := [], errs := [] }).toks.reverse = l at hf hfirst
    cases l with
    | nil => simp [filterToks] at hf; subst hf; simp
    | cons a r =>
      obtain ⟨r', rfl⟩ := filterToks_head a r ts hf (hfirst a rfl)
      intro hk
      exact hfirst a rfl (by simpa using hk)
  · have hl := filterToks_last _ _ hf
    cases hg : ts.getLast? with
    | none => simp
    | some t => intro hk; exact hl t hg (by simpa using hk)

/-! ## Non-vacuity: the same program laid out in two ways gives the same kinds -/

def C10_cc : CharClass :=
  { isAlpha := fun c => ('a' ≤ c ∧ c ≤ 'z')
    isAlnum := fun c => ('a' ≤ c ∧ c ≤ 'z') || ('0' ≤ c ∧ c ≤ '9')
    isWs := fun c => c == ' ' || c == '\n' || c == '\t'
    graphemeEnd := fun p => p + 1 }
def kindsOf : LexResult → List Nat
  | .ok ts => ts.map (·.kind.tag)
  | _ => []
-- `x = 1 +⏎  2 #c⏎⏎y`  vs  `x=1+2⏎y`
example : kindsOf (tokenize C10_cc ['x',' ','=',' ','1',' ','+','\n',' ',' ','2',' ','#','c','\n','\n','y'])
        = kindsOf (tokenize C10_cc ['x','=','1','+','2','\n','y']) := by decide

/-! ## The global render/tokenize law (unbounded)

A text is a *rendering* (`renderText g0 items eof`, `Lemmas/LexerRender.lean`): a leading gap, lexemes each
followed by a gap of blanks / comment lines / line feeds, and an optional final comment ended by the
end of the file.  `Rendering cc g0 items eof` bundles the hypotheses: every gap item is `ok`, every
lexeme `IsLexeme`, the final comment has no line feed, and adjacent lexemes with an empty gap between
them do not fuse (`SepOK`). -/

/-- **Render/tokenize law.**  For every sane classifier, every rendering tokenizes (no panic, no
error), and the kinds of its tokens depend on the layout only through "does gap `i` contain a line
break": they are `weave` of the lexeme kinds and these lexFlags, i.e. a line-break terminator stands
between lexemes `i` and `i+1` iff gap `i` has a line break, lexeme `i` can end an expression and
lexeme `i+1` can start one. -/
def C10_render_law_stmt : Prop :=
  ∀ (cc : CharClass), cc.Sane2 → ∀ (g0 : Gap) (items : List LexItem) (eof : Option (List Char)),
    Gap.ok cc g0 → ItemsOK cc items → EofOK eof → SepOK cc items →
    ∃ ts, tokenize cc (renderText g0 items eof) = .ok ts ∧
      ts.map (·.kind) = weave (items.map fun it => (it.2.1, Gap.hasNL it.2.2))
theorem C10_render_law : C10_render_law_stmt := by
  intro cc hs g0 items eof h0 h1 h2 h3
  exact render_law cc hs g0 items eof h0 h1 h2 h3

/-- Scanner-level form: before the second pass the token kinds are exactly `rawKinds`: every lexeme, and
a line-break terminator after lexeme `i` iff gap `i` has a line break and lexeme `i` can end an
expression (also after the last lexeme; never before the first). -/
def C10_render_scan_stmt : Prop :=
  ∀ (cc : CharClass), cc.Sane2 → ∀ (g0 : Gap) (items : List LexItem) (eof : Option (List Char)),
    Rendering cc g0 items eof →
    (scan0 cc (renderText g0 items eof)).panic = false ∧ (scan0 cc (renderText g0 items eof)).errs = [] ∧
    (scan0 cc (renderText g0 items eof)).toks.reverse.map (·.kind) = rawKinds (lexFlags items)
theorem C10_render_scan : C10_render_scan_stmt := by
  intro cc hs g0 items eof h
  exact scan_render cc hs g0 items eof h.1 h.2.1 h.2.2.1 h.2.2.2

/-- Layout is irrelevant: two renderings with the same lexeme kinds (in particular: of the same
lexemes) whose gaps agree on "contains a line break" give the same token kinds — whatever the
leading gaps, the blanks, the comments, the number of consecutive line breaks and the final
comments are. -/
def C10_layout_irrelevant_stmt : Prop :=
  ∀ (cc : CharClass), cc.Sane2 → ∀ (g0 g0' : Gap) (items items' : List LexItem)
    (eof eof' : Option (List Char)),
    Rendering cc g0 items eof → Rendering cc g0' items' eof' →
    items.map (·.2.1) = items'.map (·.2.1) →
    (items.map fun it => Gap.hasNL it.2.2) = (items'.map fun it => Gap.hasNL it.2.2) →
    ∃ ts ts', tokenize cc (renderText g0 items eof) = .ok ts ∧
      tokenize cc (renderText g0' items' eof') = .ok ts' ∧ ts.map (·.kind) = ts'.map (·.kind)
theorem C10_layout_irrelevant : C10_layout_irrelevant_stmt := by
  intro cc hs g0 g0' items items' eof eof' h h' hk hn
  obtain ⟨ts, h1, h2⟩ := h.law hs
  obtain ⟨ts', h1', h2'⟩ := h'.law hs
  refine ⟨ts, ts', h1, h1', ?_⟩
  rw [h2, h2', lexFlags_eq_zip, lexFlags_eq_zip, hk, hn]

/-- A line break after a lexeme that cannot end an expression (operator, opening bracket, …) is not
a separator: changing gap `i` arbitrarily does not change the kinds. -/
def C10_break_after_cannot_end_stmt : Prop :=
  ∀ (cc : CharClass), cc.Sane2 → ∀ (g0 g0' : Gap) (pre post : List LexItem) (l : List Char)
    (k : TokKind) (g g' : Gap) (eof eof' : Option (List Char)),
    Rendering cc g0 (pre ++ (l, k, g) :: post) eof → Rendering cc g0' (pre ++ (l, k, g') :: post) eof' →
    Generated.canEnd k = some false →
    ∃ ts ts', tokenize cc (renderText g0 (pre ++ (l, k, g) :: post) eof) = .ok ts ∧
      tokenize cc (renderText g0' (pre ++ (l, k, g') :: post) eof') = .ok ts' ∧
      ts.map (·.kind) = ts'.map (·.kind)
theorem C10_break_after_cannot_end : C10_break_after_cannot_end_stmt := by
  intro cc hs g0 g0' pre post l k g g' eof eof' h h' hk
  obtain ⟨ts, h1, h2⟩ := h.law hs
  obtain ⟨ts', h1', h2'⟩ := h'.law hs
  refine ⟨ts, ts', h1, h1', ?_⟩
  rw [h2, h2', lexFlags_append, lexFlags_append]
  exact weave_cannot_end _ k _ _ _ hk

/-- A line break before a lexeme that cannot start an expression (binary operator, closing bracket,
`then`, `else`, …) is not a separator either. -/
def C10_break_before_cannot_start_stmt : Prop :=
  ∀ (cc : CharClass), cc.Sane2 → ∀ (g0 g0' : Gap) (pre post : List LexItem) (l l2 : List Char)
    (k k2 : TokKind) (g g' g2 : Gap) (eof eof' : Option (List Char)),
    Rendering cc g0 (pre ++ (l, k, g) :: (l2, k2, g2) :: post) eof →
    Rendering cc g0' (pre ++ (l, k, g') :: (l2, k2, g2) :: post) eof' →
    Generated.canStart k2 = some false →
    ∃ ts ts', tokenize cc (renderText g0 (pre ++ (l, k, g) :: (l2, k2, g2) :: post) eof) = .ok ts ∧
      tokenize cc (renderText g0' (pre ++ (l, k, g') :: (l2, k2, g2) :: post) eof') = .ok ts' ∧
      ts.map (·.kind) = ts'.map (·.kind)
theorem C10_break_before_cannot_start : C10_break_before_cannot_start_stmt := by
  intro cc hs g0 g0' pre post l l2 k k2 g g' g2 eof eof' h h' hk
  obtain ⟨ts, h1, h2⟩ := h.law hs
  obtain ⟨ts', h1', h2'⟩ := h'.law hs
  refine ⟨ts, ts', h1, h1', ?_⟩
  rw [h2, h2', lexFlags_append, lexFlags_append]
  exact weave_cannot_start _ k _ _ k2 _ _ hk

/-- A line break between a lexeme that can end an expression and one that can start an expression
separates definitions: the kinds are those of the part before (`A`), one line-break terminator, and
those of the part after (`B`) — whereas the layout with gap `i` on one line gives `A ++ B`. -/
def C10_linebreak_is_separator_stmt : Prop :=
  ∀ (cc : CharClass), cc.Sane2 → ∀ (g0 g0' : Gap) (pre post : List LexItem) (l l2 : List Char)
    (k k2 : TokKind) (g gflat g2 : Gap) (eof eof' : Option (List Char)),
    Rendering cc g0 (pre ++ (l, k, g) :: (l2, k2, g2) :: post) eof →
    Rendering cc g0' (pre ++ (l, k, gflat) :: (l2, k2, g2) :: post) eof' →
    Gap.hasNL g = true → Gap.hasNL gflat = false →
    Generated.canEnd k = some true → Generated.canStart k2 = some true →
    ∃ ts ts', tokenize cc (renderText g0 (pre ++ (l, k, g) :: (l2, k2, g2) :: post) eof) = .ok ts ∧
      tokenize cc (renderText g0' (pre ++ (l, k, gflat) :: (l2, k2, g2) :: post) eof') = .ok ts' ∧
      ts.map (·.kind) = weave (lexFlags (pre ++ [(l, k, g)])) ++
        .terminatorLineBreak :: weave (lexFlags ((l2, k2, g2) :: post)) ∧
      ts'.map (·.kind) = weave (lexFlags (pre ++ [(l, k, g)])) ++ weave (lexFlags ((l2, k2, g2) :: post))
theorem C10_linebreak_is_separator : C10_linebreak_is_separator_stmt := by
  intro cc hs g0 g0' pre post l l2 k k2 g gflat g2 eof eof' h h' hg hf hk hk2
  obtain ⟨ts, h1, h2⟩ := h.law hs
  obtain ⟨ts', h1', h2'⟩ := h'.law hs
  refine ⟨ts, ts', h1, h1', ?_, ?_⟩
  · rw [h2, lexFlags_append, lexFlags_append]
    simp only [lexFlags, List.map_cons, List.map_nil]
    rw [weave_split]
    simp [sepKinds, hg, hk, hk2]
  · rw [h2', lexFlags_append, lexFlags_append]
    simp only [lexFlags, List.map_cons, List.map_nil]
    rw [weave_split, weave_last _ k (Gap.hasNL gflat) (Gap.hasNL g)]
    simp [sepKinds, hf]

/-- `weave` is compositional (the general form of the three statements above). -/
def C10_weave_split_stmt : Prop :=
  ∀ (A : List (TokKind × Bool)) (k : TokKind) (b : Bool) (k' : TokKind) (b' : Bool)
    (B : List (TokKind × Bool)),
    weave (A ++ (k, b) :: (k', b') :: B) =
      weave (A ++ [(k, b)]) ++
        (if b && Generated.canEnd k == some true && Generated.canStart k' == some true
          then [.terminatorLineBreak] else []) ++ weave ((k', b') :: B)
theorem C10_weave_split : C10_weave_split_stmt := weave_split

/-! ### Non-vacuity of the render law -/

theorem C10_cc_sane2 : C10_cc.Sane2 :=
  { hash_plain := by decide, nl_plain := by decide, space_ws := by decide, tab_ws := by decide,
    hash_cont := by decide, nl_cont := by decide }

/-- `x = 1 +⏎  2 #c⏎⏎y # end` -/
def C10_itemsA : List LexItem :=
  [(['x'], .identifier ['x'], [.blank ' ']), (['='], .equals, [.blank ' ']),
   (['1'], .integerLiteral 1, [.blank ' ']), (['+'], .plus, [.newline, .blank ' ', .blank ' ']),
   (['2'], .integerLiteral 2, [.blank ' ', .comment ['c'], .newline]),
   (['y'], .identifier ['y'], [.blank ' '])]
/-- `x=1+⏎2⏎y`: the same line-break lexFlags as A, nothing else -/
def C10_itemsB : List LexItem :=
  [(['x'], .identifier ['x'], []), (['='], .equals, []), (['1'], .integerLiteral 1, []),
   (['+'], .plus, [.newline]), (['2'], .integerLiteral 2, [.newline]), (['y'], .identifier ['y'], [])]
/-- `x=1+⏎2 y`: B with the gap between `2` and `y` on one line -/
def C10_itemsC : List LexItem :=
  [(['x'], .identifier ['x'], []), (['='], .equals, []), (['1'], .integerLiteral 1, []),
   (['+'], .plus, [.newline]), (['2'], .integerLiteral 2, [.blank ' ']), (['y'], .identifier ['y'], [])]
/-- `x=1+2⏎y`: B without the line break after `+` -/
def C10_itemsD : List LexItem :=
  [(['x'], .identifier ['x'], []), (['='], .equals, []), (['1'], .integerLiteral 1, []),
   (['+'], .plus, []), (['2'], .integerLiteral 2, [.newline]), (['y'], .identifier ['y'], [])]

theorem C10_renderingA : Rendering C10_cc [] C10_itemsA (some ['e']) :=
  Rendering.of_check (by decide) (by decide) (eofOK_some (by decide)) (by decide)
theorem C10_renderingB : Rendering C10_cc [.newline] C10_itemsB none :=
  Rendering.of_check (by decide) (by decide) eofOK_none (by decide)
theorem C10_renderingC : Rendering C10_cc [] C10_itemsC none :=
  Rendering.of_check (by decide) (by decide) eofOK_none (by decide)
theorem C10_renderingD : Rendering C10_cc [] C10_itemsD none :=
  Rendering.of_check (by decide) (by decide) eofOK_none (by decide)

example : renderText [] C10_itemsA (some ['e']) =
    ['x',' ','=',' ','1',' ','+','\n',' ',' ','2',' ','#','c','\n','\n','y',' ','#','e'] := by decide
example : renderText [.newline] C10_itemsB none = ['\n','x','=','1','+','\n','2','\n','y'] := by decide
example : renderText [] C10_itemsD none = ['x','=','1','+','2','\n','y'] := by decide

/-- both sides of the law, evaluated: the tokenizer's kinds are the woven kinds -/
example : (match tokenize C10_cc (renderText [] C10_itemsA (some ['e'])) with
      | .ok ts => some (ts.map (·.kind)) | _ => none) = some (weave (lexFlags C10_itemsA)) := by decide
example : weave (lexFlags C10_itemsA) = [.identifier ['x'], .equals, .integerLiteral 1, .plus,
    .integerLiteral 2, .terminatorLineBreak, .identifier ['y']] := by decide
-- hypotheses of `C10_layout_irrelevant` for A and B
example : C10_itemsA.map (·.2.1) = C10_itemsB.map (·.2.1) ∧
    (C10_itemsA.map fun it => Gap.hasNL it.2.2) = (C10_itemsB.map fun it => Gap.hasNL it.2.2) := by
  decide
-- hypotheses of `C10_break_after_cannot_end` (gap after `+`, B versus D), of
-- `C10_break_before_cannot_start` (gap before `=`), of `C10_linebreak_is_separator` (gap between `2`
-- and `y`, B versus C)
example : C10_itemsB = C10_itemsB.take 3 ++ (['+'], .plus, [.newline]) :: C10_itemsB.drop 4 ∧
    C10_itemsD = C10_itemsB.take 3 ++ (['+'], .plus, []) :: C10_itemsB.drop 4 ∧
    Generated.canEnd .plus = some false := by decide
example : C10_itemsA = [] ++ (['x'], .identifier ['x'], [.blank ' ']) :: (['='], .equals, [.blank ' ']) ::
    C10_itemsA.drop 2 ∧ Generated.canStart .equals = some false := by decide
example : C10_itemsB = C10_itemsB.take 4 ++ (['2'], .integerLiteral 2, [.newline]) ::
      (['y'], .identifier ['y'], []) :: [] ∧
    C10_itemsC = C10_itemsB.take 4 ++ (['2'], .integerLiteral 2, [.blank ' ']) ::
      (['y'], .identifier ['y'], []) :: [] ∧
    Gap.hasNL [GapItem.newline] = true ∧ Gap.hasNL [GapItem.blank ' '] = false ∧
    Generated.canEnd (.integerLiteral 2) = some true ∧
    Generated.canStart (.identifier ['y']) = some true := by decide

-- the corollaries instantiated at the concrete renderings (all hypotheses hold together)
example : ∃ ts ts', tokenize C10_cc (renderText [] C10_itemsA (some ['e'])) = .ok ts ∧
    tokenize C10_cc (renderText [.newline] C10_itemsB none) = .ok ts' ∧
    ts.map (·.kind) = ts'.map (·.kind) :=
  C10_layout_irrelevant C10_cc C10_cc_sane2 _ _ _ _ _ _ C10_renderingA C10_renderingB
    (by decide) (by decide)
example : ∃ ts ts', tokenize C10_cc (renderText [.newline] C10_itemsB none) = .ok ts ∧
    tokenize C10_cc (renderText [] C10_itemsD none) = .ok ts' ∧ ts.map (·.kind) = ts'.map (·.kind) :=
  C10_break_after_cannot_end C10_cc C10_cc_sane2 [.newline] [] (C10_itemsB.take 3) (C10_itemsB.drop 4)
    ['+'] .plus [.newline] [] none none C10_renderingB C10_renderingD (by decide)
example : ∃ ts ts', tokenize C10_cc (renderText [] C10_itemsA (some ['e'])) = .ok ts ∧
    tokenize C10_cc (renderText [] C10_itemsA (some ['e'])) = .ok ts' ∧
    ts.map (·.kind) = ts'.map (·.kind) :=
  C10_break_before_cannot_start C10_cc C10_cc_sane2 [] [] [] (C10_itemsA.drop 2)
    ['x'] ['='] (.identifier ['x']) .equals [.blank ' '] [.blank ' '] [.blank ' '] (some ['e'])
    (some ['e']) C10_renderingA C10_renderingA (by decide)
example : ∃ ts ts', tokenize C10_cc (renderText [.newline] C10_itemsB none) = .ok ts ∧
    tokenize C10_cc (renderText [] C10_itemsC none) = .ok ts' ∧
    ts.map (·.kind) = [.identifier ['x'], .equals, .integerLiteral 1, .plus, .integerLiteral 2] ++
      .terminatorLineBreak :: [.identifier ['y']] ∧
    ts'.map (·.kind) = [.identifier ['x'], .equals, .integerLiteral 1, .plus, .integerLiteral 2] ++
      [.identifier ['y']] :=
  C10_linebreak_is_separator C10_cc C10_cc_sane2 [.newline] [] (C10_itemsB.take 4) []
    ['2'] ['y'] (.integerLiteral 2) (.identifier ['y']) [.newline] [.blank ' '] [] none none
    C10_renderingB C10_renderingC (by decide) (by decide) (by decide) (by decide)

