import GramModel.Lemmas.DeBruijn

/-!
# C11 — substitution and index shifting are capture-avoiding

Only statements (`C11_*_stmt`), their discharging theorems, and non-vacuity examples live here.
All statements quantify over *every* term (all term formers, groups of any length), every cutoff,
amount and index — no bound.
-/

/-- Shifting by zero is the identity. -/
def C11_shift_zero_stmt : Prop := ∀ (t : Tm) (c : Nat), sshift c 0 t = some t
theorem C11_shift_zero : C11_shift_zero_stmt := by
  intro t c
  have := sshift_ushift t c 0
  simpa [ushift_zero] using this

/-- The total unsigned shift is the signed shift with a non-negative amount (which never fails). -/
def C11_unsigned_is_signed_stmt : Prop :=
  ∀ (t : Tm) (c a : Nat), sshift c (a : Int) t = some (ushift c a t)
theorem C11_unsigned_is_signed : C11_unsigned_is_signed_stmt := sshift_ushift

/-- Shifts compose additively. -/
def C11_shift_additive_stmt : Prop :=
  ∀ (t : Tm) (c a b : Nat), ushift c a (ushift c b t) = ushift c (a + b) t
theorem C11_shift_additive : C11_shift_additive_stmt := ushift_ushift

/-- A downward shift undoes an upward one. -/
def C11_down_undoes_up_stmt : Prop :=
  ∀ (t : Tm) (c a : Nat), sshift c (-(a : Int)) (ushift c a t) = some t
theorem C11_down_undoes_up : C11_down_undoes_up_stmt := sshift_neg_ushift

/-- A downward shift fails exactly when a variable would become unbound. -/
def C11_down_fails_iff_stmt : Prop :=
  ∀ (t : Tm) (c k : Nat), t.holeFree = true →
    (sshift c (-(k : Int)) t = none ↔ ∃ j, c ≤ j ∧ j < c + k ∧ freeAt t j = true)
theorem C11_down_fails_iff : C11_down_fails_iff_stmt := by
  intro t c k hf
  rw [← lowFree_iff_freeAt t c k hf]
  have := sshift_down_isSome t c k
  cases h : sshift c (-(k : Int)) t <;> cases h2 : lowFree t c k <;> simp_all

/-- Opening a term in which the variable does not occur merely lowers the indices above it. -/
def C11_open_not_free_stmt : Prop :=
  ∀ (t : Tm) (i : Nat) (u : Tm) (s : Nat), t.holeFree = true → freeAt t i = false →
    sshift i (-1) t = some (openT t i u s)
theorem C11_open_not_free : C11_open_not_free_stmt := by
  intro t i u s hf hfree
  apply open_not_free
  cases h : lowFree t i 1 with
  | false => rfl
  | true =>
    obtain ⟨j, h1, h2, h3⟩ := (lowFree_iff_freeAt t i 1 hf).mp h
    have : j = i := by omega
    subst this
    rw [hfree] at h3; contradiction

/-- The free variables of a shifted term are exactly those predicted. -/
def C11_fv_shift_stmt : Prop :=
  ∀ (t : Tm) (c a j : Nat),
    freeAt (ushift c a t) j =
      if j < c then freeAt t j else if j < c + a then false else freeAt t (j - a)
theorem C11_fv_shift : C11_fv_shift_stmt := freeAt_ushift

/-- The free variables of an opened term are exactly those predicted: those of `t` below `i`
unchanged, those above lowered by one, and — iff `i` occurred — those of `u` raised by `s`. -/
def C11_fv_open_stmt : Prop :=
  ∀ (t : Tm) (i : Nat) (u : Tm) (s j : Nat),
    freeAt (openT t i u s) j =
      ((decide (j < i) && freeAt t j) || (decide (i ≤ j) && freeAt t (j+1))
        || (freeAt t i && decide (s ≤ j) && freeAt u (j - s)))
theorem C11_fv_open : C11_fv_open_stmt := freeAt_openT

/-- Opening right after lifting over the same index gives back the term. -/
def C11_open_lift_cancel_stmt : Prop :=
  ∀ (t : Tm) (i : Nat) (u : Tm) (s : Nat), openT (ushift i 1 t) i u s = t
theorem C11_open_lift_cancel : C11_open_lift_cancel_stmt := open_ushift_cancel

/-- The set of numbers the implementation's `free_variables` is compared against (`freeVars`) is
the predicate the theorems above speak about. -/
def C11_fv_list_stmt : Prop :=
  ∀ (t : Tm) (c j : Nat), j ∈ freeVars t c ↔ freeAt t (j + c) = true
theorem C11_fv_list : C11_fv_list_stmt := mem_freeVars

/-! ## Pending (T2): stated, not yet claimed -/

/-- The substitution lemma: opening commutes with opening. -/
def C11_open_open_unrestricted : Prop :=
  ∀ (t u v : Tm) (i j : Nat), i ≤ j →
    openT (openT t i u 0) j v 0 = openT (openT t (j+1) v 0) i (openT u j v 0) 0

/-- `C11_open_open_unrestricted` is **false as stated** (left pending, never claimed): `v` lives in the
context from which both variables have been removed, so before it is substituted for `j+1` in `t`
— where variable `i` is still bound — it must be lifted over `i`.  Counterexample: `t = var 1`,
`i = j = 0`, `u = 5`, `v = var 0`: the left side is `var 0`, the right side `5`. -/
def C11_open_open_refuted_stmt : Prop := ¬ C11_open_open_unrestricted
theorem C11_open_open_refuted : C11_open_open_refuted_stmt := by
  intro h
  have := h (.var 0 1) (.lit 5) (.var 0 0) 0 0 (Nat.le_refl _)
  revert this
  decide

/-- The substitution lemma (corrected): opening commutes with opening, the second substituted term
being lifted over the first opened variable. -/
def C11_open_open_fixed_stmt : Prop :=
  ∀ (t u v : Tm) (i j : Nat), i ≤ j →
    openT (openT t i u 0) j v 0 = openT (openT t (j+1) (ushift i 1 v) 0) i (openT u j v 0) 0
theorem C11_open_open_fixed : C11_open_open_fixed_stmt := open_open

/-- The same under `n` binders (the form the induction needs: both substituted terms are lifted by
the depth at the point of substitution). -/
def C11_open_open_depth_stmt : Prop :=
  ∀ (t u v : Tm) (i j n : Nat), i ≤ j →
    openT (openT t (i + n) u n) (j + n) v n =
      openT (openT t (j + n + 1) (ushift i 1 v) n) (i + n) (openT u j v 0) n
theorem C11_open_open_depth : C11_open_open_depth_stmt := open_open_gen

/-! ## Non-vacuity: concrete non-trivial instances of the hypotheses -/

-- a two-definition group with a variable pointing outside it: shifting down by 1 at cutoff 0 fails
-- exactly because variable 0 (index 2 inside the group) is free
def C11_ex1 : Tm := .letg (.cons 0 .int (.var 1 2) (.cons 1 .int (.var 0 1) .nil)) (.var 0 0)
example : C11_ex1.holeFree = true ∧ sshift 0 (-1) C11_ex1 = none ∧ freeAt C11_ex1 0 = true := by
  decide

-- and succeeds, agreeing with `openT`, when the outside variable is 1
def C11_ex2 : Tm := .letg (.cons 0 .int (.var 1 3) (.cons 1 .int (.var 0 1) .nil)) (.var 0 0)
example : C11_ex2.holeFree = true ∧ freeAt C11_ex2 0 = false ∧
    sshift 0 (-1) C11_ex2 = some (openT C11_ex2 0 (.lit 5) 0) := by decide

/-! ## More of the substitution theory (T2) -/

/-- Lifting commutes with lifting at a lower cutoff. -/
def C11_ushift_comm_stmt : Prop :=
  ∀ (t : Tm) (c d a b : Nat), c ≤ d →
    ushift c a (ushift d b t) = ushift (d + a) b (ushift c a t)
theorem C11_ushift_comm : C11_ushift_comm_stmt := ushift_comm

/-- Opening commutes with lifting above the opened index. -/
def C11_open_ushift_comm_unrestricted : Prop :=
  ∀ (t u : Tm) (i c a s : Nat), i ≤ c →
    ushift c a (openT t i u s) = openT (ushift (c + 1) a t) i (ushift (c - s) a u) s

/-- `C11_open_ushift_comm_unrestricted` is **false as stated** (left pending, never claimed), because of
holes: an unresolved hole with shift `k = i = c` is lifted by `ushift c` but not by `ushift (c+1)`,
and `openT` leaves it alone.  Counterexample: `t = hole 0 0`, `i = c = s = 0`, `a = 1`: the left
side is `hole 0 1`, the right side `hole 0 0`. -/
def C11_open_ushift_comm_refuted_stmt : Prop := ¬ C11_open_ushift_comm_unrestricted
theorem C11_open_ushift_comm_refuted : C11_open_ushift_comm_refuted_stmt := by
  intro h
  have := h (.hole 0 0) (.lit 5) 0 0 1 0 (Nat.le_refl _)
  revert this
  decide

/-- Opening commutes with lifting above the opened index (corrected: `t` hole-free — the domain of
C11; `u` is arbitrary). -/
def C11_open_ushift_comm_fixed_stmt : Prop :=
  ∀ (t u : Tm) (i c a s : Nat), t.holeFree = true → i ≤ c →
    ushift c a (openT t i u s) = openT (ushift (c + 1) a t) i (ushift (c - s) a u) s
theorem C11_open_ushift_comm_fixed : C11_open_ushift_comm_fixed_stmt := open_ushift_high

/-- Opening commutes with lifting below the opened index (every term, holes included). -/
def C11_open_ushift_low_stmt : Prop :=
  ∀ (t u : Tm) (i c a s : Nat), c ≤ i → c ≤ s →
    ushift c a (openT t i u s) = openT (ushift c a t) (i + a) u (s + a)
theorem C11_open_ushift_low : C11_open_ushift_low_stmt := open_ushift_low

/-- Two lifts whose ranges touch merge into one. -/
def C11_ushift_merge_stmt : Prop :=
  ∀ (t : Tm) (c d a b : Nat), d ≤ c → c ≤ d + b → ushift c a (ushift d b t) = ushift d (a + b) t
theorem C11_ushift_merge : C11_ushift_merge_stmt := ushift_ushift_mid
