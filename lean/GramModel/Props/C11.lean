import GramModel.Lemmas.ArmsTie
import GramModel.Lemmas.DeBruijn
import GramModel.Lemmas.Named
import GramModel.Lemmas.StoreTransparent

/-!
# C11 — substitution and index shifting are capture-avoiding

Only statements (`C11_*_stmt`), their discharging theorems, and non-vacuity examples live here.
All statements quantify over *every* term (all term formers, groups of any length), every cutoff,
amount and index — no bound.
-/

/-- Shifting by zero is the identity. -/
def C11_shift_zero_stmt : Prop := ∀ (t : Tm) (c : Nat), sshift c 0 t = some t
theorem C11_shift_zero : C11_shift_zero_stmt := by
  intro t c
  have := sshift_ushift t c 0
  simpa [ushift_zero] using this

/-- The total unsigned shift is the signed shift with a non-negative amount (which never fails). -/
def C11_unsigned_is_signed_stmt : Prop :=
  ∀ (t : Tm) (c a : Nat), sshift c (a : Int) t = some (ushift c a t)
theorem C11_unsigned_is_signed : C11_unsigned_is_signed_stmt := sshift_ushift

/-- Shifts compose additively. -/
def C11_shift_additive_stmt : Prop :=
  ∀ (t : Tm) (c a b : Nat), ushift c a (ushift c b t) = ushift c (a + b) t
theorem C11_shift_additive : C11_shift_additive_stmt := ushift_ushift

/-- A downward shift undoes an upward one. -/
def C11_down_undoes_up_stmt : Prop :=
  ∀ (t : Tm) (c a : Nat), sshift c (-(a : Int)) (ushift c a t) = some t
theorem C11_down_undoes_up : C11_down_undoes_up_stmt := sshift_neg_ushift

/-- A downward shift fails exactly when a variable would become unbound. -/
def C11_down_fails_iff_stmt : Prop :=
  ∀ (t : Tm) (c k : Nat), t.holeFree = true →
    (sshift c (-(k : Int)) t = none ↔ ∃ j, c ≤ j ∧ j < c + k ∧ freeAt t j = true)
theorem C11_down_fails_iff : C11_down_fails_iff_stmt := by
  intro t c k hf
  rw [← lowFree_iff_freeAt t c k hf]
  have := sshift_down_isSome t c k
  cases h : sshift c (-(k : Int)) t <;> cases h2 : lowFree t c k <;> simp_all

/-- Opening a term in which the variable does not occur merely lowers the indices above it. -/
def C11_open_not_free_stmt : Prop :=
  ∀ (t : Tm) (i : Nat) (u : Tm) (s : Nat), t.holeFree = true → freeAt t i = false →
    sshift i (-1) t = some (openT t i u s)
theorem C11_open_not_free : C11_open_not_free_stmt := by
  intro t i u s hf hfree
  apply open_not_free
  cases h : lowFree t i 1 with
  | false => rfl
  | true =>
    obtain ⟨j, h1, h2, h3⟩ := (lowFree_iff_freeAt t i 1 hf).mp h
    have : j = i := by omega
    subst this
    rw [hfree] at h3; contradiction

/-- The free variables of a shifted term are exactly those predicted. -/
def C11_fv_shift_stmt : Prop :=
  ∀ (t : Tm) (c a j : Nat),
    freeAt (ushift c a t) j =
      if j < c then freeAt t j else if j < c + a then false else freeAt t (j - a)
theorem C11_fv_shift : C11_fv_shift_stmt := freeAt_ushift

/-- The free variables of an opened term are exactly those predicted: those of `t` below `i`
unchanged, those above lowered by one, and — iff `i` occurred — those of `u` raised by `s`. -/
def C11_fv_open_stmt : Prop :=
  ∀ (t : Tm) (i : Nat) (u : Tm) (s j : Nat),
    freeAt (openT t i u s) j =
      ((decide (j < i) && freeAt t j) || (decide (i ≤ j) && freeAt t (j+1))
        || (freeAt t i && decide (s ≤ j) && freeAt u (j - s)))
theorem C11_fv_open : C11_fv_open_stmt := freeAt_openT

/-- Opening right after lifting over the same index gives back the term. -/
def C11_open_lift_cancel_stmt : Prop :=
  ∀ (t : Tm) (i : Nat) (u : Tm) (s : Nat), openT (ushift i 1 t) i u s = t
theorem C11_open_lift_cancel : C11_open_lift_cancel_stmt := open_ushift_cancel

/-- The set of numbers the implementation's `free_variables` is compared against (`freeVars`) is
the predicate the theorems above speak about. -/
def C11_fv_list_stmt : Prop :=
  ∀ (t : Tm) (c j : Nat), j ∈ freeVars t c ↔ freeAt t (j + c) = true
theorem C11_fv_list : C11_fv_list_stmt := mem_freeVars

/-! ## Further laws (second tier) -/

/-- The substitution lemma: opening commutes with opening. -/
def C11_open_open_unrestricted : Prop :=
  ∀ (t u v : Tm) (i j : Nat), i ≤ j →
    openT (openT t i u 0) j v 0 = openT (openT t (j+1) v 0) i (openT u j v 0) 0

/-- `C11_open_open_unrestricted` is **false as stated** (left pending, never claimed): `v` lives in the
context from which both variables have been removed, so before it is substituted for `j+1` in `t`
— where variable `i` is still bound — it must be lifted over `i`.  Counterexample: `t = var 1`,
`i = j = 0`, `u = 5`, `v = var 0`: the left side is `var 0`, the right side `5`. -/
def C11_open_open_refuted_stmt : Prop := ¬ C11_open_open_unrestricted
theorem C11_open_open_refuted : C11_open_open_refuted_stmt := by
  intro h
  have := h (.var 0 1) (.lit 5) (.var 0 0) 0 0 (Nat.le_refl _)
  revert this
  decide

/-- The substitution lemma (corrected): opening commutes with opening, the second substituted term
being lifted over the first opened variable. -/
def C11_open_open_fixed_stmt : Prop :=
  ∀ (t u v : Tm) (i j : Nat), i ≤ j →
    openT (openT t i u 0) j v 0 = openT (openT t (j+1) (ushift i 1 v) 0) i (openT u j v 0) 0
theorem C11_open_open_fixed : C11_open_open_fixed_stmt := open_open

/-- The same under `n` binders (the form the induction needs: both substituted terms are lifted by
the depth at the point of substitution). -/
def C11_open_open_depth_stmt : Prop :=
  ∀ (t u v : Tm) (i j n : Nat), i ≤ j →
    openT (openT t (i + n) u n) (j + n) v n =
      openT (openT t (j + n + 1) (ushift i 1 v) n) (i + n) (openT u j v 0) n
theorem C11_open_open_depth : C11_open_open_depth_stmt := open_open_gen

/-! ## Non-vacuity: concrete non-trivial instances of the hypotheses -/

-- a two-definition group with a variable pointing outside it: shifting down by 1 at cutoff 0 fails
-- exactly because variable 0 (index 2 inside the group) is free
def C11_ex1 : Tm := .letg (.cons 0 .int (.var 1 2) (.cons 1 .int (.var 0 1) .nil)) (.var 0 0)
example : C11_ex1.holeFree = true ∧ sshift 0 (-1) C11_ex1 = none ∧ freeAt C11_ex1 0 = true := by
  decide

-- and succeeds, agreeing with `openT`, when the outside variable is 1
def C11_ex2 : Tm := .letg (.cons 0 .int (.var 1 3) (.cons 1 .int (.var 0 1) .nil)) (.var 0 0)
example : C11_ex2.holeFree = true ∧ freeAt C11_ex2 0 = false ∧
    sshift 0 (-1) C11_ex2 = some (openT C11_ex2 0 (.lit 5) 0) := by decide

/-! ## More of the substitution theory (T2) -/

/-- Lifting commutes with lifting at a lower cutoff. -/
def C11_ushift_comm_stmt : Prop :=
  ∀ (t : Tm) (c d a b : Nat), c ≤ d →
    ushift c a (ushift d b t) = ushift (d + a) b (ushift c a t)
theorem C11_ushift_comm : C11_ushift_comm_stmt := ushift_comm

/-- Opening commutes with lifting above the opened index. -/
def C11_open_ushift_comm_unrestricted : Prop :=
  ∀ (t u : Tm) (i c a s : Nat), i ≤ c →
    ushift c a (openT t i u s) = openT (ushift (c + 1) a t) i (ushift (c - s) a u) s

/-- `C11_open_ushift_comm_unrestricted` is **false as stated** (left pending, never claimed), because of
holes: an unresolved hole with shift `k = i = c` is lifted by `ushift c` but not by `ushift (c+1)`,
and `openT` leaves it alone.  Counterexample: `t = hole 0 0`, `i = c = s = 0`, `a = 1`: the left
side is `hole 0 1`, the right side `hole 0 0`. -/
def C11_open_ushift_comm_refuted_stmt : Prop := ¬ C11_open_ushift_comm_unrestricted
theorem C11_open_ushift_comm_refuted : C11_open_ushift_comm_refuted_stmt := by
  intro h
  have := h (.hole 0 0) (.lit 5) 0 0 1 0 (Nat.le_refl _)
  revert this
  decide

/-- Opening commutes with lifting above the opened index (corrected: `t` hole-free — the domain of
C11; `u` is arbitrary). -/
def C11_open_ushift_comm_fixed_stmt : Prop :=
  ∀ (t u : Tm) (i c a s : Nat), t.holeFree = true → i ≤ c →
    ushift c a (openT t i u s) = openT (ushift (c + 1) a t) i (ushift (c - s) a u) s
theorem C11_open_ushift_comm_fixed : C11_open_ushift_comm_fixed_stmt := open_ushift_high

/-- Opening commutes with lifting below the opened index (every term, holes included). -/
def C11_open_ushift_low_stmt : Prop :=
  ∀ (t u : Tm) (i c a s : Nat), c ≤ i → c ≤ s →
    ushift c a (openT t i u s) = openT (ushift c a t) (i + a) u (s + a)
theorem C11_open_ushift_low : C11_open_ushift_low_stmt := open_ushift_low

/-- Two lifts whose ranges touch merge into one. -/
def C11_ushift_merge_stmt : Prop :=
  ∀ (t : Tm) (c d a b : Nat), d ≤ c → c ≤ d + b → ushift c a (ushift d b t) = ushift d (a + b) t
theorem C11_ushift_merge : C11_ushift_merge_stmt := ushift_ushift_mid

/-! ## Opening agrees with capture-avoiding substitution on named terms -/

/-- Named terms (the group-free fragment: variables by name, binders `x => b`, `(x : d) -> c`, application,
arithmetic, conditionals, constants). -/
inductive NTm : Type
  | var (x : Name)
  | lam (x : Name) (d b : NTm)
  | pi (x : Name) (d c : NTm)
  | app (f a : NTm)
  | neg (a : NTm)
  | bin (op : BinOp) (a b : NTm)
  | ite (c a b : NTm)
  | lit (n : Int)
  | tt | ff | type | int | bool

/-- translation to de Bruijn terms under the stack of enclosing binder names (innermost first): a variable
becomes the position of the nearest binder of its name; an unbound name has no translation -/
def NTm.toDB (Γ : List Name) : NTm → Option Tm
  | .var x => (Γ.idxOf? x).map (Tm.var x)
  | .lam x d b =>
      match d.toDB Γ, b.toDB (x :: Γ) with
      | some d', some b' => some (.lam x false d' b')
      | _, _ => none
  | .pi x d c =>
      match d.toDB Γ, c.toDB (x :: Γ) with
      | some d', some c' => some (.pi x false d' c')
      | _, _ => none
  | .app f a =>
      match f.toDB Γ, a.toDB Γ with
      | some f', some a' => some (.app f' a')
      | _, _ => none
  | .neg a =>
      match a.toDB Γ with
      | some a' => some (.neg a')
      | none => none
  | .bin op a b =>
      match a.toDB Γ, b.toDB Γ with
      | some a', some b' => some (.bin op a' b')
      | _, _ => none
  | .ite c a b =>
      match c.toDB Γ, a.toDB Γ, b.toDB Γ with
      | some c', some a', some b' => some (.ite c' a' b')
      | _, _, _ => none
  | .lit n => some (.lit n)
  | .tt => some .tt
  | .ff => some .ff
  | .type => some .type
  | .int => some .int
  | .bool => some .bool

/-- names bound somewhere in the term -/
def NTm.binders : NTm → List Name
  | .lam x d b => x :: (d.binders ++ b.binders)
  | .pi x d b => x :: (d.binders ++ b.binders)
  | .app f a => f.binders ++ a.binders
  | .neg a => a.binders
  | .bin _ a b => a.binders ++ b.binders
  | .ite c a b => c.binders ++ a.binders ++ b.binders
  | _ => []

/-- names occurring free -/
def NTm.free : NTm → List Name
  | .var x => [x]
  | .lam x d b => d.free ++ (b.free.filter (· ≠ x))
  | .pi x d b => d.free ++ (b.free.filter (· ≠ x))
  | .app f a => f.free ++ a.free
  | .neg a => a.free
  | .bin _ a b => a.free ++ b.free
  | .ite c a b => c.free ++ a.free ++ b.free
  | _ => []

/-- substitution of `u` for the free occurrences of `x`; it is capture avoiding whenever no binder of the term
binds `x` or a free name of `u` — gram's own discipline (re-binding a name in scope is an error) -/
def NTm.subst (x : Name) (u : NTm) : NTm → NTm
  | .var y => if y = x then u else .var y
  | .lam y d b => .lam y (NTm.subst x u d) (let b' := NTm.subst x u b; if y = x then b else b')
  | .pi y d c => .pi y (NTm.subst x u d) (let c' := NTm.subst x u c; if y = x then c else c')
  | .app f a => .app (NTm.subst x u f) (NTm.subst x u a)
  | .neg a => .neg (NTm.subst x u a)
  | .bin op a b => .bin op (NTm.subst x u a) (NTm.subst x u b)
  | .ite c a b => .ite (NTm.subst x u c) (NTm.subst x u a) (NTm.subst x u b)
  | .lit n => .lit n
  | .tt => .tt
  | .ff => .ff
  | .type => .type
  | .int => .int
  | .bool => .bool

/-! ### Lemmas about the named calculus (general forms; list facts in `Lemmas/Named.lean`) -/
namespace NamedLemmas

/-- **Weakening, general form**: inserting the names `Δ` at depth `Γ₁.length` shifts the translation by `Δ.length`
at cutoff `Γ₁.length`, provided no free name of `t` that is not already captured by `Γ₁` is among the inserted names.
Nothing is asked of the binders of `t`. -/
theorem toDB_insert (t : NTm) : ∀ (Γ₁ Δ Γ₂ : List Name) (t' : Tm),
    (∀ y ∈ t.free, y ∉ Γ₁ → y ∉ Δ) → t.toDB (Γ₁ ++ Γ₂) = some t' →
    t.toDB (Γ₁ ++ (Δ ++ Γ₂)) = some (ushift Γ₁.length Δ.length t') := by
  induction t with
  | var x =>
    intro Γ₁ Δ Γ₂ t' hf h
    simp only [NTm.toDB] at h ⊢
    cases hi : (Γ₁ ++ Γ₂).idxOf? x with
    | none => rw [hi] at h; simp at h
    | some i =>
      rw [hi] at h; simp only [Option.map_some, Option.some.injEq] at h; subst h
      rw [idxOf?_insert x Γ₁ Δ Γ₂ i (hf x (by simp [NTm.free])) hi]
      simp only [Option.map_some, ushift]
      split <;> rfl
  | lam x d b ihd ihb =>
    intro Γ₁ Δ Γ₂ t' hf h
    simp only [NTm.toDB] at h ⊢
    split at h
    · rename_i d' b' hd hb
      simp only [Option.some.injEq] at h; subst h
      have hfd : ∀ y ∈ d.free, y ∉ Γ₁ → y ∉ Δ := fun y hy => hf y (by simp [NTm.free, hy])
      have hfb : ∀ y ∈ b.free, y ∉ (x :: Γ₁) → y ∉ Δ := fun y hy hn =>
        hf y (by simp only [NTm.free, List.mem_append, List.mem_filter]
                 exact Or.inr ⟨hy, by simpa using fun e => hn (by simp [e])⟩)
          (fun e => hn (by simp [e]))
      have h2 := ihb (x :: Γ₁) Δ Γ₂ b' hfb hb
      simp only [List.cons_append, List.length_cons] at h2
      rw [ihd Γ₁ Δ Γ₂ d' hfd hd, h2]
      simp [ushift]
    · cases h
  | pi x d b ihd ihb =>
    intro Γ₁ Δ Γ₂ t' hf h
    simp only [NTm.toDB] at h ⊢
    split at h
    · rename_i d' b' hd hb
      simp only [Option.some.injEq] at h; subst h
      have hfd : ∀ y ∈ d.free, y ∉ Γ₁ → y ∉ Δ := fun y hy => hf y (by simp [NTm.free, hy])
      have hfb : ∀ y ∈ b.free, y ∉ (x :: Γ₁) → y ∉ Δ := fun y hy hn =>
        hf y (by simp only [NTm.free, List.mem_append, List.mem_filter]
                 exact Or.inr ⟨hy, by simpa using fun e => hn (by simp [e])⟩)
          (fun e => hn (by simp [e]))
      have h2 := ihb (x :: Γ₁) Δ Γ₂ b' hfb hb
      simp only [List.cons_append, List.length_cons] at h2
      rw [ihd Γ₁ Δ Γ₂ d' hfd hd, h2]
      simp [ushift]
    · cases h
  | app f a ihf iha =>
    intro Γ₁ Δ Γ₂ t' hf h
    simp only [NTm.toDB] at h ⊢
    split at h
    · rename_i f' a' h1 h2
      simp only [Option.some.injEq] at h; subst h
      rw [ihf Γ₁ Δ Γ₂ f' (fun y hy => hf y (by simp [NTm.free, hy])) h1,
        iha Γ₁ Δ Γ₂ a' (fun y hy => hf y (by simp [NTm.free, hy])) h2]
      simp [ushift]
    · cases h
  | neg a iha =>
    intro Γ₁ Δ Γ₂ t' hf h
    simp only [NTm.toDB] at h ⊢
    split at h
    · rename_i a' h1
      simp only [Option.some.injEq] at h; subst h
      rw [iha Γ₁ Δ Γ₂ a' (fun y hy => hf y (by simp [NTm.free, hy])) h1]
      simp [ushift]
    · cases h
  | bin op a b iha ihb =>
    intro Γ₁ Δ Γ₂ t' hf h
    simp only [NTm.toDB] at h ⊢
    split at h
    · rename_i a' b' h1 h2
      simp only [Option.some.injEq] at h; subst h
      rw [iha Γ₁ Δ Γ₂ a' (fun y hy => hf y (by simp [NTm.free, hy])) h1,
        ihb Γ₁ Δ Γ₂ b' (fun y hy => hf y (by simp [NTm.free, hy])) h2]
      simp [ushift]
    · cases h
  | ite c a b ihc iha ihb =>
    intro Γ₁ Δ Γ₂ t' hf h
    simp only [NTm.toDB] at h ⊢
    split at h
    · rename_i c' a' b' h0 h1 h2
      simp only [Option.some.injEq] at h; subst h
      rw [ihc Γ₁ Δ Γ₂ c' (fun y hy => hf y (by simp [NTm.free, hy])) h0,
        iha Γ₁ Δ Γ₂ a' (fun y hy => hf y (by simp [NTm.free, hy])) h1,
        ihb Γ₁ Δ Γ₂ b' (fun y hy => hf y (by simp [NTm.free, hy])) h2]
      simp [ushift]
    · cases h
  | lit n => intro Γ₁ Δ Γ₂ t' _ h; simp only [NTm.toDB, Option.some.injEq] at h ⊢; subst h; simp [ushift]
  | tt => intro Γ₁ Δ Γ₂ t' _ h; simp only [NTm.toDB, Option.some.injEq] at h ⊢; subst h; simp [ushift]
  | ff => intro Γ₁ Δ Γ₂ t' _ h; simp only [NTm.toDB, Option.some.injEq] at h ⊢; subst h; simp [ushift]
  | type => intro Γ₁ Δ Γ₂ t' _ h; simp only [NTm.toDB, Option.some.injEq] at h ⊢; subst h; simp [ushift]
  | int => intro Γ₁ Δ Γ₂ t' _ h; simp only [NTm.toDB, Option.some.injEq] at h ⊢; subst h; simp [ushift]
  | bool => intro Γ₁ Δ Γ₂ t' _ h; simp only [NTm.toDB, Option.some.injEq] at h ⊢; subst h; simp [ushift]

/-- **Substitution at depth**: `b` lives under the binders `Γ₁` crossed so far (none of them `x`, none free in `u`),
then `x`, then `Γ`; `u` lives in `Γ`; no binder of `b` re-binds `x` or a free name of `u`.  Translating the
substituted term under `Γ₁ ++ Γ` is opening the translation at index `Γ₁.length`, the inserted term lifted by
`Γ₁.length`.  Distinctness of the names of `Γ`, of the binders of `b`, and freshness of the binders with respect to
`Γ` are not needed; nothing is asked of the binders of `u`. -/
theorem toDB_subst (x : Name) (u : NTm) (u' : Tm) (Γ : List Name) (hu : u.toDB Γ = some u') (b : NTm) :
    ∀ (Γ₁ : List Name) (b' : Tm), x ∉ Γ₁ → (∀ y ∈ Γ₁, y ∉ u.free) →
      (∀ y ∈ b.binders, y ≠ x ∧ y ∉ u.free) → b.toDB (Γ₁ ++ x :: Γ) = some b' →
      (NTm.subst x u b).toDB (Γ₁ ++ Γ) = some (openT b' Γ₁.length u' Γ₁.length) := by
  induction b with
  | var y =>
    intro Γ₁ b' hx hΓ₁ _ h
    simp only [NTm.toDB] at h
    by_cases e : y = x
    · subst e
      rw [idxOf?_middle y Γ₁ Γ hx] at h
      simp only [Option.map_some, Option.some.injEq] at h; subst h
      have := toDB_insert u [] Γ₁ Γ u' (fun z hz _ hz' => hΓ₁ z hz' hz) hu
      simp only [NTm.subst, if_true, openT]
      simpa using this
    · cases hj : (Γ₁ ++ x :: Γ).idxOf? y with
      | none => rw [hj] at h; simp at h
      | some j =>
        rw [hj] at h; simp only [Option.map_some, Option.some.injEq] at h; subst h
        obtain ⟨hne, h2⟩ := idxOf?_remove x y Γ₁ Γ j e hj
        simp only [NTm.subst, e, if_false, NTm.toDB, h2, Option.map_some, openT, hne]
        split <;> rfl
  | lam y d b ihd ihb =>
    intro Γ₁ t' hx hΓ₁ hb h
    simp only [NTm.toDB] at h
    split at h
    · rename_i d' b' hd hb'
      simp only [Option.some.injEq] at h; subst h
      have hy := hb y (by simp [NTm.binders])
      have h1 := ihd Γ₁ d' hx hΓ₁ (fun z hz => hb z (by simp [NTm.binders, hz])) hd
      have h2 := ihb (y :: Γ₁) b' (by simpa using ⟨fun e => hy.1 e.symm, hx⟩)
        (by intro z hz; rcases List.mem_cons.mp hz with e | hz
            · subst e; exact hy.2
            · exact hΓ₁ z hz)
        (fun z hz => hb z (by simp [NTm.binders, hz])) hb'
      simp only [List.cons_append, List.length_cons] at h2
      simp only [NTm.subst, hy.1, if_false, NTm.toDB, h1, h2, openT]
    · cases h
  | pi y d b ihd ihb =>
    intro Γ₁ t' hx hΓ₁ hb h
    simp only [NTm.toDB] at h
    split at h
    · rename_i d' b' hd hb'
      simp only [Option.some.injEq] at h; subst h
      have hy := hb y (by simp [NTm.binders])
      have h1 := ihd Γ₁ d' hx hΓ₁ (fun z hz => hb z (by simp [NTm.binders, hz])) hd
      have h2 := ihb (y :: Γ₁) b' (by simpa using ⟨fun e => hy.1 e.symm, hx⟩)
        (by intro z hz; rcases List.mem_cons.mp hz with e | hz
            · subst e; exact hy.2
            · exact hΓ₁ z hz)
        (fun z hz => hb z (by simp [NTm.binders, hz])) hb'
      simp only [List.cons_append, List.length_cons] at h2
      simp only [NTm.subst, hy.1, if_false, NTm.toDB, h1, h2, openT]
    · cases h
  | app f a ihf iha =>
    intro Γ₁ t' hx hΓ₁ hb h
    simp only [NTm.toDB] at h
    split at h
    · rename_i f' a' h1 h2
      simp only [Option.some.injEq] at h; subst h
      simp only [NTm.subst, NTm.toDB, openT,
        ihf Γ₁ f' hx hΓ₁ (fun z hz => hb z (by simp [NTm.binders, hz])) h1,
        iha Γ₁ a' hx hΓ₁ (fun z hz => hb z (by simp [NTm.binders, hz])) h2]
    · cases h
  | neg a iha =>
    intro Γ₁ t' hx hΓ₁ hb h
    simp only [NTm.toDB] at h
    split at h
    · rename_i a' h1
      simp only [Option.some.injEq] at h; subst h
      simp only [NTm.subst, NTm.toDB, openT,
        iha Γ₁ a' hx hΓ₁ (fun z hz => hb z (by simp [NTm.binders, hz])) h1]
    · cases h
  | bin op a b iha ihb =>
    intro Γ₁ t' hx hΓ₁ hb h
    simp only [NTm.toDB] at h
    split at h
    · rename_i a' b' h1 h2
      simp only [Option.some.injEq] at h; subst h
      simp only [NTm.subst, NTm.toDB, openT,
        iha Γ₁ a' hx hΓ₁ (fun z hz => hb z (by simp [NTm.binders, hz])) h1,
        ihb Γ₁ b' hx hΓ₁ (fun z hz => hb z (by simp [NTm.binders, hz])) h2]
    · cases h
  | ite c a b ihc iha ihb =>
    intro Γ₁ t' hx hΓ₁ hb h
    simp only [NTm.toDB] at h
    split at h
    · rename_i c' a' b' h0 h1 h2
      simp only [Option.some.injEq] at h; subst h
      simp only [NTm.subst, NTm.toDB, openT,
        ihc Γ₁ c' hx hΓ₁ (fun z hz => hb z (by simp [NTm.binders, hz])) h0,
        iha Γ₁ a' hx hΓ₁ (fun z hz => hb z (by simp [NTm.binders, hz])) h1,
        ihb Γ₁ b' hx hΓ₁ (fun z hz => hb z (by simp [NTm.binders, hz])) h2]
    · cases h
  | lit n => intro Γ₁ t' _ _ _ h; simp only [NTm.toDB, Option.some.injEq] at h; subst h; simp [NTm.subst, NTm.toDB, openT]
  | tt => intro Γ₁ t' _ _ _ h; simp only [NTm.toDB, Option.some.injEq] at h; subst h; simp [NTm.subst, NTm.toDB, openT]
  | ff => intro Γ₁ t' _ _ _ h; simp only [NTm.toDB, Option.some.injEq] at h; subst h; simp [NTm.subst, NTm.toDB, openT]
  | type => intro Γ₁ t' _ _ _ h; simp only [NTm.toDB, Option.some.injEq] at h; subst h; simp [NTm.subst, NTm.toDB, openT]
  | int => intro Γ₁ t' _ _ _ h; simp only [NTm.toDB, Option.some.injEq] at h; subst h; simp [NTm.subst, NTm.toDB, openT]
  | bool => intro Γ₁ t' _ _ _ h; simp only [NTm.toDB, Option.some.injEq] at h; subst h; simp [NTm.subst, NTm.toDB, openT]

end NamedLemmas

/-- **`open` is capture-avoiding substitution.**  Let `b` be a named term in the scope of binders `x :: Γ`
(names pairwise distinct, as gram demands) and `u` a term in the scope of `Γ`, no binder inside `b` re-binding
`x`, a name of `Γ` or a free name of `u`.  Then translating the substituted term is opening the translation:
`toDB Γ (b[u/x]) = open (toDB (x :: Γ) b) 0 (toDB Γ u) 0`. -/
def C11_open_is_named_substitution_stmt : Prop :=
  ∀ (Γ : List Name) (x : Name) (b u : NTm) (b' u' : Tm),
    (x :: Γ).Nodup → (∀ y ∈ b.binders, y ≠ x ∧ y ∉ Γ ∧ y ∉ u.free) → b.binders.Nodup →
    b.toDB (x :: Γ) = some b' → u.toDB Γ = some u' →
    (NTm.subst x u b).toDB Γ = some (openT b' 0 u' 0)
theorem C11_open_is_named_substitution : C11_open_is_named_substitution_stmt := by
  intro Γ x b u b' u' _ hb _ hb' hu
  exact NamedLemmas.toDB_subst x u u' Γ hu b [] b' (by simp) (by simp)
    (fun y hy => ⟨(hb y hy).1, (hb y hy).2.2⟩) hb'

/-- **Shifting is weakening**: translating a term under one more enclosing binder (a fresh name, inserted at
depth `c`) is shifting the translation by one at cutoff `c`. -/
def C11_shift_is_named_weakening_stmt : Prop :=
  ∀ (Γ₁ Γ₂ : List Name) (z : Name) (t : NTm) (t' : Tm),
    z ∉ Γ₁ → z ∉ t.free → z ∉ t.binders →
    t.toDB (Γ₁ ++ Γ₂) = some t' → t.toDB (Γ₁ ++ z :: Γ₂) = some (ushift Γ₁.length 1 t')
theorem C11_shift_is_named_weakening : C11_shift_is_named_weakening_stmt := by
  intro Γ₁ Γ₂ z t t' _ hz _ h
  exact NamedLemmas.toDB_insert t Γ₁ [z] Γ₂ t'
    (fun y hy _ hy' => hz (by rw [List.mem_singleton] at hy'; exact hy' ▸ hy)) h

/-! ### Non-vacuity of the two named-calculus theorems (names: `x = 0`, `y = 1`, `z = 2`, `w = 3`) -/

-- `(y => x + y)[z 1 / x]` under `Γ = [z]`: every hypothesis of `C11_open_is_named_substitution` holds, both
-- translations exist, and both sides are `y => z 1 + y` with `z` at index 1 under the binder
def C11_ex3_b : NTm := .lam 1 .int (.bin .sum (.var 0) (.var 1))
def C11_ex3_u : NTm := .app (.var 2) (.lit 1)
example :
    (0 :: [2]).Nodup ∧ (∀ y ∈ C11_ex3_b.binders, y ≠ 0 ∧ y ∉ [2] ∧ y ∉ C11_ex3_u.free) ∧
    C11_ex3_b.binders.Nodup ∧
    C11_ex3_b.toDB [0, 2] = some (.lam 1 false .int (.bin .sum (.var 0 1) (.var 1 0))) ∧
    C11_ex3_u.toDB [2] = some (.app (.var 2 0) (.lit 1)) ∧
    (NTm.subst 0 C11_ex3_u C11_ex3_b).toDB [2] =
      some (.lam 1 false .int (.bin .sum (.app (.var 2 1) (.lit 1)) (.var 1 0))) ∧
    openT (.lam 1 false .int (.bin .sum (.var 0 1) (.var 1 0))) 0 (.app (.var 2 0) (.lit 1)) 0 =
      .lam 1 false .int (.bin .sum (.app (.var 2 1) (.lit 1)) (.var 1 0)) := by decide

-- under two binders, the substituted term having a binder of its own whose name (`y`) is also a binder of `b`
-- (harmless: nothing is asked of the binders of `u`): `(y => (w : y) -> x w z)[(y => z y) / x]` under `Γ = [z]`;
-- the inserted copy is lifted by 2 (its `z` is index 3 under its own binder), the outer `z` drops from 3 to 2
def C11_ex4_b : NTm := .lam 1 .int (.pi 3 (.var 1) (.app (.app (.var 0) (.var 3)) (.var 2)))
def C11_ex4_u : NTm := .lam 1 .int (.app (.var 2) (.var 1))
example :
    (0 :: [2]).Nodup ∧ (∀ y ∈ C11_ex4_b.binders, y ≠ 0 ∧ y ∉ [2] ∧ y ∉ C11_ex4_u.free) ∧
    C11_ex4_b.binders.Nodup ∧
    C11_ex4_b.toDB [0, 2] =
      some (.lam 1 false .int (.pi 3 false (.var 1 0) (.app (.app (.var 0 2) (.var 3 0)) (.var 2 3)))) ∧
    C11_ex4_u.toDB [2] = some (.lam 1 false .int (.app (.var 2 1) (.var 1 0))) ∧
    (NTm.subst 0 C11_ex4_u C11_ex4_b).toDB [2] =
      some (.lam 1 false .int (.pi 3 false (.var 1 0)
        (.app (.app (.lam 1 false .int (.app (.var 2 3) (.var 1 0))) (.var 3 0)) (.var 2 2)))) ∧
    openT (.lam 1 false .int (.pi 3 false (.var 1 0) (.app (.app (.var 0 2) (.var 3 0)) (.var 2 3)))) 0
        (.lam 1 false .int (.app (.var 2 1) (.var 1 0))) 0 =
      .lam 1 false .int (.pi 3 false (.var 1 0)
        (.app (.app (.lam 1 false .int (.app (.var 2 3) (.var 1 0))) (.var 3 0)) (.var 2 2))) := by decide

-- weakening: `y => y + w` under `[x, w]`, the fresh name `z` inserted at depth 1: `w` moves from index 2 to 3
def C11_ex5 : NTm := .lam 1 .int (.bin .sum (.var 1) (.var 3))
example :
    (2 : Name) ∉ [0] ∧ 2 ∉ C11_ex5.free ∧ 2 ∉ C11_ex5.binders ∧
    C11_ex5.toDB ([0] ++ [3]) = some (.lam 1 false .int (.bin .sum (.var 1 0) (.var 3 2))) ∧
    C11_ex5.toDB ([0] ++ 2 :: [3]) = some (.lam 1 false .int (.bin .sum (.var 1 0) (.var 3 3))) ∧
    ushift 1 1 (.lam 1 false .int (.bin .sum (.var 1 0) (.var 3 2))) =
      .lam 1 false .int (.bin .sum (.var 1 0) (.var 3 3)) := by decide

-- why the side conditions on the binders of `b` are there: with a binder of `b` named like a free name of `u`
-- (`y => x` and `u = y`, `Γ = [y]`) naive substitution captures — the two sides differ
example :
    (NTm.subst 0 (.var 1) (.lam 1 .int (.var 0))).toDB [1] = some (.lam 1 false .int (.var 1 0)) ∧
    openT (.lam 1 false .int (.var 0 1)) 0 (.var 1 0) 0 = .lam 1 false .int (.var 1 1) := by decide

/-! ## The model functions are what `de_bruijn.rs` / `term.rs` say, arm by arm (tables regenerated on every run)

`Generated/Arms.lean` is rewritten from the Rust sources by `extract/arms.py` on every run: for every match arm of
`signed_shift`, `open` and `free_variables` — one row per Rust variant, nine rows for the nine binary operators —
which children are traversed, where they are put back, and how cutoff / index / shift amount change on the way
down.  `gshift`, `gopen`, `gfv` (`Lemmas/ArmsTie.lean`) interpret the tables; the statements below say the
interpretation IS the model function the other theorems of this file are about.  A changed Rust arm changes its
row and these theorems stop checking. -/

/-- `sshift` is the interpretation of the `signed_shift` table. -/
def C11_shift_arms_tie_stmt : Prop :=
  ∀ (t : Tm) (c : Nat) (amt : Int),
    gshift Generated.shiftArms Generated.shiftLeaves c amt t = sshift c amt t
theorem C11_shift_arms_tie : C11_shift_arms_tie_stmt := gshift_eq

/-- `openT` is the interpretation of the `open` table. -/
def C11_open_arms_tie_stmt : Prop :=
  ∀ (t : Tm) (i : Nat) (u : Tm) (s : Nat),
    gopen Generated.openArms Generated.openLeaves t i u s = some (openT t i u s)
theorem C11_open_arms_tie : C11_open_arms_tie_stmt := gopen_eq

/-- `freeVars` is the interpretation of the `free_variables` table. -/
def C11_fv_arms_tie_stmt : Prop :=
  ∀ (t : Tm) (c : Nat), gfv Generated.fvArms Generated.fvLeaves t c = some (freeVars t c)
theorem C11_fv_arms_tie : C11_fv_arms_tie_stmt := gfv_eq

/-- Every congruence row is well formed (rebuilds the variant it matched; traverses exactly that variant's
children and puts each back in its own place), and the `Variable` / `Unifier` arms — the only arms with
arithmetic on indices — are textually the ones the model was written from (CRC-32 of their comment-free text). -/
def C11_arms_wellformed_stmt : Prop :=
  (∀ a ∈ Generated.shiftArms ++ Generated.openArms ++ Generated.fvArms, a.wf = true) ∧
  Generated.shiftVariableArm = 1290892399 ∧ Generated.openVariableArm = 684542426 ∧
  Generated.fvVariableArm = 158030752 ∧
  Generated.shiftUnifierArm = 2823872755 ∧ Generated.openUnifierArm = 2957908884 ∧
  Generated.fvUnifierArm = 4058066136
theorem C11_arms_wellformed : C11_arms_wellformed_stmt := by
  unfold C11_arms_wellformed_stmt; decide

-- non-vacuity: the interpreted table shifts under a binder and inside a two-definition group
example : gshift Generated.shiftArms Generated.shiftLeaves 0 2
    (.lam 1 false (.var 2 0) (.letg (.cons 3 .int (.var 2 3) (.cons 4 .int (.var 3 1) .nil)) (.bin .quot (.var 2 3) (.var 4 0))))
    = some (.lam 1 false (.var 2 2) (.letg (.cons 3 .int (.var 2 5) (.cons 4 .int (.var 3 1) .nil)) (.bin .quot (.var 2 5) (.var 4 0)))) := by
  decide


/-! ## Transparency of the store layer on fully solved terms

The functions the implementation runs when solved unification holes are around (`sshiftS`, `ushiftS`, `openS` of
`Store.lean`, `freeAtS` of `Print.lean`: the `Unifier(Some(..), k)` arms of `signed_shift`, `open`, `free_variables`,
which read the hole as `unsigned_shift(solution, 0, k)` and go on) compute, on a term all of whose reachable cells
are solved, literally what the pure functions of this file compute on the zonked term — at every fuel at which they
answer — and leave the state as it was.  So every law above transfers. -/

open StoreTransparent in
/-- `FullySolved σ t`: `zonk` answers with a hole-free term; `fullySolvedB` is an executable checker for it. -/
def C11_store_fully_solved_checker_stmt : Prop :=
  ∀ (fuel : Nat) (σ : List (Option Tm)) (t : Tm), fullySolvedB fuel σ t = true → FullySolved σ t
theorem C11_store_fully_solved_checker : C11_store_fully_solved_checker_stmt :=
  fun _ _ _ h => StoreTransparent.fullySolvedB_sound h

/-- `sshiftS` on a fully solved term: the state is unchanged (nothing allocated, nothing written), the answer is
the pure shift of the zonked term — `none` exactly when the pure shift fails — and a returned term is hole-free, so
it is its own zonk.  With fuel `> n + size z` (`n` = a fuel at which `zonk` answers) `sshiftS` does answer. -/
def C11_store_shift_transparent_stmt : Prop :=
  ∀ (n c : Nat) (amt : Int) (t z : Tm) (s : St),
    zonk n s.store t = some z → z.holeFree = true →
    (∀ (f : Nat) (o : Option Tm) (s' : St), sshiftS f c amt t s = .ok o s' →
      s' = s ∧ o = sshift c amt z ∧ (o = none ↔ sshift c amt z = none) ∧
      ∀ t', o = some t' → t'.holeFree = true ∧ sshift c amt z = some t' ∧
        ∃ m, zonk m s.store t' = some t') ∧
    (∀ f, n + z.size < f → sshiftS f c amt t s = .ok (sshift c amt z) s)
theorem C11_store_shift_transparent : C11_store_shift_transparent_stmt := by
  intro n c amt t z s hz hf
  refine ⟨fun f o s' h => ?_, fun f hfu => StoreTransparent.sshiftS_total hz hf hfu⟩
  obtain ⟨rfl, rfl⟩ := StoreTransparent.sshiftS_transparent ⟨n, hz⟩ hf h
  refine ⟨rfl, rfl, Iff.rfl, fun t' e => ?_⟩
  have hf' : t'.holeFree = true := by rw [StoreTransparent.sshift_hf z c amt t' e]; exact hf
  exact ⟨hf', e, UnifySound.Zk_holeFree t' hf'⟩

/-- `unsigned_shift` on a fully solved term is the pure unsigned shift of the zonked term (and never panics at
`unwrap`: with enough fuel it answers). -/
def C11_store_ushift_transparent_stmt : Prop :=
  ∀ (n c a : Nat) (t z : Tm) (s : St),
    zonk n s.store t = some z → z.holeFree = true →
    (∀ (f : Nat) (r : Tm) (s' : St), ushiftS f c a t s = .ok r s' → s' = s ∧ r = ushift c a z) ∧
    (∀ f, n + z.size < f → ushiftS f c a t s = .ok (ushift c a z) s)
theorem C11_store_ushift_transparent : C11_store_ushift_transparent_stmt := by
  intro n c a t z s hz hf
  refine ⟨fun f r s' h => ?_, fun f hfu => StoreTransparent.ushiftS_total hz hf hfu⟩
  obtain ⟨rfl, rfl⟩ := StoreTransparent.ushiftS_solved f c a t z s ⟨n, hz⟩ hf r s' h
  exact ⟨rfl, rfl⟩

/-- `openS` on fully solved `t` and `u` allocates no cell (the state is unchanged) and returns the pure opening of
the zonked terms, a hole-free term. -/
def C11_store_open_transparent_stmt : Prop :=
  ∀ (f n m i sh : Nat) (t u zt zu r : Tm) (s s' : St),
    zonk n s.store t = some zt → zt.holeFree = true →
    zonk m s.store u = some zu → zu.holeFree = true →
    openS f t i u sh s = .ok r s' →
    s' = s ∧ r = openT zt i zu sh ∧ r.holeFree = true ∧ ∃ k, zonk k s.store r = some (openT zt i zu sh)
theorem C11_store_open_transparent : C11_store_open_transparent_stmt := by
  intro f n m i sh t u zt zu r s s' hz hf hzu hfu h
  obtain ⟨rfl, rfl⟩ := StoreTransparent.openS_transparent ⟨n, hz⟩ hf ⟨m, hzu⟩ hfu h
  have hr := WhnfLemmas.openT_holeFree zt i zu sh hf hfu
  exact ⟨rfl, rfl, hr, UnifySound.Zk_holeFree _ hr⟩

/-- The store-aware free-variable test of the printer (`free_variables(t, i, ..).contains(&0)`, `freeAtS`) on a
fully solved term is the pure test on the zonked term; and `free_variables` as a whole (`freeVarsS`, the `Unifier`
arm of `term.rs` included) returns the free variables of the zonked term, in the same order and multiplicity. -/
def C11_store_fv_transparent_stmt : Prop :=
  ∀ (n : Nat) (σ : List (Option Tm)) (t z : Tm),
    zonk n σ t = some z → z.holeFree = true →
    (∀ (f i : Nat) (b : Bool), freeAtS f σ t i = some b → b = freeAt z i) ∧
    (∀ (f c : Nat) (l : List Nat), StoreTransparent.freeVarsS f σ t c = some l → l = freeVars z c)
theorem C11_store_fv_transparent : C11_store_fv_transparent_stmt := by
  intro n σ t z hz hf
  exact ⟨fun f i b h => StoreTransparent.freeAtS_transparent ⟨n, hz⟩ hf h,
    fun f c l h => StoreTransparent.freeVarsS_transparent ⟨n, hz⟩ hf h⟩

/-- The C11 laws transfer to the store layer on fully solved terms, modulo `zonk`: shifting by zero returns the
zonked term; two unsigned shifts compose additively (and agree with the single shift by the sum); a downward shift
undoes an upward one; opening at a variable that (by the store-aware test) does not occur is shifting down by one. -/
def C11_store_laws_stmt : Prop :=
  ∀ (n : Nat) (t z : Tm) (s : St), zonk n s.store t = some z → z.holeFree = true →
    (∀ f c o s', sshiftS f c 0 t s = .ok o s' → o = some z ∧ s' = s) ∧
    (∀ f g h c a b t1 s1 t2 s2 t3 s3, ushiftS f c b t s = .ok t1 s1 → ushiftS g c a t1 s1 = .ok t2 s2 →
      ushiftS h c (a + b) t s = .ok t3 s3 → t2 = ushift c (a + b) z ∧ t3 = t2 ∧ s2 = s ∧ s3 = s) ∧
    (∀ f g c a t1 s1 o s2, ushiftS f c a t s = .ok t1 s1 → sshiftS g c (-(a : Int)) t1 s1 = .ok o s2 →
      o = some z ∧ s2 = s) ∧
    (∀ f g h m i sh u zu r s1 o s2, zonk m s.store u = some zu → zu.holeFree = true →
      freeAtS f s.store t i = some false → openS g t i u sh s = .ok r s1 →
      sshiftS h i (-1) t s = .ok o s2 → o = some r ∧ s1 = s ∧ s2 = s)
theorem C11_store_laws : C11_store_laws_stmt := by
  intro n t z s hz hf
  have hZ : UnifySound.Zk s.store t z := ⟨n, hz⟩
  refine ⟨?_, ?_, ?_, ?_⟩
  · intro f c o s' h
    obtain ⟨rfl, rfl⟩ := StoreTransparent.sshiftS_transparent hZ hf h
    exact ⟨C11_shift_zero z c, rfl⟩
  · intro f g h c a b t1 s1 t2 s2 t3 s3 h1 h2 h3
    obtain ⟨rfl, rfl⟩ := StoreTransparent.ushiftS_solved f c b t z s hZ hf _ _ h1
    have hf1 : (ushift c b z).holeFree = true := by rw [WhnfLemmas.ushift_holeFree]; exact hf
    obtain ⟨rfl, rfl⟩ := StoreTransparent.ushiftS_solved g c a _ _ s1
      (UnifySound.Zk_holeFree _ hf1) hf1 _ _ h2
    obtain ⟨rfl, rfl⟩ := StoreTransparent.ushiftS_solved h c (a + b) t z s2 hZ hf _ _ h3
    exact ⟨ushift_ushift z c a b, (ushift_ushift z c a b).symm, rfl, rfl⟩
  · intro f g c a t1 s1 o s2 h1 h2
    obtain ⟨rfl, rfl⟩ := StoreTransparent.ushiftS_solved f c a t z s hZ hf _ _ h1
    have hf1 : (ushift c a z).holeFree = true := by rw [WhnfLemmas.ushift_holeFree]; exact hf
    obtain ⟨rfl, rfl⟩ := StoreTransparent.sshiftS_transparent (UnifySound.Zk_holeFree _ hf1) hf1 h2
    exact ⟨sshift_neg_ushift z c a, rfl⟩
  · intro f g h m i sh u zu r s1 o s2 hzu hfu hfree ho hs
    have hb := StoreTransparent.freeAtS_transparent hZ hf hfree
    obtain ⟨rfl, rfl⟩ := StoreTransparent.openS_transparent hZ hf ⟨m, hzu⟩ hfu ho
    obtain ⟨rfl, rfl⟩ := StoreTransparent.sshiftS_transparent hZ hf hs
    exact ⟨C11_open_not_free z i zu sh hf hb.symm, rfl, rfl⟩

/-- With enough fuel `openS` and `freeAtS` do answer on fully solved terms (the counterpart of the second half of
`C11_store_shift_transparent`); `f0 = n + size zt + m + size zu + 1` works. -/
def C11_store_open_fv_total_stmt : Prop :=
  ∀ (n m i sh : Nat) (t u zt zu : Tm) (s : St),
    zonk n s.store t = some zt → zt.holeFree = true →
    zonk m s.store u = some zu → zu.holeFree = true →
    ∃ f0, ∀ f, f0 ≤ f →
      openS f t i u sh s = .ok (openT zt i zu sh) s ∧ freeAtS f s.store t i = some (freeAt zt i)
theorem C11_store_open_fv_total : C11_store_open_fv_total_stmt := by
  intro n m i sh t u zt zu s hz hf hzu hfu
  refine ⟨n + zt.size + m + zu.size + 1, fun f hle => ⟨?_, ?_⟩⟩
  · exact StoreTransparent.openS_total hz hf hzu hfu (by omega)
  · exact StoreTransparent.freeAtS_total hz hf (by omega)

/-! ### Non-vacuity: a store with a chain of solved cells with non-zero shifts (cell 0 mentions cell 1 shifted by
one; cell 2 is unsolved and unreachable), a term under a binder mentioning cell 0 shifted by two -/

namespace C11StoreExample
open StoreTransparent

def σ0 : List (Option Tm) :=
  [ some (.app (.var 7 0) (.hole 1 1)),
    some (.lam 8 false .int (.bin .sum (.var 8 0) (.var 9 2))),
    none ]
def b0 : Tm := .app (.hole 0 2) (.var 5 0)
def t0 : Tm := .lam 5 false (.hole 1 0) b0
def zu0 : Tm := .lam 8 false .int (.bin .sum (.var 8 0) (.var 9 5))
def zb0 : Tm := .app (.app (.var 7 2) zu0) (.var 5 0)
def z0 : Tm := .lam 5 false (.lam 8 false .int (.bin .sum (.var 8 0) (.var 9 2))) zb0

example : zonk 12 σ0 t0 = some z0 ∧ z0.holeFree = true ∧ fullySolvedB 12 σ0 t0 = true := by decide
-- upward shift under a cutoff: both sides evaluated
example : runOut (sshiftS 20 1 2 t0 { store := σ0 }) = some (sshift 1 2 z0, σ0) ∧
    sshift 1 2 z0 = some (.lam 5 false (.lam 8 false .int (.bin .sum (.var 8 0) (.var 9 4)))
      (.app (.app (.var 7 4) (.lam 8 false .int (.bin .sum (.var 8 0) (.var 9 7)))) (.var 5 0))) := by decide
-- a failing downward shift fails on both sides, a succeeding one succeeds on both
example : runOut (sshiftS 20 1 (-1) t0 { store := σ0 }) = some (sshift 1 (-1) z0, σ0) ∧
    sshift 1 (-1) z0 = none := by decide
example : runOut (sshiftS 20 2 (-1) t0 { store := σ0 }) = some (sshift 2 (-1) z0, σ0) ∧
    (sshift 2 (-1) z0).isSome = true := by decide
-- opening the body at its bound variable with a solved hole as the argument
example : zonk 12 σ0 b0 = some zb0 ∧ zonk 12 σ0 (.hole 1 3) = some zu0 ∧
    runOut (openS 20 b0 0 (.hole 1 3) 0 { store := σ0 }) = some (openT zb0 0 zu0 0, σ0) ∧
    openT zb0 0 zu0 0 =
      .app (.app (.var 7 1) (.lam 8 false .int (.bin .sum (.var 8 0) (.var 9 4)))) zu0 := by decide
-- the hypothesis is needed: an UNSOLVED hole met by `openS` allocates a cell (the store grows from 3 to 4)
example : (runOut (openS 20 (.app (.hole 2 2) (.var 5 0)) 0 (.hole 1 3) 0 { store := σ0 })).map
    (fun p => p.2.length) = some 4 := by decide
-- free variables
example : freeAtS 20 σ0 t0 1 = some (freeAt z0 1) ∧ freeAtS 20 σ0 t0 0 = some (freeAt z0 0) ∧
    freeAt z0 1 = true ∧ freeAt z0 0 = false := by decide
example : freeVarsS 20 σ0 t0 0 = some (freeVars z0 0) ∧ freeVars z0 0 = [1, 1, 3] := by decide
-- the theorems instantiated on the example
example : ∀ f o s', sshiftS f 1 2 t0 { store := σ0 } = .ok o s' → o = sshift 1 2 z0 :=
  fun f o s' h => ((C11_store_shift_transparent 12 1 2 t0 z0 { store := σ0 } (by decide) (by decide)).1
    f o s' h).2.1

end C11StoreExample
