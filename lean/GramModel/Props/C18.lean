import GramModel.Lemmas.DeBruijn
import GramModel.Check
import GramModel.Oracle
import GramModel.Lemmas.StoreCtx
import GramModel.Lemmas.Rebase

/-!
# C18 — checking under a context matches the closed program; contexts are restored

The model threads both contexts as state and pushes / pops them exactly where the Rust does, so
restoration is an invariant over every arm (including the failing ones), not a triviality.
-/

/-- `normalize_weak_head` leaves both contexts exactly as they were. -/
def C18_whnf_restores_stmt : Prop :=
  ∀ (fuel : Nat) (t r : Tm) (s s' : St), whnfS fuel t s = .ok r s' →
    s'.tctx = s.tctx ∧ s'.dctx = s.dctx
theorem C18_whnf_restores : C18_whnf_restores_stmt := by
  intro fuel t r s s' h
  exact CtxH.restores (whnfS_ctx fuel t) h

/-- `unify` leaves both contexts exactly as they were, whether it succeeds or fails. -/
def C18_unify_restores_stmt : Prop :=
  ∀ (fuel : Nat) (a b : Tm) (res : Bool) (s s' : St), unifyS fuel a b s = .ok res s' →
    s'.tctx = s.tctx ∧ s'.dctx = s.dctx
theorem C18_unify_restores : C18_unify_restores_stmt := by
  intro fuel a b res s s' h
  exact CtxH.restores (unifyS_ctx fuel a b) h

/-- `type_check` leaves both contexts exactly as they were, accepted or rejected (any number of
diagnostics), on every path including rejection part-way through a nested scope. -/
def C18_infer_restores_stmt : Prop :=
  ∀ (fuel : Nat) (t e ty : Tm) (s s' : St), inferS fuel t s = .ok (e, ty) s' →
    s'.tctx = s.tctx ∧ s'.dctx = s.dctx
theorem C18_infer_restores : C18_infer_restores_stmt := by
  intro fuel t e ty s s' h
  exact CtxH.restores (inferS_ctx fuel t) h

/-- The two contexts always have the same length inside the checker if they had on entry
(pushes and pops are paired). -/
def C18_push_pop_paired_stmt : Prop :=
  ∀ (s : St) (ty : Tm × Nat) (d : Option (Tm × Nat)),
    (match (pushCtx ty d >>= fun _ => popCtx) s with
     | .ok _ s' => s'.tctx = s.tctx ∧ s'.dctx = s.dctx
     | _ => False)
theorem C18_push_pop_paired : C18_push_pop_paired_stmt := by
  intro s ty d
  simp [pushCtx, popCtx, modifySt, bind, M.bind]

/-! ## Non-vacuity: a term rejected part-way through a nested scope, contexts restored -/

-- `(x : int) => (y : bool) => x + y` under a one-entry context: one diagnostic, contexts unchanged
example :
    (match inferS 30 (.lam 1 false .int (.lam 2 false .bool (.bin .sum (.var 1 1) (.var 2 0))))
        { tctx := [(.int, 0)], dctx := [none] } with
     | .ok _ s' => s'.nerrs == 1 && s'.tctx == [(Tm.int, 0)] && s'.dctx == [none]
     | _ => false) = true := by decide

/-! ## Checking under a binder is checking the body in the extended contexts -/

/-- **Lambda wrap.**  Checking `(x : A) => t` is: check `A`, require its type to be `type`, then
check `t` with `(A, 0)` / `None` pushed on the two contexts — nothing else; the verdict on the
closed term is the verdict on the open body under the extended context, and its type is the
function type over the body's type. -/
def C18_lam_wrap_stmt : Prop :=
  ∀ (f : Nat) (x : Name) (im : Bool) (A t : Tm) (s : St),
    inferS (f+1) (.lam x im A t) s =
      (do
        let (d', dty) ← inferS f A
        if !(← unifyS f dty .type) then reportError
        pushCtx (d', 0) none
        let (b', cod) ← inferS f t
        popCtx
        pure (Tm.lam x im d' b', Tm.pi x im d' cod)) s
theorem C18_lam_wrap : C18_lam_wrap_stmt := by
  intro f x im A t s
  rfl

/-- Lookups are insensitive to re-basing an entry: an entry `(T, o)` read at index `i` yields
`ushift 0 (i + 1 - o) T`, so the entries `(T, o)` and `(ushift 0 k T, o + k)` — the same type stored
`k` binders further in — give the same type for every lookup that can see them (`o + k ≤ i + 1`). -/
def C18_lookup_rebase_stmt : Prop :=
  ∀ (T : Tm) (o k i : Nat), o + k ≤ i + 1 →
    ushift 0 (i + 1 - (o + k)) (ushift 0 k T) = ushift 0 (i + 1 - o) T
theorem C18_lookup_rebase : C18_lookup_rebase_stmt := by
  intro T o k i h
  rw [ushift_ushift, show i + 1 - (o + k) + k = i + 1 - o by omega]

/-! ## The verdict does not depend on how the context is written -/

/-- re-base entry `i` of a typing context by `k`: `(T, o)` becomes `(T lifted by k, o + k)` -/
def rebaseT (Γ : TCtxX) (i k : Nat) : TCtxX :=
  List.mapIdx (fun j (e : Tm × Nat) => if j = i then (ushift 0 k e.1, e.2 + k) else e) Γ
/-- the same for a definitions context -/
def rebaseD (Δ : DCtxX) (i k : Nat) : DCtxX :=
  List.mapIdx (fun j (e : Option (Tm × Nat)) => if j = i then e.map (fun p => (ushift 0 k p.1, p.2 + k)) else e) Δ

/-- **Context representation is immaterial.**  An entry `(T, o)` at position `i` of a context means "`T`
lifted by `i + 1 - o`".  Writing the same entry `k` binders further in — `(T lifted by k, o + k)`, as long as
`o + k ≤ i + 1` — changes nothing: the independent checker gives the same answer (same type, same error) for
every term, at every fuel; likewise weak-head normalisation and the conversion check under a definitions
context.  (This is the law behind the `programs` suite's C18 oracle, which checks open subterms of generated
programs under the context as the checker builds it and under the fully re-based one.) -/
def C18_rebase_invariant_stmt : Prop :=
  ∀ (f : Nat) (Γ : TCtxX) (Δ : DCtxX) (i k : Nat) (t : Tm),
    (∀ T o, Γ[i]? = some (T, o) → o + k ≤ i + 1) → (∀ d o, Δ[i]? = some (some (d, o)) → o + k ≤ i + 1) →
    inferX f (rebaseT Γ i k) (rebaseD Δ i k) t = inferX f Γ Δ t ∧
    whnfX f (rebaseD Δ i k) t = whnfX f Δ t ∧
    ∀ u, convX f (rebaseD Δ i k) t u = convX f Δ t u
theorem C18_rebase_invariant : C18_rebase_invariant_stmt := by
  intro f Γ Δ i k t hΓ hΔ
  have hT : Rebase.RebT i k Γ (rebaseT Γ i k) := Rebase.RebT.mapIdx Γ i k hΓ
  have hD : Rebase.RebD i k Δ (rebaseD Δ i k) := Rebase.RebD.mapIdx Δ i k hΔ
  exact ⟨Rebase.inferX_reb hT hD t, Rebase.whnfX_reb f i k _ _ t hD,
    fun u => Rebase.convX_reb f i k _ _ t u hD⟩

/-! Non-vacuity: the context `a : type, x : type = a, p : int, w : a` (outermost first), the entry of `x`
(position 2: `(type, 1)` / `some (a, 1)`) re-based by 2, on `(z : int) => ((y : x) => y) w` — `x` is looked up
under the binder `z` in both contexts (typing) and unfolded to `a` there (conversion of `w`'s type with `x`). -/
example :
    let Γ : TCtxX := [(.var 10 2, 0), (.int, 0), (.type, 1), (.type, 0)]
    let Δ : DCtxX := [none, none, some (.var 10 1, 1), none]
    let t : Tm := .lam 3 false .int (.app (.lam 4 false (.var 11 3) (.var 4 0)) (.var 12 1))
    rebaseT Γ 2 2 = [(.var 10 2, 0), (.int, 0), (.type, 3), (.type, 0)] ∧
    rebaseD Δ 2 2 = [none, none, some (.var 10 3, 3), none] ∧
    inferX 10 (rebaseT Γ 2 2) (rebaseD Δ 2 2) t = .ok (.pi 3 false .int (.var 11 3)) ∧
    inferX 10 Γ Δ t = .ok (.pi 3 false .int (.var 11 3)) := ⟨rfl, rfl, rfl, rfl⟩

/-- **Closed program = open body under the group's context.**  Checking a one-definition group
`x : A = d; b` is checking `A` (a type), `d` (at `A`) and `b` under the context extended with
`(A, 1)` / `some (d, 1)` — the entries `type_check` pushes — and the group's type is the body's type closed by
the same group. -/
def C18_let_wrap_stmt : Prop :=
  ∀ (f : Nat) (Γ : TCtxX) (Δ : DCtxX) (x : Name) (A d b B : Tm),
    inferX (f+2) Γ Δ (.letg (.cons x A d .nil) b) = .ok (.letg (.cons x A d .nil) B) ↔
    ((∃ K, inferX f ((A, 1) :: Γ) (some (d, 1) :: Δ) A = .ok K ∧ isTypeX f (some (d, 1) :: Δ) K = .ok ()) ∧
     (∃ D, inferX f ((A, 1) :: Γ) (some (d, 1) :: Δ) d = .ok D ∧
        expectX f (some (d, 1) :: Δ) D A .defMismatch = .ok ()) ∧
     inferX (f+1) ((A, 1) :: Γ) (some (d, 1) :: Δ) b = .ok B)
theorem C18_let_wrap : C18_let_wrap_stmt := by
  intro f Γ Δ x A d b B
  cases f with
  | zero =>
    constructor
    · intro h
      have : inferX (0+2) Γ Δ (.letg (.cons x A d .nil) b) = .error .fuel := by
        unfold inferX; simp only [pushGroupX, pushGroupX.go]; unfold inferDefsX; simp only
        unfold inferX; rfl
      rw [this] at h; cases h
    · rintro ⟨⟨K, h, _⟩, _⟩
      unfold inferX at h; cases h
  | succ f =>
    have hp : pushGroupX (.cons x A d .nil) 0 (Γ, Δ) = ((A, 1) :: Γ, some (d, 1) :: Δ) := rfl
    have hn : inferDefsX (f+1) ((A, 1) :: Γ) (some (d, 1) :: Δ) .nil = .ok () := by
      unfold inferDefsX; rfl
    conv => lhs; lhs; unfold inferX
    simp only [hp]
    conv in inferDefsX _ _ _ (Defs.cons _ _ _ _) => unfold inferDefsX
    simp only [hn]
    cases h1 : inferX (f+1) ((A, 1) :: Γ) (some (d, 1) :: Δ) A with
    | error e => simp [*]
    | ok K =>
      cases h2 : isTypeX (f+1) (some (d, 1) :: Δ) K with
      | error e => simp [*]
      | ok u =>
        cases h3 : inferX (f+1) ((A, 1) :: Γ) (some (d, 1) :: Δ) d with
        | error e => simp [*]
        | ok D =>
          cases h4 : expectX (f+1) (some (d, 1) :: Δ) D A .defMismatch with
          | error e => simp [*]
          | ok u' =>
            cases h5 : inferX (f+1+1) ((A, 1) :: Γ) (some (d, 1) :: Δ) b with
            | error e => simp [*]
            | ok B' => simp [*]

/-! Non-vacuity: `x : int = 5; x + 1` — accepted with type `x : int = 5; int`, and the three premises hold. -/
example :
    inferX 5 [] [] (.letg (.cons 1 .int (.lit 5) .nil) (.bin .sum (.var 1 0) (.lit 1)))
      = .ok (.letg (.cons 1 .int (.lit 5) .nil) .int) ∧
    inferX 3 [(.int, 1)] [some (.lit 5, 1)] .int = .ok .type ∧
    isTypeX 3 [some (.lit 5, 1)] .type = .ok () ∧
    inferX 3 [(.int, 1)] [some (.lit 5, 1)] (.lit 5) = .ok .int ∧
    expectX 3 [some (.lit 5, 1)] .int .int .defMismatch = .ok () ∧
    inferX 4 [(.int, 1)] [some (.lit 5, 1)] (.bin .sum (.var 1 0) (.lit 1)) = .ok .int :=
  ⟨rfl, rfl, rfl, rfl, rfl, rfl⟩
