import GramModel.Lemmas.DeBruijn
import GramModel.Check
import GramModel.Lemmas.StoreCtx

/-!
# C18 — checking under a context matches the closed program; contexts are restored

The model threads both contexts as state and pushes / pops them exactly where the Rust does, so
restoration is an invariant over every arm (including the failing ones), not a triviality.
-/

/-- `normalize_weak_head` leaves both contexts exactly as they were. -/
def C18_whnf_restores_stmt : Prop :=
  ∀ (fuel : Nat) (t r : Tm) (s s' : St), whnfS fuel t s = .ok r s' →
    s'.tctx = s.tctx ∧ s'.dctx = s.dctx
theorem C18_whnf_restores : C18_whnf_restores_stmt := by
  intro fuel t r s s' h
  exact CtxH.restores (whnfS_ctx fuel t) h

/-- `unify` leaves both contexts exactly as they were, whether it succeeds or fails. -/
def C18_unify_restores_stmt : Prop :=
  ∀ (fuel : Nat) (a b : Tm) (res : Bool) (s s' : St), unifyS fuel a b s = .ok res s' →
    s'.tctx = s.tctx ∧ s'.dctx = s.dctx
theorem C18_unify_restores : C18_unify_restores_stmt := by
  intro fuel a b res s s' h
  exact CtxH.restores (unifyS_ctx fuel a b) h

/-- `type_check` leaves both contexts exactly as they were, accepted or rejected (any number of
diagnostics), on every path including rejection part-way through a nested scope. -/
def C18_infer_restores_stmt : Prop :=
  ∀ (fuel : Nat) (t e ty : Tm) (s s' : St), inferS fuel t s = .ok (e, ty) s' →
    s'.tctx = s.tctx ∧ s'.dctx = s.dctx
theorem C18_infer_restores : C18_infer_restores_stmt := by
  intro fuel t e ty s s' h
  exact CtxH.restores (inferS_ctx fuel t) h

/-- The two contexts always have the same length inside the checker if they had on entry
(pushes and pops are paired). -/
def C18_push_pop_paired_stmt : Prop :=
  ∀ (s : St) (ty : Tm × Nat) (d : Option (Tm × Nat)),
    (match (pushCtx ty d >>= fun _ => popCtx) s with
     | .ok _ s' => s'.tctx = s.tctx ∧ s'.dctx = s.dctx
     | _ => False)
theorem C18_push_pop_paired : C18_push_pop_paired_stmt := by
  intro s ty d
  simp [pushCtx, popCtx, modifySt, bind, M.bind]

/-! ## Non-vacuity: a term rejected part-way through a nested scope, contexts restored -/

-- `(x : int) => (y : bool) => x + y` under a one-entry context: one diagnostic, contexts unchanged
example :
    (match inferS 30 (.lam 1 false .int (.lam 2 false .bool (.bin .sum (.var 1 1) (.var 2 0))))
        { tctx := [(.int, 0)], dctx := [none] } with
     | .ok _ s' => s'.nerrs == 1 && s'.tctx == [(Tm.int, 0)] && s'.dctx == [none]
     | _ => false) = true := by decide

/-! ## Checking under a binder is checking the body in the extended contexts -/

/-- **Lambda wrap.**  Checking `(x : A) => t` is: check `A`, require its type to be `type`, then
check `t` with `(A, 0)` / `None` pushed on the two contexts — nothing else; the verdict on the
closed term is the verdict on the open body under the extended context, and its type is the
function type over the body's type. -/
def C18_lam_wrap_stmt : Prop :=
  ∀ (f : Nat) (x : Name) (im : Bool) (A t : Tm) (s : St),
    inferS (f+1) (.lam x im A t) s =
      (do
        let (d', dty) ← inferS f A
        if !(← unifyS f dty .type) then reportError
        pushCtx (d', 0) none
        let (b', cod) ← inferS f t
        popCtx
        pure (Tm.lam x im d' b', Tm.pi x im d' cod)) s
theorem C18_lam_wrap : C18_lam_wrap_stmt := by
  intro f x im A t s
  rfl

/-- Lookups are insensitive to re-basing an entry: an entry `(T, o)` read at index `i` yields
`ushift 0 (i + 1 - o) T`, so the entries `(T, o)` and `(ushift 0 k T, o + k)` — the same type stored
`k` binders further in — give the same type for every lookup that can see them (`o + k ≤ i + 1`). -/
def C18_lookup_rebase_stmt : Prop :=
  ∀ (T : Tm) (o k i : Nat), o + k ≤ i + 1 →
    ushift 0 (i + 1 - (o + k)) (ushift 0 k T) = ushift 0 (i + 1 - o) T
theorem C18_lookup_rebase : C18_lookup_rebase_stmt := by
  intro T o k i h
  rw [ushift_ushift, show i + 1 - (o + k) + k = i + 1 - o by omega]
