import GramModel.Lemmas.EventTracesPin
import GramModel.Lemmas.DeBruijn
import GramModel.Check
import GramModel.Oracle
import GramModel.Lemmas.StoreCtx
import GramModel.Lemmas.Rebase
import GramModel.Lemmas.CtxWrap
import GramModel.Lemmas.CtxWrapS

/-!
# C18 — checking under a context matches the closed program; contexts are restored

The model threads both contexts as state and pushes / pops them exactly where the Rust does, so
restoration is an invariant over every arm (including the failing ones), not a triviality.
-/

/-- `normalize_weak_head` leaves both contexts exactly as they were. -/
def C18_whnf_restores_stmt : Prop :=
  ∀ (fuel : Nat) (t r : Tm) (s s' : St), whnfS fuel t s = .ok r s' →
    s'.tctx = s.tctx ∧ s'.dctx = s.dctx
theorem C18_whnf_restores : C18_whnf_restores_stmt := by
  intro fuel t r s s' h
  exact CtxH.restores (whnfS_ctx fuel t) h

/-- `unify` leaves both contexts exactly as they were, whether it succeeds or fails. -/
def C18_unify_restores_stmt : Prop :=
  ∀ (fuel : Nat) (a b : Tm) (res : Bool) (s s' : St), unifyS fuel a b s = .ok res s' →
    s'.tctx = s.tctx ∧ s'.dctx = s.dctx
theorem C18_unify_restores : C18_unify_restores_stmt := by
  intro fuel a b res s s' h
  exact CtxH.restores (unifyS_ctx fuel a b) h

/-- `type_check` leaves both contexts exactly as they were, accepted or rejected (any number of
diagnostics), on every path including rejection part-way through a nested scope. -/
def C18_infer_restores_stmt : Prop :=
  ∀ (fuel : Nat) (t e ty : Tm) (s s' : St), inferS fuel t s = .ok (e, ty) s' →
    s'.tctx = s.tctx ∧ s'.dctx = s.dctx
theorem C18_infer_restores : C18_infer_restores_stmt := by
  intro fuel t e ty s s' h
  exact CtxH.restores (inferS_ctx fuel t) h

/-- The two contexts always have the same length inside the checker if they had on entry
(pushes and pops are paired). -/
def C18_push_pop_paired_stmt : Prop :=
  ∀ (s : St) (ty : Tm × Nat) (d : Option (Tm × Nat)),
    (match (pushCtx ty d >>= fun _ => popCtx) s with
     | .ok _ s' => s'.tctx = s.tctx ∧ s'.dctx = s.dctx
     | _ => False)
theorem C18_push_pop_paired : C18_push_pop_paired_stmt := by
  intro s ty d
  simp [pushCtx, popCtx, modifySt, bind, M.bind]

/-! ## Non-vacuity: a term rejected part-way through a nested scope, contexts restored -/

-- `(x : int) => (y : bool) => x + y` under a one-entry context: one diagnostic, contexts unchanged
example :
    (match inferS 30 (.lam 1 false .int (.lam 2 false .bool (.bin .sum (.var 1 1) (.var 2 0))))
        { tctx := [(.int, 0)], dctx := [none] } with
     | .ok _ s' => s'.nerrs == 1 && s'.tctx == [(Tm.int, 0)] && s'.dctx == [none]
     | _ => false) = true := by decide

/-! ## Checking under a binder is checking the body in the extended contexts -/

/-- **Lambda wrap.**  Checking `(x : A) => t` is: check `A`, require its type to be `type`, then
check `t` with `(A, 0)` / `None` pushed on the two contexts — nothing else; the verdict on the
closed term is the verdict on the open body under the extended context, and its type is the
function type over the body's type. -/
def C18_lam_wrap_stmt : Prop :=
  ∀ (f : Nat) (x : Name) (im : Bool) (A t : Tm) (s : St),
    inferS (f+1) (.lam x im A t) s =
      (do
        let (d', dty) ← inferS f A
        if !(← unifyS f dty .type) then reportError
        pushCtx (d', 0) none
        let (b', cod) ← inferS f t
        popCtx
        pure (Tm.lam x im d' b', Tm.pi x im d' cod)) s
theorem C18_lam_wrap : C18_lam_wrap_stmt := by
  intro f x im A t s
  rfl

/-- Lookups are insensitive to re-basing an entry: an entry `(T, o)` read at index `i` yields
`ushift 0 (i + 1 - o) T`, so the entries `(T, o)` and `(ushift 0 k T, o + k)` — the same type stored
`k` binders further in — give the same type for every lookup that can see them (`o + k ≤ i + 1`). -/
def C18_lookup_rebase_stmt : Prop :=
  ∀ (T : Tm) (o k i : Nat), o + k ≤ i + 1 →
    ushift 0 (i + 1 - (o + k)) (ushift 0 k T) = ushift 0 (i + 1 - o) T
theorem C18_lookup_rebase : C18_lookup_rebase_stmt := by
  intro T o k i h
  rw [ushift_ushift, show i + 1 - (o + k) + k = i + 1 - o by omega]

/-! ## The verdict does not depend on how the context is written -/

/-- re-base entry `i` of a typing context by `k`: `(T, o)` becomes `(T lifted by k, o + k)` -/
def rebaseT (Γ : TCtxX) (i k : Nat) : TCtxX :=
  List.mapIdx (fun j (e : Tm × Nat) => if j = i then (ushift 0 k e.1, e.2 + k) else e) Γ
/-- the same for a definitions context -/
def rebaseD (Δ : DCtxX) (i k : Nat) : DCtxX :=
  List.mapIdx (fun j (e : Option (Tm × Nat)) => if j = i then e.map (fun p => (ushift 0 k p.1, p.2 + k)) else e) Δ

/-- **Context representation is immaterial.**  An entry `(T, o)` at position `i` of a context means "`T`
lifted by `i + 1 - o`".  Writing the same entry `k` binders further in — `(T lifted by k, o + k)`, as long as
`o + k ≤ i + 1` — changes nothing: the independent checker gives the same answer (same type, same error) for
every term, at every fuel; likewise weak-head normalisation and the conversion check under a definitions
context.  (This is the law behind the `programs` suite's C18 oracle, which checks open subterms of generated
programs under the context as the checker builds it and under the fully re-based one.) -/
def C18_rebase_invariant_stmt : Prop :=
  ∀ (f : Nat) (Γ : TCtxX) (Δ : DCtxX) (i k : Nat) (t : Tm),
    (∀ T o, Γ[i]? = some (T, o) → o + k ≤ i + 1) → (∀ d o, Δ[i]? = some (some (d, o)) → o + k ≤ i + 1) →
    inferX f (rebaseT Γ i k) (rebaseD Δ i k) t = inferX f Γ Δ t ∧
    whnfX f (rebaseD Δ i k) t = whnfX f Δ t ∧
    ∀ u, convX f (rebaseD Δ i k) t u = convX f Δ t u
theorem C18_rebase_invariant : C18_rebase_invariant_stmt := by
  intro f Γ Δ i k t hΓ hΔ
  have hT : Rebase.RebT i k Γ (rebaseT Γ i k) := Rebase.RebT.mapIdx Γ i k hΓ
  have hD : Rebase.RebD i k Δ (rebaseD Δ i k) := Rebase.RebD.mapIdx Δ i k hΔ
  exact ⟨Rebase.inferX_reb hT hD t, Rebase.whnfX_reb f i k _ _ t hD,
    fun u => Rebase.convX_reb f i k _ _ t u hD⟩

/-! Non-vacuity: the context `a : type, x : type = a, p : int, w : a` (outermost first), the entry of `x`
(position 2: `(type, 1)` / `some (a, 1)`) re-based by 2, on `(z : int) => ((y : x) => y) w` — `x` is looked up
under the binder `z` in both contexts (typing) and unfolded to `a` there (conversion of `w`'s type with `x`). -/
example :
    let Γ : TCtxX := [(.var 10 2, 0), (.int, 0), (.type, 1), (.type, 0)]
    let Δ : DCtxX := [none, none, some (.var 10 1, 1), none]
    let t : Tm := .lam 3 false .int (.app (.lam 4 false (.var 11 3) (.var 4 0)) (.var 12 1))
    rebaseT Γ 2 2 = [(.var 10 2, 0), (.int, 0), (.type, 3), (.type, 0)] ∧
    rebaseD Δ 2 2 = [none, none, some (.var 10 3, 3), none] ∧
    inferX 10 (rebaseT Γ 2 2) (rebaseD Δ 2 2) t = .ok (.pi 3 false .int (.var 11 3)) ∧
    inferX 10 Γ Δ t = .ok (.pi 3 false .int (.var 11 3)) := ⟨rfl, rfl, rfl, rfl⟩

/-- **Closed program = open body under the group's context.**  Checking a one-definition group
`x : A = d; b` is checking `A` (a type), `d` (at `A`) and `b` under the context extended with
`(A, 1)` / `some (d, 1)` — the entries `type_check` pushes — and the group's type is the body's type closed by
the same group. -/
def C18_let_wrap_stmt : Prop :=
  ∀ (f : Nat) (Γ : TCtxX) (Δ : DCtxX) (x : Name) (A d b B : Tm),
    inferX (f+2) Γ Δ (.letg (.cons x A d .nil) b) = .ok (.letg (.cons x A d .nil) B) ↔
    ((∃ K, inferX f ((A, 1) :: Γ) (some (d, 1) :: Δ) A = .ok K ∧ isTypeX f (some (d, 1) :: Δ) K = .ok ()) ∧
     (∃ D, inferX f ((A, 1) :: Γ) (some (d, 1) :: Δ) d = .ok D ∧
        expectX f (some (d, 1) :: Δ) D A .defMismatch = .ok ()) ∧
     inferX (f+1) ((A, 1) :: Γ) (some (d, 1) :: Δ) b = .ok B)
theorem C18_let_wrap : C18_let_wrap_stmt := by
  intro f Γ Δ x A d b B
  cases f with
  | zero =>
    constructor
    · intro h
      have : inferX (0+2) Γ Δ (.letg (.cons x A d .nil) b) = .error .fuel := by
        unfold inferX; simp only [pushGroupX, pushGroupX.go]; unfold inferDefsX; simp only
        unfold inferX; rfl
      rw [this] at h; cases h
    · rintro ⟨⟨K, h, _⟩, _⟩
      unfold inferX at h; cases h
  | succ f =>
    have hp : pushGroupX (.cons x A d .nil) 0 (Γ, Δ) = ((A, 1) :: Γ, some (d, 1) :: Δ) := rfl
    have hn : inferDefsX (f+1) ((A, 1) :: Γ) (some (d, 1) :: Δ) .nil = .ok () := by
      unfold inferDefsX; rfl
    conv => lhs; lhs; unfold inferX
    simp only [hp]
    conv in inferDefsX _ _ _ (Defs.cons _ _ _ _) => unfold inferDefsX
    simp only [hn]
    cases h1 : inferX (f+1) ((A, 1) :: Γ) (some (d, 1) :: Δ) A with
    | error e => simp [*]
    | ok K =>
      cases h2 : isTypeX (f+1) (some (d, 1) :: Δ) K with
      | error e => simp [*]
      | ok u =>
        cases h3 : inferX (f+1) ((A, 1) :: Γ) (some (d, 1) :: Δ) d with
        | error e => simp [*]
        | ok D =>
          cases h4 : expectX (f+1) (some (d, 1) :: Δ) D A .defMismatch with
          | error e => simp [*]
          | ok u' =>
            cases h5 : inferX (f+1+1) ((A, 1) :: Γ) (some (d, 1) :: Δ) b with
            | error e => simp [*]
            | ok B' => simp [*]

/-! Non-vacuity: `x : int = 5; x + 1` — accepted with type `x : int = 5; int`, and the three premises hold. -/
example :
    inferX 5 [] [] (.letg (.cons 1 .int (.lit 5) .nil) (.bin .sum (.var 1 0) (.lit 1)))
      = .ok (.letg (.cons 1 .int (.lit 5) .nil) .int) ∧
    inferX 3 [(.int, 1)] [some (.lit 5, 1)] .int = .ok .type ∧
    isTypeX 3 [some (.lit 5, 1)] .type = .ok () ∧
    inferX 3 [(.int, 1)] [some (.lit 5, 1)] (.lit 5) = .ok .int ∧
    expectX 3 [some (.lit 5, 1)] .int .int .defMismatch = .ok () ∧
    inferX 4 [(.int, 1)] [some (.lit 5, 1)] (.bin .sum (.var 1 0) (.lit 1)) = .ok .int :=
  ⟨rfl, rfl, rfl, rfl, rfl, rfl⟩

/-! # Whole contexts: checking under a context = checking the closed program

`Lemmas/CtxWrap.lean`.  A context is a list of layers, outermost first: `Layer.param x im A` (pushes `(A, 0)` /
`none`) or `Layer.group ds` (pushes what `pushGroupX` pushes); `closeCtx ls t` binds the layers around `t`
(`λ` / `letg`), `closeTy ls B` around its type (`Π` / `letg`); `CtxOK ls c` says that every parameter domain is
accepted as a type and every group's definitions are accepted, each under the layers outside it.
`closeParams` / `closePi` / `pushParams` / `ParamsOK` are the same for parameter-only contexts
`ps : List (Name × Bool × Tm)` — outermost parameter first. -/

section WholeContext
open CtxWrap

/-- **The answer never depends on the fuel**: an acceptance and a rejection of the same term in the same
context can only differ by the rejection being "out of fuel". -/
def C18_verdict_fuel_independent_stmt : Prop :=
  ∀ (f g : Nat) (Γ : TCtxX) (Δ : DCtxX) (t : Tm) (r₁ r₂ : Except XErr Tm),
    inferX f Γ Δ t = r₁ → inferX g Γ Δ t = r₂ → r₁ ≠ .error .fuel → r₂ ≠ .error .fuel → r₁ = r₂
theorem C18_verdict_fuel_independent : C18_verdict_fuel_independent_stmt := by
  intro f g Γ Δ t r₁ r₂ h1 h2 n1 n2
  exact inferX_det h1 h2 n1 n2

/-- **Lambda wrap for the independent checker.**  `(x : A) => t` is accepted with type `(x : A) -> B` exactly
when `A` is accepted as a type and `t` is accepted with type `B` under the context extended by `(A, 0)` / `none`
(all three sub-checks at the fuel one below). -/
def C18_lam_wrap_X_stmt : Prop :=
  ∀ (f : Nat) (Γ : TCtxX) (Δ : DCtxX) (x : Name) (im : Bool) (A t B : Tm),
    inferX (f+1) Γ Δ (.lam x im A t) = .ok (.pi x im A B) ↔
    (∃ K, inferX f Γ Δ A = .ok K ∧ isTypeX f Δ K = .ok ()) ∧
    inferX f ((A, 0) :: Γ) (none :: Δ) t = .ok B
theorem C18_lam_wrap_X : C18_lam_wrap_X_stmt := by
  intro f Γ Δ x im A t B
  rw [lam_wrap_X]
  constructor
  · rintro ⟨hA, B', e, hB⟩; injection e with _ _ _ e; subst e; exact ⟨hA, hB⟩
  · rintro ⟨hA, hB⟩; exact ⟨hA, B, rfl, hB⟩

/-- … and a λ is never given any other type than that Π; a rejection of the λ is the rejection of the domain,
of "the domain is a type", or of the body (`r.map` keeps an error and wraps a type). -/
def C18_lam_wrap_X_result_stmt : Prop :=
  ∀ (f : Nat) (Γ : TCtxX) (Δ : DCtxX) (x : Name) (im : Bool) (A t K : Tm),
    inferX f Γ Δ A = .ok K → isTypeX f Δ K = .ok () →
    inferX (f+1) Γ Δ (.lam x im A t) = (inferX f ((A, 0) :: Γ) (none :: Δ) t).map (.pi x im A)
theorem C18_lam_wrap_X_result : C18_lam_wrap_X_result_stmt := by
  intro f Γ Δ x im A t K h1 h2
  exact lam_step_ok x im t h1 h2

/-- **Whole-context wrap, acceptance.**  For an accepted context (any mix of parameters and definition groups)
the open term is accepted under the context with type `B` iff the closed program is accepted under the base
context with type `B` closed by the same layers ("for some fuel" on both sides: the answer does not depend
on the fuel). -/
def C18_ctx_wrap_stmt : Prop :=
  ∀ (ls : List Layer) (c : TCtxX × DCtxX) (t B : Tm), CtxOK ls c →
    ((∃ f, inferX f (pushCtxs ls c).1 (pushCtxs ls c).2 t = .ok B) ↔
     (∃ f, inferX f c.1 c.2 (closeCtx ls t) = .ok (closeTy ls B)))
theorem C18_ctx_wrap : C18_ctx_wrap_stmt := by
  intro ls c t B h
  exact ctx_accept ls c t B h

/-- **Whole-context wrap, rejection.**  A genuine type error (not "out of fuel") of the open term under the
context is the *same* error of the closed program, and conversely. -/
def C18_ctx_reject_stmt : Prop :=
  ∀ (ls : List Layer) (c : TCtxX × DCtxX) (t : Tm) (e : XErr), CtxOK ls c → e ≠ .fuel →
    ((∃ f, inferX f (pushCtxs ls c).1 (pushCtxs ls c).2 t = .error e) ↔
     (∃ f, inferX f c.1 c.2 (closeCtx ls t) = .error e))
theorem C18_ctx_reject : C18_ctx_reject_stmt := by
  intro ls c t e h he
  exact ctx_reject ls c t h e he

/-- **Same verdict.**  If the open term is genuinely rejected under the context, the closed program is not
accepted at any fuel; if the closed program is genuinely rejected, the open term is not accepted at any fuel. -/
def C18_ctx_verdict_stmt : Prop :=
  ∀ (ls : List Layer) (c : TCtxX × DCtxX) (t : Tm), CtxOK ls c →
    ((∃ f e, e ≠ .fuel ∧ inferX f (pushCtxs ls c).1 (pushCtxs ls c).2 t = .error e) →
      ∀ g T, inferX g c.1 c.2 (closeCtx ls t) ≠ .ok T) ∧
    ((∃ f e, e ≠ .fuel ∧ inferX f c.1 c.2 (closeCtx ls t) = .error e) →
      ∀ g B, inferX g (pushCtxs ls c).1 (pushCtxs ls c).2 t ≠ .ok B)
theorem C18_ctx_verdict : C18_ctx_verdict_stmt := by
  intro ls c t h
  exact ctx_verdict ls c t h

/-- **Acceptance of a closed program, characterised** (no hypothesis on the context): the closed program is
accepted with type `T` iff the context is accepted, the open term is accepted under it with some type `B`, and
`T` is `B` closed by the same layers. -/
def C18_ctx_accept_iff_stmt : Prop :=
  ∀ (ls : List Layer) (c : TCtxX × DCtxX) (t T : Tm),
    (∃ f, inferX f c.1 c.2 (closeCtx ls t) = .ok T) ↔
    CtxOK ls c ∧ ∃ B, T = closeTy ls B ∧ ∃ f, inferX f (pushCtxs ls c).1 (pushCtxs ls c).2 t = .ok B
theorem C18_ctx_accept_iff : C18_ctx_accept_iff_stmt := by
  intro ls c t T
  exact closed_ok_iff ls c t T

/-! ## parameter contexts -/

/-- the contexts a parameter list produces over the empty context: the domains innermost first, each with
offset 0, and as many `none`s -/
def C18_params_shape_stmt : Prop :=
  ∀ (ps : Params) (c : TCtxX × DCtxX),
    pushParams ps c = ((ps.reverse.map fun p => (p.2.2, 0)) ++ c.1, List.replicate ps.length none ++ c.2)
theorem C18_params_shape : C18_params_shape_stmt := by
  intro ps c
  exact pushParams_eq ps c

/-- **Parameter contexts.**  `Γ = [(Aₙ,0), …, (A₁,0)]`, `Δ = [none, …, none]` (over any base context `c`, in
particular the empty one), every `Aᵢ` accepted as a type under its prefix: `t` is accepted under `(Γ, Δ)` with
type `B` iff `(x₁ : A₁) => … => (xₙ : Aₙ) => t` is accepted under the base with type
`(x₁ : A₁) -> … -> (xₙ : Aₙ) -> B`. -/
def C18_params_wrap_stmt : Prop :=
  ∀ (ps : Params) (c : TCtxX × DCtxX) (t B : Tm), ParamsOK ps c →
    ((∃ f, inferX f (pushParams ps c).1 (pushParams ps c).2 t = .ok B) ↔
     (∃ f, inferX f c.1 c.2 (closeParams ps t) = .ok (closePi ps B)))
theorem C18_params_wrap : C18_params_wrap_stmt := by
  intro ps c t B h
  exact ctx_accept (paramLayers ps) c t B h

/-- **Parameter contexts, rejection side**: the same genuine error on both sides; and a genuine rejection on
one side excludes acceptance on the other at every fuel. -/
def C18_params_reject_stmt : Prop :=
  ∀ (ps : Params) (c : TCtxX × DCtxX) (t : Tm), ParamsOK ps c →
    (∀ e, e ≠ .fuel →
      ((∃ f, inferX f (pushParams ps c).1 (pushParams ps c).2 t = .error e) ↔
       (∃ f, inferX f c.1 c.2 (closeParams ps t) = .error e))) ∧
    ((∃ f e, e ≠ .fuel ∧ inferX f (pushParams ps c).1 (pushParams ps c).2 t = .error e) →
      ∀ g T, inferX g c.1 c.2 (closeParams ps t) ≠ .ok T) ∧
    ((∃ f e, e ≠ .fuel ∧ inferX f c.1 c.2 (closeParams ps t) = .error e) →
      ∀ g B, inferX g (pushParams ps c).1 (pushParams ps c).2 t ≠ .ok B)
theorem C18_params_reject : C18_params_reject_stmt := by
  intro ps c t h
  exact ⟨fun e he => ctx_reject (paramLayers ps) c t h e he, ctx_verdict (paramLayers ps) c t h⟩

/-- the closed function is accepted only if every domain is accepted as a type in its prefix context, and only
at an iterated function type -/
def C18_params_accept_iff_stmt : Prop :=
  ∀ (ps : Params) (c : TCtxX × DCtxX) (t T : Tm),
    (∃ f, inferX f c.1 c.2 (closeParams ps t) = .ok T) ↔
    ParamsOK ps c ∧ ∃ B, T = closePi ps B ∧ ∃ f, inferX f (pushParams ps c).1 (pushParams ps c).2 t = .ok B
theorem C18_params_accept_iff : C18_params_accept_iff_stmt := by
  intro ps c t T
  exact closed_ok_iff (paramLayers ps) c t T

/-! ## definition groups and mixed contexts -/

/-- the entries a group of `n` definitions pushes: definition `i` (source order, 0-based) is at position
`n - 1 - i` with offset `n - i` — annotation in the typing context, definition in the definitions context -/
def C18_group_shape_stmt : Prop :=
  ∀ (ds : Defs) (Γ : TCtxX) (Δ : DCtxX) (i : Nat) (x : Name) (a d : Tm), ds.toList[i]? = some (x, a, d) →
    (pushGroupX ds 0 (Γ, Δ)).1[ds.len - 1 - i]? = some (a, ds.len - i) ∧
    (pushGroupX ds 0 (Γ, Δ)).2[ds.len - 1 - i]? = some (some (d, ds.len - i))
theorem C18_group_shape : C18_group_shape_stmt := by
  intro ds Γ Δ i x a d h
  exact pushGroupX_get ds Γ Δ i x a d h

/-- **Group wrap, any number of definitions, fixed fuel** (generalises `C18_let_wrap`): `ds; b` is accepted with
type `T` iff the definitions check under the pushed group, the body is accepted under the pushed group with some
type `B`, and `T` is `ds; B`. -/
def C18_group_wrap_stmt : Prop :=
  ∀ (f : Nat) (Γ : TCtxX) (Δ : DCtxX) (ds : Defs) (b T : Tm),
    inferX (f+1) Γ Δ (.letg ds b) = .ok T ↔
    inferDefsX f (pushGroupX ds 0 (Γ, Δ)).1 (pushGroupX ds 0 (Γ, Δ)).2 ds = .ok () ∧
    ∃ B, T = .letg ds B ∧ inferX f (pushGroupX ds 0 (Γ, Δ)).1 (pushGroupX ds 0 (Γ, Δ)).2 b = .ok B
theorem C18_group_wrap : C18_group_wrap_stmt := by
  intro f Γ Δ ds b T
  exact group_wrap_X f Γ Δ ds b T

/-- `inferDefsX` accepts a group (at some fuel) iff every definition is accepted: its annotation is accepted as
a type and the definition is accepted with a type convertible with the annotation -/
def C18_defs_accept_iff_stmt : Prop :=
  ∀ (Γ : TCtxX) (Δ : DCtxX) (ds : Defs), DefsAcc Γ Δ ds ↔ ∃ f, inferDefsX f Γ Δ ds = .ok ()
theorem C18_defs_accept_iff : C18_defs_accept_iff_stmt := by
  intro Γ Δ ds
  exact defsAcc_iff Γ Δ ds

/-- **Mixed contexts**: parameters `ps`, then one definition group `ds` of any length on top of them.  With the
domains and the definitions accepted, the body under `pushGroupX ds` over the parameter context gets the same
answer as `(x₁ : A₁) => … => (ds; b)` under the base: same acceptance with the type closed by the group and the
Πs, same genuine error. -/
def C18_mixed_wrap_stmt : Prop :=
  ∀ (ps : Params) (ds : Defs) (c : TCtxX × DCtxX) (b : Tm),
    ParamsOK ps c →
    DefsAcc (pushGroupX ds 0 (pushParams ps c)).1 (pushGroupX ds 0 (pushParams ps c)).2 ds →
    (∀ B, (∃ f, inferX f (pushGroupX ds 0 (pushParams ps c)).1 (pushGroupX ds 0 (pushParams ps c)).2 b = .ok B) ↔
          (∃ f, inferX f c.1 c.2 (closeParams ps (.letg ds b)) = .ok (closePi ps (.letg ds B)))) ∧
    (∀ e, e ≠ .fuel →
      ((∃ f, inferX f (pushGroupX ds 0 (pushParams ps c)).1 (pushGroupX ds 0 (pushParams ps c)).2 b = .error e) ↔
       (∃ f, inferX f c.1 c.2 (closeParams ps (.letg ds b)) = .error e)))
theorem C18_mixed_wrap : C18_mixed_wrap_stmt := by
  intro ps ds c b hps hds
  have hg : CtxOK [Layer.group ds] (pushParams ps c) := ⟨hds, trivial⟩
  constructor
  · intro B
    exact (ctx_accept [Layer.group ds] (pushParams ps c) b B hg).trans
      (ctx_accept (paramLayers ps) c (.letg ds b) (.letg ds B) hps)
  · intro e he
    exact (ctx_reject [Layer.group ds] (pushParams ps c) b hg e he).trans
      (ctx_reject (paramLayers ps) c (.letg ds b) hps e he)

/-! ## conversion and normalisation under parameters -/

/-- a parameter is inert under normalisation, and a λ / Π is already a weak head normal form -/
def C18_whnf_param_stmt : Prop :=
  ∀ (f : Nat) (Δ : DCtxX) (x : Name) (im : Bool) (A t : Tm),
    whnfX (f+1) (none :: Δ) (.var x 0) = some (.var x 0) ∧
    whnfX (f+1) Δ (.lam x im A t) = some (.lam x im A t) ∧
    whnfX (f+1) Δ (.pi x im A t) = some (.pi x im A t)
theorem C18_whnf_param : C18_whnf_param_stmt := by
  intro f Δ x im A t
  exact ⟨whnfX_param f Δ x, whnfX_lam f Δ x im A t, whnfX_pi f Δ x im A t⟩

/-- **Comparing two functions is comparing their bodies under one more parameter** (names and domain annotations
are irrelevant; one unit of fuel for the binder). -/
def C18_conv_lam_stmt : Prop :=
  ∀ (f : Nat) (Δ : DCtxX) (x y : Name) (im jm : Bool) (A A' t u : Tm),
    convX (f+2) Δ (.lam x im A t) (.lam y jm A' u) =
      if im == jm then convX (f+1) (none :: Δ) t u else some false
theorem C18_conv_lam : C18_conv_lam_stmt := by
  intro f Δ x y im jm A A' t u
  exact convX_lam f Δ x y im jm A A' t u

/-- **Comparing two function types**: the domains in the current context, then the codomains under one more
parameter. -/
def C18_conv_pi_stmt : Prop :=
  ∀ (f : Nat) (Δ : DCtxX) (x y : Name) (im jm : Bool) (A A' t u : Tm),
    convX (f+2) Δ (.pi x im A t) (.pi y jm A' u) =
      if im == jm then
        match convX (f+1) Δ A A' with
        | some true => convX (f+1) (none :: Δ) t u
        | r => r
      else some false
theorem C18_conv_pi : C18_conv_pi_stmt := by
  intro f Δ x y im jm A A' t u
  exact convX_pi f Δ x y im jm A A' t u

/-- **Whole parameter contexts**: the conversion check under `n` parameters is the conversion check of the
closed functions, and of the closed function types (one unit of fuel per binder); convertibility under the
parameters gives convertibility of the closed terms. -/
def C18_conv_params_stmt : Prop :=
  ∀ (ps : Params) (f : Nat) (Δ : DCtxX) (t u : Tm),
    convX (f + 1 + ps.length) Δ (closeParams ps t) (closeParams ps u) =
      convX (f + 1) (List.replicate ps.length none ++ Δ) t u ∧
    convX (f + 1 + ps.length) Δ (closePi ps t) (closePi ps u) =
      convX (f + 1) (List.replicate ps.length none ++ Δ) t u ∧
    (Conv (List.replicate ps.length none ++ Δ) t u →
      Conv Δ (closeParams ps t) (closeParams ps u) ∧ Conv Δ (closePi ps t) (closePi ps u))
theorem C18_conv_params : C18_conv_params_stmt := by
  intro ps f Δ t u
  have e : (pushParams ps ([], Δ)).2 = List.replicate ps.length none ++ Δ := by rw [pushParams_eq]
  rw [← e]
  exact ⟨convX_closeParams ps f Δ t u, convX_closePi ps f Δ t u,
    fun h => ⟨Conv_closeParams ps Δ t u h, Conv_closePi ps Δ t u h⟩⟩

/-- **gram's own `unify`**: once both sides are weak-head normalised (a λ / Π is its own normal form), two λs are
compared by pushing `None`, unifying the bodies, and popping; two Πs by unifying the domains in the current
context first. -/
def C18_unify_binder_stmt : Prop :=
  ∀ (f : Nat) (x y : Name) (im jm : Bool) (A A' t u : Tm),
    whnfS (f+1) (.lam x im A t) = pure (.lam x im A t) ∧
    whnfS (f+1) (.pi x im A t) = pure (.pi x im A t) ∧
    UnifyAgree.unifyHead f (.lam x im A t) (.lam y jm A' u) =
      (if im == jm then do
        pushD none
        let r ← unifyS f t u
        popD
        pure r
      else pure false) ∧
    UnifyAgree.unifyHead f (.pi x im A t) (.pi y jm A' u) =
      (if im == jm then do
        if ← unifyS f A A' then do
          pushD none
          let r ← unifyS f t u
          popD
          pure r
        else pure false
      else pure false)
theorem C18_unify_binder : C18_unify_binder_stmt := by
  intro f x y im jm A A' t u
  exact ⟨whnfS_lam f x im A t, whnfS_pi f x im A t, unifyHead_lam f x y im jm A A' t u,
    unifyHead_pi f x y im jm A A' t u⟩

/-! ## definitions: δ-unfolding from the context agrees with unfolding of the closed group -/

/-- **Transparent group congruence.**  Terms convertible under the context of a group — where the group's
variables unfold to their definitions (δ) — give convertible closed groups — where the group is unfolded by
substitution.  (`Conv.letg` has this only for opaque group variables.)  Well-formed offsets and hole-free
definitions in the base context; any number of (possibly recursive) definitions. -/
def C18_conv_group_stmt : Prop :=
  ∀ (Γ : TCtxX) (Δ : DCtxX) (ds : Defs) (b b' : Tm), CCPar.DWF Δ → WhnfLemmas.DHF Δ →
    ds.holeFree = true → b.holeFree = true → b'.holeFree = true →
    Conv (pushGroupX ds 0 (Γ, Δ)).2 b b' → Conv Δ (.letg ds b) (.letg ds b')
theorem C18_conv_group : C18_conv_group_stmt := by
  intro Γ Δ ds b b' hW hD hds hb hb' h
  exact Conv_group hW hD hds hb hb' h

/-- **Normalisation under a group vs normalisation of the closed group.**  If the open term normalises to `w`
under the group's context and the closed group normalises to `w'`, then `w'` is convertible with `ds; w` (and
`ds; t` with `ds; w`). -/
def C18_whnf_group_stmt : Prop :=
  ∀ (Γ : TCtxX) (Δ : DCtxX) (ds : Defs) (t w w' : Tm) (f g : Nat), CCPar.DWF Δ → WhnfLemmas.DHF Δ →
    ds.holeFree = true → t.holeFree = true → WhnfLemmas.DHF (pushGroupX ds 0 (Γ, Δ)).2 →
    whnfX f (pushGroupX ds 0 (Γ, Δ)).2 t = some w → whnfX g Δ (.letg ds t) = some w' →
    Conv Δ (.letg ds t) (.letg ds w) ∧ Conv Δ w' (.letg ds w)
theorem C18_whnf_group : C18_whnf_group_stmt := by
  intro Γ Δ ds t w w' f g hW hD hds ht hD' h h'
  exact whnfX_group hW hD hds ht hD' h h'

/-- **The conversion check under a group vs on the closed groups.**  What the check accepts under the group's
context is convertible when closed by the group, and the check on the closed groups never answers "different",
at any fuel. -/
def C18_convX_group_stmt : Prop :=
  ∀ (Γ : TCtxX) (Δ : DCtxX) (ds : Defs) (t u : Tm) (f : Nat), CCPar.DWF Δ → WhnfLemmas.DHF Δ →
    ds.holeFree = true → t.holeFree = true → u.holeFree = true → WhnfLemmas.DHF (pushGroupX ds 0 (Γ, Δ)).2 →
    convX f (pushGroupX ds 0 (Γ, Δ)).2 t u = some true →
    Conv Δ (.letg ds t) (.letg ds u) ∧ ∀ g, convX g Δ (.letg ds t) (.letg ds u) ≠ some false
theorem C18_convX_group : C18_convX_group_stmt := by
  intro Γ Δ ds t u f hW hD hds ht hu hD' h
  exact convX_group hW hD hds ht hu hD' h

/-! ## Non-vacuity of the whole-context theorems -/

-- lambda wrap: `(x : int) => x + 1 : (x : int) -> int`, with its premises
example :
    inferX 4 [] [] (.lam 1 false .int (.bin .sum (.var 1 0) (.lit 1))) = .ok (.pi 1 false .int .int) ∧
    inferX 3 [] [] .int = .ok .type ∧ isTypeX 3 [] .type = .ok () ∧
    inferX 3 [(.int, 0)] [none] (.bin .sum (.var 1 0) (.lit 1)) = .ok .int := ⟨rfl, rfl, rfl, rfl⟩

/-- the context `a : type, x : a` (outermost first) -/
def c18ExParams : Params := [(10, false, .type), (11, false, .var 10 0)]

theorem c18ExParamsOk : ParamsOK c18ExParams ([], []) := by
  simp only [c18ExParams, ParamsOK_cons, ParamsOK_nil]
  exact ⟨⟨1, .type, rfl, rfl⟩, ⟨2, .type, rfl, rfl⟩, trivial⟩

-- its contexts, the closed wrapper of `x`, and the closed type
example : pushParams c18ExParams ([], []) = ([(.var 10 0, 0), (.type, 0)], [none, none]) := rfl
example : closeParams c18ExParams (.var 11 0) = .lam 10 false .type (.lam 11 false (.var 10 0) (.var 11 0)) := rfl
example : closePi c18ExParams (.var 10 1) = .pi 10 false .type (.pi 11 false (.var 10 0) (.var 10 1)) := rfl

-- acceptance: `x : a` under the context, `(a : type) => (x : a) => x : (a : type) -> (x : a) -> a` closed;
-- both sides of `C18_params_wrap` hold
example :
    inferX 1 (pushParams c18ExParams ([], [])).1 (pushParams c18ExParams ([], [])).2 (.var 11 0) = .ok (.var 10 1) ∧
    inferX 3 [] [] (closeParams c18ExParams (.var 11 0)) = .ok (closePi c18ExParams (.var 10 1)) := ⟨rfl, rfl⟩
example : ∃ f, inferX f [] [] (closeParams c18ExParams (.var 11 0)) = .ok (closePi c18ExParams (.var 10 1)) :=
  (C18_params_wrap c18ExParams ([], []) (.var 11 0) (.var 10 1) c18ExParamsOk).1 ⟨1, rfl⟩

-- rejection: `x + 1` under `a : type, x : a` is "not an integer", and so is the closed wrapper; hence the closed
-- wrapper is not accepted at any fuel
example :
    inferX 3 (pushParams c18ExParams ([], [])).1 (pushParams c18ExParams ([], [])).2 (.bin .sum (.var 11 0) (.lit 1))
      = .error .notInt ∧
    inferX 5 [] [] (closeParams c18ExParams (.bin .sum (.var 11 0) (.lit 1))) = .error .notInt := ⟨rfl, rfl⟩
example : ∀ g T, inferX g [] [] (closeParams c18ExParams (.bin .sum (.var 11 0) (.lit 1))) ≠ .ok T :=
  (C18_params_reject c18ExParams ([], []) (.bin .sum (.var 11 0) (.lit 1)) c18ExParamsOk).2.1
    ⟨3, .notInt, by decide, rfl⟩

-- a domain that is not a type: `(x : 5) => x` is not accepted, and `ParamsOK` fails accordingly
example : inferX 4 [] [] (closeParams [(1, false, .lit 5)] (.var 1 0)) = .error .notType := rfl

/-- the group `n : int = 5; m : int = n + 1` -/
def c18ExGroup : Defs := .cons 1 .int (.lit 5) (.cons 2 .int (.bin .sum (.var 1 1) (.lit 1)) .nil)

-- the entries it pushes (`n` at position 1 with offset 2, `m` at position 0 with offset 1)
example : pushGroupX c18ExGroup 0 ([], []) =
    ([(.int, 1), (.int, 2)], [some (.bin .sum (.var 1 1) (.lit 1), 1), some (.lit 5, 2)]) := rfl

-- group wrap on `n : int = 5; m : int = n + 1; m * n`: the three components of `C18_group_wrap`
example :
    inferX 5 [] [] (.letg c18ExGroup (.bin .prod (.var 2 0) (.var 1 1))) = .ok (.letg c18ExGroup .int) ∧
    inferDefsX 4 (pushGroupX c18ExGroup 0 ([], [])).1 (pushGroupX c18ExGroup 0 ([], [])).2 c18ExGroup = .ok () ∧
    inferX 4 (pushGroupX c18ExGroup 0 ([], [])).1 (pushGroupX c18ExGroup 0 ([], [])).2
      (.bin .prod (.var 2 0) (.var 1 1)) = .ok .int := ⟨rfl, rfl, rfl⟩

-- a rejected body under the group (`if m then 1 else 2`: `m` is not a boolean) is the same rejection closed
example :
    inferX 4 (pushGroupX c18ExGroup 0 ([], [])).1 (pushGroupX c18ExGroup 0 ([], [])).2
      (.ite (.var 2 0) (.lit 1) (.lit 2)) = .error .notBool ∧
    inferX 5 [] [] (.letg c18ExGroup (.ite (.var 2 0) (.lit 1) (.lit 2))) = .error .notBool := ⟨rfl, rfl⟩

-- mixed context `k : int` then the group `n : int = k + 1`, body `n * k`: hypotheses and both sides of
-- `C18_mixed_wrap`
example :
    let ps : Params := [(20, false, .int)]
    let ds : Defs := .cons 1 .int (.bin .sum (.var 20 1) (.lit 1)) .nil
    let b : Tm := .bin .prod (.var 1 0) (.var 20 1)
    ParamsOK ps ([], []) ∧
    DefsAcc (pushGroupX ds 0 (pushParams ps ([], []))).1 (pushGroupX ds 0 (pushParams ps ([], []))).2 ds ∧
    pushGroupX ds 0 (pushParams ps ([], [])) =
      ([(.int, 1), (.int, 0)], [some (.bin .sum (.var 20 1) (.lit 1), 1), none]) ∧
    inferX 3 (pushGroupX ds 0 (pushParams ps ([], []))).1 (pushGroupX ds 0 (pushParams ps ([], []))).2 b = .ok .int ∧
    inferX 6 [] [] (closeParams ps (.letg ds b)) = .ok (closePi ps (.letg ds .int)) := by
  refine ⟨?_, ?_, rfl, rfl, rfl⟩
  · simp only [ParamsOK_cons, ParamsOK_nil]; exact ⟨⟨1, .type, rfl, rfl⟩, trivial⟩
  · exact (C18_defs_accept_iff _ _ _).2 ⟨4, rfl⟩

-- conversion under parameters: `(x : int) => x` vs `(y : bool) => y` (domains are not compared for functions),
-- `(x : int) -> int` vs `(y : bool) -> int` (they are for function types)
example :
    convX 3 [] (.lam 1 false .int (.var 1 0)) (.lam 2 false .bool (.var 2 0)) = some true ∧
    convX 2 [none] (.var 1 0) (.var 2 0) = some true ∧
    convX 3 [] (.pi 1 false .int .int) (.pi 2 false .bool .int) = some false := ⟨rfl, rfl, rfl⟩

-- under `a : type, x : a`: `x` and `((z : type) => z) x`… compared open, and as closed functions
example :
    convX 3 [none, none] (.var 11 0) (.app (.lam 5 false .type (.var 5 0)) (.var 11 0)) = some true ∧
    convX 5 [] (closeParams c18ExParams (.var 11 0))
      (closeParams c18ExParams (.app (.lam 5 false .type (.var 5 0)) (.var 11 0))) = some true := ⟨rfl, rfl⟩

-- definitions: under `n : int = 5`, `n + 1` is convertible with `6` (δ from the context); closed, `n : int = 5; n + 1`
-- is convertible with `n : int = 5; 6`, and the closed term normalises to `6`
example :
    let ds : Defs := .cons 1 .int (.lit 5) .nil
    pushGroupX ds 0 ([], []) = ([(.int, 1)], [some (.lit 5, 1)]) ∧
    convX 4 [some (.lit 5, 1)] (.bin .sum (.var 1 0) (.lit 1)) (.lit 6) = some true ∧
    whnfX 4 [some (.lit 5, 1)] (.bin .sum (.var 1 0) (.lit 1)) = some (.lit 6) ∧
    whnfX 5 [] (.letg ds (.bin .sum (.var 1 0) (.lit 1))) = some (.lit 6) ∧
    convX 6 [] (.letg ds (.bin .sum (.var 1 0) (.lit 1))) (.letg ds (.lit 6)) = some true :=
  ⟨rfl, rfl, rfl, rfl, rfl⟩
example : Conv [] (.letg (.cons 1 .int (.lit 5) .nil) (.bin .sum (.var 1 0) (.lit 1)))
    (.letg (.cons 1 .int (.lit 5) .nil) (.lit 6)) :=
  (C18_convX_group [] [] (.cons 1 .int (.lit 5) .nil) (.bin .sum (.var 1 0) (.lit 1)) (.lit 6) 4
    Canonical.DWF_nil TypingSound.DHF_nil rfl rfl rfl
    (by intro e he d o hd; simp [pushGroupX, pushGroupX.go, Defs.len] at he; subst he; cases hd; rfl)
    rfl).1

end WholeContext

/-! ## Where the Rust pushes and pops, read off the sources on every run -/

/-- In every arm of `type_check_rec` and in the binder arms of `unify` (tables regenerated from `type_checker.rs` / `unifier.rs`
by `extract/arms.py`), the typing and the definitions context are pushed and popped in LIFO order and every push has its
pop — on the straight-line path, which is the only path: the arms have no early return (`C18_push_pop_paired` is the
same statement about the model).  The groups of `type_check_rec` restore their contexts through a scope guard. -/
def C18_contexts_balanced_tie_stmt : Prop := contextsBalanced Generated.eventTraces = true
theorem C18_contexts_balanced_tie : C18_contexts_balanced_tie_stmt := by
  unfold C18_contexts_balanced_tie_stmt; decide +kernel

/-- The calls that matter in each of these arms — which child is checked when, what is unified with what, where the two
contexts are pushed and popped, which `open` / `unsigned_shift` is applied with which arguments (the cutoff
`definitions.len()` of the group type, the `index + 1 - offset` of a variable's type) — are, in order, the ones the
store-layer model was written from. -/
def C18_checker_event_traces_tie_stmt : Prop := Generated.eventTraces = expectedEventTraces
theorem C18_checker_event_traces_tie : C18_checker_event_traces_tie_stmt := by
  unfold C18_checker_event_traces_tie_stmt; decide +kernel

/-! # Whole parameter contexts for gram's OWN checker (`inferS`: state-passing, hole cells)

`Lemmas/CtxWrapS.lean`.  The whole-context theorems above are about the independent checker `inferX`; these are about the
store-layer model of `type_check_rec` itself.  `pushParamsS f ps` is the program "for each parameter in turn, outermost
first: check its domain, require its type to be `type` (else report one diagnostic and go on), push `(A', 0)` / `none`",
the `i`-th of `n` domains being checked with fuel `f + (n - i)` — exactly the fuel `inferS (f + n)` gives it. -/

section WholeContextS
open CtxWrap CtxWrapS

/-- **Pi wrap.**  Checking `(x : A) -> B` is: check `A`, require its type to be `type`, push `(A', 0)` / `none`, check
`B`, require its type to be `type` (still under the extended contexts), pop — nothing else. -/
def C18_pi_wrap_S_stmt : Prop :=
  ∀ (f : Nat) (x : Name) (im : Bool) (A B : Tm) (s : St),
    inferS (f+1) (.pi x im A B) s =
      (do
        let (d', dty) ← inferS f A
        if !(← unifyS f dty .type) then reportError
        pushCtx (d', 0) none
        let (c', cty) ← inferS f B
        if !(← unifyS f cty .type) then reportError
        popCtx
        pure (Tm.pi x im d' c', Tm.type)) s
theorem C18_pi_wrap_S : C18_pi_wrap_S_stmt := by
  intro f x im A B s
  rfl

/-- **One-definition group.**  Checking `x : A = d; b` is: push `(A, 1)` / `some (d, 1)` (annotation and definition as
written), then — under the pushed entry — check `A` (its type must be `type`), check `d` (its type must unify with `A`),
check `b`; the type is `letTypeS` of the body's type (the group re-wrapped around it by `open`); pop.  (Fuel: the group
takes one unit, the list of definitions one more, its end a third.) -/
def C18_let1_wrap_S_stmt : Prop :=
  ∀ (f : Nat) (x : Name) (A d b : Tm) (s : St),
    inferS (f+3) (.letg (.cons x A d .nil) b) s =
      (do
        pushCtx (A, 1) (some (d, 1))
        let (_, annTy) ← inferS (f+1) A
        if !(← unifyS (f+1) annTy .type) then reportError
        let (d', dty) ← inferS (f+1) d
        if !(← unifyS (f+1) dty A) then reportError
        let (b', bty) ← inferS (f+2) b
        let ty ← letTypeS (f+2) (.cons x A d' .nil) 1 0 bty
        popCtx
        pure (Tm.letg (.cons x A d' .nil) b', ty)) s
theorem C18_let1_wrap_S : C18_let1_wrap_S_stmt := by
  intro f x A d b s
  rw [let1_wrap_S]

/-- what `pushParamsS` is, one parameter at a time -/
def C18_pushParamsS_eq_stmt : Prop :=
  ∀ (f : Nat) (x : Name) (im : Bool) (A : Tm) (ps : Params),
    pushParamsS f [] = pure [] ∧
    pushParamsS f ((x, im, A) :: ps) =
      (do
        let (d', dty) ← inferS (f + ps.length) A
        if !(← unifyS (f + ps.length) dty .type) then reportError
        pushCtx (d', 0) none
        let ps' ← pushParamsS f ps
        pure ((x, im, d') :: ps'))
theorem C18_pushParamsS_eq : C18_pushParamsS_eq_stmt := by
  intro f x im A ps
  exact ⟨rfl, rfl⟩

/-- **Whole parameter contexts, as an equation of computations.**  Checking `(x₁ : A₁) => … => (xₙ : Aₙ) => t` with
fuel `f + n` **is**: push the parameters one by one (checking each domain), check the open `t` with fuel `f`, pop `n`
times, rebuild the function and its type `(x₁ : A₁') -> … -> (xₙ : Aₙ') -> T` — same value, same diagnostics, same final
store, same out-of-fuel / panic outcome, from every state. -/
def C18_params_wrap_S_stmt : Prop :=
  ∀ (f : Nat) (ps : Params) (t : Tm) (s : St),
    inferS (f + ps.length) (closeParams ps t) s =
      (do
        let ps' ← pushParamsS f ps
        let (t', T) ← inferS f t
        popN ps.length
        pure (closeParams ps' t', closePi ps' T)) s
theorem C18_params_wrap_S : C18_params_wrap_S_stmt := by
  intro f ps t s
  rw [params_wrap_S]

/-- **The closed run computed from the open run.**  Once the parameters are pushed (state `s1`; elaboration returns
the domains unchanged and the contexts are `pushParams ps` over the caller's), the run on the closed function is the
run on the open body from `s1`, re-wrapped, with the caller's two contexts put back and every other component of the
final state (store, diagnostics) the open run's. -/
def C18_params_closed_run_S_stmt : Prop :=
  ∀ (f : Nat) (ps ps' : Params) (t : Tm) (s s1 : St),
    pushParamsS f ps s = .ok ps' s1 →
    (ps' = ps ∧ (s1.tctx, s1.dctx) = pushParams ps (s.tctx, s.dctx)) ∧
    inferS (f + ps.length) (closeParams ps t) s =
      match inferS f t s1 with
      | .ok (t', B) s2 =>
          .ok (closeParams ps t', closePi ps B) { s2 with tctx := s.tctx, dctx := s.dctx }
      | .fuel => .fuel
      | .panic p => .panic p
theorem C18_params_closed_run_S : C18_params_closed_run_S_stmt := by
  intro f ps ps' t s s1 h
  exact ⟨pushParamsS_ok f ps s ps' s1 h, closed_run h⟩

/-- **Checking under a context of parameters = checking the closed function, gram's own checker.**  If every domain
check succeeds without reporting (`pushParamsS` ends in `s1` with the diagnostics count unchanged), then: `s1` carries
the parameters on top of the caller's contexts; the closed function is accepted without a diagnostic iff the open term
is, from `s1`; the reported types are related by `closePi` (the elaborated terms by `closeParams`), with the same
number of diagnostics and the same final store in every case; out-of-fuel and panic outcomes coincide; and after either
run the contexts of its caller are exactly as before (`C18_infer_restores`). -/
def C18_params_verdict_S_stmt : Prop :=
  ∀ (f : Nat) (ps : Params) (t : Tm) (s s1 : St) (ps' : Params),
    pushParamsS f ps s = .ok ps' s1 → s1.nerrs = s.nerrs →
    (ps' = ps ∧ (s1.tctx, s1.dctx) = pushParams ps (s.tctx, s.dctx)) ∧
    ((∃ e T s', inferS (f + ps.length) (closeParams ps t) s = .ok (e, T) s' ∧ s'.nerrs = s.nerrs) ↔
     (∃ t' B s2, inferS f t s1 = .ok (t', B) s2 ∧ s2.nerrs = s1.nerrs)) ∧
    (∀ e T s', inferS (f + ps.length) (closeParams ps t) s = .ok (e, T) s' →
      ∃ t' B s2, inferS f t s1 = .ok (t', B) s2 ∧ e = closeParams ps t' ∧ T = closePi ps B ∧
        s'.nerrs = s2.nerrs ∧ s'.store = s2.store) ∧
    (∀ t' B s2, inferS f t s1 = .ok (t', B) s2 →
      ∃ s', inferS (f + ps.length) (closeParams ps t) s = .ok (closeParams ps t', closePi ps B) s' ∧
        s'.nerrs = s2.nerrs ∧ s'.store = s2.store) ∧
    ((inferS (f + ps.length) (closeParams ps t) s = .fuel ↔ inferS f t s1 = .fuel) ∧
     (∀ p, inferS (f + ps.length) (closeParams ps t) s = .panic p ↔ inferS f t s1 = .panic p)) ∧
    (∀ e T s', inferS (f + ps.length) (closeParams ps t) s = .ok (e, T) s' →
      s'.tctx = s.tctx ∧ s'.dctx = s.dctx) ∧
    (∀ t' B s2, inferS f t s1 = .ok (t', B) s2 → s2.tctx = s1.tctx ∧ s2.dctx = s1.dctx)
theorem C18_params_verdict_S : C18_params_verdict_S_stmt := by
  intro f ps t s s1 ps' h hn
  obtain ⟨h1, h2, h3, h4, h5, _, _⟩ := params_verdict_S f ps t s s1 ps' h hn
  exact ⟨h1, h2, h3, h4, h5,
    fun e T s' hc => C18_infer_restores _ _ e T s s' hc,
    fun t' B s2 ho => C18_infer_restores _ _ t' B s1 s2 ho⟩

/-- **Acceptance of the closed function, characterised** (no hypothesis; diagnostics are only ever added): the closed
function is accepted without a diagnostic iff every domain check is (the parameters get pushed, nothing reported) and
the open body is accepted without a diagnostic from the state with the parameters pushed. -/
def C18_params_accept_iff_S_stmt : Prop :=
  ∀ (f : Nat) (ps : Params) (t : Tm) (s : St),
    (∃ e T s', inferS (f + ps.length) (closeParams ps t) s = .ok (e, T) s' ∧ s'.nerrs = s.nerrs) ↔
    (∃ s1, pushParamsS f ps s = .ok ps s1 ∧ s1.nerrs = s.nerrs ∧
      ∃ t' B s2, inferS f t s1 = .ok (t', B) s2 ∧ s2.nerrs = s1.nerrs)
theorem C18_params_accept_iff_S : C18_params_accept_iff_S_stmt := by
  intro f ps t s
  exact params_accept_iff_S f ps t s

/-! ## Non-vacuity (`inferS` runs, kernel-evaluated) -/

/-- the state of a caller with nothing in scope, and the state with `a : type, x : a` pushed -/
def c18ExS0 : St := {}
def c18ExS1 : St := { tctx := [(.var 10 0, 0), (.type, 0)], dctx := [none, none] }

-- `(a : type) => (x : a) => x` is accepted by gram's own checker, no diagnostic, with type `(a : type) -> (x : a) -> a`;
-- the caller's contexts are untouched
example :
    (match inferS 12 (.lam 10 false .type (.lam 11 false (.var 10 0) (.var 11 0))) c18ExS0 with
     | .ok (e, T) s' =>
         e == .lam 10 false .type (.lam 11 false (.var 10 0) (.var 11 0)) &&
         T == .pi 10 false .type (.pi 11 false (.var 10 0) (.var 10 1)) &&
         s'.nerrs == 0 && s'.tctx == [] && s'.dctx == []
     | _ => false) = true := by decide

-- the open `x` under the pushed context `a : type, x : a`: accepted, no diagnostic, type `a`; contexts untouched
example :
    (match inferS 10 (.var 11 0) c18ExS1 with
     | .ok (e, T) s' =>
         e == .var 11 0 && T == .var 10 1 && s'.nerrs == 0 &&
         s'.tctx == [(Tm.var 10 0, 0), (Tm.type, 0)] && s'.dctx == [none, none]
     | _ => false) = true := by decide

-- … and these are the two sides of `C18_params_verdict_S`: the closed term / type are `closeParams` / `closePi`
example :
    closeParams c18ExParams (.var 11 0) = .lam 10 false .type (.lam 11 false (.var 10 0) (.var 11 0)) ∧
    closePi c18ExParams (.var 10 1) = .pi 10 false .type (.pi 11 false (.var 10 0) (.var 10 1)) := ⟨rfl, rfl⟩

-- the hypotheses of `C18_params_verdict_S` hold: pushing `a : type, x : a` from the empty state succeeds, reports
-- nothing, and ends in `c18ExS1`
theorem c18ExPushS : pushParamsS 10 c18ExParams c18ExS0 = .ok c18ExParams c18ExS1 := rfl

example : c18ExS1.nerrs = c18ExS0.nerrs := rfl

-- hence (by the theorem, not by running the closed term) the closed function is accepted without a diagnostic
example : ∃ e T s', inferS (10 + c18ExParams.length) (closeParams c18ExParams (.var 11 0)) c18ExS0 = .ok (e, T) s' ∧
    s'.nerrs = c18ExS0.nerrs :=
  (C18_params_verdict_S 10 c18ExParams (.var 11 0) c18ExS0 c18ExS1 c18ExParams c18ExPushS rfl).2.1.2
    ⟨.var 11 0, .var 10 1, c18ExS1, rfl, rfl⟩

-- same verdict on a rejected body: `x + 1` under `a : type, x : a` gets one diagnostic open, and one closed
example :
    (match inferS 10 (.bin .sum (.var 11 0) (.lit 1)) c18ExS1 with
     | .ok (_, T) s' => T == .int && s'.nerrs == 1 && s'.tctx == c18ExS1.tctx && s'.dctx == c18ExS1.dctx
     | _ => false) = true := by decide
example :
    (match inferS 12 (closeParams c18ExParams (.bin .sum (.var 11 0) (.lit 1))) c18ExS0 with
     | .ok (_, T) s' => T == closePi c18ExParams .int && s'.nerrs == 1 && s'.tctx == [] && s'.dctx == []
     | _ => false) = true := by decide

-- a domain that is not a type: `(x : 5) => x` — the domain check reports, so the hypothesis of the verdict theorem
-- fails, and so does acceptance of the closed function (one diagnostic), as `C18_params_accept_iff_S` says
example :
    (match pushParamsS 10 [(1, false, .lit 5)] c18ExS0 with
     | .ok _ s1 => s1.nerrs == 1
     | _ => false) = true := by decide
example :
    (match inferS 11 (closeParams [(1, false, .lit 5)] (.var 1 0)) c18ExS0 with
     | .ok _ s' => s'.nerrs == 1 && s'.tctx == [] && s'.dctx == []
     | _ => false) = true := by decide

-- Π wrap and one-definition group: `(x : int) -> int : type`, `x : int = 5; x + 1 : int` (after `open`)
example :
    (match inferS 10 (.pi 1 false .int .int) c18ExS0 with
     | .ok (_, T) s' => T == .type && s'.nerrs == 0 && s'.tctx == [] && s'.dctx == []
     | _ => false) = true := by decide
example :
    (match inferS 10 (.letg (.cons 1 .int (.lit 5) .nil) (.bin .sum (.var 1 0) (.lit 1))) c18ExS0 with
     | .ok (_, T) s' => T == .int && s'.nerrs == 0 && s'.tctx == [] && s'.dctx == []
     | _ => false) = true := by decide

end WholeContextS
