import GramModel.Check
import GramModel.Lemmas.StoreCtx

/-!
# C18 — checking under a context matches the closed program; contexts are restored

The model threads both contexts as state and pushes / pops them exactly where the Rust does, so
restoration is an invariant over every arm (including the failing ones), not a triviality.
-/

/-- `normalize_weak_head` leaves both contexts exactly as they were. -/
def C18_whnf_restores_stmt : Prop :=
  ∀ (fuel : Nat) (t r : Tm) (s s' : St), whnfS fuel t s = .ok r s' →
    s'.tctx = s.tctx ∧ s'.dctx = s.dctx
theorem C18_whnf_restores : C18_whnf_restores_stmt := by
  intro fuel t r s s' h
  exact CtxH.restores (whnfS_ctx fuel t) h

/-- `unify` leaves both contexts exactly as they were, whether it succeeds or fails. -/
def C18_unify_restores_stmt : Prop :=
  ∀ (fuel : Nat) (a b : Tm) (res : Bool) (s s' : St), unifyS fuel a b s = .ok res s' →
    s'.tctx = s.tctx ∧ s'.dctx = s.dctx
theorem C18_unify_restores : C18_unify_restores_stmt := by
  intro fuel a b res s s' h
  exact CtxH.restores (unifyS_ctx fuel a b) h

/-- `type_check` leaves both contexts exactly as they were, accepted or rejected (any number of
diagnostics), on every path including rejection part-way through a nested scope. -/
def C18_infer_restores_stmt : Prop :=
  ∀ (fuel : Nat) (t e ty : Tm) (s s' : St), inferS fuel t s = .ok (e, ty) s' →
    s'.tctx = s.tctx ∧ s'.dctx = s.dctx
theorem C18_infer_restores : C18_infer_restores_stmt := by
  intro fuel t e ty s s' h
  exact CtxH.restores (inferS_ctx fuel t) h

/-- The two contexts always have the same length inside the checker if they had on entry
(pushes and pops are paired). -/
def C18_push_pop_paired_stmt : Prop :=
  ∀ (s : St) (ty : Tm × Nat) (d : Option (Tm × Nat)),
    (match (pushCtx ty d >>= fun _ => popCtx) s with
     | .ok _ s' => s'.tctx = s.tctx ∧ s'.dctx = s.dctx
     | _ => False)
theorem C18_push_pop_paired : C18_push_pop_paired_stmt := by
  intro s ty d
  simp [pushCtx, popCtx, modifySt, bind, M.bind]

/-! ## Non-vacuity: a term rejected part-way through a nested scope, contexts restored -/

-- `(x : int) => (y : bool) => x + y` under a one-entry context: one diagnostic, contexts unchanged
example :
    (match inferS 30 (.lam 1 false .int (.lam 2 false .bool (.bin .sum (.var 1 1) (.var 2 0))))
        { tctx := [(.int, 0)], dctx := [none] } with
     | .ok _ s' => s'.nerrs == 1 && s'.tctx == [(Tm.int, 0)] && s'.dctx == [none]
     | _ => false) = true := by decide
