import GramModel.Generated.Sites
import GramModel.Props.C09
import GramModel.Props.C12
import GramModel.Parser
import GramModel.Lemmas.Parser
import GramModel.Lemmas.ParserTermination
import GramModel.Lemmas.ParserNoPanic

/-!
# C14 — gram handles every input without crashing and reports failure faithfully

Partial by nature: stack exhaustion on deeply nested (finite, non-divergent) input is outside any
Lean model and is a recorded finding (KF-stack).  What is proved: the tokenizer's panic arm is dead
and its failure lists are non-empty (C09), the unifier's `panic!` arm is dead (C12), every panic
site of the sources is a known, classified one (list regenerated from the sources on every run),
and the CLI result mapping satisfies the contract.
-/

/-- How `main.rs::run` turns the outcome of the stages into what the user sees. -/
inductive RunOutcome
  | tokenizeErr (n : Nat) | parseErr (n : Nat) | checkErr (n : Nat)
  | checked                      -- `gram check`: elaborated term and type printed
  | value                        -- `gram run`: the value printed
  | stuck                        -- `gram run`: "Evaluation of … is stuck!"

structure CliResult where
  exit : Nat
  stdoutEmpty : Bool
  stderrHasError : Bool
  stderrEmpty : Bool

/-- `collect_errors` joins the (non-empty) list of diagnostics, each starting with `[Error]`;
`entry` prints an `Err` on stderr and exits 1; `Ok` prints on stdout and exits 0. -/
def cliResult : RunOutcome → CliResult
  | .tokenizeErr n | .parseErr n | .checkErr n =>
      { exit := 1, stdoutEmpty := true, stderrHasError := decide (n > 0), stderrEmpty := decide (n = 0) }
  | .checked | .value => { exit := 0, stdoutEmpty := false, stderrHasError := false, stderrEmpty := true }
  | .stuck => { exit := 1, stdoutEmpty := true, stderrHasError := true, stderrEmpty := false }

/-- The contract: exit 0 with nothing on stderr, or exit 1 with nothing on stdout and at least one
`[Error]` diagnostic — provided every failing stage returns a non-empty error list (which is what
`C09_err_nonempty` proves for the tokenizer and the in-process suites check for the other stages).
(The evaluator's "is stuck" failure carries the tag too since the repair of D17.) -/
def C14_cli_contract_stmt : Prop :=
  ∀ (o : RunOutcome),
    (match o with | .tokenizeErr n | .parseErr n | .checkErr n => n > 0 | _ => True) →
    let r := cliResult o
    (r.exit = 0 ∧ r.stderrEmpty = true) ∨ (r.exit = 1 ∧ r.stdoutEmpty = true ∧ r.stderrHasError = true)
theorem C14_cli_contract : C14_cli_contract_stmt := by
  intro o h
  cases o <;> simp_all [cliResult]

/-- The panic sites of the non-test sources, classified.  `tokenizer-linebreak`: proved dead
(`C09_total`); `unify-let`: proved dead (`C12_whnf_never_let`); `conversion`: `usize`/`isize`
conversions that fail only beyond 2^63; `parse-error-node`: reassociation/resolution never see a
`ParseError` because errors are checked first (`[tag:error_check]`, exercised by the parser suite);
`tokenizer-utf8`: `last().unwrap()` guarded by `!is_empty()`, digit parsing of a digit string,
grapheme cursor on a whole string; `cli`: thread / argument plumbing of `main.rs`. -/
def knownPanicSites : List (String × String × String) := [
  ("de_bruijn.rs", "signed_shift", "unwrap"),      -- conversion (6×)
  ("de_bruijn.rs", "unsigned_shift", "unwrap"),    -- conversion, non-negative amount (2×)
  ("main.rs", "run", "unwrap"),                    -- split('\n').next_back() of a string is never None
  ("main.rs", "entry", "panic"),                   -- arg_required_else_help
  ("parser.rs", "reassociate_applications", "panic"),
  ("parser.rs", "reassociate_products_and_quotients", "panic"),
  ("parser.rs", "reassociate_sums_and_differences", "panic"),
  ("parser.rs", "resolve_variables", "panic"),
  ("parser.rs", "check_definitions", "assert"),    -- parser-created holes outside annotations have shift 0
  ("tokenizer.rs", "tokenize", "unwrap"),
  ("tokenizer.rs", "tokenize", "panic"),           -- proved dead: C09_total
  ("unifier.rs", "unify", "unwrap"),               -- conversion (4×)
  ("unifier.rs", "unify", "panic")                 -- proved dead: C12_whnf_never_let
]

/-- Every `unwrap` / `expect` / `panic!` / `assert!` / `unreachable!` of the current sources is one
of the classified sites: a new one fails this obligation. -/
def C14_panic_sites_covered_stmt : Prop :=
  ∀ site ∈ Generated.panicSites, site ∈ knownPanicSites
theorem C14_panic_sites_covered : C14_panic_sites_covered_stmt := by
  unfold C14_panic_sites_covered_stmt; decide

/-- … and their number is the known one (25), so a duplicated site is noticed too. -/
def C14_panic_site_count_stmt : Prop := Generated.panicSites.length = 25
theorem C14_panic_site_count : C14_panic_site_count_stmt := by unfold C14_panic_site_count_stmt; decide

/-- Tokenizing never reaches the "two consecutive line break terminators" panic. -/
def C14_tokenize_total_stmt : Prop := C09_total_stmt
theorem C14_tokenize_total : C14_tokenize_total_stmt := C09_total

/-- A tokenizer failure lists at least one symbol. -/
def C14_tokenize_err_nonempty_stmt : Prop := C09_err_nonempty_stmt
theorem C14_tokenize_err_nonempty : C14_tokenize_err_nonempty_stmt := C09_err_nonempty

/-! ## The parser: termination and panic-freedom of the model (`PModel`) -/

/-- **Parsing terminates**: the fuel `36·(n+1)+1` always suffices — the memoised packrat functions
never run out of it, for any token sequence (no left recursion: every nonterminal either consumes a
token before calling a larger one, or calls a strictly smaller one at the same position). -/
def C14_parse_terminates_stmt : Prop :=
  ∀ (toks : Array PModel.PTok), PModel.runParser toks ≠ none
theorem C14_parse_terminates : C14_parse_terminates_stmt := by
  intro toks h
  obtain ⟨r, st', e, _⟩ := PModel.runParser_ok toks
  rw [h] at e; cases e

/-- **No panic after a clean parse**: the three re-association passes never meet a `ParseError`
node when the parse produced no error (the invariant behind `[tag:error_check]`): a tree without
recorded errors contains no `ParseError` node. -/
def C14_reassoc_no_panic_stmt : Prop :=
  ∀ (toks : Array PModel.PTok) (r : PModel.PResult) (st : PModel.PState),
    PModel.runParser toks = some (r, st) → PModel.collectErrors r.term = [] →
    ∃ t1 t2 t3, PModel.reassociateApplications r.term = some t1 ∧
      PModel.reassociateProductsAndQuotients t1 = some t2 ∧
      PModel.reassociateSumsAndDifferences t2 = some t3
theorem C14_reassoc_no_panic : C14_reassoc_no_panic_stmt := by
  intro toks r st h hce
  obtain ⟨t1, t2, t3, h1, h2, h3, _⟩ :=
    PModel.reassoc_passes_noPE r.term ((PModel.runParser_good h).2 hce)
  exact ⟨t1, t2, t3, h1, h2, h3⟩

/-- **The whole front end never panics** (model): `parse` returns a term or a list of errors. -/
def C14_parse_no_panic_stmt : Prop :=
  ∀ (toks : Array PModel.PTok) (ctx : List Name),
    (∃ t, PModel.parseModel toks ctx = .ok t) ∨ (∃ es, PModel.parseModel toks ctx = .errors es)
theorem C14_parse_no_panic : C14_parse_no_panic_stmt := by
  intro toks ctx
  unfold PModel.parseModel
  obtain ⟨r, st', e, _⟩ := PModel.runParser_ok toks
  rw [e]
  exact PModel.finishParse_no_panic toks ctx r.term r.next (PModel.runParser_good e).2

/-- A rejection by the parser lists at least one diagnostic. -/
def C14_parse_err_nonempty_stmt : Prop :=
  ∀ (toks : Array PModel.PTok) (ctx : List Name) (es : List PModel.PErr),
    PModel.parseModel toks ctx = .errors es → es ≠ []
theorem C14_parse_err_nonempty : C14_parse_err_nonempty_stmt := by
  intro toks ctx es h
  unfold PModel.parseModel at h
  split at h
  · exact PModel.ParseOutcome.noConfusion h
  · exact PModel.finishParse_errors_ne h
