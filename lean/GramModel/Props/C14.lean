import GramModel.Lemmas.CliTie
import GramModel.Generated.Sites
import GramModel.Props.C09
import GramModel.Props.C12
import GramModel.Parser
import GramModel.Lemmas.Parser
import GramModel.Lemmas.ParserTermination
import GramModel.Lemmas.ParserNoPanic
import GramModel.Lemmas.CheckNoPanic
import GramModel.Lemmas.FrontEnd

/-!
# C14 — gram handles every input without crashing and reports failure faithfully

Partial by nature: stack exhaustion on deeply nested (finite, non-divergent) input is outside any
Lean model and is a recorded finding (KF-stack).  What is proved: the tokenizer's panic arm is dead
and its failure lists are non-empty (C09), the unifier's `panic!` arm is dead (C12), every panic
site of the sources is a known, classified one (list regenerated from the sources on every run),
and the CLI result mapping satisfies the contract.
-/

/-- How `main.rs::run` turns the outcome of the stages into what the user sees. -/
inductive RunOutcome
  | tokenizeErr (n : Nat) | parseErr (n : Nat) | checkErr (n : Nat)
  | checked                      -- `gram check`: elaborated term and type printed
  | value                        -- `gram run`: the value printed
  | stuck                        -- `gram run`: "Evaluation of … is stuck!"

structure CliResult where
  exit : Nat
  stdoutEmpty : Bool
  stderrHasError : Bool
  stderrEmpty : Bool

/-- `collect_errors` joins the (non-empty) list of diagnostics, each starting with `[Error]`;
`entry` prints an `Err` on stderr and exits 1; `Ok` prints on stdout and exits 0. -/
def cliResult : RunOutcome → CliResult
  | .tokenizeErr n | .parseErr n | .checkErr n =>
      { exit := 1, stdoutEmpty := true, stderrHasError := decide (n > 0), stderrEmpty := decide (n = 0) }
  | .checked | .value => { exit := 0, stdoutEmpty := false, stderrHasError := false, stderrEmpty := true }
  | .stuck => { exit := 1, stdoutEmpty := true, stderrHasError := true, stderrEmpty := false }

/-- The contract: exit 0 with nothing on stderr, or exit 1 with nothing on stdout and at least one
`[Error]` diagnostic — provided every failing stage returns a non-empty error list (which is what
`C09_err_nonempty` proves for the tokenizer and the in-process suites check for the other stages).
(The evaluator's "is stuck" failure carries the tag too since the repair of D17.) -/
def C14_cli_contract_stmt : Prop :=
  ∀ (o : RunOutcome),
    (match o with | .tokenizeErr n | .parseErr n | .checkErr n => n > 0 | _ => True) →
    let r := cliResult o
    (r.exit = 0 ∧ r.stderrEmpty = true) ∨ (r.exit = 1 ∧ r.stdoutEmpty = true ∧ r.stderrHasError = true)
theorem C14_cli_contract : C14_cli_contract_stmt := by
  intro o h
  cases o <;> simp_all [cliResult]

/-- The panic sites of the non-test sources, classified.  `tokenizer-linebreak`: proved dead
(`C09_total`); `unify-let`: proved dead (`C12_whnf_never_let`); `conversion`: `usize`/`isize`
conversions that fail only beyond 2^63; `parse-error-node`: reassociation/resolution never see a
`ParseError` because errors are checked first (`[tag:error_check]`, exercised by the parser suite);
`tokenizer-utf8`: `last().unwrap()` guarded by `!is_empty()`, digit parsing of a digit string,
grapheme cursor on a whole string; `cli`: thread / argument plumbing of `main.rs`. -/
def knownPanicSites : List (String × String × String) := [
  ("de_bruijn.rs", "signed_shift", "unwrap"),      -- conversion (6×)
  ("de_bruijn.rs", "unsigned_shift", "unwrap"),    -- conversion, non-negative amount (2×)
  ("main.rs", "run", "unwrap"),                    -- split('\n').next_back() of a string is never None
  ("main.rs", "entry", "panic"),                   -- arg_required_else_help
  ("parser.rs", "reassociate_applications", "panic"),
  ("parser.rs", "reassociate_products_and_quotients", "panic"),
  ("parser.rs", "reassociate_sums_and_differences", "panic"),
  ("parser.rs", "resolve_variables", "panic"),
  ("parser.rs", "check_definitions", "assert"),    -- parser-created holes outside annotations have shift 0
  ("tokenizer.rs", "tokenize", "unwrap"),
  ("tokenizer.rs", "tokenize", "panic"),           -- proved dead: C09_total
  ("unifier.rs", "unify", "unwrap"),               -- conversion (4×)
  ("unifier.rs", "unify", "panic")                 -- proved dead: C12_whnf_never_let
]

/-- Every `unwrap` / `expect` / `panic!` / `assert!` / `unreachable!` of the current sources is one
of the classified sites: a new one fails this obligation. -/
def C14_panic_sites_covered_stmt : Prop :=
  ∀ site ∈ Generated.panicSites, site ∈ knownPanicSites
theorem C14_panic_sites_covered : C14_panic_sites_covered_stmt := by
  unfold C14_panic_sites_covered_stmt; decide

/-- … and their number is the known one (25), so a duplicated site is noticed too. -/
def C14_panic_site_count_stmt : Prop := Generated.panicSites.length = 25
theorem C14_panic_site_count : C14_panic_site_count_stmt := by unfold C14_panic_site_count_stmt; decide

/-- Tokenizing never reaches the "two consecutive line break terminators" panic. -/
def C14_tokenize_total_stmt : Prop := C09_total_stmt
theorem C14_tokenize_total : C14_tokenize_total_stmt := C09_total

/-- A tokenizer failure lists at least one symbol. -/
def C14_tokenize_err_nonempty_stmt : Prop := C09_err_nonempty_stmt
theorem C14_tokenize_err_nonempty : C14_tokenize_err_nonempty_stmt := C09_err_nonempty

/-! ## The parser: termination and panic-freedom of the model (`PModel`) -/

/-- **Parsing terminates**: the fuel `36·(n+1)+1` always suffices — the memoised packrat functions
never run out of it, for any token sequence (no left recursion: every nonterminal either consumes a
token before calling a larger one, or calls a strictly smaller one at the same position). -/
def C14_parse_terminates_stmt : Prop :=
  ∀ (toks : Array PModel.PTok), PModel.runParser toks ≠ none
theorem C14_parse_terminates : C14_parse_terminates_stmt := by
  intro toks h
  obtain ⟨r, st', e, _⟩ := PModel.runParser_ok toks
  rw [h] at e; cases e

/-- **No panic after a clean parse**: the three re-association passes never meet a `ParseError`
node when the parse produced no error (the invariant behind `[tag:error_check]`): a tree without
recorded errors contains no `ParseError` node. -/
def C14_reassoc_no_panic_stmt : Prop :=
  ∀ (toks : Array PModel.PTok) (r : PModel.PResult) (st : PModel.PState),
    PModel.runParser toks = some (r, st) → PModel.collectErrors r.term = [] →
    ∃ t1 t2 t3, PModel.reassociateApplications r.term = some t1 ∧
      PModel.reassociateProductsAndQuotients t1 = some t2 ∧
      PModel.reassociateSumsAndDifferences t2 = some t3
theorem C14_reassoc_no_panic : C14_reassoc_no_panic_stmt := by
  intro toks r st h hce
  obtain ⟨t1, t2, t3, h1, h2, h3, _⟩ :=
    PModel.reassoc_passes_noPE r.term ((PModel.runParser_good h).2 hce)
  exact ⟨t1, t2, t3, h1, h2, h3⟩

/-- **The whole front end never panics** (model): `parse` returns a term or a list of errors. -/
def C14_parse_no_panic_stmt : Prop :=
  ∀ (toks : Array PModel.PTok) (ctx : List Name),
    (∃ t, PModel.parseModel toks ctx = .ok t) ∨ (∃ es, PModel.parseModel toks ctx = .errors es)
theorem C14_parse_no_panic : C14_parse_no_panic_stmt := by
  intro toks ctx
  unfold PModel.parseModel
  obtain ⟨r, st', e, _⟩ := PModel.runParser_ok toks
  rw [e]
  exact PModel.finishParse_no_panic toks ctx r.term r.next (PModel.runParser_good e).2

/-- A rejection by the parser lists at least one diagnostic. -/
def C14_parse_err_nonempty_stmt : Prop :=
  ∀ (toks : Array PModel.PTok) (ctx : List Name) (es : List PModel.PErr),
    PModel.parseModel toks ctx = .errors es → es ≠ []
theorem C14_parse_err_nonempty : C14_parse_err_nonempty_stmt := by
  intro toks ctx es h
  unfold PModel.parseModel at h
  split at h
  · exact PModel.ParseOutcome.noConfusion h
  · exact PModel.finishParse_errors_ne h


/-! ## The type checker never panics on a scoped term -/

mutual
/-- every hole of the term names a cell below `n` -/
def holesLt (n : Nat) : Tm → Bool
  | .hole id _ => decide (id < n)
  | .lam _ _ d b | .pi _ _ d b => holesLt n d && holesLt n b
  | .app f a => holesLt n f && holesLt n a
  | .letg ds b => holesLtDefs n ds && holesLt n b
  | .neg a => holesLt n a
  | .bin _ a b => holesLt n a && holesLt n b
  | .ite a b d => holesLt n a && holesLt n b && holesLt n d
  | _ => true
def holesLtDefs (n : Nat) : Defs → Bool
  | .nil => true
  | .cons _ a d r => holesLt n a && holesLt n d && holesLtDefs n r
end

/-- (First formulation, **refuted** below; kept, without the `_stmt` suffix, next to its refutation.)
**No panic in `type_check`.**  The model of the type checker has seven panic outcomes (the
`unwrap` of `unsigned_shift`, the two context indexings and the two `index + 1 - offset`
subtractions in `type_check` and `normalize_weak_head`, the `panic!` arm of `unify`).  None is
reachable from a closed, well-scoped term (what the parser hands over: `wellScoped 0`, every hole an
unresolved cell of the initial store), for any fuel.  (Running out of fuel is the model's rendering
of a divergent checker run, which the property allows.) -/
def C14_infer_no_panic_unrestricted : Prop :=
  ∀ (fuel n : Nat) (t : Tm) (site : String), wellScoped 0 t = true → holesLt n t = true →
    inferS fuel t { store := List.replicate n none } ≠ .panic site

/-- the model term of
`((f : int -> _) => (a : type) => ((h : int -> a) => 0) f) ((z : int) => 0)` -/
def C14_panic_witness : Tm :=
  .app (.lam 1 false (.pi 0 false .int (.hole 0 0))
        (.lam 2 false .type
          (.app (.lam 3 false (.pi 0 false .int (.var 2 1)) (.lit 0)) (.var 1 1))))
      (.lam 4 false .int (.lit 0))

/-- `C14_infer_no_panic_unrestricted` is FALSE of the model, and **the Rust checker really panics**
on the witness: `gram check` on
`((f : int -> _) => (a : type) => ((h : int -> a) => 0) f) ((z : int) => 0)`
dies with "attempt to subtract with overflow" at `normalizer.rs:48` (the
`definitions_context[len - 1 - index]` lookup) — finding D18.

What goes wrong: a hole stands for a term of the scope it was written in, and its shift says how many
binders have been crossed since.  `signed_shift` only adjusts the shift of a hole when it is at least
the cutoff, so a hole that sits *under a binder of the shifted term* (`int -> _`: shift 0 < cutoff
1) is copied unchanged when the term is fetched from the typing context at a deeper place.  The same
cell then occurs at two different depths with the same shift.  Here it is solved at the deeper
occurrence (with `a`, index 1 at that depth) and read back through the shallow one (where only
index 0 exists): `normalize_weak_head` indexes the definitions context out of range.  No user-written
`_` is needed: `C14_infer_panic_unannotated` below does it with the parser's own annotation holes. -/
theorem C14_infer_no_panic_refuted : ¬ C14_infer_no_panic_unrestricted := by
  intro h
  have hp : inferS 12 C14_panic_witness { store := List.replicate 1 none } =
      .panic "normalize_weak_head.definitions_context[index]" := by rfl
  exact h 12 1 C14_panic_witness _ (by decide) (by decide) hp

/-- the model term (as the parser builds it: the annotation hole of the `i`-th of `n` unannotated
definitions has shift `n - i`) of
```
f = (x : int) => 1 2
g = (a : type) => (b : type) => (c : type) => (h : int -> a) => if true then h else f
k : (int -> int) = f
0
``` -/
def C14_panic_witness_unannotated : Tm :=
  .letg (.cons 1 (.hole 0 3) (.lam 8 false .int (.app (.lit 1) (.lit 2)))
        (.cons 2 (.hole 1 2)
          (.lam 3 false .type (.lam 4 false .type (.lam 5 false .type
            (.lam 6 false (.pi 0 false .int (.var 3 3)) (.ite .tt (.var 6 0) (.var 1 6))))))
        (.cons 7 (.pi 0 false .int .int) (.var 1 2) .nil)))
    (.lit 0)

/-- The same defect **without any user-written hole** (and again the Rust checker panics at
`normalizer.rs:48` on the program above, printing no diagnostic): the ill-typed `1 2` leaves an
unresolved codomain cell `?c` in the inferred type `int -> ?c` of `f`; that type is stored into
`f`'s annotation cell by a shift by `-3` which does not lower `?c` (it is under the Π binder); `?c` is
then solved inside `g`, four binders deeper, by `a` (index 4 there) and read back while checking `k`,
where the context has only 4 entries. -/
def C14_infer_panic_unannotated_stmt : Prop :=
  wellScoped 0 C14_panic_witness_unannotated = true ∧
  holesLt 2 C14_panic_witness_unannotated = true ∧
  inferS 12 C14_panic_witness_unannotated { store := List.replicate 2 none } =
    .panic "normalize_weak_head.definitions_context[index]"
theorem C14_infer_panic_unannotated : C14_infer_panic_unannotated_stmt := by
  unfold C14_infer_panic_unannotated_stmt
  exact ⟨by decide, by decide, by rfl⟩

/-- Corrected statement: **no panic in `type_check` on a hole-free term** — a closed, well-scoped
program in which every binder and every definition carries its annotation and no `_` is written.
The only holes are then the checker's own (the domain/codomain cells of the application rule and the
fresh cells `open` makes of them); they all have shift 0, sit on the Π-spine of inferred types, and
each cell is only ever seen at the depth it was created for (`CheckNoPanic.Sp`), so every solution is
read in the scope it was written in; typing- and definitions-context entries are hole-free source
annotations, so fetching them never moves a hole.  This holds for every fuel, for well-typed and
ill-typed programs alike, whatever the size of the initial store.  The hypothesis cannot be weakened
to "holes only where the parser puts them" (`C14_infer_panic_unannotated`); what the two witnesses
need besides a hole is a *type error* earlier in the program (or a hole under a binder inside an
annotation), so a repair of D18 in the Rust code would have to make `signed_shift`/`unify` respect
the home scope of a hole under a binder. -/
def C14_infer_no_panic_fixed_stmt : Prop :=
  ∀ (fuel n : Nat) (t : Tm) (site : String), wellScoped 0 t = true → t.holeFree = true →
    inferS fuel t { store := List.replicate n none } ≠ .panic site
theorem C14_infer_no_panic_fixed : C14_infer_no_panic_fixed_stmt :=
  fun fuel n t site hw hf => CheckNoPanic.inferS_holeFree_no_panic fuel n t site hw hf

/-- `unsigned_shift(..).unwrap()` is dead whatever the term and the store are (holes, resolved cells,
cycles included): a shift by a non-negative amount never fails, never panics, and leaves the state
as it was. -/
def C14_unsigned_shift_total_stmt : Prop :=
  ∀ (f c a : Nat) (t : Tm) (s : St),
    ushiftS f c a t s = .fuel ∨ ∃ t', ushiftS f c a t s = .ok t' s
theorem C14_unsigned_shift_total : C14_unsigned_shift_total_stmt := by
  intro f c a t s
  have h := CheckNoPanic.ushiftS_ro f c a t s
  generalize ushiftS f c a t s = x at h
  cases h with
  | fuel => exact Or.inl rfl
  | panic h => exact absurd h id
  | ok _ => exact Or.inr ⟨_, rfl⟩

/-- What remains true of **every** term and every state (holes anywhere, resolved cells, ill-scoped
input): the only panics the checker model can reach are the four context lookups — never the
`unwrap` of `unsigned_shift` (all three uses shift by a non-negative amount) and never the `panic!`
arm of `unify` (C12).  Together with `C14_infer_no_panic_refuted` this says exactly which panic sites
of `type_check` are live on parser output: the index computations of `normalize_weak_head` (and, by
the same mechanism, of `type_check`), through a hole read outside its scope. -/
def C14_infer_panic_sites_stmt : Prop :=
  ∀ (fuel : Nat) (t : Tm) (s : St) (site : String), inferS fuel t s = .panic site →
    site = "normalize_weak_head.definitions_context[index]" ∨
    site = "normalize_weak_head.index+1-offset" ∨
    site = "type_check.typing_context[index]" ∨
    site = "type_check.index+1-offset"
theorem C14_infer_panic_sites : C14_infer_panic_sites_stmt :=
  fun fuel t s site h => (CheckNoPanic.inferS_lookup fuel t).out s site h

/-- … and on a closed **well-scoped** term (holes anywhere, any store contents) exactly one of them
is live: the indexing `definitions_context[len - 1 - index]` of `normalize_weak_head`, the site of
both witnesses above.  The offsets recorded in the two contexts are in range by construction and the
typing context is only ever indexed by variables of the source term, so the other three lookups
cannot fail; what can is a variable that a *solved hole* brings into a scope where it does not
exist. -/
def C14_infer_one_live_site_stmt : Prop :=
  ∀ (fuel : Nat) (t : Tm) (σ : List (Option Tm)) (site : String), wellScoped 0 t = true →
    inferS fuel t { store := σ } = .panic site →
    site = "normalize_weak_head.definitions_context[index]"
theorem C14_infer_one_live_site : C14_infer_one_live_site_stmt :=
  fun fuel t σ site hw h => CheckNoPanic.inferS_wellScoped_site fuel t σ site hw h

/-! ## Where `main.rs` writes (regenerated on every run) -/

/-- `main.rs`, read off the source by `extract/arms.py` on every run: `run` writes to standard output only, never exits, and writes nothing
before `tokenize`, `parse` and `type_check` have each been called and their error propagated with `?` — a rejected program produces no
standard output; the value is written after `evaluate` and its `?`; `entry` writes nothing; `main` writes to standard error only, every such
write is followed at once by `exit(1)`, and there is no other exit code.  This is the source-level half of the CLI contract that
`C14_cli_contract` states for the model and the CLI suite observes on the binary. -/
def C14_cli_streams_tie_stmt : Prop := cliOK Generated.cliEvents = true
theorem C14_cli_streams_tie : C14_cli_streams_tie_stmt := by unfold C14_cli_streams_tie_stmt; decide +kernel

/-! ## End to end: text → tokens → parse → type check

`frontEnd cc I text ctx` (Lemmas/FrontEnd.lean) is the composition the CLI runs before the type checker: `tokenize cc text`; on
success every tokenizer token is turned into a parser token (`C10_toPTok I`: the kind by `PModel.kindP I`, where `I` interns
identifier spellings, the byte range kept) and `PModel.parseModel … ctx` runs the parse phase with the standard fuel, the three
re-association passes, name resolution and the definition-order check.  Its normal outcomes are `FrontOutcome` = tokenizer
errors / parser errors / a term; the model's abnormal outcomes (`FrontAbnormal`: a `panic!` of the tokenizer, a `panic!` or
failed `assert_eq!` of `parse`, the parser model out of fuel) are the `Except.error` side. -/

/-- **The front end is total and reports failure faithfully**, for EVERY classifier (no sanity condition is needed), every
interner, every text and every context: it never takes an abnormal outcome (no tokenizer panic — `C09_total` —, no parser
panic — `C14_parse_no_panic`, i.e. `C14_reassoc_no_panic`, panic-free resolution and definition check —, never out of fuel —
`C14_parse_terminates`), and the outcome is what the stages say: a NON-EMPTY list of unexpected symbols (`C09_err_nonempty`)
when the tokenizer rejects, a NON-EMPTY list of diagnostics (`C14_parse_err_nonempty`) when the parser rejects the tokens, or
the term the parser returns.  (The parser half holds for every token array, not only tokenizer output:
`C14_parse_no_panic`, `C14_parse_err_nonempty`.) -/
def C14_front_end_total_stmt : Prop :=
  ∀ (cc : CharClass) (I : List Char → Name) (text : List Char) (ctx : List Name),
    ∃ o, frontEnd cc I text ctx = .ok o ∧
      match o with
      | .lexErrors es => es ≠ [] ∧ tokenize cc text = .err es
      | .parseErrors es => es ≠ [] ∧
          ∃ ts, tokenize cc text = .ok ts ∧ PModel.parseModel (ts.map (C10_toPTok I)).toArray ctx = .errors es
      | .term r =>
          ∃ ts, tokenize cc text = .ok ts ∧ PModel.parseModel (ts.map (C10_toPTok I)).toArray ctx = .ok r
theorem C14_front_end_total : C14_front_end_total_stmt := by
  intro cc I text ctx
  unfold frontEnd
  rcases C09_total cc text _ rfl with ⟨ts, h⟩ | ⟨es, h⟩
  · rw [h]
    rcases C14_parse_no_panic (ts.map (C10_toPTok I)).toArray ctx with ⟨t, ht⟩ | ⟨es, hes⟩
    · simp only [ht]
      exact ⟨_, rfl, ts, rfl, ht⟩
    · simp only [hes]
      exact ⟨_, rfl, C14_parse_err_nonempty _ ctx es hes, ts, rfl, hes⟩
  · rw [h]
    exact ⟨_, rfl, C09_err_nonempty cc text es h, rfl⟩

/-- **What the front end hands to the type checker is well scoped** in the context it was parsed in (pairwise distinct names,
none of them `_`; empty for `gram check` / `gram run`): `check_definitions` only appends diagnostics, so a front end that
answers with a term has resolved every name silently; by `C08_resolve_sound_fixed` the term is then the one the binder-stack
specification `toDB` prescribes, and `toDB` only produces terms whose variables are below the number of enclosing binders and
whose holes (`_`, omitted annotations) have their home scope (`toDB_ws`, Lemmas/FrontEnd.lean). -/
def C14_front_end_scoped_stmt : Prop :=
  ∀ (cc : CharClass) (I : List Char → Name) (text : List Char) (ctx : List Name) (r : PModel.RTm),
    ctx.Nodup → (∀ x ∈ ctx, x ≠ PModel.placeholder) →
    frontEnd cc I text ctx = .ok (.term r) → wellScoped ctx.length r.erase = true
theorem C14_front_end_scoped : C14_front_end_scoped_stmt :=
  fun _ _ _ _ _ hnd hph h => frontEnd_term_scoped hnd hph h

/-- **No panic from the text to the end of type checking, on fully annotated programs**: if the front end accepts the text and
the term it returns is hole-free (every parameter and every definition annotated, no `_` written), the checker model started
from the initial state (any number of unresolved cells) never panics, whatever the fuel — `C14_front_end_total` (no abnormal
outcome before), `C14_front_end_scoped` and `C14_infer_no_panic_fixed` composed.  (Without the annotations this is false of the
code: `C14_infer_panic_unannotated`, finding D18.) -/
def C14_pipeline_no_panic_annotated_stmt : Prop :=
  ∀ (cc : CharClass) (I : List Char → Name) (text : List Char) (r : PModel.RTm) (fuel n : Nat) (site : String),
    frontEnd cc I text [] = .ok (.term r) → r.erase.holeFree = true →
    inferS fuel r.erase { store := List.replicate n none } ≠ .panic site
theorem C14_pipeline_no_panic_annotated : C14_pipeline_no_panic_annotated_stmt :=
  fun cc I text r fuel n site h hf =>
    C14_infer_no_panic_fixed fuel n r.erase site
      (C14_front_end_scoped cc I text [] r List.nodup_nil (fun _ hx => nomatch hx) h) hf

/-- … and on EVERY accepted text (annotated or not) the only panic site of the checker model that can be live is the
`definitions_context[len - 1 - index]` lookup of `normalize_weak_head` (`C14_infer_one_live_site` behind the front end). -/
def C14_pipeline_one_live_site_stmt : Prop :=
  ∀ (cc : CharClass) (I : List Char → Name) (text : List Char) (r : PModel.RTm) (fuel : Nat) (σ : List (Option Tm))
    (site : String), frontEnd cc I text [] = .ok (.term r) →
    inferS fuel r.erase { store := σ } = .panic site →
    site = "normalize_weak_head.definitions_context[index]"
theorem C14_pipeline_one_live_site : C14_pipeline_one_live_site_stmt :=
  fun cc I text r fuel σ site h hp =>
    C14_infer_one_live_site fuel r.erase σ site
      (C14_front_end_scoped cc I text [] r List.nodup_nil (fun _ hx => nomatch hx) h) hp

/-- Non-vacuity, end to end and by kernel evaluation: on the text `((x : int) => x + 1) 2` (classifier `C10_cc`, identifiers
interned by their length) the front end answers with a term — the hole-free `((x : int) => x + 1) 2` with `x` as de Bruijn
index 0 —, the checker model accepts it at type `int` without a diagnostic, and the evaluator returns `3`. -/
example : ∃ r, frontEnd C10_cc List.length FrontEndDemo.text [] = .ok (.term r) ∧
    r.erase = .app (.lam 1 false .int (.bin .sum (.var 1 0) (.lit 1))) (.lit 2) ∧ r.erase.holeFree = true ∧
    (match inferS 40 r.erase {} with
      | .ok (_, ty) s => s.nerrs == 0 && ty == .int
      | _ => false) = true ∧
    evalFuel 5 r.erase = .lit 3 := by
  obtain ⟨r, h1, h2⟩ := FrontEndDemo.frontEnd_text
  refine ⟨r, h1, h2, ?_, ?_, ?_⟩ <;> rw [h2] <;> decide
-- the tokenizer-error and parser-error outcomes of `frontEnd` are inhabited too
example : frontEnd C10_cc List.length ['a', ' ', '$'] [] = .ok (.lexErrors [(2, 3)]) := by
  have h : tokenize C10_cc ['a', ' ', '$'] = .err [(2, 3)] := by decide +kernel
  simp only [frontEnd, h]
example : ∃ es, frontEnd C10_cc List.length [')'] [] = .ok (.parseErrors es) ∧ es ≠ [] := by
  obtain ⟨o, h, ho⟩ := C14_front_end_total C10_cc List.length [')'] []
  have ht : tokenize C10_cc [')'] = .ok [⟨.rightParen, 0, 1⟩] := by decide +kernel
  cases o with
  | lexErrors es => rw [ht] at ho; cases ho.2
  | parseErrors es => exact ⟨es, h, ho.1⟩
  | term r =>
    obtain ⟨ts, h1, h2⟩ := ho
    rw [ht] at h1; cases h1
    unfold PModel.parseModel at h2
    split at h2
    · cases h2
    · rename_i p st hp
      obtain ⟨p', st', hp', hn⟩ := PModel.runParser_eval
        ([⟨.rightParen, 0, 1⟩].map (C10_toPTok List.length)).toArray 40 (fun p => p.next) 0 (by decide +kernel)
      rw [hp] at hp'; cases hp'
      have := (PModel.finishParse_ok h2).1
      rw [hn] at this
      cases this
