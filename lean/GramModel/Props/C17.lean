import GramModel.Generated.ParserShape
import GramModel.Parser

/-!
# C17 — parsing time does not blow up with nesting or length

Partial by nature: a theorem bounds the *work* of the model (memo-table bookkeeping), not wall-clock
time; time is measured on the real code for sixteen input families (suite `scaling`).  The shape of
the 36 packrat functions and of the caching macros is regenerated from `parser.rs` on every run.
-/

/-- Every packrat function begins with `cache_check!` under its own nonterminal and leaves only
through the caching macros (no plain `return`, no direct access to the cache). -/
def C17_all_memoised_stmt : Prop :=
  ∀ f ∈ Generated.parseFns, f.2.2.1 = true ∧ f.2.2.2 = true
theorem C17_all_memoised : C17_all_memoised_stmt := by unfold C17_all_memoised_stmt; decide

/-- There are exactly 36 of them, one per nonterminal, each memoising under a distinct nonterminal
(so the cache key `(nonterminal, position)` identifies a unique function and position). -/
def C17_one_function_per_nonterminal_stmt : Prop :=
  Generated.parseFns.length = 36 ∧ Generated.nonterminals.length = 36 ∧
  Generated.parseFns.map (·.2.1) = Generated.nonterminals ∧ Generated.nonterminals.Nodup
theorem C17_one_function_per_nonterminal : C17_one_function_per_nonterminal_stmt := by
  unfold C17_one_function_per_nonterminal_stmt; decide

/-- The caching macros and the cache type are the ones the model was written against (an edit to
`cache_check!`, `cache_return!`, `try_return!`, `try_eval!` or `consume_token_*!` — e.g. a size cap
on the table, or a key without the nonterminal — changes a fingerprint). -/
def C17_macros_unchanged_stmt : Prop :=
  Generated.macroFingerprints =
    [("cache_check", "fe31ed4c9845be43"), ("cache_return", "7a7a9b06e4ef7d9b"), ("try_return", "03e0c5425ffcaa13"),
     ("try_eval", "750db5574af66af8"), ("consume_token_0", "8d63a265d15faaf9"), ("consume_token_1", "326b69bfa143f8c2")] ∧
  Generated.cacheType = "HashMap<(Nonterminal,usize),(Term<'a>,usize,bool)>"
theorem C17_macros_unchanged : C17_macros_unchanged_stmt := by
  unfold C17_macros_unchanged_stmt; decide

/-- The model's memo table: a lookup that misses runs the body once and records the result; a
second call with the same key is a hit and runs nothing (pending: lifted to the bound
`misses ≤ 36 · (n + 1)` for a whole parse). -/
def C17_memo_misses_le_stmt : Prop :=
  ∀ (toks : Array PModel.PTok) (nt : PModel.NT) (st st' : PModel.PState) (r : PModel.PResult),
    PModel.parseNT toks (PModel.parseFuel toks) nt 0 PModel.PState.init = some (r, st') →
    st = st' → (st'.misses.foldl (· + ·) 0) ≤ 36 * (toks.size + 1)
