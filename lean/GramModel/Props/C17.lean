import GramModel.Generated.ParserShape
import GramModel.Parser
import GramModel.Lemmas.Parser
import GramModel.Lemmas.ParserTermination
import GramModel.Lemmas.ParserCalls
import GramModel.Lemmas.CostBounds

/-!
# C17 — parsing time does not blow up with nesting or length

Partial by nature: a theorem bounds the *work* of the model (memo-table bookkeeping), not wall-clock
time; time is measured on the real code for sixteen input families (suite `scaling`).  The shape of
the 36 packrat functions and of the caching macros is regenerated from `parser.rs` on every run.
-/

/-- Every packrat function begins with `cache_check!` under its own nonterminal and leaves only
through the caching macros (no plain `return`, no direct access to the cache). -/
def C17_all_memoised_stmt : Prop :=
  ∀ f ∈ Generated.parseFns, f.2.2.1 = true ∧ f.2.2.2 = true
theorem C17_all_memoised : C17_all_memoised_stmt := by unfold C17_all_memoised_stmt; decide

/-- There are exactly 36 of them, one per nonterminal, each memoising under a distinct nonterminal
(so the cache key `(nonterminal, position)` identifies a unique function and position). -/
def C17_one_function_per_nonterminal_stmt : Prop :=
  Generated.parseFns.length = 36 ∧ Generated.nonterminals.length = 36 ∧
  Generated.parseFns.map (·.2.1) = Generated.nonterminals ∧ Generated.nonterminals.Nodup
theorem C17_one_function_per_nonterminal : C17_one_function_per_nonterminal_stmt := by
  unfold C17_one_function_per_nonterminal_stmt; decide

/-- The caching macros and the cache type are the ones the model was written against (an edit to
`cache_check!`, `cache_return!`, `try_return!`, `try_eval!` or `consume_token_*!` — e.g. a size cap
on the table, or a key without the nonterminal — changes a fingerprint). -/
def C17_macros_unchanged_stmt : Prop :=
  Generated.macroFingerprints =
    [("cache_check", "fe31ed4c9845be43"), ("cache_return", "7a7a9b06e4ef7d9b"), ("try_return", "03e0c5425ffcaa13"),
     ("try_eval", "750db5574af66af8"), ("consume_token_0", "8d63a265d15faaf9"), ("consume_token_1", "326b69bfa143f8c2")] ∧
  Generated.cacheType = "HashMap<(Nonterminal,usize),(Term<'a>,usize,bool)>"
theorem C17_macros_unchanged : C17_macros_unchanged_stmt := by
  unfold C17_macros_unchanged_stmt; decide

/-- The model's memo table: a lookup that misses runs the body once and records the result; a
second call with the same key is a hit and runs nothing (pending: lifted to the bound
`misses ≤ 36 · (n + 1)` for a whole parse). -/
def C17_memo_misses_le_stmt : Prop :=
  ∀ (toks : Array PModel.PTok) (r : PModel.PResult) (st' : PModel.PState),
    PModel.runParser toks = some (r, st') → (st'.misses.foldl (· + ·) 0) ≤ 36 * (toks.size + 1)
theorem C17_memo_misses_le : C17_memo_misses_le_stmt := by
  intro toks r st' h
  exact PModel.runParser_misses_le toks r st' h

/-! `C17_memo_misses_le` is proved in `Lemmas/ParserTermination.lean` (`runParser_misses_le`): every
miss inserts a fresh key `(nt, start)` with `start ≤ n`, so the misses are bounded by the number of
possible keys.  The behaviour of one memoised call is stated and proved precisely here. -/

open PModel in
/-- **One memoised call.**  In `cacheCheck nt start body st`:

* a *hit* (the key `(nt, start)` is present with value `r`) returns `r` whatever `body` is (the
  body is not run), leaves the cache and the `misses` counters untouched and adds one to
  `hits[nt]`;
* a *miss* (key absent) runs `body` exactly once, on the state whose only change is
  `misses[nt] + 1` (every other counter, the `hits` and the cache are unchanged); if the body
  fails (out of fuel) so does the call; otherwise the call returns the body's result `r` and the
  body's final state with exactly one change: `(nt, start) ↦ r` inserted into the cache — so the
  key is present afterwards, bound to `r`. -/
def C17_miss_inserts_key_stmt : Prop :=
  ∀ (nt : NT) (start : Nat) (body : ParseM PResult) (st : PState),
    (∀ r, st.cache[(nt.idx, start)]? = some r →
      (∀ body' : ParseM PResult, cacheCheck nt start body' st = cacheCheck nt start body st) ∧
      ∃ st', cacheCheck nt start body st = some (r, st') ∧ st'.cache = st.cache ∧
        st'.misses = st.misses ∧ st'.hits = st.hits.modify nt.idx (· + 1)) ∧
    (st.cache[(nt.idx, start)]? = none →
      ∃ st0 : PState,
        st0.cache = st.cache ∧ st0.hits = st.hits ∧ st0.misses.size = st.misses.size ∧
        (∀ j, st0.misses[j]? = if j = nt.idx then st.misses[j]?.map (· + 1) else st.misses[j]?) ∧
        (body st0 = none → cacheCheck nt start body st = none) ∧
        (∀ r st1, body st0 = some (r, st1) →
          ∃ st', cacheCheck nt start body st = some (r, st') ∧
            st'.cache = st1.cache.insert (nt.idx, start) r ∧
            st'.cache[(nt.idx, start)]? = some r ∧ (nt.idx, start) ∈ st'.cache ∧
            st'.misses = st1.misses ∧ st'.hits = st1.hits))
open PModel in
theorem C17_miss_inserts_key : C17_miss_inserts_key_stmt := by
  intro nt start body st
  refine ⟨fun r h => ⟨fun body' => ?_, ?_⟩, fun h => ?_⟩
  · rw [cacheCheck_hit nt start body' st r h, cacheCheck_hit nt start body st r h]
  · exact ⟨_, cacheCheck_hit nt start body st r h, rfl, rfl, rfl⟩
  · refine ⟨{ st with misses := st.misses.modify nt.idx (· + 1) }, rfl, rfl, ?_, ?_, ?_, ?_⟩
    · simp
    · intro j
      simp only [Array.getElem?_modify]
      by_cases hj : j = nt.idx
      · subst hj; simp
      · have : ¬ nt.idx = j := fun e => hj e.symm
        simp [hj, this]
    · intro hb
      rw [cacheCheck_miss nt start body st h, hb]
    · intro r st1 hb
      rw [cacheCheck_miss nt start body st h, hb]
      exact ⟨_, rfl, rfl, Std.HashMap.getElem?_insert_self, Std.HashMap.mem_insert_self, rfl, rfl⟩

open PModel in
/-- **The memo table only grows**: running a memoised parsing function (with any fuel, from any
state) never removes a key from the cache. -/
def C17_cache_grows_stmt : Prop :=
  ∀ (toks : Array PTok) (fuel : Nat) (nt : NT) (start : Nat) (st st' : PState) (r : PResult),
    parseNT toks fuel nt start st = some (r, st') → ∀ k, k ∈ st.cache → k ∈ st'.cache
open PModel in
theorem C17_cache_grows : C17_cache_grows_stmt := by
  intro toks fuel nt start st st' r h
  exact (Grows.parseNT toks fuel nt start).elim h


/-! ## The packrat phase does linear work -/

/-- **Linear number of calls.**  Every call of a packrat function is either a hit or a miss of the
memo table; each miss runs one body, and a body makes a bounded number of calls.  So the *total*
number of calls (hits and misses together, summed over the 36 functions) made while parsing `n`
tokens is at most `K · (n + 1)` for a constant `K` that does not depend on the input. -/
def C17_total_calls_linear_stmt : Prop :=
  ∃ K : Nat, ∀ (toks : Array PModel.PTok) (r : PModel.PResult) (st' : PModel.PState),
    PModel.runParser toks = some (r, st') →
    (st'.hits.foldl (· + ·) 0) + (st'.misses.foldl (· + ·) 0) ≤ K * (toks.size + 1)
theorem C17_total_calls_linear : C17_total_calls_linear_stmt := by
  refine ⟨361, fun toks r st' h => ?_⟩
  exact PModel.runParser_calls_le toks r st' h

/-! `C17_total_calls_linear` is proved in `Lemmas/ParserCalls.lean` with `K = 361 = 10 · 36 + 1`: no
body calls `rec` in a loop, the largest one (`parseJumboTerm`) makes 9 calls (`Cnt.parseBody`), so
`hits ≤ 9 · misses + 1` (`runParser_hits_le`) and `misses ≤ 36 · (n + 1)`. -/

/-- **Hits are paid for by misses**: over a whole parse, the number of memo-table hits is at most
nine times the number of misses, plus one. -/
def C17_hits_le_misses_stmt : Prop :=
  ∀ (toks : Array PModel.PTok) (r : PModel.PResult) (st' : PModel.PState),
    PModel.runParser toks = some (r, st') →
    (st'.hits.foldl (· + ·) 0) ≤ 9 * (st'.misses.foldl (· + ·) 0) + 1
theorem C17_hits_le_misses : C17_hits_le_misses_stmt := by
  intro toks r st' h
  exact PModel.runParser_hits_le toks r st' h

/-- **The packrat phase terminates after linear work**: for every token array the parse phase
(run with the model's fuel `36 · (n + 1) + 1`) does not run out of fuel, and the total number of
calls of the 36 memoised functions (hits plus misses) is at most `361 · (n + 1)`. -/
def C17_parser_terminates_linear_stmt : Prop :=
  ∀ (toks : Array PModel.PTok), ∃ (r : PModel.PResult) (st' : PModel.PState),
    PModel.runParser toks = some (r, st') ∧
    (st'.hits.foldl (· + ·) 0) + (st'.misses.foldl (· + ·) 0) ≤ 361 * (toks.size + 1)
theorem C17_parser_terminates_linear : C17_parser_terminates_linear_stmt := by
  intro toks
  obtain ⟨r, st', h, _⟩ := PModel.runParser_ok toks
  exact ⟨r, st', h, PModel.runParser_calls_le toks r st' h⟩


/-! ## Step counts: the tokenizer's loops and the parser's recovery scans

The theorems above count *calls* of the packrat functions.  The remaining loops of the two phases
are the tokenizer's scanning loop (with its inner loops over identifier / number tails and
comments), its second pass, and the parser's error-recovery scan inside `expect_token_*!`.  Each is
given a *counting twin* in `Lemmas/CostBounds.lean` — the same recursion with one more output — and
every statement below first ties the twin to the model's own function (first component equal) and
then bounds the count. -/

/-- **The scanning loop runs at most once per character**: fuel `length` is enough, more fuel
changes nothing (so `tokenize`, which runs `scan` with fuel `text.length`, never stops early). -/
def C17_scan_fuel_enough_stmt : Prop :=
  ∀ (cc : CharClass) (cs : List Char) (pos : Nat) (s : LexState) (k : Nat),
    scan cc (cs.length + k) pos cs s = scan cc cs.length pos cs s
theorem C17_scan_fuel_enough : C17_scan_fuel_enough_stmt := by
  intro cc cs pos s k
  exact scan_fuel_irrel cc _ _ pos cs s (Nat.le_add_right _ _) (Nat.le_refl _)

/-- **The scanning loop inspects every character at most twice.**  `scanC` is `scan` with a
counter: both are iterations of the same one-step function `lexStep` (`scan_succ`), and the counter
adds, per iteration, 1 for the current character, 1 for the look-ahead of `-` `<` `=` `>` (when
there is a next character), and the characters inspected by `spanChars` / `skipComment` (the
consumed ones plus the one that stops the inner loop).  The total is at most `2 · length`: each
character is inspected once when consumed and at most once as the look-ahead ending the previous
lexeme.  (The constant 2 is attained: `-----` costs `2 · 5 - 1`.) -/
def C17_scan_steps_le_stmt : Prop :=
  ∀ (cc : CharClass) (fuel pos : Nat) (cs : List Char) (s : LexState),
    (scanC cc fuel pos cs s).1 = scan cc fuel pos cs s ∧
    scanSteps cc fuel pos cs s = (scanC cc fuel pos cs s).2 ∧
    scanSteps cc fuel pos cs s ≤ 2 * cs.length ∧
    (∀ k, scanC cc (cs.length + k) pos cs s = scanC cc cs.length pos cs s)
theorem C17_scan_steps_le : C17_scan_steps_le_stmt := by
  intro cc fuel pos cs s
  exact ⟨scanC_fst cc fuel pos cs s, rfl, scanC_steps_le cc fuel pos cs s,
    fun k => scanC_fuel_irrel cc _ _ pos cs s (Nat.le_add_right _ _) (Nat.le_refl _)⟩

/-- **The second pass is one pass**: `filterToks` makes exactly `length + 1` calls (`filterToksC` is
`filterToks` with a call counter), and never lengthens the list. -/
def C17_filter_linear_stmt : Prop :=
  ∀ (ts : List Tok),
    (filterToksC ts).1 = filterToks ts ∧ (filterToksC ts).2 = ts.length + 1 ∧
    ∀ ts', filterToks ts = some ts' → ts'.length ≤ ts.length
theorem C17_filter_linear : C17_filter_linear_stmt := by
  intro ts
  exact ⟨filterToksC_fst ts, filterToksC_snd ts, fun ts' h => filterToks_length_le ts ts' h⟩

/-- **The tokenizer is linear.**  `tokenizeC` is `tokenize` with a step counter = character
inspections of the scanning loop + one step per element of the reversed token (or error) list +
the calls of the second pass.  For a text of `n` characters it makes at most `4 · n + 1` steps, and
produces at most `n` tokens. -/
def C17_tokenize_linear_stmt : Prop :=
  ∀ (cc : CharClass) (text : List Char),
    (tokenizeC cc text).1 = tokenize cc text ∧
    (tokenizeC cc text).2 ≤ 4 * text.length + 1 ∧
    ∀ ts, tokenize cc text = .ok ts → ts.length ≤ text.length
theorem C17_tokenize_linear : C17_tokenize_linear_stmt := by
  intro cc text
  exact ⟨tokenizeC_fst cc text, tokenizeC_steps_le cc text,
    fun ts h => tokenize_length_le cc text ts h⟩

open PModel in
/-- **One recovery scan costs at most the number of remaining tokens.**  `scanLoopC` is `scanLoop`
with a counter of the tokens inspected: at most its fuel, and at most the distance it advances
plus one.  `expect_token_*!` (`expectTokenC` = `expectToken` with the count: the peek that decides
whether to report, plus the scan, which is run with fuel `tokens.len() - next`) therefore inspects
at most `tokens.len() - next + 1` tokens. -/
def C17_recovery_scan_le_stmt : Prop :=
  ∀ (toks : Array PTok) (target : PKind → Bool),
    (∀ n next depth,
      (scanLoopC toks target n next depth).1 = scanLoop toks target n next depth ∧
      scanLoopSteps toks target n next depth = (scanLoopC toks target n next depth).2 ∧
      scanLoopSteps toks target n next depth ≤ n ∧
      scanLoopSteps toks target n next depth + next ≤ (scanLoop toks target n next depth).2 + 1) ∧
    (∀ next rep,
      (expectTokenC toks next target rep).1 = expectToken toks next target rep ∧
      expectTokenSteps toks next target rep = (expectTokenC toks next target rep).2 ∧
      expectTokenSteps toks next target rep ≤ toks.size - next + 1)
open PModel in
theorem C17_recovery_scan_le : C17_recovery_scan_le_stmt := by
  intro toks target
  refine ⟨fun n next depth => ⟨scanLoopC_fst toks target n next depth, rfl, ?_, ?_⟩,
    fun next rep => ⟨rfl, rfl, expectTokenSteps_le toks next target rep⟩⟩
  · exact (scanLoopC_steps_le toks target n next depth).1
  · rw [← scanLoopC_fst]; exact (scanLoopC_steps_le toks target n next depth).2

open PModel in
/-- **One body execution makes at most two recovery scans.**  `parseBodyC toks rec nt start` is the
body of the packrat function for `nt` with one more output: the tokens inspected by the
`expectToken` calls of *this execution of the body* (`parseLetC`, `parseIfC`, `parseGroupC` are
writer-style twins of the three bodies that scan; the other 33 bodies contain no loop and get 0).
Forgetting the count gives `parseBody`; and from every state, whatever the recursive calls `rec`
return, the count is at most `2 · (n + 1)` (`parse_let`: the scans for `=` and for the terminator;
`parse_if`: for `then` and `else`), and at most `n + 1` for `parse_group` (one scan for `)`). -/
def C17_body_scans_le_stmt : Prop :=
  ∀ (toks : Array PTok) (rec : NT → Nat → ParseM PResult) (nt : NT) (start : Nat),
    Prod.fst <$> parseBodyC toks rec nt start = parseBody toks rec nt start ∧
    (∀ st r k st', parseBodyC toks rec nt start st = some ((r, k), st') →
      k ≤ 2 * (toks.size + 1) ∧ (nt = .group → k ≤ toks.size + 1) ∧
      (nt ≠ .let_ → nt ≠ .if_ → nt ≠ .group → k = 0))
open PModel in
theorem C17_body_scans_le : C17_body_scans_le_stmt := by
  intro toks rec nt start
  refine ⟨parseBodyC_fst toks rec nt start, fun st r k st' e => ⟨?_, ?_, ?_⟩⟩
  · exact (parseBodyC_cost toks rec nt start).elim e
  · intro h; subst h
    exact (parseGroupC_cost toks rec start).elim e
  · intro h1 h2 h3
    have h0 : CostLe (parseBodyC toks rec nt start) 0 := by
      cases nt <;> first | exact absurd rfl h1 | exact absurd rfl h2 | exact absurd rfl h3
                         | exact CostLe.map0
    have := h0.elim e
    omega

open PModel in
/-- **The parse phase costs at most quadratically many steps.**  Cost model of a run: one step per
call of a memoised function (hit or miss) plus the tokens inspected by the recovery scans.  Scans
happen only inside body executions; a body is executed exactly once per miss and not at all on a
hit (`C17_miss_inserts_key`); one execution inspects at most `2 · (n + 1)` tokens
(`C17_body_scans_le`).  So the scans of a run inspect at most
`scanBudget = misses · 2 · (n + 1) ≤ 72 · (n + 1)²` tokens, and
`runSteps = hits + misses + scanBudget ≤ 361 · (n + 1) + 72 · (n + 1)²`.  Every run terminates
within the model's fuel, so the bound holds for every token array. -/
def C17_parse_steps_quadratic_stmt : Prop :=
  ∀ (toks : Array PTok), ∃ (r : PResult) (st' : PState),
    runParser toks = some (r, st') ∧
    scanBudget toks st' = (st'.misses.foldl (· + ·) 0) * (2 * (toks.size + 1)) ∧
    runSteps toks st' =
      (st'.hits.foldl (· + ·) 0) + (st'.misses.foldl (· + ·) 0) + scanBudget toks st' ∧
    scanBudget toks st' ≤ 72 * ((toks.size + 1) * (toks.size + 1)) ∧
    runSteps toks st' ≤ 361 * (toks.size + 1) + 72 * ((toks.size + 1) * (toks.size + 1))
open PModel in
theorem C17_parse_steps_quadratic : C17_parse_steps_quadratic_stmt := by
  intro toks
  obtain ⟨r, st', h, _⟩ := runParser_ok toks
  have hb := runParser_steps_le toks r st' h
  exact ⟨r, st', h, rfl, rfl, hb.1, hb.2⟩

/-! ### Non-vacuity: the counters on concrete inputs -/

def C17_cc : CharClass :=
  { isAlpha := fun c => ('a' ≤ c ∧ c ≤ 'z')
    isAlnum := fun c => ('a' ≤ c ∧ c ≤ 'z') || ('0' ≤ c ∧ c ≤ '9')
    isWs := fun c => c == ' ' || c == '\n'
    graphemeEnd := fun p => p + 1 }

/-- `x = 1 # c⏎y` (11 characters) -/
def C17_text : List Char := ['x', ' ', '=', ' ', '1', ' ', '#', ' ', 'c', '\n', 'y']

-- the scanning loop inspects 15 ≤ 2 · 11 characters; the whole tokenizer makes 15 + 5 + 6 = 26 ≤ 45 steps
example : scanSteps C17_cc C17_text.length 0 C17_text { toks := [], errs := [] } = 15 := by decide
example : tokenizeC C17_cc C17_text =
    (.ok [⟨.identifier ['x'], 0, 1⟩, ⟨.equals, 2, 3⟩, ⟨.integerLiteral 1, 4, 5⟩,
          ⟨.terminatorLineBreak, 9, 10⟩, ⟨.identifier ['y'], 10, 11⟩], 26) := by decide
-- the constant 2 is attained: five dashes cost 2 · 5 - 1 inspections; the tokenizer 20 ≤ 4 · 5 + 1
example : scanSteps C17_cc 5 0 ['-', '-', '-', '-', '-'] { toks := [], errs := [] } = 9 := by decide
example : (tokenizeC C17_cc ['-', '-', '-', '-', '-']).2 = 20 := by decide
-- the second pass on a lone line-break terminator: 2 calls, the terminator is dropped
example : filterToksC [⟨.terminatorLineBreak, 0, 1⟩] = (some [], 2) := by decide
-- more fuel changes neither the result nor the count
example : scanC C17_cc (C17_text.length + 7) 0 C17_text { toks := [], errs := [] } =
    scanC C17_cc C17_text.length 0 C17_text { toks := [], errs := [] } :=
  (C17_scan_steps_le C17_cc 0 0 C17_text _).2.2.2 7

/-- `( ( ( x`: three parentheses that are never closed -/
def C17_open3 : Array PModel.PTok :=
  #[⟨.leftParen, ⟨0, 1⟩⟩, ⟨.leftParen, ⟨2, 3⟩⟩, ⟨.leftParen, ⟨4, 5⟩⟩, ⟨.identifier 1, ⟨6, 7⟩⟩]

-- a scan for `then` from the start walks over all 4 tokens (= its fuel) and fails at the end;
-- with the peek, `expect_token` inspects 5 = 4 - 0 + 1 tokens: the bound is attained
example : PModel.scanLoopC C17_open3 (· = .then_) 4 0 0 = ((false, 4), 4) := by decide
example : PModel.expectTokenSteps C17_open3 0 (· = .then_) true = 5 := by decide
example : PModel.expectTokenSteps C17_open3 1 (· = .rightParen) true = 4 := by decide

/-- `( x : y z )`: the group's term ends at `:`, the scan for `)` walks over `: y z )` -/
def C17_junk : Array PModel.PTok :=
  #[⟨.leftParen, ⟨0, 1⟩⟩, ⟨.identifier 1, ⟨1, 2⟩⟩, ⟨.colon, ⟨2, 3⟩⟩, ⟨.identifier 2, ⟨3, 4⟩⟩,
    ⟨.identifier 3, ⟨4, 5⟩⟩, ⟨.rightParen, ⟨5, 6⟩⟩]

/-- a stand-in for the recursive call: a one-token term -/
def C17_stub : PModel.NT → Nat → PModel.ParseM PModel.PResult :=
  fun _ pos => pure ⟨.mk ⟨0, 0⟩ false (.var 1) [], pos + 1, true⟩

-- the body of `parse_group` on it: one scan, 1 (peek) + 4 = 5 = 6 - 2 + 1 token inspections
example : (PModel.parseGroupC C17_junk C17_stub 0 PModel.PState.init).map (·.1.2) = some 5 := by
  decide
example : (PModel.parseBodyC C17_junk C17_stub .group 0 PModel.PState.init).map (·.1.2) = some 5 := by
  decide
