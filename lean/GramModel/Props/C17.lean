import GramModel.Generated.ParserShape
import GramModel.Parser
import GramModel.Lemmas.Parser
import GramModel.Lemmas.ParserTermination
import GramModel.Lemmas.ParserCalls

/-!
# C17 — parsing time does not blow up with nesting or length

Partial by nature: a theorem bounds the *work* of the model (memo-table bookkeeping), not wall-clock
time; time is measured on the real code for sixteen input families (suite `scaling`).  The shape of
the 36 packrat functions and of the caching macros is regenerated from `parser.rs` on every run.
-/

/-- Every packrat function begins with `cache_check!` under its own nonterminal and leaves only
through the caching macros (no plain `return`, no direct access to the cache). -/
def C17_all_memoised_stmt : Prop :=
  ∀ f ∈ Generated.parseFns, f.2.2.1 = true ∧ f.2.2.2 = true
theorem C17_all_memoised : C17_all_memoised_stmt := by unfold C17_all_memoised_stmt; decide

/-- There are exactly 36 of them, one per nonterminal, each memoising under a distinct nonterminal
(so the cache key `(nonterminal, position)` identifies a unique function and position). -/
def C17_one_function_per_nonterminal_stmt : Prop :=
  Generated.parseFns.length = 36 ∧ Generated.nonterminals.length = 36 ∧
  Generated.parseFns.map (·.2.1) = Generated.nonterminals ∧ Generated.nonterminals.Nodup
theorem C17_one_function_per_nonterminal : C17_one_function_per_nonterminal_stmt := by
  unfold C17_one_function_per_nonterminal_stmt; decide

/-- The caching macros and the cache type are the ones the model was written against (an edit to
`cache_check!`, `cache_return!`, `try_return!`, `try_eval!` or `consume_token_*!` — e.g. a size cap
on the table, or a key without the nonterminal — changes a fingerprint). -/
def C17_macros_unchanged_stmt : Prop :=
  Generated.macroFingerprints =
    [("cache_check", "fe31ed4c9845be43"), ("cache_return", "7a7a9b06e4ef7d9b"), ("try_return", "03e0c5425ffcaa13"),
     ("try_eval", "750db5574af66af8"), ("consume_token_0", "8d63a265d15faaf9"), ("consume_token_1", "326b69bfa143f8c2")] ∧
  Generated.cacheType = "HashMap<(Nonterminal,usize),(Term<'a>,usize,bool)>"
theorem C17_macros_unchanged : C17_macros_unchanged_stmt := by
  unfold C17_macros_unchanged_stmt; decide

/-- The model's memo table: a lookup that misses runs the body once and records the result; a
second call with the same key is a hit and runs nothing (pending: lifted to the bound
`misses ≤ 36 · (n + 1)` for a whole parse). -/
def C17_memo_misses_le_stmt : Prop :=
  ∀ (toks : Array PModel.PTok) (r : PModel.PResult) (st' : PModel.PState),
    PModel.runParser toks = some (r, st') → (st'.misses.foldl (· + ·) 0) ≤ 36 * (toks.size + 1)
theorem C17_memo_misses_le : C17_memo_misses_le_stmt := by
  intro toks r st' h
  exact PModel.runParser_misses_le toks r st' h

/-! `C17_memo_misses_le` is proved in `Lemmas/ParserTermination.lean` (`runParser_misses_le`): every
miss inserts a fresh key `(nt, start)` with `start ≤ n`, so the misses are bounded by the number of
possible keys.  The behaviour of one memoised call is stated and proved precisely here. -/

open PModel in
/-- **One memoised call.**  In `cacheCheck nt start body st`:

* a *hit* (the key `(nt, start)` is present with value `r`) returns `r` whatever `body` is (the
  body is not run), leaves the cache and the `misses` counters untouched and adds one to
  `hits[nt]`;
* a *miss* (key absent) runs `body` exactly once, on the state whose only change is
  `misses[nt] + 1` (every other counter, the `hits` and the cache are unchanged); if the body
  fails (out of fuel) so does the call; otherwise the call returns the body's result `r` and the
  body's final state with exactly one change: `(nt, start) ↦ r` inserted into the cache — so the
  key is present afterwards, bound to `r`. -/
def C17_miss_inserts_key_stmt : Prop :=
  ∀ (nt : NT) (start : Nat) (body : ParseM PResult) (st : PState),
    (∀ r, st.cache[(nt.idx, start)]? = some r →
      (∀ body' : ParseM PResult, cacheCheck nt start body' st = cacheCheck nt start body st) ∧
      ∃ st', cacheCheck nt start body st = some (r, st') ∧ st'.cache = st.cache ∧
        st'.misses = st.misses ∧ st'.hits = st.hits.modify nt.idx (· + 1)) ∧
    (st.cache[(nt.idx, start)]? = none →
      ∃ st0 : PState,
        st0.cache = st.cache ∧ st0.hits = st.hits ∧ st0.misses.size = st.misses.size ∧
        (∀ j, st0.misses[j]? = if j = nt.idx then st.misses[j]?.map (· + 1) else st.misses[j]?) ∧
        (body st0 = none → cacheCheck nt start body st = none) ∧
        (∀ r st1, body st0 = some (r, st1) →
          ∃ st', cacheCheck nt start body st = some (r, st') ∧
            st'.cache = st1.cache.insert (nt.idx, start) r ∧
            st'.cache[(nt.idx, start)]? = some r ∧ (nt.idx, start) ∈ st'.cache ∧
            st'.misses = st1.misses ∧ st'.hits = st1.hits))
open PModel in
theorem C17_miss_inserts_key : C17_miss_inserts_key_stmt := by
  intro nt start body st
  refine ⟨fun r h => ⟨fun body' => ?_, ?_⟩, fun h => ?_⟩
  · rw [cacheCheck_hit nt start body' st r h, cacheCheck_hit nt start body st r h]
  · exact ⟨_, cacheCheck_hit nt start body st r h, rfl, rfl, rfl⟩
  · refine ⟨{ st with misses := st.misses.modify nt.idx (· + 1) }, rfl, rfl, ?_, ?_, ?_, ?_⟩
    · simp
    · intro j
      simp only [Array.getElem?_modify]
      by_cases hj : j = nt.idx
      · subst hj; simp
      · have : ¬ nt.idx = j := fun e => hj e.symm
        simp [hj, this]
    · intro hb
      rw [cacheCheck_miss nt start body st h, hb]
    · intro r st1 hb
      rw [cacheCheck_miss nt start body st h, hb]
      exact ⟨_, rfl, rfl, Std.HashMap.getElem?_insert_self, Std.HashMap.mem_insert_self, rfl, rfl⟩

open PModel in
/-- **The memo table only grows**: running a memoised parsing function (with any fuel, from any
state) never removes a key from the cache. -/
def C17_cache_grows_stmt : Prop :=
  ∀ (toks : Array PTok) (fuel : Nat) (nt : NT) (start : Nat) (st st' : PState) (r : PResult),
    parseNT toks fuel nt start st = some (r, st') → ∀ k, k ∈ st.cache → k ∈ st'.cache
open PModel in
theorem C17_cache_grows : C17_cache_grows_stmt := by
  intro toks fuel nt start st st' r h
  exact (Grows.parseNT toks fuel nt start).elim h


/-! ## The packrat phase does linear work -/

/-- **Linear number of calls.**  Every call of a packrat function is either a hit or a miss of the
memo table; each miss runs one body, and a body makes a bounded number of calls.  So the *total*
number of calls (hits and misses together, summed over the 36 functions) made while parsing `n`
tokens is at most `K · (n + 1)` for a constant `K` that does not depend on the input. -/
def C17_total_calls_linear_stmt : Prop :=
  ∃ K : Nat, ∀ (toks : Array PModel.PTok) (r : PModel.PResult) (st' : PModel.PState),
    PModel.runParser toks = some (r, st') →
    (st'.hits.foldl (· + ·) 0) + (st'.misses.foldl (· + ·) 0) ≤ K * (toks.size + 1)
theorem C17_total_calls_linear : C17_total_calls_linear_stmt := by
  refine ⟨361, fun toks r st' h => ?_⟩
  exact PModel.runParser_calls_le toks r st' h

/-! `C17_total_calls_linear` is proved in `Lemmas/ParserCalls.lean` with `K = 361 = 10 · 36 + 1`: no
body calls `rec` in a loop, the largest one (`parseJumboTerm`) makes 9 calls (`Cnt.parseBody`), so
`hits ≤ 9 · misses + 1` (`runParser_hits_le`) and `misses ≤ 36 · (n + 1)`. -/

/-- **Hits are paid for by misses**: over a whole parse, the number of memo-table hits is at most
nine times the number of misses, plus one. -/
def C17_hits_le_misses_stmt : Prop :=
  ∀ (toks : Array PModel.PTok) (r : PModel.PResult) (st' : PModel.PState),
    PModel.runParser toks = some (r, st') →
    (st'.hits.foldl (· + ·) 0) ≤ 9 * (st'.misses.foldl (· + ·) 0) + 1
theorem C17_hits_le_misses : C17_hits_le_misses_stmt := by
  intro toks r st' h
  exact PModel.runParser_hits_le toks r st' h

/-- **The packrat phase terminates after linear work**: for every token array the parse phase
(run with the model's fuel `36 · (n + 1) + 1`) does not run out of fuel, and the total number of
calls of the 36 memoised functions (hits plus misses) is at most `361 · (n + 1)`. -/
def C17_parser_terminates_linear_stmt : Prop :=
  ∀ (toks : Array PModel.PTok), ∃ (r : PModel.PResult) (st' : PModel.PState),
    PModel.runParser toks = some (r, st') ∧
    (st'.hits.foldl (· + ·) 0) + (st'.misses.foldl (· + ·) 0) ≤ 361 * (toks.size + 1)
theorem C17_parser_terminates_linear : C17_parser_terminates_linear_stmt := by
  intro toks
  obtain ⟨r, st', h, _⟩ := PModel.runParser_ok toks
  exact ⟨r, st', h, PModel.runParser_calls_le toks r st' h⟩
