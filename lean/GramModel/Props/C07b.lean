import GramModel.Props.C07
import GramModel.Props.C16

/-!
# C07 (continued) — completeness of the parser, and "accepted if and only if a sentence"

These statements need the packrat-level success/failure lemmas of `Lemmas/ParsePrinted*.lean` / `Lemmas/ParseComplete*.lean`, which are
built on top of `Props/C07.lean` (through `Lemmas/PrintDerives.lean`); they therefore live in this second statements file, which
`bin/check C07` audits together with `Props/C07.lean`.  `SegT toks nt a b t` ("tokens a..b form a segment derived from `nt`, with parse
tree `t`", `Lemmas/ParserSpan.lean`) refines `Seg`, which maps into `Derives` over the productions regenerated from `grammar.y`
(section "From parse-shaped derivations" of `Props/C07.lean`); `C07_unambiguous` says the tree is unique.
-/

/-- **Completeness.**  Every sentence of the grammar is accepted: if the whole token array is a `term` segment with parse tree `t`, the
parser model returns exactly `t`, consumes every token, records no error and is confident — for every token array, every construct
(operators, applications, binders, arrows, conditionals, definitions, parentheses), ordered choice and the error-recovering functions
included: on a sentence every alternative tried before the right one fails, and `parse_let` / `parse_if` / `parse_group` never commit
wrongly. -/
def C07_parse_complete_stmt : Prop :=
  ∀ (toks : Array PModel.PTok) (t : PModel.Src), PModel.SegT toks .term 0 toks.size t →
    ∃ r st, PModel.runParser toks = some (r, st) ∧ r.term = t ∧ r.next = toks.size ∧
      PModel.collectErrors r.term = [] ∧ r.confident = true
theorem C07_parse_complete : C07_parse_complete_stmt := C16_parse_complete

/-- **Accepted if and only if a sentence, and the tree is the sentence's derivation.**  The parser model accepts a token array (consumes
every token, records no error) exactly when the array is a sentence of the grammar, and whatever it returns on a sentence is that
sentence's (unique, `C07_unambiguous`) parse tree. -/
def C07_accepted_iff_sentence_stmt : Prop :=
  ∀ (toks : Array PModel.PTok),
    ((∃ r st, PModel.runParser toks = some (r, st) ∧ r.next = toks.size ∧ PModel.collectErrors r.term = []) ↔
      ∃ t, PModel.SegT toks .term 0 toks.size t) ∧
    (∀ r st t, PModel.runParser toks = some (r, st) → PModel.SegT toks .term 0 toks.size t → r.term = t)
theorem C07_accepted_iff_sentence : C07_accepted_iff_sentence_stmt := C16_accepted_iff_sentence
